"""Correspondence B1 (C01, C02): a macro invocation vs the DOCUMENTED method chain written as plain Rust in the same binary - the oracle for what
`.find_map`, `.fold`, `.zip` .. mean is rustc itself.  Single-branch chains over iterators / options with every operator that has a run-time
meaning here, wrappers at depth <= 2, `~` steps; result and callback-call trace (C-events) must be equal."""
import os, re, random, shutil, subprocess
import jv, gen

RT = os.path.join(jv.VERIF, 'harness', 'rt')
METHOD = {'Map': 'map', 'AndThen': 'and_then', 'Filter': 'filter', 'Or': 'or', 'OrElse': 'or_else', 'MapErr': 'map_err', 'Collect': 'collect',
          'Chain': 'chain', 'FindMap': 'find_map', 'FilterMap': 'filter_map', 'Enumerate': 'enumerate', 'Partition': 'partition', 'Flatten': 'flatten',
          'Fold': 'fold', 'TryFold': 'try_fold', 'Find': 'find', 'Zip': 'zip', 'Unzip': 'unzip', 'Inspect': 'inspect'}     # the README's table


class G:
    def __init__(self, rng, caps=False):
        self.rng, self.id, self.caps = rng, 0, caps
        self.cap_ids = set()
        self.block_ids = set()

    def blk(self, operand):
        """with probability 1/2 (caps mode) the operand is written as a capturing block `{ cap(id, vec![]); operand }`"""
        if self.caps and self.rng.random() < 0.5:
            c = self.nid()
            self.cap_ids.add(c)
            self.block_ids.add(c)
            self.block_ids.update(int(x) for x in re.findall(r'\((\d+)[,)]', operand))       # what the block evaluates inside
            return '{ cap(%d, vec![]); %s }' % (c, operand)
        return operand

    def plain_block(self, operand):
        self.block_ids.update(int(x) for x in re.findall(r'\((\d+)[,)]', operand))
        return '{ %s }' % operand

    def nid(self):
        self.id += 1
        return self.id

    def chain(self):
        """-> (initial text, [acts], result type annotation).  Types: I iterator of i64, IP of (i64,i64), IE of (usize,i64), IO of Option<i64>,
        O Option<i64>, N i64, V Vec<i64>, PV (Vec,Vec)"""
        rng = self.rng
        n = rng.randint(2, 6)
        init = 'vals(%d, vec![%s]).into_iter()' % (self.nid(), ', '.join(str(rng.randint(0, 9)) for _ in range(n)))
        t, acts = 'I', []
        for step in range(rng.randint(1, 7)):
            a, t2 = self.op(t)
            if a is None:
                break
            if self.caps:
                for act in a:
                    if act.op in ('Map', 'Filter', 'FilterMap', 'FindMap', 'Find', 'Chain', 'Zip', 'Fold', 'TryFold', 'Partition', 'AndThen', 'Or', 'Then') and not act.wrap and not act.unwrap:
                        act.operands = [o if o.startswith('{') else self.blk(o) for o in act.operands]
            if acts and rng.random() < 0.2:
                a[0].deferred = True
            acts += a
            t = t2
            if t in ('N', 'V', 'PV', 'PVS') or (a[0].wrap and not a[-1].unwrap):
                break
        if acts and any(a.wrap for a in acts):
            # a wrapper still open at the end of the chain is closed before the chain is finished off
            opened = 0
            for a in acts:
                opened += 1 if a.wrap else (-1 if a.unwrap else 0)
            acts += [gen.Act(None, unwrap=True) for _ in range(max(0, opened))] if t in ('I', 'IP', 'IE', 'IO') else []
        ann = {'I': None, 'IP': None, 'IE': None, 'IO': None, 'O': 'Option<i64>', 'N': 'i64', 'V': 'Vec<i64>', 'PV': '(Vec<i64>, Vec<i64>)',
               'PVS': '(Vec<i64>, std::collections::BTreeSet<i64>)'}[t]
        if ann is None:     # end in something showable
            if t == 'I':
                acts.append(gen.Act('Collect', ['Vec<i64>']))
            elif t == 'IP':
                acts += [gen.Act('Map', ['ipairsum(%d)' % self.nid()]), gen.Act('Collect', ['Vec<i64>'])]
            elif t == 'IE':
                acts += [gen.Act('Map', ['ienum(%d)' % self.nid()]), gen.Act('Collect', ['Vec<i64>'])]
            elif t == 'IO':
                acts += [gen.Act('Flatten'), gen.Act('Collect', ['Vec<i64>'])]
            ann = 'Vec<i64>'
        return init, acts, ann

    def op(self, t):
        rng = self.rng
        A = gen.Act
        i = self.nid
        if t == 'I':
            c = rng.choice(['map', 'filter', 'filter_map', 'find_map', 'find', 'chain', 'enumerate', 'zip', 'fold', 'try_fold', 'partition', 'to_opt',
                            'inspect', 'w_map', 'w_filter', 'w_filter_map', 'w_find_map', 'w_find', 'w_partition', 'collect'])
            m, r, k = rng.choice([2, 3]), rng.choice([0, 1]), rng.randint(1, 5)
            if c == 'map':
                return [A('Map', ['iadd(%d, %d)' % (i(), k)])], 'I'
            if c == 'filter':
                return [A('Filter', ['ipred(%d, %d, %d)' % (i(), m, r)])], 'I'
            if c == 'filter_map':
                return [A('FilterMap', ['ioptif(%d, %d, %d, %d)' % (i(), m, r, k)])], 'I'
            if c == 'find_map':
                op = 'ioptif(%d, %d, %d, %d)' % (i(), m, r, k)
                return [A('FindMap', [self.plain_block(op) if rng.random() < 0.4 else op])], 'O'
            if c == 'find':
                return [A('Find', ['ipred(%d, %d, %d)' % (i(), m, r)])], 'O'
            if c == 'chain':
                return [A('Chain', ['vals(%d, vec![%d, %d])' % (i(), rng.randint(0, 9), rng.randint(0, 9))])], 'I'
            if c == 'enumerate':
                return [A('Enumerate')], 'IE'
            if c == 'zip':
                return [A('Zip', ['vals(%d, vec![%d, %d, %d])' % (i(), rng.randint(0, 9), rng.randint(0, 9), rng.randint(0, 9))])], 'IP'
            if c == 'fold':
                a, b = 'cint(%d, %d)' % (i(), rng.randint(0, 3)), 'ifold(%d, %d)' % (i(), rng.randint(1, 3))
                if rng.random() < 0.3:
                    a = self.plain_block(a)
                if rng.random() < 0.3:
                    b = self.plain_block(b)
                return [A('Fold', [a, b])], 'N'
            if c == 'try_fold':
                return [A('TryFold', ['cint(%d, %d)' % (i(), rng.randint(0, 3)), 'itryfold(%d, %d, %d)' % (i(), 5, rng.randint(0, 4))])], 'O'
            if c == 'partition':
                return [A('Partition', ['ipred(%d, %d, %d)' % (i(), m, r)])], 'PV'
            if c == 'to_opt':
                return [A('Map', ['ioptif(%d, %d, %d, %d)' % (i(), m, r, k)])], 'IO'
            if c == 'inspect':
                return [A('Dot', ['inspect(iins(%d))' % i()])], 'I'           # Iterator::inspect through member access
            if c == 'collect':
                return [A('Collect', ['Vec<i64>'])], 'V'
            inner = {'w_map': ('Map', 'iadd(%d, %d)' % (i(), k), 'I'), 'w_filter': ('Filter', 'ipred(%d, %d, %d)' % (i(), m, r), 'I'),
                     'w_filter_map': ('FilterMap', 'ioptif(%d, %d, %d, %d)' % (i(), m, r, k), 'I'),
                     'w_find_map': ('FindMap', 'ioptif(%d, %d, %d, %d)' % (i(), m, r, k), 'O'), 'w_find': ('Find', 'ipred(%d, %d, %d)' % (i(), m, r), 'O'),
                     'w_partition': ('Partition', 'ipred(%d, %d, %d)' % (i(), m, r), 'PV')}[c]
            acts = [A(inner[0], wrap=True), A('Then', [inner[1]])]
            if inner[2] in ('O', 'PV') or rng.random() < 0.6:
                acts.append(A(None, unwrap=True))
            return acts, inner[2]
        if t == 'IP':
            return rng.choice([([A('Map', ['ipairsum(%d)' % i()])], 'I'), ([A('Unzip', ['_', '_', 'Vec<i64>', 'Vec<i64>'])], 'PV'),
                               # FromA and FromB differ: the left column must land in the container written third
                               ([A('Unzip', ['_', '_', 'Vec<i64>', 'std::collections::BTreeSet<i64>'])], 'PVS')])
        if t == 'IE':
            return [A('Map', ['ienum(%d)' % i()])], 'I'
        if t == 'IO':
            return [A('Flatten')], 'I'
        if t == 'O':
            c = rng.choice(['map', 'filter', 'and_then', 'or', 'stop', 'stop'])
            if c == 'map':
                return [A('Map', ['iadd(%d, %d)' % (i(), rng.randint(1, 5))])], 'O'
            if c == 'filter':
                return [A('Filter', ['ipred(%d, 2, 0)' % i()])], 'O'
            if c == 'and_then':
                return [A('AndThen', ['ioptif(%d, 3, 0, 1)' % i()])], 'O'
            if c == 'or':
                return [A('Or', ['Some(cint(%d, 7))' % i()])], 'O'
            return None, t
        return None, t


def render_doc(init, acts):
    """the documented chain, as plain Rust: value.m1(e1).m2(e2).. ; X >>> inner <<< rest = .x(|w| <inner over w>) rest"""
    stack = [init]
    wrappers = []
    depth = 0

    def close():
        inner = stack.pop()
        op = wrappers.pop()
        stack[-1] = '%s.%s(|__w%d| %s)' % (stack[-1], METHOD[op], len(wrappers), inner)

    for k, a in enumerate(acts):
        if a.deferred:                      # a step boundary closes every wrapper still open (implicit close)
            while wrappers:
                close()
        if a.unwrap:
            close()
            continue
        if a.wrap:
            wrappers.append(a.op)
            stack.append('__w%d' % (len(wrappers) - 1))
            continue
        cur = stack[-1]
        ops = [o for o in a.operands]
        if a.op == 'Then':
            cur = '(%s)(%s)' % (ops[0], cur)
        elif a.op in ('Dot', 'Dot2'):
            cur = '%s.%s' % (cur, ops[0])
        elif a.op == 'Collect':
            cur = '%s.collect::<%s>()' % (cur, ops[0]) if ops else '%s.collect()' % cur
        elif a.op == 'Unzip':
            cur = '%s.unzip::<%s>()' % (cur, ', '.join(ops)) if ops else '%s.unzip()' % cur
        elif a.op in ('Enumerate', 'Flatten'):
            cur = '%s.%s()' % (cur, METHOD[a.op])
        else:
            cur = '%s.%s(%s)' % (cur, METHOD[a.op], ', '.join(ops))
        stack[-1] = cur
    while wrappers:
        close()
    return stack[0]


def cap_order_violation(c, log):
    """C11 on the macro's own log: the block operands of step k are evaluated after everything of step k-1, before anything else of step k,
    in position order, each exactly once"""
    ids = []
    for e in log:
        e = e.split('@', 1)[-1]
        m = re.match(r'[EC](\d+)', e)
        if m:
            ids.append((int(m.group(1)), e))
    step_of, k = {}, 0
    bounds = c['step_first_id']                       # first operand id of each step
    def step(i):
        return max(j for j, b in enumerate(bounds) if i >= b)
    seen_noncap = {}
    last_cap = {}
    count = {}
    for (i, e) in ids:
        st = step(i)
        if i in c['block_ids'] and e.startswith('E') and i not in c['cap_ids']:
            continue                                   # the operand expression inside a block: part of the block's evaluation
        if i in c['cap_ids']:
            count[i] = count.get(i, 0) + 1
            if seen_noncap.get(st):
                return 'block operand %s of step %d evaluated after %s of the same step' % (e, st, seen_noncap[st])
            if last_cap.get(st, -1) > i:
                return 'block operands of step %d evaluated out of position order (%s after id %d)' % (st, e, last_cap[st])
            last_cap[st] = i
            for st2 in seen_noncap:
                if st2 > st:
                    return 'block operand %s of step %d evaluated after step %d had started' % (e, st, st2)
        else:
            seen_noncap.setdefault(st, e)
    for i in c['cap_ids']:
        if count.get(i, 0) != 1 and any(x == i for x, _ in ids) or (count.get(i, 0) > 1):
            return 'block operand %d evaluated %d times' % (i, count.get(i, 0))
    return None


def run(rng, tier, macros=('join', 'join_spawn'), caps=False):
    n = 220 if tier == 'quick' else 1500
    g = G(rng, caps=caps)
    cases = []
    for ci in range(n):
        first = g.id + 1
        g.cap_ids = set()
        g.block_ids = set()
        init, acts, ann = g.chain()
        # first operand id of every step: ids grow with position; a deferred action starts a step
        bounds, cur = [first], None
        seen_max = first                      # ids grow with position (the initial value holds the first id of the chain)
        for a in acts:
            nums = [int(x) for o in a.operands for x in re.findall(r'\((\d+)[,)]', o)]
            if a.deferred:
                bounds.append(seen_max + 1)
            if nums:
                seen_max = max(seen_max, max(nums))
        mac = rng.choice(macros)
        dsl = gen.Branch(init, acts).render()
        cases.append({'id': str(ci), 'macro': mac, 'dsl': dsl, 'doc': render_doc(init, acts), 'ann': ann, 'acts': acts,
                      'cap_ids': set(g.cap_ids), 'block_ids': set(g.block_ids), 'step_first_id': sorted(bounds)})
    os.makedirs(os.path.join(RT, 'src', 'bin'), exist_ok=True)
    shutil.copyfile(os.path.join(jv.REPO, 'Cargo.lock'), os.path.join(RT, 'Cargo.lock'))
    live = list(cases)
    rejected = []
    for attempt in range(5):
        L = ['#![allow(unused_imports, unused_variables, unused_mut, unused_parens, unused_braces, dead_code, unused_must_use, clippy::all)]',
             '#[path = "../prelude.rs"]', 'mod prelude;', 'use prelude::*;', 'use join::*;', '']
        linemap = {}
        for c in live:
            start = len(L) + 1
            L.append('fn case_%s() {' % c['id'])
            L.append('    run_b1("%s", || { let r: %s = %s! { %s }; r.show() },' % (c['id'], c['ann'], c['macro'], c['dsl']))
            L.append('        || { let r: %s = %s; r.show() });' % (c['ann'], c['doc']))
            L.append('}')
            for ln in range(start, len(L) + 1):
                linemap[ln] = c['id']
        L.append('fn main() {')
        L.append('    std::panic::set_hook(Box::new(|_| {}));')
        L += ['    case_%s();' % c['id'] for c in live]
        L.append('}')
        path = os.path.join(RT, 'src', 'bin', 'b1.rs')
        open(path, 'w').write('\n'.join(L) + '\n')
        p = jv.sh('cargo build --offline --release --bin b1 --message-format short 2>&1', cwd=RT, check=False, timeout=1800)
        if p.returncode == 0:
            break
        bad = {}
        for m in re.finditer(r'src/bin/b1\.rs:(\d+):\d+: error(.*)', p.stdout):
            cid = linemap.get(int(m.group(1)))
            if cid:
                bad.setdefault(cid, m.group(2).strip()[:300])
        if not bad:
            raise RuntimeError('b1 build failed:\n' + p.stdout[-3000:])
        rejected += [dict(c, why=bad[c['id']]) for c in live if c['id'] in bad]
        live = [c for c in live if c['id'] not in bad]
    else:
        raise RuntimeError('b1 build keeps failing')
    out = subprocess.run([os.path.join(jv.TARGET, 'release', 'b1')], stdout=subprocess.PIPE, stderr=subprocess.PIPE, text=True, timeout=600)
    os.unlink(path)
    byid = {c['id']: c for c in cases}
    failures, ncmp = [], 0
    calls = lambda lg: [e.split('@', 1)[-1] for e in lg.split(' ') if e.split('@', 1)[-1].startswith('C')]
    for line in out.stdout.splitlines():
        f = (line.split('\t') + ['', '', '', ''])[:6]
        if f[0] != 'B1':
            continue
        ncmp += 1
        c = byid[f[1]]
        if f[2] != f[4]:
            failures.append({'macro': c['macro'], 'dsl': c['dsl'], 'why': 'value %s, the documented chain `%s` gives %s' % (f[2], c['doc'], f[4])})
        elif calls(f[3]) != calls(f[5]):
            failures.append({'macro': c['macro'], 'dsl': c['dsl'], 'why': 'callback calls %s, the documented chain `%s` makes %s' % (' '.join(calls(f[3])), c['doc'], ' '.join(calls(f[5])))})
        elif caps and f[2] != 'PANIC':
            why = cap_order_violation(c, f[3].split(' ') if f[3] else [])
            if why:
                failures.append({'macro': c['macro'], 'dsl': c['dsl'], 'why': why + ' (log: %s)' % f[3][:300]})
    ops = {}
    for c in cases:
        for a in c['acts']:
            k = ('<<<' if a.unwrap else gen.OPS[a.op][0]) + (' >>>' if a.wrap else '')
            ops[k] = ops.get(k, 0) + 1
    return {'cases': ncmp, 'failures': failures, 'rejected': [{'macro': c['macro'], 'dsl': c['dsl'], 'why': 'does not compile: ' + c['why']} for c in rejected],
            'dist': {'programs': len(cases), 'operators': ops},
            'samples': [{'stage': 'B1', 'macro': cases[0]['macro'], 'dsl': cases[0]['dsl'], 'documented_chain': cases[0]['doc']}]}
