"""C17 run-time family: join-family macros nested inside operands, block captures and handlers of each other (depth <= 3, all 12 names);
each program is compiled next to the same computation written without nesting (plain Rust) and must give the same value.
Also two-digit branch counts (13 branches) through the real macro."""
import os, re, shutil, subprocess
import jv

RT = os.path.join(jv.VERIF, 'harness', 'rt')
BLOCK = 'futures::executor::block_on'
TOKIO = 'tokio::runtime::Builder::new_current_thread().enable_all().build().unwrap().block_on'

# (name, type, expression using nested macros, the same value in plain Rust)
BASE_PROGS = [
    ('join-in-operand', '(i64, i64)',
     'join! { Some(1_i64) |> |x| join! { Some(x) |> |y| y + 1, Some(10_i64) }.0.unwrap() ~|> |x| x * 2, Some(5_i64) ~|> |x| x + 1 }.pipe(|(a, b)| (a.unwrap(), b.unwrap()))',
     '(4, 6)'),
    ('try-in-capture', 'Option<(i64, i64)>',
     'try_join! { Some(1_i64) |> { let k = try_join! { Some(2_i64), Some(3_i64) |> |x| x + 1, map => |a, b| a + b }.unwrap(); move |x| x + k }, Some(7_i64) ~|> |x| x }',
     'Some((7, 7))'),
    ('try-in-handler', 'Option<i64>',
     'try_join! { Some(1_i64), Some(2_i64), and_then => |a, b| try_join! { Some(a + b) |> |x| x * 10, Some(1_i64), map => |x, y| x + y } }',
     'Some(31)'),
    ('spawn-in-spawn', '(i64, i64)',
     'join_spawn! { Some(1_i64) |> |x| join_spawn! { Some(x) |> |y| y + 1, Some(10_i64) |> |y| y + 1 }.pipe(|(a, b)| a.unwrap() + b.unwrap()) ~|> |x| x + 1, Some(5_i64) ~|> |x| x + 1 }.pipe(|(a, b)| (a.unwrap(), b.unwrap()))',
     '(14, 6)'),
    ('alias-spawn-in-try-spawn', 'Result<(i64, i64), i64>',
     'try_spawn! { Ok::<i64, i64>(1) |> |x| spawn! { Some(x) |> |y| y + 1, Some(1_i64) }.pipe(|(a, b)| a.unwrap() + b.unwrap()), Ok::<i64, i64>(2) => |x| try_join_spawn! { Ok::<i64, i64>(x), Ok::<i64, i64>(3), map => |a, b| a * b } }',
     'Ok((3, 6))'),
    ('async-in-async', '(i64, i64)',
     BLOCK + '(join_async! { futures::future::ready(1_i64) ..then(|x| join_async! { futures::future::ready(x + 1), futures::future::ready(10_i64) }) |> |(a, b): (i64, i64)| a + b, futures::future::ready(5_i64) ~|> |x| x + 1 })',
     '(12, 6)'),
    ('try-async-in-handler', 'Result<i64, i64>',
     BLOCK + '(try_join_async! { futures::future::ready(Ok::<i64, i64>(1)), futures::future::ready(Ok::<i64, i64>(2)), and_then => |a, b| try_join_async! { futures::future::ready(Ok::<i64, i64>(a + b)), futures::future::ready(Ok::<i64, i64>(4)), map => |x, y| x * y } })',
     'Ok(12)'),
    ('async-spawn-aliases', '(i64, i64)',
     TOKIO + '(async_spawn! { futures::future::ready(1_i64) |> |x| x + 1, join_async_spawn! { futures::future::ready(2_i64), futures::future::ready(3_i64) } |> |(a, b)| a + b })',
     '(2, 5)'),
    ('try-async-spawn-aliases', 'Result<(i64, i64), i64>',
     TOKIO + '(try_async_spawn! { futures::future::ready(Ok::<i64, i64>(1)) |> |r| r.map(|x| x + 1), try_join_async_spawn! { futures::future::ready(Ok::<i64, i64>(2)), futures::future::ready(Ok::<i64, i64>(3)), map => |a, b| a + b } })',
     'Ok((2, 5))'),
    ('sync-in-async-capture', '(i64, i64)',
     BLOCK + '(join_async! { futures::future::ready(1_i64) |> { let k = join! { Some(2_i64), Some(3_i64) }.pipe(|(a, b)| a.unwrap() + b.unwrap()); move |x| x + k }, futures::future::ready(0_i64) })',
     '(6, 0)'),
    ('depth3', 'i64',
     'join! { Some(1_i64) |> |x| try_join! { Some(x) |> |y| join_spawn! { Some(y) |> |z| z + 1, Some(100_i64) }.pipe(|(a, b)| a.unwrap() + b.unwrap()), Some(1000_i64), map => |a, b| a + b }.unwrap() }.unwrap()',
     '1102'),
    # a brace-delimited nested macro as a WHOLE operand is an ordinary expression of its branch (not a `{..}` block operand): it is
    # evaluated where the chain reaches it - after the earlier branches of the step, on the branch's own thread in the thread kinds
    ('nested-macro-as-initial-value-order', 'Vec<i64>',
     '{ let log = std::cell::RefCell::new(Vec::new()); let lg = |i: i64| { log.borrow_mut().push(i); Some(i) }; let r = join! { lg(1) |> |x| x + 1, join! { lg(2), lg(3) } -> |t: (Option<i64>, Option<i64>)| t.0 }; let _ = r; let v = log.borrow().clone(); v }',
     'vec![1, 2, 3]'),
    ('nested-macro-as-fallback-operand-order', 'Vec<i64>',
     '{ let log = std::cell::RefCell::new(Vec::new()); let lg = |i: i64| { log.borrow_mut().push(i); Some(i) }; let r = try_join! { lg(1) <| try_join! { lg(2) } ~|> |x| x, lg(3) }; let _ = r; let v = log.borrow().clone(); v }',
     'vec![1, 2, 3]'),
    ('nested-spawn-macro-as-initial-value-thread-names', 'String',
     '{ fn tn() -> Option<String> { Some(std::thread::current().name().unwrap_or("?").to_string()) } std::thread::Builder::new().name("p".into()).spawn(|| join_spawn! { Some(0_i64) |> |x| x, join_spawn! { tn(), tn() } -> |t: (Option<String>, Option<String>)| Some(t.0.unwrap() + "/" + &t.1.unwrap()) }.1.unwrap()).unwrap().join().unwrap() }',
     '"p_join_1_join_0/p_join_1_join_1".to_string()'),
    ('thirteen-branches', 'i64',
     'join! { ' + ', '.join('Some(%d_i64) |> { let k = %d_i64; move |x: i64| x + k } ~|> |x: i64| x * 2' % (i, i) for i in range(13)) + ', then => |' + ', '.join('a%d: Option<i64>' % i for i in range(13)) + '| ' + ' + '.join('a%d.unwrap() * %d' % (i, i + 1) for i in range(13)) + ' }',
     str(sum((i + i) * 2 * (i + 1) for i in range(13)))),
]


def eighteen():
    """18 branches, branch 1 with 20 block operands in one step, branch 17 with 4: two-digit branch AND position indices"""
    lens = {1: 20, 17: 4, 11: 2, 16: 3}
    brs, want = [], []
    for b in range(18):
        n = lens.get(b, 1)
        ks = [b * 100 + e for e in range(n)]
        brs.append('Some(%d_i64) ' % b + ' '.join('|> { let k = %d_i64; move |x: i64| x + k }' % k for k in ks))
        want.append(b + sum(ks))
    args = ', '.join('a%d: Option<i64>' % i for i in range(18))
    expr = 'join! { ' + ', '.join(brs) + ', then => |' + args + '| vec![' + ', '.join('a%d.unwrap()' % i for i in range(18)) + '] }'
    return ('eighteen-branches-two-digit-positions', 'Vec<i64>', expr, 'vec![' + ', '.join(str(w) for w in want) + ']')


# C16: transpose_results(false) with a joiner that returns the already transposed Result, several steps (later steps continue from the payloads)
OPTS_PROGS = [
    ('transpose-off-two-steps', 'Result<(i64, i64), i64>',
     '{ fn tj2<A, B, E>(a: Result<A, E>, b: Result<B, E>) -> Result<(A, B), E> { Ok((a?, b?)) } try_join! { transpose_results(false) custom_joiner(tj2) Ok::<i64, i64>(1) |> |x| x + 1 ~-> |x: i64| Ok::<i64, i64>(x * 10), Ok::<i64, i64>(2) ~-> |x: i64| Ok::<i64, i64>(x + 5) } }',
     'Ok((20, 7))'),
    ('transpose-off-failure-stops', '(Result<(i64, i64), i64>, i64)',
     '{ fn tj2<A, B, E>(a: Result<A, E>, b: Result<B, E>) -> Result<(A, B), E> { Ok((a?, b?)) } let n = std::cell::Cell::new(0_i64); let r = try_join! { transpose_results(false) custom_joiner(tj2) Ok::<i64, i64>(1) => |_| Err::<i64, i64>(9) ~-> |x: i64| { n.set(n.get() + 1); Ok::<i64, i64>(x) }, Ok::<i64, i64>(2) ~-> |x: i64| { n.set(n.get() + 1); Ok::<i64, i64>(x) } }; (r, n.get()) }',
     '(Err(9), 0)'),
    ('joiner-call-count', '((Option<i64>, Option<i64>, Option<i64>), Vec<usize>)',
     '{ let calls = std::cell::RefCell::new(Vec::new()); macro_rules! cj { ($($e:expr),*) => {{ let t = ($($e),*); calls.borrow_mut().push([$(stringify!($e)),*].len()); t }} } let r = join! { custom_joiner(cj!) Some(1_i64) ~|> |x| x + 1 ~|> |x| x + 1, Some(2_i64), Some(3_i64) ~|> |x| x * 2 }; let c = calls.borrow().clone(); (r, c) }',
     '((Some(3), Some(2), Some(6)), vec![3, 2])'),
    # the options in the THREAD kinds: the joiner is invoked once per multi-branch step with the JoinHandles of exactly the active branches
    ('spawn-joiner-call-count', '((Option<i64>, Option<i64>, Option<i64>), Vec<usize>)',
     '{ let calls = std::cell::RefCell::new(Vec::new()); macro_rules! cj { ($($e:expr),*) => {{ let t = ($($e),*); calls.borrow_mut().push([$(stringify!($e)),*].len()); t }} } let r = join_spawn! { custom_joiner(cj!) Some(1_i64) ~|> |x| x + 1 ~|> |x| x + 1, Some(2_i64), Some(3_i64) ~|> |x| x * 2 }; let c = calls.borrow().clone(); (r, c) }',
     '((Some(3), Some(2), Some(6)), vec![3, 2])'),
    # .. all branch threads of the step are alive at once also with a custom joiner (each branch waits for its sibling, with a timeout)
    ('spawn-joiner-branches-alive-together', '(Option<(i64, bool)>, Option<(i64, bool)>)',
     '{ use std::sync::{Arc, Mutex, Condvar}; let st = Arc::new((Mutex::new(0usize), Condvar::new())); let meet = { let st = st.clone(); move || { let (m, c) = &*st; let mut g = m.lock().unwrap(); *g += 1; c.notify_all(); let (_g, r) = c.wait_timeout_while(g, std::time::Duration::from_millis(3000), |n| *n < 2).unwrap(); !r.timed_out() } }; macro_rules! cj { ($($e:expr),*) => { ($($e),*) } } let (m1, m2) = (meet.clone(), meet.clone()); join_spawn! { custom_joiner(cj!) Some(1_i64) |> move |x| (x, m1()), Some(2_i64) |> move |x| (x, m2()) } }',
     '(Some((1, true)), Some((2, true)))'),
    # .. lazy_branches(false) in a thread kind: the branch expression is evaluated by the CALLER and must yield the closure the thread runs
    ('spawn-lazy-false-evaluates-on-caller', 'String',
     '{ fn tn() -> String { std::thread::current().name().unwrap_or("?").to_string() } fn mk(i: i64) -> impl FnOnce() -> String + Send + \'static { let c = tn(); move || format!("{}:{}>{}", i, c, tn()) } std::thread::Builder::new().name("p".into()).spawn(|| { let r = join_spawn! { lazy_branches(false) mk(0), mk(1) }; format!("{}|{}", r.0, r.1) }).unwrap().join().unwrap() }',
     '"0:p>p_join_0|1:p>p_join_1".to_string()'),
]


# C18, task-spawning async macros: a panic in a branch surfaces when the macro's future is polled, also while an earlier sibling is still pending
# (1 = the poll panicked, 2 = timed out: the caller was left waiting, 3 = it returned a value)
def _ap(mac, body):
    return ('{ let rt = tokio::runtime::Builder::new_current_thread().enable_all().build().unwrap(); '
            'let r = std::panic::catch_unwind(std::panic::AssertUnwindSafe(|| rt.block_on(async { tokio::time::timeout(std::time::Duration::from_millis(400), %s! { %s }).await.is_ok() }))); '
            'match r { Err(_) => 1_i64, Ok(false) => 2, Ok(true) => 3 } }' % (mac, body))


ASYNCPANIC_PROGS = [
    ('panic-in-second-task-first-pending', 'i64', _ap('join_async_spawn', 'futures::future::pending::<i64>(), futures::future::ready(1_i64) |> |_| -> i64 { panic!("boom") }'), '1'),
    ('panic-in-third-task-step-1-alias', 'i64', _ap('async_spawn', 'futures::future::ready(0_i64) ~..then(|_| futures::future::pending::<i64>()), futures::future::ready(1_i64) ~|> |x| x, futures::future::ready(2_i64) ~|> |_| -> i64 { panic!("boom") }'), '1'),
    ('panic-in-second-task-try', 'i64', _ap('try_join_async_spawn', 'futures::future::pending::<Result<i64, i64>>(), futures::future::ready(Ok::<i64, i64>(1)) |> |_| -> Result<i64, i64> { panic!("boom") }'), '1'),
    ('panic-in-second-branch-plain-async', 'i64', _ap('join_async', 'futures::future::pending::<i64>(), futures::future::ready(1_i64) |> |_| -> i64 { panic!("boom") }'), '1'),
    ('no-panic-control', 'i64', _ap('join_async_spawn', 'futures::future::ready(1_i64), futures::future::ready(2_i64) |> |x| x + 1'), '3'),
]


# C12: the `let` name is the USER's identifier (its hygiene context): it must stay visible to the user's capture blocks also when the macro
# invocation is produced by a macro_rules! wrapper that forwards the name and the capture from its caller
NAMES_PROGS = [
    ('name-through-macro-rules-try', 'Option<(i64, i64)>',
     '{ macro_rules! w { ($n:ident, $cap:expr) => { try_join! { let $n = Some(7_i64) |> |x| x + 1, Some(100_i64) ~|> $cap } } } let first = 1000_i64; let _ = first; w!(first, { let seen = first.unwrap_or(-1); move |v| v + seen }) }',
     'Some((8, 108))'),
    ('name-through-macro-rules-join', '(Option<i64>, Option<i64>)',
     '{ macro_rules! w { ($n:ident, $cap:expr) => { join! { let $n = Some(7_i64) |> |x| x + 1, Some(100_i64) ~|> $cap } } } w!(first, { let seen = first.unwrap_or(-1); move |v| v + seen }) }',
     '(Some(8), Some(108))'),
    ('single-branch-reads-own-name', 'Option<i64>',
     '{ let v = Some(1000_i64); let _ = v; try_join! { let v = Some(2_i64) |> |x| x * 2 ~|> { let seen = v.unwrap_or(-1); move |x| x + seen } ~|> { let seen = v.unwrap_or(-1); move |x| x * seen } } }',
     'Some(64)'),
    ('name-after-deferred-member-access', 'Result<(i64, i64), i64>',
     '{ let a = Ok::<i64, i64>(-5); let _ = a; try_join! { let a = Ok::<i64, i64>(1) ~..map(|x| x + 10), Ok::<i64, i64>(5) ~|> { let seen = a.clone().unwrap_or(-1); move |v| v + seen } } }',
     'Ok((11, 6))'),
    ('finished-branch-name-still-visible', 'Option<(i64, i64, i64)>',
     '{ let small = Some(500_i64); let _ = small; try_join! { Some(1_i64) ~|> |x| x ~|> |x| x, let small = Some(3_i64), Some(10_i64) ~|> |x| x + 1 ~|> { let s = small.unwrap_or(-1); move |x| x + s } } }',
     'Some((1, 3, 14))'),
]


# C07: plain macro, its spawn counterpart and the alias on the same branches - hand-written cases that need a pending sibling or a deep stack
def _pair(mac_list, body, ty, value_of):
    return ' '.join(['{ let mut out = Vec::new();'] + ['out.push({ %s });' % value_of(m, body) for m in mac_list] + ['out }'])


def _tmo(mac, body):
    return ('let rt = tokio::runtime::Builder::new_current_thread().enable_all().build().unwrap(); '
            'match rt.block_on(async { tokio::time::timeout(std::time::Duration::from_millis(400), %s! { %s }).await }) { Ok(Err(e)) => e, Ok(Ok(_)) => -1_i64, Err(_) => -2_i64 }' % (mac, body))


PAIRS_PROGS = [
    ('try-async-family-agrees-with-pending-sibling', 'Vec<i64>',
     _pair(['try_join_async', 'try_join_async_spawn', 'try_async_spawn'],
           'futures::future::pending::<Result<i64, i64>>(), futures::future::ready(Err::<i64, i64>(7)) |> |r| r', 'i64', _tmo),
     'vec![7, 7, 7]'),
    ('try-async-family-agrees-second-step', 'Vec<i64>',
     _pair(['try_join_async', 'try_join_async_spawn', 'try_async_spawn'],
           'futures::future::ready(Ok::<i64, i64>(1)) ~..then(|_: Result<i64, i64>| futures::future::pending::<Result<i64, i64>>()), futures::future::ready(Ok::<i64, i64>(2)) ~=> |_: i64| futures::future::ready(Err::<i64, i64>(9))', 'i64', _tmo),
     'vec![9, 9, 9]'),
    ('sync-family-agrees-when-a-nested-chain-updates-a-captured-counter', 'Vec<i64>',
     _pair(['join', 'join_spawn', 'spawn'],
           'Some(Some(0_i64)) => >>> |> |x| { n += 1; x } <<< |> |x| x + n, Some(5_i64)', 'i64',
           lambda m, b: 'let mut n = 100_i64; let r = %s! { %s }; r.0.unwrap() * 10 + r.1.unwrap()' % (m, b)),
     'vec![1015, 1015, 1015]'),
    ('async-family-hoists-block-operands-of-nested-chains-once', 'Vec<(Vec<Option<i64>>, i64)>',
     _pair(['join_async', 'join_async_spawn', 'async_spawn'],
           'futures::future::ready(vec![Some(1_i64), Some(2), Some(3)]) |> >>> ..into_iter() |> >>> |> { CNT.fetch_add(1, std::sync::atomic::Ordering::SeqCst); |x: i64| x + 1 } <<< =>[] Vec<Option<i64>> <<<', 'i64',
           lambda m, b: 'static CNT: std::sync::atomic::AtomicI64 = std::sync::atomic::AtomicI64::new(0); let rt = tokio::runtime::Builder::new_current_thread().enable_all().build().unwrap(); let r = rt.block_on(%s! { %s }); (r, CNT.load(std::sync::atomic::Ordering::SeqCst))' % (m, b)),
     'vec![(vec![Some(2), Some(3), Some(4)], 1), (vec![Some(2), Some(3), Some(4)], 1), (vec![Some(2), Some(3), Some(4)], 1)]'),
    ('sync-family-agrees-on-a-deep-stack-branch', 'Vec<i64>',
     _pair(['join', 'join_spawn', 'spawn'],
           'Some(1_i64) |> |x| { let a = std::hint::black_box([1u8; 600_000]); let mut s = 0_i64; for i in (0..a.len()).step_by(4096) { s += a[i] as i64; } x + s }, Some(2_i64) |> |x| x + 1', 'i64',
           lambda m, b: 'let r = %s! { %s }; r.0.unwrap() * 10 + r.1.unwrap()' % (m, b)),
     'vec![1483, 1483, 1483]'),
]


# C05: the EARLIEST failing step decides - also when the later step is started by a deferred member access `~..m()`
DOT_PROGS = [
    ('earliest-failing-step-with-deferred-member-access', 'Result<(i64, i64), i64>',
     'try_join! { Ok::<i64, i64>(1) ~..and_then(|_| Err::<i64, i64>(10)), Err::<i64, i64>(20) }', 'Err(20)'),
    ('earliest-failing-step-with-deferred-member-access-spawn', 'Result<(i64, i64), i64>',
     'try_join_spawn! { Ok::<i64, i64>(1) ~>.and_then(|_| Err::<i64, i64>(10)), Err::<i64, i64>(20) }', 'Err(20)'),
    ('deferred-member-access-not-run-after-failure', '(Result<(i64, i64), i64>, i64)',
     '{ let n = std::cell::Cell::new(0_i64); let r = try_join! { Ok::<i64, i64>(1) ~..map(|x| { n.set(n.get() + 1); x }), Err::<i64, i64>(20) }; (r, n.get()) }', '(Err(20), 0)'),
]

# C09: every branch of a step is polled by the first poll, however many branches the step has
ASYNC9_PROGS = [
    ('ten-branches-all-polled-by-the-first-poll', 'u32',
     '{ use std::sync::atomic::{AtomicU32, Ordering::SeqCst}; use std::future::Future; static F: AtomicU32 = AtomicU32::new(0); fn p(i: u32) -> impl Future<Output = i64> { futures::future::poll_fn(move |_| { F.fetch_or(1 << i, SeqCst); std::task::Poll::<i64>::Pending }) } let mut fut = join_async! { p(0), p(1), p(2), p(3), p(4), p(5), p(6), p(7), p(8), p(9) }; let w = futures::task::noop_waker(); let mut cx = std::task::Context::from_waker(&w); let _ = fut.as_mut().poll(&mut cx); F.load(SeqCst) }',
     '1023'),
    ('a-ready-tenth-branch-is-not-held-back', 'bool',
     '{ let rt = tokio::runtime::Builder::new_current_thread().enable_all().build().unwrap(); let (tx, rx) = futures::channel::oneshot::channel::<i64>(); let tx = std::cell::RefCell::new(Some(tx)); rt.block_on(async { tokio::time::timeout(std::time::Duration::from_millis(1500), join_async! { async { rx.await.unwrap_or(-1) }, futures::future::ready(1_i64), futures::future::ready(2_i64), futures::future::ready(3_i64), futures::future::ready(4_i64), futures::future::ready(5_i64), futures::future::ready(6_i64), futures::future::ready(7_i64), futures::future::ready(8_i64), futures::future::ready(9_i64) |> |x| { if let Some(t) = tx.borrow_mut().take() { let _ = t.send(x); } x } }).await.is_ok() }) }',
     'true'),
]

LISTS = ('opts', 'asyncpanic', 'names', 'pairs', 'dot', 'async9')


def run(tier, which='nest'):
    global PROGS
    PROGS = {'nest': list(BASE_PROGS) + [eighteen()], 'opts': list(OPTS_PROGS), 'asyncpanic': list(ASYNCPANIC_PROGS), 'names': list(NAMES_PROGS), 'pairs': list(PAIRS_PROGS), 'dot': list(DOT_PROGS), 'async9': list(ASYNC9_PROGS)}[which]
    os.makedirs(os.path.join(RT, 'src', 'bin'), exist_ok=True)
    shutil.copyfile(os.path.join(jv.REPO, 'Cargo.lock'), os.path.join(RT, 'Cargo.lock'))
    live = list(PROGS)
    rejected = []
    for attempt in range(4):
        L = ['#![allow(unused_imports, unused_variables, unused_mut, unused_parens, unused_braces, dead_code, unused_must_use, clippy::all)]',
             'use join::*;', 'use futures::FutureExt;', 'trait Pipe: Sized { fn pipe<R>(self, f: impl FnOnce(Self) -> R) -> R { f(self) } }', 'impl<T> Pipe for T {}', '']
        linemap = {}
        for i, (name, ty, expr, want) in enumerate(live):
            start = len(L) + 1
            L.append('fn nest_%d() -> bool { let got: %s = %s; let want: %s = %s; if got != want { println!("NESTDIFF\\t%s\\t{:?}\\t{:?}", got, want); } got == want }' % (i, ty, expr, ty, want, name))
            linemap[start] = name
        L.append('fn main() {')
        for i, p in enumerate(live):
            L.append('    println!("NEST\\t%s\\t{}", nest_%d());' % (p[0], i))
        L.append('}')
        path = os.path.join(RT, 'src', 'bin', 'nest.rs')
        open(path, 'w').write('\n'.join(L) + '\n')
        p = jv.sh('cargo build --offline --release --bin nest --message-format short 2>&1', cwd=RT, check=False, timeout=1800)
        if p.returncode == 0:
            break
        bad = {}
        for m in re.finditer(r'src/bin/nest\.rs:(\d+):\d+: error(.*)', p.stdout):
            nm = linemap.get(int(m.group(1)))
            if nm:
                bad.setdefault(nm, m.group(2).strip()[:300])
        if not bad:
            raise RuntimeError('nest build failed:\n' + p.stdout[-3000:])
        rejected += [{'macro': 'nested', 'dsl': [q for q in live if q[0] == nm][0][2], 'why': 'nested program %s does not compile: %s' % (nm, msg)} for nm, msg in bad.items()]
        live = [q for q in live if q[0] not in bad]
    out = subprocess.run([os.path.join(jv.TARGET, 'release', 'nest')], stdout=subprocess.PIPE, stderr=subprocess.PIPE, text=True, timeout=300)
    os.unlink(path)
    failures = []
    n = 0
    byname = {q[0]: q for q in PROGS}
    if out.returncode != 0:
        failures.append({'macro': 'nested', 'dsl': '(nest binary)', 'why': 'crashed: ' + out.stderr[-300:]})
    for line in out.stdout.splitlines():
        f = line.split('\t')
        if f[0] == 'NEST':
            n += 1
        elif f[0] == 'NESTDIFF':
            failures.append({'macro': 'nested', 'dsl': byname[f[1]][2], 'why': 'nested macros give %s, the same computation without nesting gives %s' % (f[2], f[3])})
    return {'cases': n, 'failures': failures, 'rejected': rejected, 'dist': {'programs': len(PROGS)},
            'samples': [{'stage': 'nest', 'program': PROGS[0][2][:300], 'expected': PROGS[0][3]}]}
