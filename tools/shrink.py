"""Shrinking of a failing typed program (correspondence B witness): variants with a branch, the handler, a step or one operator
removed are compiled and run in ONE binary per round; a variant is kept when it still compiles, the model still gives it a meaning and
the property's oracle still reports a violation on it.  Operand ids are not renumbered, so the rule table stays valid."""
import copy
import gen


def variants(p):
    out = []
    n = len(p.branches)
    if p.handler is not None:
        q = copy.copy(p)
        q.handler = None
        out.append(q)
    if n > 1:
        for b in range(n):
            q = copy.copy(p)
            q.branches = [copy.copy(x) for i, x in enumerate(p.branches) if i != b]
            if q.handler is not None:
                continue            # the handler's arity would change
            out.append(q)
    for b, br in enumerate(p.branches):
        # cut the branch after each step boundary
        cuts = [i for i, a in enumerate(br.acts) if a.deferred]
        for c in cuts:
            q = copy.copy(p)
            q.branches = [copy.copy(x) for x in p.branches]
            q.branches[b].acts = list(br.acts[:c])
            out.append(q)
        # drop one plain operator (no wrapper bracket)
        for i, a in enumerate(br.acts):
            if a.wrap or a.unwrap or a.deferred:
                continue
            q = copy.copy(p)
            q.branches = [copy.copy(x) for x in p.branches]
            q.branches[b].acts = br.acts[:i] + br.acts[i + 1:]
            out.append(q)
        if br.let:
            q = copy.copy(p)
            q.branches = [copy.copy(x) for x in p.branches]
            q.branches[b].let = None
            out.append(q)
    return out


def shrink(d, oracle, run_progs, rounds=6, name='shrink'):
    """d: a failing case dict of run_B; oracle(case, exp) -> why|None; run_progs(progs, name) -> case dicts (with 'exp' for differing ones).
    Returns the smallest failing case found (possibly d itself)."""
    best = d
    for r in range(rounds):
        cands = variants(best['prog'])
        if not cands:
            break
        for c in cands:
            c.family = best['prog'].family if hasattr(best['prog'], 'family') else 'shrink'
        res = run_progs(cands[:60], '%s%d' % (name, r))
        failing = []
        for c in res:
            if c.get('observed') is None or not c.get('exp') or not c['exp'].get('spec'):
                continue
            if c['exp']['spec'][:1] == ['<NoSpec>'] or (c['exp']['spec'] and c['exp']['spec'][-1] in ('E?', 'C?')):
                continue
            why = oracle(c, c['exp'])
            if why:
                c['why'] = why
                failing.append(c)
        if not failing:
            break
        new = min(failing, key=lambda c: len(c['text']))
        if len(new['text']) >= len(best['text']):
            break
        best = new
    return best
