"""C19 run-time family: (a) sequential macro evaluations whose user code does not allocate must perform 0 heap allocations;
(b) programs over move-only, non-Send (Rc) and stack-borrowing (& / &mut) values must compile and run in the non-spawning macros,
every move-only value created is dropped exactly once."""
import os, re, random, shutil, subprocess
import jv

RT = os.path.join(jv.VERIF, 'harness', 'rt')

OPT_OPS = ['|> |x| x + %d', '=> |x| if x %% 7 == 6 { None } else { Some(x + %d) }', '?> |x| *x != %d', '<| Some(%d)', '?? |_: &_| ()',
           '|> >>> -> |x| x + %d <<<', '=> >>> -> |x| Some(x + %d) <<<', '<= || Some(%d)']
RES_OPS = ['|> |x| x + %d', '=> |x| if x %% 7 == 6 { Err(%d) } else { Ok(x + 1) }', '!> |e| e + %d', '<| Ok::<i64, i64>(%d)', '?? |_: &_| ()',
           '|> >>> -> |x| x + %d <<<', '<= |e| if e > %d { Err::<i64, i64>(e) } else { Ok(e) }']


def alloc_programs(rng, n):
    """(macro, dsl, family) - sync sequential kinds only, user code allocation free"""
    out = []
    for i in range(n):
        is_try = rng.random() < 0.6
        fam = rng.choice(['Opt', 'Res'])
        nb = rng.randint(1, 4)
        brs = []
        for b in range(nb):
            d = rng.randint(1, 3)
            init = ('Some(%d_i64)' % rng.randint(0, 9)) if fam == 'Opt' else ('Ok::<i64, i64>(%d)' % rng.randint(0, 9))
            if rng.random() < 0.12:
                init = 'None::<i64>' if fam == 'Opt' else 'Err::<i64, i64>(%d)' % rng.randint(50, 59)
            s = init
            for k in range(d):
                for e in range(rng.randint(1 if k else 0, 3)):
                    op = rng.choice(OPT_OPS if fam == 'Opt' else RES_OPS)
                    op = op % rng.randint(1, 9) if '%d' in op else op
                    s += ' ' + ('~' if (k > 0 and e == 0) else '') + op
            brs.append(s)
        h = ''
        if rng.random() < 0.4:
            args = ', '.join('a%d' % j for j in range(nb))
            if is_try:
                h = ', map => |%s| (%s)' % (args, args)
            else:
                h = ', then => |%s| (%s)' % (args, args)
        out.append(('try_join' if is_try else 'join', ', '.join(brs) + h, 'alloc'))
    return out


# hand-written programs over move-only / non-Send / borrowing values; each must compile and evaluate to the given i64
BORROW = [
    # wrappers are plain (non-`move`) closures: what the inner chain captures by reference stays the caller's
    ('join', 'let mut n = 0i64; let r = join! { Some(1_i64) |> >>> -> |x| { n += 1; x + 1 } <<< }; let _ = r; n', 1),
    ('try_join', 'let mut a = 0i64; let mut b = 0i64; let r = try_join! { Some(Some(1_i64)) => >>> |> |x| { a += 1; x } <<< |> |x| { b += 10; x }, Some(2_i64) }; let _ = r; a + b', 11),
    ('join', 'let mut n = 0i64; let r = join! { Some(3_i64) ?> >>> -> |x: &i64| { n += *x; true } ~|> |x| x + 1, Some(1_i64) }; let _ = r; n', 3),
    ('join', 'let mut acc = 0i64; let r = join! { Some(1_i64) |> |x| { acc += x; x + 1 }, Some(2_i64) }; let _ = r; acc + 100', 101),
    ('try_join', 'let seen = std::cell::RefCell::new(Vec::<i64>::with_capacity(4)); let r = try_join! { Some(1_i64) ?? |x| seen.borrow_mut().push(x.unwrap_or(0)) ~|> |x| x + 1, Some(5_i64) ~|> |x| x }; let n = seen.borrow().len() as i64; r.map(|(a, b)| a + b).unwrap_or(-1) + n', 8),
    ('join', 'let t = Tok::new(3); let r = join! { Some(t) |> |t| bump(t, 1) ~|> |t| bump(t, 1), Some(Tok::new(10)) |> |t| bump(t, 5) }; match r { (Some(a), Some(b)) => a.0 + b.0, _ => -1 }', 20),
    ('try_join', 'let r = try_join! { Ok::<Tok, i64>(Tok::new(1)) |> |t| bump(t, 1) ~=> |t| Ok(bump(t, 1)), Ok::<Tok, i64>(Tok::new(7)), map => |a: Tok, b: Tok| a.0 + b.0 }; r.unwrap_or(-1)', 10),
    ('try_join', 'let r = try_join! { Ok::<Tok, i64>(Tok::new(1)) ~=> |_t| Err::<Tok, i64>(9) ~|> |t| bump(t, 1), Ok::<Tok, i64>(Tok::new(7)) ~|> |t| t }; match r { Err(e) => e, Ok(_) => -1 }', 9),
    ('join', 'let rc = std::rc::Rc::new(5_i64); let r = join! { Some(rc) |> |r| *r + 1, Some(std::rc::Rc::new(1_i64)) ~|> |r| *r }; match r { (Some(a), Some(b)) => a + b, _ => -1 }', 7),
    ('join', 'let s = String::from("ab"); let sr = &s; let r = join! { Some(sr) |> |x| x.len() as i64, Some(sr) ~|> |x| x.len() as i64 * 10 }; match r { (Some(a), Some(b)) => a + b, _ => -1 }', 22),
    ('join', 'let mut buf = [0i64; 4]; { let b = &mut buf; let r = join! { Some(b) |> |b| { b[0] = 7; 1_i64 }, Some(2_i64) }; let _ = r; } buf[0]', 7),
    ('try_join', 'let cell = std::cell::Cell::new(0i64); let r = try_join! { Some(1_i64) ?? |x| cell.set(cell.get() + x.unwrap_or(0)) ~?? |x| cell.set(cell.get() + x.unwrap_or(0)), Some(2_i64) ?? |x| cell.set(cell.get() + x.unwrap_or(0)) }; let _ = r; cell.get()', 4),
    ('try_join', 'let cell = std::cell::Cell::new(0i64); let r = try_join! { Some(Some(1_i64)) => >>> ?? |x| cell.set(cell.get() + x.unwrap_or(0)) <<< |> |x| x + 1, Some(2_i64) }; r.map(|(a, b)| a + b).unwrap_or(-1) + cell.get()', 5),
    ('join', 'let t = Tok::new(3); let r = join! { Some(Some(t)) => >>> |> |t| bump(t, 2) <<< ~|> |t| bump(t, 1), { Some(Tok::new(1)) } }; match r { (Some(a), Some(b)) => a.0 + b.0, _ => -1 }', 7),
    ('join_async', 'let rc = std::rc::Rc::new(5_i64); let f = join_async! { futures::future::ready(rc) |> |r| *r + 1, futures::future::ready(Tok::new(4)) ~|> |t| bump(t, 1) }; let (a, b) = futures::executor::block_on(f); a + b.0', 11),
    # non-spawning async macros run every branch on the caller's task: a step with ONE active branch may hold !Send values (no `.boxed()`)
    ('join_async', 'let rc = std::rc::Rc::new(5_i64); let f = join_async! { futures::future::ready(rc) |> |r| *r + 1 }; futures::executor::block_on(f)', 6),
    ('join_async', 'let rc = std::rc::Rc::new(2_i64); let f = join_async! { futures::future::ready(rc) ~|> |r| *r * 10, futures::future::ready(3_i64) }; let (a, b) = futures::executor::block_on(f); a + b', 23),
    ('try_join_async', 'let cell = std::cell::Cell::new(0i64); let v = { let c = &cell; let f = try_join_async! { futures::future::ready(Ok::<i64, i64>(7)) |> |v| v.map(|v| { c.set(v); v + 1 }) }; futures::executor::block_on(f).unwrap_or(-1) }; v + cell.get()', 15),
    ('try_join_async', 'let rc = std::rc::Rc::new(4_i64); let f = try_join_async! { futures::future::ready(Ok::<i64, i64>(1)), futures::future::ready(Ok::<std::rc::Rc<i64>, i64>(rc)) ~|> |r| r.map(|r| *r + 1) ~=> |v| futures::future::ready(Ok::<i64, i64>(v * 2)) }; futures::executor::block_on(f).map(|(a, b)| a + b).unwrap_or(-1)', 11),
    # wrapper closures of the non-spawning async macros borrow: two nested chains (or a nested chain and a later step) use the same move-only value
    ('join_async', 'let t = Tok::new(10); let f = join_async! { futures::future::ready(Some(1_i64)) |> >>> |> |v| v + t.0 <<<, futures::future::ready(Some(2_i64)) |> >>> |> |v| v * t.0 <<< }; match futures::executor::block_on(f) { (Some(a), Some(b)) => a + b, _ => -1 }', 31),
    ('try_join_async', 'let t = Tok::new(3); let f = try_join_async! { futures::future::ready(Ok::<i64, i64>(4)) |> >>> |> |v| v + t.0 <<< ~|> |v| v.map(|v| v * t.0) }; futures::executor::block_on(f).unwrap_or(-1)', 21),
    ('join_async', 'let t = Tok::new(2); let f = join_async! { futures::future::ready(Some(Some(1_i64))) |> >>> => >>> |> |v| v + t.0 <<< <<< ~|> |v| v.map(|v| v * t.0), futures::future::ready(5_i64) }; match futures::executor::block_on(f) { (Some(a), b) => a + b, _ => -1 }', 11),
    ('try_join_async', 'let mut n = 0i64; let v = { let nref = &mut n; let f = try_join_async! { futures::future::ready(Ok::<i64, i64>(1)) |> |r| { *nref += 1; r }, futures::future::ready(Ok::<Tok, i64>(Tok::new(2))) }; let r = futures::executor::block_on(f); r.map(|(a, b)| a + b.0).unwrap_or(-1) }; v + n', 4),
]


def render(allocp, borrow):
    L = ['#![allow(unused_imports, unused_variables, unused_mut, unused_parens, unused_braces, dead_code, unused_must_use, unused_assignments, clippy::all)]',
         '#[path = "../nocost_prelude.rs"]', 'mod np;', 'use np::*;', 'use join::*;', '#[global_allocator]', 'static GLOBAL: Counting = Counting;', '']
    linemap = {}
    for i, (mac, dsl, _) in enumerate(allocp):
        start = len(L) + 1
        L.append('fn alloc_%d() -> (u64, String) {' % i)
        L.append('    let before = allocs();')
        L.append('    let r = %s! { %s };' % (mac, dsl))
        L.append('    let after = allocs();')
        L.append('    (after - before, format!("{:?}", r))')
        L.append('}')
        for ln in range(start, len(L) + 1):
            linemap[ln] = 'alloc_%d' % i
    for i, (mac, body, want) in enumerate(borrow):
        start = len(L) + 1
        L.append('fn borrow_%d() -> i64 {' % i)
        L.append('    ' + body)
        L.append('}')
        for ln in range(start, len(L) + 1):
            linemap[ln] = 'borrow_%d' % i
    L.append('fn main() {')
    for i in range(len(allocp)):
        L.append('    let (n, r) = alloc_%d(); println!("ALLOC\\t%d\\t{}\\t{}", n, r);' % (i, i))
    for i in range(len(borrow)):
        L.append('    let (m0, d0) = made_dropped(); let v = borrow_%d(); let (m1, d1) = made_dropped(); println!("BORROW\\t%d\\t{}\\t{}\\t{}", v, m1 - m0, d1 - d0);' % (i, i))
    L.append('}')
    return '\n'.join(L) + '\n', linemap


def run(rng, tier, only_borrow=False):
    """-> dict(cases, failures[list of dict(macro, dsl, why)], rejected[list], dist)"""
    allocp = [] if only_borrow else alloc_programs(rng, 150 if tier == 'quick' else 1200)
    borrow = list(BORROW)
    os.makedirs(os.path.join(RT, 'src', 'bin'), exist_ok=True)
    shutil.copyfile(os.path.join(jv.REPO, 'Cargo.lock'), os.path.join(RT, 'Cargo.lock'))
    rejected = []
    for attempt in range(5):
        src, linemap = render(allocp, borrow)
        path = os.path.join(RT, 'src', 'bin', 'nocost.rs')
        open(path, 'w').write(src)
        p = jv.sh('cargo build --offline --release --bin nocost --message-format short 2>&1', cwd=RT, check=False, timeout=1800)
        if p.returncode == 0:
            break
        bad = {}
        for m in re.finditer(r'src/bin/nocost\.rs:(\d+):\d+: error(.*)', p.stdout):
            cid = linemap.get(int(m.group(1)))
            if cid:
                bad.setdefault(cid, m.group(2).strip()[:300])
        if not bad:
            raise RuntimeError('nocost build failed:\n' + p.stdout[-3000:])
        for cid, msg in bad.items():
            k, i = cid.split('_')
            item = allocp[int(i)] if k == 'alloc' else borrow[int(i)]
            rejected.append({'macro': item[0], 'dsl': item[1], 'why': 'does not compile: ' + msg})
        allocp = [x for i, x in enumerate(allocp) if 'alloc_%d' % i not in bad]
        borrow = [x for i, x in enumerate(borrow) if 'borrow_%d' % i not in bad]
    else:
        raise RuntimeError('nocost build keeps failing')
    out = subprocess.run([os.path.join(jv.TARGET, 'release', 'nocost')], stdout=subprocess.PIPE, stderr=subprocess.PIPE, text=True, timeout=600)
    os.unlink(path)
    failures = []
    if out.returncode != 0:
        failures.append({'macro': '?', 'dsl': '(nocost binary)', 'why': 'crashed: ' + out.stderr[-300:]})
    n = 0
    for line in out.stdout.splitlines():
        f = line.split('\t')
        if f[0] == 'ALLOC':
            n += 1
            mac, dsl, _ = allocp[int(f[1])]
            if int(f[2]) != 0:
                failures.append({'macro': mac, 'dsl': dsl, 'why': '%s heap allocation(s) during a sequential macro evaluation whose user code does not allocate (result %s)' % (f[2], f[3])})
        elif f[0] == 'BORROW':
            n += 1
            mac, body, want = borrow[int(f[1])]
            if int(f[2]) != want:
                failures.append({'macro': mac, 'dsl': body, 'why': 'value %s, expected %d' % (f[2], want)})
            elif f[3] != f[4]:
                failures.append({'macro': mac, 'dsl': body, 'why': 'move-only values created %s, dropped %s' % (f[3], f[4])})
    return {'cases': n, 'failures': failures, 'rejected': rejected, 'dist': {'alloc_programs': len(allocp), 'borrow_programs': len(borrow)},
            'samples': ([{'stage': 'nocost', 'macro': allocp[0][0], 'dsl': allocp[0][1][:200]}] if allocp else []) + [{'stage': 'nocost', 'macro': BORROW[0][0], 'dsl': BORROW[0][1][:200]}]}
