"""Shared machinery for the join verification checks: building the harnesses against /repo's
working tree, running the implementation (implrun), rendering cases as Gallina terms, running
the model under vm_compute in sharded coqc processes, evidence and verdict plumbing."""
import json, os, re, subprocess, sys, time, hashlib, shutil, random
from concurrent.futures import ThreadPoolExecutor

VERIF = '/verif'
REPO = '/repo'
CACHE = os.path.join(VERIF, '.cache')
TARGET = os.path.join(CACHE, 'target')
WORK = os.path.join(CACHE, 'work')
COQ = os.path.join(VERIF, 'coq')
IMPLRUN = os.path.join(TARGET, 'release', 'implrun')
ENV = dict(os.environ, CARGO_NET_OFFLINE='true', CARGO_TARGET_DIR=TARGET)
NPROC = 16


def sh(cmd, cwd=None, timeout=1800, env=None, check=True):
    p = subprocess.run(cmd, shell=isinstance(cmd, str), cwd=cwd, env=env or ENV, timeout=timeout,
                       stdout=subprocess.PIPE, stderr=subprocess.STDOUT, text=True)
    if check and p.returncode != 0:
        raise RuntimeError('command failed (%s): %s\n%s' % (p.returncode, cmd, p.stdout[-4000:]))
    return p


def machinery_broken(msg):
    """The check itself cannot run: not a verdict about the property."""
    print('MACHINERY-ERROR: ' + msg)
    sys.exit(2)


# ----------------------------------------------------------------------------- building

def build_implrun():
    d = os.path.join(VERIF, 'harness', 'implrun')
    shutil.copyfile(os.path.join(REPO, 'Cargo.lock'), os.path.join(d, 'Cargo.lock'))
    p = sh('cargo build --offline --release 2>&1', cwd=d, check=False)
    return p.returncode == 0, p.stdout


def build_coq(targets=None):
    import fcntl
    os.makedirs(WORK, exist_ok=True)
    with open(os.path.join(WORK, 'coq-make.lock'), 'w') as lock:
        fcntl.flock(lock, fcntl.LOCK_EX)          # concurrent checks must not run make in the same directory
        mk, cp = os.path.join(COQ, 'Makefile'), os.path.join(COQ, '_CoqProject')
        if not os.path.exists(mk) or os.path.getmtime(mk) < os.path.getmtime(cp):
            sh('coq_makefile -f _CoqProject -o Makefile', cwd=COQ)
        t = ' '.join(targets) if targets else ''
        p = sh('timeout 3000 make -j%d %s 2>&1' % (NPROC, t), cwd=COQ, check=False, timeout=3100)
    return p.returncode == 0, p.stdout


# ----------------------------------------------------------------------------- implementation side

def run_impl(cases, tag='impl', threads=1):
    """cases: list of (id, kind '010', dsl text).  Returns list of dicts in the same order."""
    os.makedirs(WORK, exist_ok=True)
    f = os.path.join(WORK, '%s_%d.txt' % (tag, os.getpid()))
    with open(f, 'w') as fh:
        for (i, kind, text) in cases:
            assert '\n' not in text and '\t' not in text
            fh.write('%s\t%s\t%s\n' % (i, kind, text))
    p = subprocess.run([IMPLRUN, f], stdout=subprocess.PIPE, stderr=subprocess.PIPE, text=True, timeout=1800,
                       env=dict(os.environ, IMPLRUN_THREADS=str(threads)))
    os.unlink(f)
    if p.returncode != 0:
        raise RuntimeError('implrun failed: ' + p.stderr[-2000:])
    out = [json.loads(l) for l in p.stdout.splitlines() if l.strip()]
    assert len(out) == len(cases), (len(out), len(cases))
    return out


# ----------------------------------------------------------------------------- Gallina rendering

def cs(s):
    return '"' + s.replace('"', '""') + '"'


DELIM = {'(': 'DParen', '{': 'DBrace', '[': 'DBracket', '': 'DNone'}


def ctt(t):
    if t[0] == 'P':
        return '(TP %s %s)' % (cs(t[1]), 'true' if t[2] else 'false')
    if t[0] == 'I':
        return '(TI %s)' % cs(t[1])
    if t[0] == 'L':
        return '(TL %s)' % cs(t[1])
    return '(TG %s %s)' % (DELIM[t[1]], ctts(t[2]))


def ctts(ts):
    return '[' + '; '.join(ctt(t) for t in ts) + ']'


def cstrs(l):
    return '[' + '; '.join(cs(s) for s in l) + ']'


def cbool(b):
    return 'true' if b else 'false'


def copt(o, f):
    return 'None' if o is None else '(Some %s)' % f(o)


def caction(m):
    return '(mkAction %s %s %s [%s])' % (m['comb'], cbool(m['deferred']), m['mv'],
                                         '; '.join(ctts(o) for o in m['ops']))


def cbranch(b):
    pat = copt(b['pat'], lambda p: '(%s, %s)' % (ctts(p[0]), cs(p[1])))
    return '(mkBranch %s [%s])' % (pat, '; '.join(caction(m) for m in b['members']))


def cinput(d):
    return '(mkInput [%s] %s %s %s %s %s)' % (
        '; '.join(cbranch(b) for b in d['branches']),
        copt(d['handler'], lambda h: '(%s, %s)' % (h[0], ctts(h[1]))),
        copt(d['fcp'], ctts), copt(d['joiner'], ctts),
        copt(d['transpose'], cbool), copt(d['lazy'], cbool))


def cconfig(kind):
    return '(mkConfig %s %s %s)' % tuple(cbool(c == '1') for c in kind)


def coutcome(g):
    if g is None:
        return None
    if 'ok' in g:
        return '(OOk %s)' % cstrs(g['ok'])
    if 'config' in g:
        return 'OConfig'
    return 'OPanic'


def flat_tokens(ts):
    out = []
    for t in ts:
        if t[0] == 'G':
            o, c = {'(': '()', '{': '{}', '[': '[]', '': ('', '')}[t[1]]
            if o:
                out.append(o)
            out += flat_tokens(t[2])
            if c:
                out.append(c)
        else:
            out.append(t[1])
    return out


# ----------------------------------------------------------------------------- model side

HEADER = 'From Join Require Import Tok Names Ast Ir Print Gen Check.\nLocal Open Scope N_scope.\n'


def run_coq_shards(items, header=HEADER, tag='cases', per_shard=None, extra_q=''):
    """items: list of (definitions_text, expression_text_of_type_N).  Evaluates all expressions with
    vm_compute, sharded over coqc processes; returns the list of ints in order."""
    os.makedirs(WORK, exist_ok=True)
    n = len(items)
    if n == 0:
        return []
    nshards = min(NPROC, max(1, n // 8)) if per_shard is None else max(1, (n + per_shard - 1) // per_shard)
    shards = [[] for _ in range(nshards)]
    for i, it in enumerate(items):
        shards[i % nshards].append((i, it))
    pid = os.getpid()

    def run(si):
        sh_items = shards[si]
        fn = os.path.join(WORK, '%s_%d_%d.v' % (tag, pid, si))
        with open(fn, 'w') as fh:
            fh.write(header)
            for (i, (defs, expr)) in sh_items:
                fh.write(defs + '\n')
            fh.write('Eval vm_compute in [%s].\n' % '; '.join('(%s)' % expr for (_, (_, expr)) in sh_items))
        p = subprocess.run('timeout 1500 coqc -noglob -Q %s/theories Join %s %s' % (COQ, extra_q, fn), shell=True,
                           stdout=subprocess.PIPE, stderr=subprocess.STDOUT, text=True)
        for ext in ('.vo', '.vok', '.vos', '.glob'):
            try:
                os.unlink(fn[:-2] + ext)
            except OSError:
                pass
        if p.returncode != 0:
            raise RuntimeError('coqc failed on %s:\n%s' % (fn, p.stdout[-3000:]))
        os.unlink(fn)
        txt = p.stdout
        k = txt.rfind('= [')
        nums = [int(x) for x in re.findall(r'(\d+)(?:%N)?\s*(?:;|\])', txt[k:])]
        if len(nums) != len(sh_items):
            raise RuntimeError('could not parse coqc output (%d vs %d): %s' % (len(nums), len(sh_items), txt[-2000:]))
        return [(i, v) for ((i, _), v) in zip(sh_items, nums)]

    res = [None] * n
    with ThreadPoolExecutor(max_workers=NPROC) as ex:
        for part in ex.map(run, range(nshards)):
            for (i, v) in part:
                res[i] = v
    return res


def run_coq_strings(items, header=HEADER, tag='str'):
    """items: list of (definitions_text, [expr of type list string, ...]).  Returns for each item the list of
    string lists, evaluated by vm_compute in sharded coqc runs (diagnostics / projections)."""
    os.makedirs(WORK, exist_ok=True)
    n = len(items)
    if n == 0:
        return []
    nshards = min(NPROC, n)
    shards = [[] for _ in range(nshards)]
    for i, it in enumerate(items):
        shards[i % nshards].append((i, it))
    pid = os.getpid()

    def run(si):
        fn = os.path.join(WORK, '%s_%d_%d.v' % (tag, pid, si))
        with open(fn, 'w') as fh:
            fh.write('Set Printing Width 10000000.\nSet Printing Depth 10000000.\n' + header)
            for (i, (defs, exprs)) in shards[si]:
                fh.write(defs + '\n')
                for e in exprs:
                    fh.write('Eval vm_compute in (String.concat " " (%s)).\n' % e)
        p = subprocess.run('timeout 1500 coqc -noglob -Q %s/theories Join %s' % (COQ, fn), shell=True,
                           stdout=subprocess.PIPE, stderr=subprocess.STDOUT, text=True)
        for ext in ('.v', '.vo', '.vok', '.vos', '.glob'):
            try:
                os.unlink(fn[:-2] + ext)
            except OSError:
                pass
        if p.returncode != 0:
            raise RuntimeError('coqc failed (strings):\n%s' % p.stdout[-3000:])
        found = re.findall(r'= "((?:[^"]|"")*)"\s*:\s*string', p.stdout)
        want = sum(len(ex) for (_, (_, ex)) in shards[si])
        if len(found) != want:
            raise RuntimeError('could not parse coqc string output (%d vs %d)' % (len(found), want))
        out, k = [], 0
        for (i, (_, exprs)) in shards[si]:
            vals = []
            for _ in exprs:
                txt = re.sub(r'\s+', ' ', found[k]).replace('""', '"')
                vals.append(txt.split(' ') if txt else [])
                k += 1
            out.append((i, vals))
        return out

    res = [None] * n
    with ThreadPoolExecutor(max_workers=NPROC) as ex:
        for part in ex.map(run, range(nshards)):
            for (i, v) in part:
                res[i] = v
    return res


def coq_eval_strings(defs, expr, header=HEADER):
    """Evaluate one expression of type list string and return the strings (diagnostics only)."""
    os.makedirs(WORK, exist_ok=True)
    fn = os.path.join(WORK, 'diag_%d.v' % os.getpid())
    with open(fn, 'w') as fh:
        fh.write(header + defs + '\nEval vm_compute in (String.concat " " (%s)).\n' % expr)
    p = subprocess.run('timeout 600 coqc -noglob -Q %s/theories Join %s' % (COQ, fn), shell=True,
                       stdout=subprocess.PIPE, stderr=subprocess.STDOUT, text=True)
    for ext in ('.v', '.vo', '.vok', '.vos', '.glob'):
        try:
            os.unlink(fn[:-2] + ext)
        except OSError:
            pass
    return p.stdout


# ----------------------------------------------------------------------------- correspondence A, G-stage

def corr_A_gen(cases, tag='A', threads=1, fix=None):
    """cases: list of (id, kind, text).  Runs the implementation and the model generator on the
    implementation's own parse result.  Returns list of result dicts."""
    impl = run_impl(cases, tag, threads)
    items, idx = [], []
    results = []
    for c, r in zip(cases, impl):
        res = {'id': c[0], 'kind': c[1], 'text': c[2], 'impl': r, 'status': None}
        results.append(res)
        if r.get('lex') is None:
            res['status'] = 'lexerr'
            continue
        pr = r['parse']
        if 'ok' not in pr:
            res['status'] = 'parse-' + ('panic' if 'panic' in pr else 'err')
            continue
        d = pr['ok']
        if fix is not None:
            pdiffs, d = fix(c[1], c[2], d)
            res['p_diffs'] = pdiffs
        blocks = []
        for b in d['branches']:
            for m in b['members']:
                if m['comb'] not in ('Collect', 'Unzip'):
                    for o, bl in zip(m['ops'], m['blocks']):
                        blocks.append('(%s, %s)' % (ctts(o), cbool(bl)))
        name = 'c%d' % len(items)
        defs = 'Definition %s_i := %s.\nDefinition %s_o := %s.\nDefinition %s_b := [%s].' % (
            name, cinput(d), name, coutcome(r['gen']), name, '; '.join(blocks))
        expr = 'check_gen %s %s_i %s_o + 100000000 * check_blocks %s_b' % (cconfig(c[1]), name, name, name)
        items.append((defs, expr))
        idx.append(res)
    vals = run_coq_shards(items, tag=tag)
    for res, v in zip(idx, vals):
        res['code'] = v
        res['status'] = 'ok' if (v == 0 and not res.get('p_diffs')) else 'diff'
        if res.get('p_diffs'):
            res['status'] += ' parse: ' + '; '.join(res['p_diffs'][:3])
    return results


def diagnose_gen(res):
    """Model tokens for one differing case (diagnostics)."""
    d = res['impl']['parse']['ok']
    defs = 'Definition i := %s.' % cinput(d)
    out = coq_eval_strings(defs, 'model_tokens %s i' % cconfig(res['kind']))
    m = re.search(r'= "(.*)"\s*:\s*string', out, re.S)
    return re.sub(r'\s+', ' ', m.group(1)).replace('""', '"') if m else out


# ----------------------------------------------------------------------------- evidence

def write_evidence(pid, tier, seed, level, coverage, wall, violations, assumptions):
    os.makedirs(os.path.join(VERIF, 'evidence'), exist_ok=True)
    ev = {'property_id': pid, 'tier': tier, 'seed': seed, 'level': level, 'coverage': coverage,
          'assumptions': assumptions, 'wall_s': round(wall, 2), 'violations': violations}
    with open(os.path.join(VERIF, 'evidence', pid + '.json'), 'w') as fh:
        json.dump(ev, fh, indent=1)
    return ev
