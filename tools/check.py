#!/usr/bin/env python3
"""./check <ID> [--tier quick|thorough] [--replay file]

One check = (1) the property's theorems are compiled by coqc and their assumptions audited,
(2) the harnesses are rebuilt against /repo's working tree, (3) correspondence A (model expansion ==
implementation expansion, token for token, evaluated inside Coq) and B (compiled macro invocations vs the
model's executable semantics vs the reference Spec) are run on the property's own families,
(4) verdict, evidence, VIOLATION protocol (see DESIGN.md section 4)."""
import sys, os, json, time, random, re, hashlib, argparse, traceback

sys.path.insert(0, os.path.dirname(os.path.abspath(__file__)))
import jv, gen, rt, props, fam

ALLOWED_AXIOMS = {'functional_extensionality_dep', 'FunctionalExtensionality.functional_extensionality_dep'}
FORBIDDEN = r'\b(Admitted|admit|Axiom|Axioms|Parameter|Parameters|Conjecture|Hypothesis|Abort All)\b|Unset Guard|bypass_check|type-in-type|impredicative-set|Admit Obligations'
REPLAYS = os.path.join(jv.CACHE, 'replays')
# the executable model files the correspondence runs import: always rebuilt if stale, whatever the property
MODEL_VO = ['theories/Check.vo', 'theories/Parse.vo', 'theories/Macros.vo', 'theories/Async.vo']


def audit_sources():
    """No Admitted / Axiom / unsafe switches anywhere in the development."""
    bad = []
    for root, _, files in os.walk(jv.COQ):
        for f in files:
            if not f.endswith('.v'):
                continue
            p = os.path.join(root, f)
            txt = open(p).read()
            txt = re.sub(r'\(\*.*?\*\)', ' ', txt, flags=re.S)      # comments may mention the words
            for m in re.finditer(FORBIDDEN, txt):
                # `Variable`/`Hypothesis` inside Sections are fine; Hypothesis is flagged only outside sections - keep simple: flag always but allow within Section
                if m.group(0) == 'Hypothesis':
                    continue
                bad.append('%s: %s' % (os.path.relpath(p, jv.COQ), m.group(0)))
    return bad


def obligations_of(pid):
    p = os.path.join(jv.COQ, 'Properties', pid + '.v')
    if not os.path.exists(p):
        return None
    return re.findall(r'\(\*\s*OBLIGATION\s+(\S+)\s*\*\)', open(p).read())


def check_proofs(pid):
    """Returns (ok, info dict).  Compiles Properties/<pid>.vo (and what it depends on) and audits assumptions."""
    info = {'obligations': [], 'discharged': [], 'failed': [], 'assumptions': {}, 'log': ''}
    obls = obligations_of(pid)
    if obls is None:
        info['failed'].append('Properties/%s.v missing' % pid)
        return False, info
    info['obligations'] = obls
    ok, out = jv.build_coq(['Properties/%s.vo' % pid] + MODEL_VO)
    if not ok:
        info['log'] = out[-3000:]
        m = re.search(r'File "([^"]+)", line (\d+)', out)
        info['failed'] = list(obls)
        info['broken_at'] = m.group(0) if m else 'make failed'
        return False, info
    bad = audit_sources()
    if bad:
        info['failed'] = list(obls)
        info['broken_at'] = 'forbidden construct: ' + '; '.join(bad[:5])
        return False, info
    # assumptions of every obligation, printed by a fresh coqc run against the compiled files
    os.makedirs(jv.WORK, exist_ok=True)
    fn = os.path.join(jv.WORK, 'assum_%s_%d.v' % (pid, os.getpid()))
    with open(fn, 'w') as fh:
        fh.write('From JoinProps Require Import %s.\n' % pid)
        for o in obls:
            fh.write('Print Assumptions %s.\n' % o)
    p = jv.sh('timeout 600 coqc -noglob -Q %s/theories Join -Q %s/Properties JoinProps %s 2>&1' % (jv.COQ, jv.COQ, fn), check=False)
    for ext in ('.v', '.vo', '.vok', '.vos', '.glob'):
        try:
            os.unlink(fn[:-2] + ext)
        except OSError:
            pass
    if p.returncode != 0:
        info['failed'] = list(obls)
        info['broken_at'] = 'Print Assumptions failed: ' + p.stdout[-500:]
        return False, info
    blocks = re.split(r'^(?=Closed under the global context|Axioms:)', p.stdout, flags=re.M)
    blocks = [b for b in blocks if b.startswith('Closed') or b.startswith('Axioms:')]
    if len(blocks) != len(obls):
        info['failed'] = list(obls)
        info['broken_at'] = 'could not parse Print Assumptions output'
        return False, info
    for o, b in zip(obls, blocks):
        if b.startswith('Closed'):
            axs = []
        else:
            axs = [a for a in re.findall(r'^([A-Za-z_][\w.\']*)\s*:', b, flags=re.M) if a != 'Axioms']
        info['assumptions'][o] = axs
        if all(a in ALLOWED_AXIOMS or a.split('.')[-1] in ALLOWED_AXIOMS for a in axs):
            info['discharged'].append(o)
        else:
            info['failed'].append(o)
            info['broken_at'] = 'theorem %s depends on %s' % (o, axs)
    return (not info['failed']), info


def run_coqchk(pid):
    """thorough tier: the independent checker re-checks the compiled property file and everything it depends on and lists the axioms"""
    p = jv.sh('timeout 2400 coqchk -silent -o -Q %s/theories Join -Q %s/Properties JoinProps JoinProps.%s 2>&1' % (jv.COQ, jv.COQ, pid), check=False, timeout=2500)
    m = re.search(r'\* Axioms:\s*(.*?)\n\s*\n', p.stdout, flags=re.S)
    axioms = [a.strip() for a in (m.group(1).split('\n') if m else []) if a.strip() and a.strip() != '<none>']
    ok = p.returncode == 0 and all(a.split('.')[-1] in ALLOWED_AXIOMS for a in axioms) and 'type-in-type: <none>' in p.stdout.replace('relying on ', '')
    return ok, axioms, p.stdout[-600:]


def stable_hash(s):
    return hashlib.sha1(s.encode()).hexdigest()[:12]


def main():
    ap = argparse.ArgumentParser()
    ap.add_argument('pid')
    ap.add_argument('--tier', default=os.environ.get('VERIF_TIER', 'quick'))
    ap.add_argument('--replay')
    ap.add_argument('--dev-skip-proofs', action='store_true', help='development only: do not check the proof obligations')
    args = ap.parse_args()
    pid = args.pid
    tier = args.tier if args.tier in ('quick', 'thorough') else 'quick'
    seed = int(os.environ.get('VERIF_SEED', '20260928'))
    if pid not in props.PROPS:
        print('unknown property ' + pid)
        sys.exit(2)
    P = props.PROPS[pid]
    t0 = time.time()
    rng = random.Random(seed * 1000003 + int(pid[1:]))
    os.makedirs(REPLAYS, exist_ok=True)
    # one check at a time: the checks share the harness crates' source files and build directories (src/bin/<family>.rs, target/),
    # so two checks started in parallel take turns instead of overwriting each other's generated programs
    import fcntl
    global _CHECK_LOCK
    _CHECK_LOCK = open(os.path.join(os.path.dirname(REPLAYS), 'check.lock'), 'w')
    fcntl.flock(_CHECK_LOCK, fcntl.LOCK_EX)

    if args.replay:
        return fam.replay(pid, P, args.replay)

    # 1. proofs
    if args.dev_skip_proofs:
        jv.build_coq(MODEL_VO)
        proofs_ok, pinfo = True, {'obligations': [], 'discharged': [], 'failed': [], 'assumptions': {}}
    else:
        proofs_ok, pinfo = check_proofs(pid)
    if args.dev_skip_proofs:
        proofs_ok = True
        print('DEV MODE: proof obligations skipped - not a valid check run')

    chk = None
    if tier == 'thorough' and proofs_ok and not args.dev_skip_proofs:
        ok, axioms, tail = run_coqchk(pid)
        chk = {'ok': ok, 'axioms': axioms}
        if not ok:
            proofs_ok = False
            pinfo['broken_at'] = 'coqchk: ' + tail[-300:]
            pinfo['failed'] = list(pinfo['obligations'])
            pinfo['discharged'] = []

    # 2. harness against /repo's working tree
    ok, out = jv.build_implrun()
    if not ok:
        jv.machinery_broken('implrun does not build against /repo:\n' + out[-2000:])

    # 3. correspondence
    report = fam.run_property(pid, P, rng, tier, seed, escalate=not proofs_ok)
    if (report['A_diffs'] or report['B_diffs']) and not report['witnesses']:
        if not report['escalated'] and P.get('B'):
            # a correspondence broke: search harder for a concrete failing input
            report2 = fam.run_property(pid, P, random.Random(seed + 7919), 'thorough', seed, escalate=True, only_B=True)
            report['witnesses'] += report2['witnesses']
            report['search'] = {'B_cases': report2['B_cases'], 'B_diffs': len(report2['B_diffs'])}

    wall = time.time() - t0
    # 4. verdict
    known = json.load(open(os.path.join(jv.VERIF, 'known_findings.json')))
    violations = []
    known_hits = []
    for w in report['witnesses']:
        k = fam.match_known(pid, w, known)
        if k:
            known_hits.append((k, w))
        else:
            violations.append(w)
    broken = []
    if not proofs_ok:
        broken.append({'kind': 'proof', 'what': pinfo.get('broken_at', ''), 'failed_obligations': pinfo['failed']})
    if report['A_diffs']:
        d = report['A_diffs'][0]
        broken.append({'kind': 'correspondence-A', 'family': d.get('family'), 'cases_differing': len(report['A_diffs']),
                       'first': {'kind': d['kind'], 'text': d['text'], 'code': d.get('code'), 'status': d['status']}})
    if report['B_diffs']:
        d = report['B_diffs'][0]
        broken.append({'kind': 'correspondence-B', 'family': d.get('family'), 'cases_differing': len(report['B_diffs']),
                       'first': {k: d.get(k) for k in ('macro', 'text', 'expected', 'observed', 'code')}})

    level = P['level']
    cov = {
        'obligations': len(pinfo['obligations']), 'discharged': len(pinfo['discharged']),
        'checker_cmd': 'make -C coq Properties/%s.vo (coqc 8.16.1, full .vo) + Print Assumptions audit + forbidden-construct grep' % pid,
        'trusted_base': props.TRUSTED_BASE + P.get('trusted_extra', []),
        'theorems': [{'name': o, 'assumptions': pinfo['assumptions'].get(o)} for o in pinfo['obligations']],
        'evaluations': report['A_cases'] + report['B_cases'],
        'distinct_nontrivial': report['distinct_nontrivial'],
        'rule': report['rule'],
        'programs': report['A_cases'] + report['B_cases'],
        'disagreements_checked': len(report['A_diffs']) + len(report['B_diffs']),
        'traces_validated_against_impl': report['B_cases'],
        'A_cases': report['A_cases'], 'B_cases': report['B_cases'],
        'B_compile_rejected': report.get('B_compile_rejected', 0),
        'model_self_disagreements': report['mm_diffs'],
        'families': report['families'],
        'samples': report['samples'][:6],
        'explanation': P.get('explanation', ''),
        'exhaustive': False,
    }
    if report.get('search'):
        cov['search_after_break'] = report['search']
    if chk:
        cov['coqchk'] = chk
    nviol = len(violations) + (1 if (broken and not violations) else 0)
    jv.write_evidence(pid, tier, seed, level, cov, wall, nviol, props.ASSUMPTIONS + P.get('assumptions', []))

    if report['mm_diffs'] and not (report['A_diffs'] or report['B_diffs']) and proofs_ok:
        jv.machinery_broken('model and reference Spec disagree on %d case(s): the machinery is inconsistent' % report['mm_diffs'])

    for (k, w) in known_hits:
        print('KNOWN-FINDING: property=%s %s' % (pid, k['what']))
    if violations:
        w = violations[0]
        path = os.path.join(REPLAYS, '%s-%s.json' % (pid, stable_hash(json.dumps(w, sort_keys=True))))
        json.dump({'property': pid, 'witness': w, 'broken': broken, 'all_witnesses': violations[:20]}, open(path, 'w'), indent=1)
        print('VIOLATION property=%s replay=%s' % (pid, path))
        print('  witness: %s' % json.dumps(w)[:600])
        sys.exit(1)
    if broken:
        path = os.path.join(REPLAYS, '%s-unproved-%s.json' % (pid, stable_hash(json.dumps(broken, sort_keys=True))))
        json.dump({'property': pid, 'witness': None, 'broken': broken,
                   'note': 'the property is no longer shown to hold: the listed theorem / correspondence no longer checks; '
                           'the search over the property\'s families found no input on which the implementation contradicts the property'},
                  open(path, 'w'), indent=1)
        print('VIOLATION property=%s replay=%s no-failing-input-found' % (pid, path))
        for b in broken:
            print('  broken: %s' % json.dumps(b)[:600])
        sys.exit(1)
    print('OK property=%s tier=%s obligations=%d/%d A=%d B=%d wall=%.1fs' % (
        pid, tier, len(pinfo['discharged']), len(pinfo['obligations']), report['A_cases'], report['B_cases'], wall))
    sys.exit(0)


if __name__ == '__main__':
    try:
        main()
    except SystemExit:
        raise
    except Exception:
        traceback.print_exc()
        print('MACHINERY-ERROR: unexpected exception')
        sys.exit(2)
