"""Per-property configuration of the checks: theorem file, families for correspondence A and B, the
projection used as the property's own oracle when a correspondence breaks."""

TRUSTED_BASE = [
    'Coq 8.16.1 kernel (coqc, full .vo builds); vm_compute inside proofs of finite facts and in correspondence runs; no native_compute',
    'axiom allowlist: FunctionalExtensionality.functional_extensionality_dep only (audited with Print Assumptions on every run)',
    'correspondence harness: harness/implrun (Rust, links /repo/join_impl by path), harness/rt (compiled macro invocations with instrumented operands), tools/*.py drivers; comparisons are evaluated inside Coq',
    'proc_macro2 lexer and syn Expr/Type parsers as the definition of token tree and complete operand',
    'modelled, not verified: meaning of the generated mini-Rust fragment (Denote.v), std Option/Result methods used by the glue (Std.v), std::thread / futures / tokio contracts',
]
ASSUMPTIONS = [
    'the hand-written Gallina model (Gen.v, Print.v) mirrors join_impl: re-validated on every run by correspondence A (expansions equal token for token)',
    'Denote.v is the meaning of the generated code: re-validated on every run by correspondence B against compiled macro invocations',
]

DEFAULT_CLAIM = ('the property is stated as theorems (coq/Properties/<ID>.v, full statements) about the Gallina model and proved for all programs / '
                 'worlds / schedules they quantify over; the model is tied to the current source on every run by the correspondence checks, '
                 'whose disagreements are turned into concrete failing inputs by the property\'s own oracle')
DEFAULT_NOTE = ('trusted: Coq kernel; axiom functional_extensionality_dep only; the correspondence harnesses; Denote.v / Std.v / Threads.v / Async.v as the '
                'meaning of generated code, std::thread, futures and tokio (modelled, validated by correspondence B/B4, not verified); see DESIGN.md section 7')
NOT_CLAIMED = {}

PROPS = {
    'C03': dict(level='proof', A=['profile', 'ops'], B=['profile'], proj='barrier', B4='barrier'),
    'C04': dict(level='proof', A=['profile'], B=['profile', 'profile_async', 'caps'], proj='result'),
    'C05': dict(level='proof', A=['profile'], B=['fail'], proj='result', B4='try_abort', B4_kinds=[(True, False), (True, True)], B4_n=24),
    'C06': dict(level='proof', A=['profile'], B=['fail'], proj='abort', B4='try_abort', B4_kinds=[(True, False), (True, True)], B4_n=24),
    'C07': dict(level='proof', A=['profile_spawn'], B=['pairs'], proj='result', pairs=True, macro_table=True),
    'C08': dict(level='proof', A=['profile_spawn'], B=['alive'], proj='exact'),
    'C09': dict(level='proof', A=['profile_async'], B=['profile_async'], proj='exact', lazy_is_property=True, B4='lazy_complete', B4_n=60),
    'C01': dict(level='proof', A=['ops', 'profile'], B=['profile', 'wrap', 'profile_async'], proj='exact', P='split', compile_is_property=True, macro_table=True),
    'C02': dict(level='proof', A=['ops'], B=['wrap'], proj='exact', P='split'),
    'C10': dict(level='proof', A=['profile', 'ops'], B=['profile', 'wrap', 'profile_async'], proj='multiset'),
    'C11': dict(level='proof', A=['profile', 'ops'], B=['caps', 'wrap', 'profile_async'], proj='caps', B_args={'profile_async': {'cap_rate': 0.5}}),
    'C12': dict(level='proof', A=['profile'], B=['caps', 'profile_async'], proj='caps', B_args={'profile_async': {'cap_rate': 0.5, 'lets_rate': 0.6}}),
    'C16': dict(level='proof', A=['profile', 'opts'], B=[], proj=None, P='split'),
    'C13': dict(level='proof', A=['profile', 'handler'], B=['profile', 'fail', 'profile_async'], proj='exact', P='split', handler_oracle=True),
    'C18': dict(level='proof', A=['profile_spawn'], B=['panic'], proj='abort'),
    'C14': dict(level='proof', A=[], B=[], proj=None, P='split'),
    'C15': dict(level='proof', A=['profile'], B=[], proj=None, P='total'),
    'C19': dict(level='proof', A=['profile', 'ops'], B=[], proj=None, nocost=True),
    'C20': dict(level='other', A=[], B=[], proj=None, history=True,
                explanation='the theorem (the model of the expansion is a function of the token trees) is nearly trivial; the assurance is that of correspondence A over histories: every expansion in repeated, permuted and 8-thread concurrent histories equals the single model value'),
    'C17': dict(level='proof', A=['profile', 'bigindex'], B=[], proj=None),
}
