"""Program families: abstract join programs, rendered as DSL text.  All random choices come from
one random.Random(seed)."""
import itertools, random

KINDS = ['000', '001', '010', '011', '100', '101', '110', '111']      # async try spawn
KIND_NAME = {'000': 'join', '001': 'join_spawn', '010': 'try_join', '011': 'try_join_spawn',
             '100': 'join_async', '101': 'join_async_spawn', '110': 'try_join_async',
             '111': 'try_join_async_spawn'}

# spelling, number of expr operands, kind of operand
OPS = {
    'Map': ('|>', 1), 'AndThen': ('=>', 1), 'Filter': ('?>', 1), 'Dot': ('..', 1), 'Dot2': ('>.', 1),
    'Then': ('->', 1), 'Or': ('<|', 1), 'OrElse': ('<=', 1), 'MapErr': ('!>', 1), 'Collect': ('=>[]', 0),
    'Chain': ('>@>', 1), 'FindMap': ('?|>@', 1), 'FilterMap': ('?|>', 1), 'Enumerate': ('|n>', 0),
    'Partition': ('?&!>', 1), 'Flatten': ('^^>', 0), 'Fold': ('^@', 2), 'TryFold': ('?^@', 2),
    'Find': ('?@', 1), 'Zip': ('>^>', 1), 'Unzip': ('<->', 0), 'Inspect': ('??', 1),
}
WRAPPERS = ['Map', 'AndThen', 'Filter', 'Inspect', 'FilterMap', 'Find', 'FindMap', 'Partition', 'OrElse', 'MapErr']


class Act:
    def __init__(self, op, operands=(), deferred=False, wrap=False, unwrap=False):
        self.op, self.operands, self.deferred, self.wrap, self.unwrap = op, list(operands), deferred, wrap, unwrap

    def render(self):
        t = '~' if self.deferred else ''
        if self.unwrap:
            return t + '<<<'
        sp = OPS[self.op][0]
        if self.wrap:
            return t + sp + ' >>>'
        return (t + sp + ' ' + ', '.join(self.operands)).rstrip()


class Branch:
    def __init__(self, init, acts=(), let=None):
        self.init, self.acts, self.let = init, list(acts), let

    def render(self):
        s = ('let %s = ' % self.let if self.let else '') + self.init
        for a in self.acts:
            s += ' ' + a.render()
        return s

    def depth(self):
        return 1 + sum(1 for a in self.acts if a.deferred)


class Prog:
    def __init__(self, kind, branches, handler=None, options=()):
        self.kind, self.branches, self.handler, self.options = kind, list(branches), handler, list(options)
        self.macro = None       # alias macro name, if the program is to be compiled under one

    def render(self):
        s = ' '.join('%s(%s)' % (k, v) for (k, v) in self.options)
        if s:
            s += ' '
        s += ', '.join(b.render() for b in self.branches)
        if self.handler:
            s += ', %s => %s' % self.handler
        return s

    def profile(self):
        return tuple(b.depth() for b in self.branches)


def all_profiles(nmax, dmax):
    for n in range(1, nmax + 1):
        for p in itertools.product(range(1, dmax + 1), repeat=n):
            yield p


def handler_for(kind, n, rng, which=None):
    is_try = kind[1] == '1'
    hk = which or (rng.choice(['map', 'and_then']) if is_try else 'then')
    args = ', '.join('a%d' % i for i in range(n))
    return (hk, '|%s| h(%s)' % (args, args))


def profile_prog(kind, profile, rng, handler=False, lets=(), extra_ops=False):
    brs = []
    for b, d in enumerate(profile):
        acts = []
        for k in range(d):
            nops = rng.choice([1, 1, 2]) if extra_ops else 1
            for e in range(nops):
                if k == 0 and e == 0 and rng.random() < 0.3 and d > 1:
                    continue        # some first steps consist of the initial value only
                # with extra_ops every one-operand operator may start a step (`~|>`, `~=>`, `~..m()`, `~<|`, `~<=`, `~!>`, `~??`, `~->`, `~?>`)
                op = rng.choice(['Map', 'AndThen', 'Map', 'AndThen', 'Dot', 'Or', 'OrElse', 'MapErr', 'Inspect', 'Then', 'Filter']) if extra_ops else 'Map'
                acts.append(Act(op, ['m%d_%d_%d()' % (b, k, e)] if op == 'Dot' else ['f%d_%d_%d' % (b, k, e)], deferred=(e == 0 and k > 0)))
            if k > 0 and not any(a.deferred for a in acts[-nops:]):
                acts[-nops].deferred = True
        # make sure each step boundary exists exactly d-1 times
        seen = sum(1 for a in acts if a.deferred)
        assert seen == d - 1, (profile, b, seen)
        let = None
        if b in lets:
            let = rng.choice(['x%d', 'mut x%d']) % b
        brs.append(Branch('v%d' % b, acts, let))
    h = handler_for(kind, len(profile), rng) if handler else None
    return Prog(kind, brs, h)


def family_profile(rng, nmax=4, dmax=4, kinds=KINDS, random_extra=0, per_profile=1):
    """All depth profiles with n<=nmax, d<=dmax for each kind (handler / lets chosen at random), plus
    random larger profiles."""
    out = []
    for p in all_profiles(nmax, dmax):
        for kind in kinds:
            for _ in range(per_profile):
                lets = [b for b in range(len(p)) if rng.random() < 0.3]
                out.append(profile_prog(kind, p, rng, handler=rng.random() < 0.5, lets=lets,
                                        extra_ops=rng.random() < 0.5))
    for _ in range(random_extra):
        n = rng.randint(5, 24)
        p = tuple(rng.randint(1, 6) for _ in range(n))
        kind = rng.choice(kinds)
        lets = [b for b in range(n) if rng.random() < 0.3]
        out.append(profile_prog(kind, p, rng, handler=rng.random() < 0.5, lets=lets, extra_ops=True))
    return out


# ----------------------------------------------------------------------------- typed programs with rule tables
# Types: ('Int',) | ('Opt', t) | ('Res', t).  Operands are calls of prelude functions of the run-time
# harness (harness/rt/prelude.rs); the same table, as Gallina `opinfo` terms, drives the model's world.

INT = ('Int',)


def ty_rust(t):
    if t[0] == 'Int':
        return 'i64'
    if t[0] == 'Pair':
        return '(i64, i64)'
    if t[0] == 'Opt':
        return 'Option<%s>' % ty_rust(t[1])
    return 'Result<%s, i64>' % ty_rust(t[1])


def val_rust(t, rng, fail=False):
    """(rust expr tokens, coq val)"""
    if t[0] == 'Int':
        z = rng.randint(0, 9)
        return ([str(z)], '(VInt %d)' % z)
    if t[0] == 'Pair':
        a, b = rng.randint(0, 9), rng.randint(0, 9)
        return (['(', str(a), ',', str(b), ')'], '(VTuple [VInt %d; VInt %d])' % (a, b))
    if t[0] == 'Opt':
        if fail:
            return (['None'], 'VNone')
        toks, cv = val_rust(t[1], rng)
        return (['Some', '('] + toks + [')'], '(VSome %s)' % cv)
    if fail:
        z = rng.randint(50, 59)
        return (['Err', '(', str(z), ')'], '(VErr (VInt %d))' % z)
    toks, cv = val_rust(t[1], rng)
    return (['Ok', '('] + toks + [')'], '(VOk %s)' % cv)


def cv_fn(t):
    full = ty_rust(t).replace('<', ' < ').replace('>', ' > ').replace(',', ' , ').split()
    return ['cv', ':', ':', '<'] + full + ['>']


class Table:
    def __init__(self):
        self.ops = []       # (tokens, id, coq rule, cap)
        self.next = 1
        self.where = {}     # id -> (branch, step)   (handler: branch -1, step = max)
        self.cur = (-1, -1)

    def new(self, mk):
        i = self.next
        self.next += 1
        toks, rule, cap = mk(i)
        self.ops.append((toks, i, rule, cap))
        for j in range(i, self.next):
            self.where[j] = self.cur
        return ' '.join(toks).replace(': :', '::').replace('= >', '=>')

    def coq(self):
        return '[' + '; '.join('mkOp [%s] %d %s %s' % ('; '.join('"%s"' % t.replace('"', '""') for t in toks), i, rule,
                                                         'true' if cap else 'false')
                               for (toks, i, rule, cap) in self.ops) + ']'


def Z(k):
    return '(%d)' % k if k < 0 else str(k)


def znum(k):
    return ['-', str(-k)] if k < 0 else [str(k)]


class TypedGen:
    """Generates sync-kind programs over Option/Result values."""

    def __init__(self, rng, kind, fail_rate=0.15, cap_rate=0.2, wrap_rate=0.25, boom_rate=0.0):
        self.rng, self.kind = rng, kind
        self.fail_rate, self.cap_rate, self.wrap_rate, self.boom_rate = fail_rate, cap_rate, wrap_rate, boom_rate
        self.booms = 0
        self.tab = Table()
        self.names = []         # let names in branch order
        self.step = 0

    # -- operand constructors (text)
    def call(self, fn, args_fn, rule_fn, blockable=True):
        blockable = blockable and not getattr(self, 'noblock', False)
        """operand `fn(id, args..)`; with probability cap_rate written as a capturing block."""
        rng = self.rng

        fn_toks = fn if isinstance(fn, list) else [fn]

        def mk(i):
            return (fn_toks + ['(', str(i)] + sum([[','] + a for a in args_fn], []) + [')'], rule_fn, False)
        if blockable and rng.random() < self.cap_rate:
            # { cap(ID, vec![..names..]); fn(ID2, ..) }
            inner = {}

            def mkcap(i):
                shown = []
                for nm in self.names:
                    if shown:
                        shown.append(',')
                    if self.step == 0:
                        shown += ['unbound', '(', '"%s"' % nm, ')']
                    else:
                        shown += ['named', '(', '"%s"' % nm, ',', '&', nm, ')']
                i2 = self.tab.next
                self.tab.next += 1
                toks = (['{', 'cap', '(', str(i), ',', 'vec', '!', '['] + shown + [']', ')', ';',
                         ] + fn_toks + ['(', str(i2)] + sum([[','] + a for a in args_fn], []) + [')', '}'])
                inner['i2'] = i2
                return (toks, 'KBLOCK %d' % i2, True)
            txt = self.tab.new(mkcap)
            # the block evaluates to the closure i2: register i2 so ECall finds its rule
            toks, i, _, cap = self.tab.ops[-1]
            self.tab.ops[-1] = (toks, i, '(KBlock %d)' % inner['i2'], True)
            self.tab.ops.append((['<inner>', str(inner['i2'])], inner['i2'], rule_fn, False))
            return txt
        return self.tab.new(mk)

    def op_for(self, t, inside_wrapper=False, depth=0):
        """choose an operator applicable to a receiver of type t; returns (Act list, new type)"""
        rng = self.rng
        cands = []
        if t[0] in ('Opt', 'Res'):
            inner = t[1]
            if inner == INT:
                cands += ['map', 'and_then']
                if t[0] == 'Opt':
                    cands += ['filter', 'or_else_opt']
                else:
                    cands += ['or_else_res']
            if t[0] == 'Res':
                cands += ['map_err']
            cands += ['or', 'then_id', 'inspect']
            if depth < 2 and rng.random() < self.wrap_rate:
                cands = ['wrap_map', 'wrap_and_then'] + (['wrap_filter'] if (t[0] == 'Opt' and inner == INT) else []) \
                        + ['wrap_inspect'] + (['wrap_map_err'] if t[0] == 'Res' else [])
        else:
            cands = ['then_add', 'then_id']
        c = rng.choice(cands)
        fr = self.fail_rate
        if self.boom_rate and self.booms == 0 and t[0] in ('Opt', 'Res') and t[1] == INT and rng.random() < self.boom_rate:
            self.booms += 1
            which = rng.choice(['map', 'and_then', 'or_expr', 'inspect'])
            if which == 'inspect':
                return [Act('Inspect', [self.call('boom_ins', [], 'KPanic', blockable=False)])], t
            if which == 'map':
                return [Act('Map', [self.call('boom_i', [], 'KPanic', blockable=False)])], t
            if which == 'and_then':
                return [Act('AndThen', [self.call('boom_o' if t[0] == 'Opt' else 'boom_r', [], 'KPanic', blockable=False)])], t
            full = ty_rust(t).replace('<', ' < ').replace('>', ' > ').replace(',', ' , ').split()
            return [Act('Or', [self.call(['boom_e', ':', ':', '<'] + full + ['>'], [], 'KPanicEval')])], t
        if c == 'map':
            k = rng.randint(1, 5)
            return [Act('Map', [self.call('add', [znum(k)], '(KAdd %d)' % k)])], t
        if c == 'and_then':
            m, r, k = rng.choice([2, 3, 5]), 0, rng.randint(1, 4)
            if rng.random() > fr * 3:
                m, r = 1000, 999
            if t[0] == 'Opt':
                return [Act('AndThen', [self.call('opt_if', [[str(m)], [str(r)], [str(k)]], '(KOptIf %d %d %d)' % (m, r, k))])], t
            e = rng.randint(60, 69)
            return [Act('AndThen', [self.call('res_if', [[str(m)], [str(r)], [str(k)], [str(e)]],
                                              '(KResIf %d %d %d %d)' % (m, r, k, e))])], t
        if c == 'filter':
            m, r = (rng.choice([2, 3]), 0) if rng.random() < fr * 3 else (1000, 999)
            return [Act('Filter', [self.call('pred', [[str(m)], [str(r)]], '(KPred %d %d)' % (m, r))])], t
        if c == 'or_else_opt':
            toks, cv = val_rust(t, rng, fail=rng.random() < fr)
            return [Act('OrElse', [self.call('or_else_opt', [toks], '(KOrElseOpt %s)' % cv)])], t
        if c == 'or_else_res':
            k = rng.choice([1, 2, -1])
            return [Act('OrElse', [self.call('or_else_res', [znum(k)], '(KOrElseRes %s)' % Z(k))])], t
        if c == 'map_err':
            k = rng.randint(1, 5)
            return [Act('MapErr', [self.call('add', [znum(k)], '(KAdd %d)' % k)])], t
        if c == 'or':
            toks, cv = val_rust(t, rng, fail=rng.random() < fr)
            return [Act('Or', [self.call(cv_fn(t), [toks], '(KConst %s)' % cv)])], t
        if c == 'then_id':
            return [Act('Then', [self.call('ident', [], 'KId')])], t
        if c == 'then_add':
            k = rng.randint(1, 5)
            return [Act('Then', [self.call('add', [znum(k)], '(KAdd %d)' % k)])], t
        if c == 'inspect':
            return [Act('Inspect', [self.call('ins', [], 'KUnit')])], t
        # wrappers: X >>> inner [<<<]
        inner_t = t[1]
        if c == 'wrap_map':
            acts, t2 = self.chain_ops(inner_t, rng.randint(0, 2), depth + 1, must_type=None)
            if acts is None:
                return [Act('Then', [self.call('ident', [], 'KId')])], t
            return [Act('Map', wrap=True)] + acts, (t[0], t2)
        if c == 'wrap_and_then':
            acts, t2 = self.chain_ops(inner_t, rng.randint(0, 2), depth + 1, must_family=t[0])
            if acts is None:
                return [Act('Then', [self.call('ident', [], 'KId')])], t
            return [Act('AndThen', wrap=True)] + acts, t2
        if c == 'wrap_map_err':
            acts, t2 = self.chain_ops(INT, rng.randint(0, 1), depth + 1, must_type=INT)
            return [Act('MapErr', wrap=True)] + acts, t
        if c == 'wrap_filter':
            m, r = (2, 0) if rng.random() < fr * 3 else (1000, 999)
            return [Act('Filter', wrap=True), Act('Then', [self.call('pred', [[str(m)], [str(r)]], '(KPred %d %d)' % (m, r))])], t
        if c == 'wrap_inspect':
            return [Act('Inspect', wrap=True), Act('Then', [self.call('ins', [], 'KUnit', blockable=False)])], t
        raise AssertionError(c)

    def chain_ops(self, t, nops, depth=0, must_type=None, must_family=None):
        """a sequence of operators starting at type t; inside wrappers (depth>0) the result must satisfy the
        constraints; returns (acts, type).  The caller decides whether to close with <<<."""
        acts = []
        for _ in range(nops):
            a, t = self.op_for(t, depth > 0, depth)
            if a is None:
                return None, None
            acts += a
            if a[0].wrap:
                # the wrapper stays open until closed explicitly; close it with probability 1/2 unless last
                if depth > 0 or self.rng.random() < 0.6:
                    acts.append(Act(None, unwrap=True))
                else:
                    break
        if must_type is not None and t != must_type:
            # coerce back: only used for Int -> Int, always true as then_add/then_id keep Int
            assert t == must_type, (t, must_type)
        if must_family is not None and (t[0] != must_family):
            # make the inner chain end in the family: Int -> Opt/Res through a call
            if t == INT:
                m, r, k = 1000, 999, self.rng.randint(1, 3)
                if must_family == 'Opt':
                    acts.append(Act('Then', [self.call('opt_if', [[str(m)], [str(r)], [str(k)]], '(KOptIf %d %d %d)' % (m, r, k))]))
                    t = ('Opt', INT)
                else:
                    e = self.rng.randint(60, 69)
                    acts.append(Act('Then', [self.call('res_if', [[str(m)], [str(r)], [str(k)], [str(e)]],
                                                       '(KResIf %d %d %d %d)' % (m, r, k, e))]))
                    t = ('Res', INT)
            else:
                # wrap a nested value of the other family: not expressible simply; keep inner empty instead
                return None, None
        return acts, t


MEET_GROUP = [0]


def typed_prog(rng, kind, profile, family=None, handler=None, lets=(), meet=False, joiner=None, iflike_rate=0.0, **kw):
    """A typed sync-kind program with the given depth profile.  family: 'Opt' | 'Res' for the step-end types."""
    is_try = kind[1] == '1'
    g = TypedGen(rng, kind, **kw)
    fam = family or rng.choice(['Opt', 'Res'])
    g.names = ['x%d' % b for b in range(len(profile)) if b in lets]
    brs = []
    types = []
    for b, d in enumerate(profile):
        t = (fam, INT) if (is_try or rng.random() < 0.8) else (rng.choice(['Opt', 'Res']), INT)
        if rng.random() < 0.25:
            t = (t[0], (rng.choice(['Opt', 'Res']), INT))
        brs.append(dict(t=t, acts=[], init=None))
    # steps are generated step-major so that capture blocks know which step they are in
    for k in range(max(profile)):
        g.step = k
        for b, d in enumerate(profile):
            if k >= d:
                continue
            br = brs[b]
            g.tab.cur = (b, k)
            if k == 0:
                toks, cv = val_rust(br['t'], rng, fail=rng.random() < g.fail_rate / 2)
                if iflike_rate and rng.random() < iflike_rate:
                    # a block-LIKE initial value (`if`, `match`, `unsafe`): NOT a `{..}` block, so it is evaluated where it stands (on the branch's thread)
                    def mk(i, toks=toks, t=br['t'], cv=cv):
                        call = cv_fn(t) + ['(', str(i), ','] + toks + [')']
                        shape = rng.choice(['if', 'match', 'unsafe'])
                        if shape == 'if':
                            return (['if', 'true', '{'] + call + ['}', 'else', '{'] + call + ['}'], '(KConst %s)' % cv, False)
                        if shape == 'match':
                            return (['match', '0', '{', '_', '=', '>'] + call + ['}'], '(KConst %s)' % cv, False)
                        return (['unsafe', '{'] + call + ['}'], '(KConst %s)' % cv, False)
                    br['init'] = g.tab.new(mk)
                else:
                    br['init'] = g.call(cv_fn(br['t']), [toks], '(KConst %s)' % cv)
            nops = rng.randint(0 if k == 0 else 1, 3)
            for attempt in range(20):
                save_ops, save_next = list(g.tab.ops), g.tab.next
                acts, t2 = g.chain_ops(br['t'], nops)
                if acts is not None and (not is_try or t2[0] == fam):
                    break
                g.tab.ops, g.tab.next = save_ops, save_next
            else:
                acts, t2 = [], br['t']
            if meet and sum(1 for d2 in profile if d2 > k) > 1:
                # every active branch of a multi-branch step first waits until all of them are inside their callbacks
                nact = sum(1 for d2 in profile if d2 > k)
                if b == min(b2 for b2, d2 in enumerate(profile) if d2 > k):
                    MEET_GROUP[0] += 1
                grp = MEET_GROUP[0]
                g.noblock = True
                acts = [Act('Then', [g.call('meet', [[str(grp)], [str(nact)]], 'KId')])] + acts
                g.noblock = False
            if k > 0:
                if not acts:
                    acts, t2 = g.chain_ops(br['t'], 1)
                    if acts is None or (is_try and t2[0] != fam):
                        acts, t2 = [Act('Then', [g.call('ident', [], 'KId')])], br['t']
                acts[0].deferred = True
            br['acts'] += acts
            br['t'] = t2
    branches = [Branch(br['init'], br['acts'], ('x%d' % b) if b in lets else None) for b, br in enumerate(brs)]
    h = None
    n = len(profile)
    g.tab.cur = (-1, max(profile))
    if handler:
        if handler == 'then':
            h = ('then', g.tab.new(lambda i: (['hd%d' % n, '(', str(i), ')'], 'KTuple', False)))
        elif handler == 'map':
            h = ('map', g.tab.new(lambda i: (['hd%d' % n, '(', str(i), ')'], 'KTuple', False)))
        else:
            wrapc = 'KTupleSome' if fam == 'Opt' else 'KTupleOk'
            fn = 'hd%d_some' % n if fam == 'Opt' else 'hd%d_ok' % n
            h = ('and_then', g.tab.new(lambda i: ([fn, '(', str(i), ')'], wrapc, False)))
    p = Prog(kind, branches, h)
    p.items = []
    if joiner:
        # a logging macro joiner: logs its own evaluation, evaluates the branches it is given (calling them when they are thunks),
        # logs the call with the values, returns the tuple
        jid = g.tab.new(lambda i: (['lj%d' % i, '!'], 'KTuple', False))
        i = g.tab.ops[-1][1]
        call = '($e)()' if joiner == 'lazy' else '$e'
        p.items.append('macro_rules! lj%d { ($($e:expr),*) => {{ log("E%d".to_string()); let t = ($(%s),*); log(format!("C%d{}", t.show())); t }} }' % (i, i, call, i))
        p.options = [('custom_joiner', 'lj%d!' % i)] + ([('lazy_branches', 'true')] if joiner == 'lazy' else [])
    p.table = g.tab
    p.types = [br['t'] for br in brs]
    p.fam = fam
    p.names = g.names
    return p


# ----------------------------------------------------------------------------- typed programs for the async kinds (ready futures)
def ty_toks(t):
    return ty_rust(t).replace('<', ' < ').replace('>', ' > ').replace(',', ' , ').replace('(', ' ( ').replace(')', ' ) ').split()


def typed_prog_async(rng, kind, profile, handler=None, lets=(), fail_rate=0.15, cap_rate=0.2, wrap_rate=0.2, boom_rate=0.0, generic_only=False):
    """A typed program for an async kind: every branch value is a (ready) future; operators are the futures-0.3 combinators
    the async macros rely on (map, and_then, inspect, or_else, map_err) plus wrappers over the future's output."""
    is_try = kind[1] == '1'
    g = TypedGen(rng, kind, fail_rate=fail_rate, cap_rate=cap_rate, wrap_rate=wrap_rate)
    g.names = ['x%d' % b for b in range(len(profile)) if b in lets]
    brs = []
    for b, d in enumerate(profile):
        t = ('Res', INT) if (is_try or rng.random() < 0.5) else rng.choice([('Opt', INT), INT])
        if generic_only:
            t = ('Res', ('Pair',))          # a tuple payload: a wrong `.N` projection compiles and silently truncates it
        brs.append(dict(t=t, acts=[], init=None))

    def one_op(t):
        if generic_only:                    # only operators whose operand is generic in the value type
            return [Act('Inspect', [g.call('ins', [], 'KUnit', blockable=False)])]
        cands = ['map', 'inspect']
        if t[0] == 'Res':
            cands += ['and_then', 'or_else', 'map_err']
        if t[0] in ('Opt', 'Res') and rng.random() < wrap_rate:
            cands = ['wrap_map', 'wrap_and_then']
        c = rng.choice(cands)
        T = ty_toks(t)
        if boom_rate and g.booms == 0 and rng.random() < boom_rate:
            g.booms += 1
            return [Act('Map', [g.call(['boom_w', ':', ':', '<'] + T + ['>'], [], 'KPanic', blockable=False)])]
        if c == 'map':
            k = rng.randint(1, 5)
            return [Act('Map', [g.call(['wadd', ':', ':', '<'] + T + ['>'], [znum(k)], '(KWAdd %d)' % k)])]
        if c == 'inspect':
            return [Act('Inspect', [g.call(['ins', ':', ':', '<'] + T + ['>'], [], 'KUnit', blockable=False)])]
        if c == 'and_then':
            m, r, k, e = (rng.choice([2, 3]), 0, rng.randint(1, 4), rng.randint(60, 69))
            if rng.random() > fail_rate * 3:
                m, r = 1000, 999
            return [Act('AndThen', [g.call('fres_if', [[str(m)], [str(r)], [str(k)], [str(e)]], '(KFut (KResIf %d %d %d %d))' % (m, r, k, e))])]
        if c == 'or_else':
            k = rng.choice([1, 2, -1])
            return [Act('OrElse', [g.call('for_else_res', [znum(k)], '(KFut (KOrElseRes %s))' % Z(k))])]
        if c == 'map_err':
            k = rng.randint(1, 5)
            return [Act('MapErr', [g.call('add', [znum(k)], '(KAdd %d)' % k)])]
        if c == 'wrap_map':
            k = rng.randint(1, 5)
            acts = [Act('Map', wrap=True), Act('Map', [g.call('add', [znum(k)], '(KAdd %d)' % k)])]
            if rng.random() < 0.6:
                acts.append(Act(None, unwrap=True))
            return acts
        if c == 'wrap_and_then':
            m, r, k = (2, 0, 1) if rng.random() < fail_rate * 2 else (1000, 999, rng.randint(1, 3))
            if t[0] == 'Opt':
                inner = Act('AndThen', [g.call('opt_if', [[str(m)], [str(r)], [str(k)]], '(KOptIf %d %d %d)' % (m, r, k))])
            else:
                e = rng.randint(60, 69)
                inner = Act('AndThen', [g.call('res_if', [[str(m)], [str(r)], [str(k)], [str(e)]], '(KResIf %d %d %d %d)' % (m, r, k, e))])
            acts = [Act('Map', wrap=True), inner]
            if rng.random() < 0.6:
                acts.append(Act(None, unwrap=True))
            return acts
        raise AssertionError(c)

    for k in range(max(profile)):
        g.step = k
        for b, d in enumerate(profile):
            if k >= d:
                continue
            br = brs[b]
            g.tab.cur = (b, k)
            if k == 0:
                toks, cv = val_rust(br['t'], rng, fail=rng.random() < fail_rate / 2) if br['t'] != INT else val_rust(INT, rng)
                g.noblock = True
                br['init'] = g.call(['fut', ':', ':', '<'] + ty_toks(br['t']) + ['>'], [toks], '(KConst (VFut %s))' % cv)
                g.noblock = False
            acts = []
            for _ in range(rng.randint(0 if k == 0 else 1, 3)):
                a = one_op(br['t'])
                acts += a
                if a[0].wrap and not a[-1].unwrap:
                    break                       # the wrapper stays open until the end of the step
            if k > 0:
                acts[0].deferred = True
            br['acts'] += acts
    branches = [Branch(br['init'], br['acts'], ('x%d' % b) if b in lets else None) for b, br in enumerate(brs)]
    n = len(profile)
    g.tab.cur = (-1, max(profile))
    h = None
    if handler == 'then':
        h = ('then', g.tab.new(lambda i: (['fhd%d' % n, '(', str(i), ')'], '(KFut KTuple)', False)))
    elif handler == 'map':
        h = ('map', g.tab.new(lambda i: (['hd%d' % n, '(', str(i), ')'], 'KTuple', False)))
    elif handler == 'and_then':
        h = ('and_then', g.tab.new(lambda i: (['fhd%d_ok' % n, '(', str(i), ')'], '(KFut KTupleOk)', False)))
    p = Prog(kind, branches, h)
    p.table = g.tab
    p.types = [br['t'] for br in brs]
    p.fam = 'Res'
    p.names = g.names
    return p
