"""Program families: abstract join programs, rendered as DSL text.  All random choices come from
one random.Random(seed)."""
import itertools, random

KINDS = ['000', '001', '010', '011', '100', '101', '110', '111']      # async try spawn
KIND_NAME = {'000': 'join', '001': 'join_spawn', '010': 'try_join', '011': 'try_join_spawn',
             '100': 'join_async', '101': 'join_async_spawn', '110': 'try_join_async',
             '111': 'try_join_async_spawn'}

# spelling, number of expr operands, kind of operand
OPS = {
    'Map': ('|>', 1), 'AndThen': ('=>', 1), 'Filter': ('?>', 1), 'Dot': ('..', 1), 'Dot2': ('>.', 1),
    'Then': ('->', 1), 'Or': ('<|', 1), 'OrElse': ('<=', 1), 'MapErr': ('!>', 1), 'Collect': ('=>[]', 0),
    'Chain': ('>@>', 1), 'FindMap': ('?|>@', 1), 'FilterMap': ('?|>', 1), 'Enumerate': ('|n>', 0),
    'Partition': ('?&!>', 1), 'Flatten': ('^^>', 0), 'Fold': ('^@', 2), 'TryFold': ('?^@', 2),
    'Find': ('?@', 1), 'Zip': ('>^>', 1), 'Unzip': ('<->', 0), 'Inspect': ('??', 1),
}
WRAPPERS = ['Map', 'AndThen', 'Filter', 'Inspect', 'FilterMap', 'Find', 'FindMap', 'Partition', 'OrElse', 'MapErr']


class Act:
    def __init__(self, op, operands=(), deferred=False, wrap=False, unwrap=False):
        self.op, self.operands, self.deferred, self.wrap, self.unwrap = op, list(operands), deferred, wrap, unwrap

    def render(self):
        t = '~' if self.deferred else ''
        if self.unwrap:
            return t + '<<<'
        sp = OPS[self.op][0]
        if self.wrap:
            return t + sp + ' >>>'
        return (t + sp + ' ' + ', '.join(self.operands)).rstrip()


class Branch:
    def __init__(self, init, acts=(), let=None):
        self.init, self.acts, self.let = init, list(acts), let

    def render(self):
        s = ('let %s = ' % self.let if self.let else '') + self.init
        for a in self.acts:
            s += ' ' + a.render()
        return s

    def depth(self):
        return 1 + sum(1 for a in self.acts if a.deferred)


class Prog:
    def __init__(self, kind, branches, handler=None, options=()):
        self.kind, self.branches, self.handler, self.options = kind, list(branches), handler, list(options)

    def render(self):
        s = ' '.join('%s(%s)' % (k, v) for (k, v) in self.options)
        if s:
            s += ' '
        s += ', '.join(b.render() for b in self.branches)
        if self.handler:
            s += ', %s => %s' % self.handler
        return s

    def profile(self):
        return tuple(b.depth() for b in self.branches)


def all_profiles(nmax, dmax):
    for n in range(1, nmax + 1):
        for p in itertools.product(range(1, dmax + 1), repeat=n):
            yield p


def handler_for(kind, n, rng, which=None):
    is_try = kind[1] == '1'
    hk = which or (rng.choice(['map', 'and_then']) if is_try else 'then')
    args = ', '.join('a%d' % i for i in range(n))
    return (hk, '|%s| h(%s)' % (args, args))


def profile_prog(kind, profile, rng, handler=False, lets=(), extra_ops=False):
    brs = []
    for b, d in enumerate(profile):
        acts = []
        for k in range(d):
            nops = rng.choice([1, 1, 2]) if extra_ops else 1
            for e in range(nops):
                if k == 0 and e == 0 and rng.random() < 0.3 and d > 1:
                    continue        # some first steps consist of the initial value only
                acts.append(Act(rng.choice(['Map', 'AndThen']) if extra_ops else 'Map',
                                ['f%d_%d_%d' % (b, k, e)], deferred=(e == 0 and k > 0)))
            if k > 0 and not any(a.deferred for a in acts[-nops:]):
                acts[-nops].deferred = True
        # make sure each step boundary exists exactly d-1 times
        seen = sum(1 for a in acts if a.deferred)
        assert seen == d - 1, (profile, b, seen)
        let = None
        if b in lets:
            let = rng.choice(['x%d', 'mut x%d']) % b
        brs.append(Branch('v%d' % b, acts, let))
    h = handler_for(kind, len(profile), rng) if handler else None
    return Prog(kind, brs, h)


def family_profile(rng, nmax=4, dmax=4, kinds=KINDS, random_extra=0, per_profile=1):
    """All depth profiles with n<=nmax, d<=dmax for each kind (handler / lets chosen at random), plus
    random larger profiles."""
    out = []
    for p in all_profiles(nmax, dmax):
        for kind in kinds:
            for _ in range(per_profile):
                lets = [b for b in range(len(p)) if rng.random() < 0.3]
                out.append(profile_prog(kind, p, rng, handler=rng.random() < 0.5, lets=lets,
                                        extra_ops=rng.random() < 0.5))
    for _ in range(random_extra):
        n = rng.randint(5, 24)
        p = tuple(rng.randint(1, 6) for _ in range(n))
        kind = rng.choice(kinds)
        lets = [b for b in range(n) if rng.random() < 0.3]
        out.append(profile_prog(kind, p, rng, handler=rng.random() < 0.5, lets=lets, extra_ops=True))
    return out
