"""C01, the DOCUMENTED operator table: README.md (and the crate documentation in join/src/lib.rs, which repeats it) say, operator by operator,
`join! { value OP expr }; // => value.METHOD(expr)`.  This translator extracts those lines from /repo on every run and compares them INSIDE Coq with
the model's tables: the operator spelling must be a row of Parse.determiners and the row's combinator must have Spec.doc_method = METHOD
(member access and call-with-value have the empty method name), and every method of Spec.doc_method must be documented.
What the model's tables have to do with the code is correspondence A / P; this check is the tie to the documentation the property speaks of."""
import os, re
import jv

FILES = ['README.md', os.path.join('join', 'src', 'lib.rs')]
LINE = re.compile(r'^(?://!\s?)?\s*(\w+)!\s*\{\s*value\s+(\S+)(?:\s+([^}]*?))?\s*\}\s*;?\s*//\s*=>\s*(.*?)\s*$')


def extract(path):
    """-> list of (operator spelling, documented method or '' for member access / call, source line)"""
    out, skipped = [], []
    for ln in open(path, encoding='utf-8', errors='replace'):
        m = LINE.match(ln.rstrip('\n'))
        if not m:
            continue
        mac, op, operand, rhs = m.group(1), m.group(2), (m.group(3) or '').strip(), m.group(4)
        if op in ('>>>', '<<<') or '>>>' in ln.split('//')[0]:
            continue                                   # wrapper examples: not rows of the operator table
        mm = re.match(r'value\.(\w+)(?:::<[^()]*>)?\(', rhs)
        if operand and rhs.replace(' ', '') == ('value.' + operand).replace(' ', ''):
            out.append((op, '', ln.strip()))           # `..` / `>.`: member access, `value OP m()` => `value.m()`
        elif mm:
            out.append((op, mm.group(1), ln.strip()))
        elif re.match(r'value\.expr\b', rhs):
            out.append((op, '', ln.strip()))           # `..` / `>.`: member access
        elif re.match(r'expr\(value\)', rhs):
            out.append((op, '', ln.strip()))           # `->`: call with the value
        else:
            skipped.append(ln.strip())                 # sync `??`: described by a lambda, not by a method
    return out, skipped


HEADER = '''From Coq Require Import NArith List String.
From Join Require Import Tok Ast Parse Spec.
Import ListNotations.
Open Scope string_scope.
Definition pat_string (p : list tmatch) : string :=
  String.concat "" (map (fun m => match m with MP c => c | MJ c => c | MI s => s | MBracket => "[]" end) p).
Definition doc_ok (sp m : string) : bool :=
  existsb (fun d => match d_comb d with
                    | Some c => existsb (fun p => String.eqb (pat_string p) sp) (d_pats d) && String.eqb (doc_method c) m
                    | None => false end) determiners.
Definition documented (ms : list string) (c : comb) : bool :=
  String.eqb (doc_method c) "" || existsb (String.eqb (doc_method c)) ms.
Definition all_combs : list comb :=
  [Map; Dot; Filter; Inspect; Then; AndThen; Or; OrElse; MapErr; Initial; Chain; Flatten; Collect; Enumerate; Find; Fold; TryFold; Unzip; Zip;
   Partition; FilterMap; FindMap].
'''


def check_doc_table(rep):
    rows, skipped, per_file = [], [], {}
    for f in FILES:
        r, s = extract(os.path.join(jv.REPO, f))
        per_file[f] = len(r)
        rows += [(op, m, '%s: %s' % (f, ln)) for (op, m, ln) in r]
        skipped += s
    uniq = sorted(set((op, m) for (op, m, _) in rows))
    tab = '[' + '; '.join('(%s, %s)' % (jv.cs(op), jv.cs(m)) for (op, m) in uniq) + ']'
    meths = '[' + '; '.join(jv.cs(m) for m in sorted(set(m for (_, m) in uniq if m))) + ']'
    items = [('', 'N.of_nat (List.length (filter (fun x => negb (doc_ok (fst x) (snd x))) %s))' % tab),
             ('', 'N.of_nat (List.length (filter (fun c => negb (documented %s c)) all_combs))' % meths)]
    items += [('', 'if doc_ok %s %s then 0%%N else 1%%N' % (jv.cs(op), jv.cs(m))) for (op, m) in uniq]
    vals = jv.run_coq_shards(items, header=HEADER, tag='D', per_shard=1000)
    bad_rows = [uniq[i] for i, v in enumerate(vals[2:]) if v]
    rep['families']['documented operator table'] = {'rows_per_file': per_file, 'distinct_rows': len(uniq), 'rows_not_in_model': vals[0],
                                                    'model_methods_not_documented': vals[1], 'lines_described_without_a_method': len(skipped)}
    rep['A_cases'] += len(uniq)
    rep['samples'].append({'stage': 'doc-table', 'row': list(uniq[0]) if uniq else None})
    if len(uniq) < 20:
        rep['A_diffs'].append({'family': 'doc-table', 'kind': '-', 'text': 'README.md', 'code': len(uniq), 'status': 'fewer than 20 operator rows could be extracted from the documentation'})
    for (op, m) in bad_rows:
        src = [s for (o, mm, s) in rows if (o, mm) == (op, m)][0]
        rep['A_diffs'].append({'family': 'doc-table', 'kind': '-', 'text': src, 'code': 1, 'status': 'diff'})
        rep['witnesses'].append({'macro': 'join', 'dsl': 'value %s expr' % op,
                                 'why': 'the documentation (%s) says this operator means `.%s(..)`; the model of the code (Parse.determiners / Spec.doc_method, tied to the code by correspondences A and P) says otherwise' % (src, m)})
    if vals[1]:
        rep['A_diffs'].append({'family': 'doc-table', 'kind': '-', 'text': 'README.md', 'code': vals[1], 'status': 'a method of the model is not documented'})


if __name__ == '__main__':
    rep = {'families': {}, 'A_cases': 0, 'A_diffs': [], 'witnesses': [], 'samples': []}
    check_doc_table(rep)
    import json
    print(json.dumps(rep, indent=1))
