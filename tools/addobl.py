#!/usr/bin/env python3
"""addobl.py <ID> <obligation name> <module> <theorem> ["comment"] : appends to the hand-written coq/Properties/<ID>.v an obligation whose
FULL statement is printed by coqc with fully qualified names (nothing imported), closed by `exact`."""
import sys, re, subprocess
pid, name, mod, thm = sys.argv[1:5]
com = sys.argv[5] if len(sys.argv) > 5 else ''
COQ = '/verif/coq'
q = '/tmp/addobl.v'
open(q, 'w').write('From Join Require %s.\nSet Printing Width 110.\nCheck @%s.%s.\n' % (mod, mod, thm))
out = subprocess.run('coqc -Q %s/theories Join %s' % (COQ, q), shell=True, stdout=subprocess.PIPE, stderr=subprocess.STDOUT, text=True).stdout
ty = out.split('\n     : ', 1)[1].rstrip()
ty = re.sub(r'(?<![.\w])length\b', 'Datatypes.length', ty)
ty = '\n'.join('  ' + (l[7:] if l.startswith('       ') else l.strip()) for l in ty.splitlines())
p = '%s/Properties/%s.v' % (COQ, pid)
s = open(p).read()
if ('OBLIGATION %s ' % name) in s:
    print('already there'); sys.exit(0)
req = 'From Join Require %s.' % mod
if req not in s:
    s = re.sub(r'^(From Join Require Import [^\n]*\.)$', lambda m: m.group(1) + '\n' + req, s, count=1, flags=re.M)
s = s.rstrip('\n') + '\n\n(* OBLIGATION %s *)\n%sTheorem %s :\n%s.\nProof. exact (@%s.%s). Qed.\nPrint Assumptions %s.\n' % (
    name, ('(* %s *)\n' % com) if com else '', name, ty, mod, thm, name)
open(p, 'w').write(s)
print('added', name)
