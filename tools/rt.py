"""Correspondence B: compile generated macro invocations against /repo/join and run them."""
import os, re, subprocess, shutil, hashlib
import jv, gen

RT = os.path.join(jv.VERIF, 'harness', 'rt')


def render_bin(cases, async_rt=False):
    """cases: list of (id, macro_name, dsl_text, mode) ; returns (source, line->case map)"""
    lines = ['#![allow(unused_imports, unused_variables, unused_mut, unused_parens, unused_braces, dead_code, unreachable_code, unused_must_use, redundant_semicolons, clippy::all)]',
             '#[path = "../prelude.rs"]', 'mod prelude;', 'use prelude::*;', 'use join::*;', '']
    linemap = {}
    for case in cases:
        (cid, mac, text, mode) = case[:4]
        for it in (case[4] if len(case) > 4 else []):
            lines.append(it)
        start = len(lines) + 1
        lines.append('fn case_%s() {' % cid)
        if mode == 'sync':
            lines.append('    run_case("%s", || {' % cid)
            lines.append('        (%s! { %s }).show()' % (mac, text))
            lines.append('    });')
        elif mode == 'sync-unnamed':
            lines.append('    run_case_unnamed("%s", || {' % cid)
            lines.append('        (%s! { %s }).show()' % (mac, text))
            lines.append('    });')
        elif mode == 'async':
            lines.append('    run_case("%s", || {' % cid)
            lines.append('        let fut = %s! { %s };' % (mac, text))
            lines.append('        log("POLL".to_string());')
            lines.append('        block_on_rt(fut).show()')
            lines.append('    });')
        lines.append('}')
        for ln in range(start, len(lines) + 1):
            linemap[ln] = cid
    lines.append('fn main() {')
    lines.append('    std::panic::set_hook(Box::new(|_| {}));')
    for case in cases:
        lines.append('    case_%s();' % case[0])
    lines.append('}')
    return '\n'.join(lines) + '\n', linemap


def build_and_run(name, cases, timeout=900):
    """Returns (results: id -> (result, [log entries]), compile_failures: id -> message)."""
    os.makedirs(os.path.join(RT, 'src', 'bin'), exist_ok=True)
    shutil.copyfile(os.path.join(jv.REPO, 'Cargo.lock'), os.path.join(RT, 'Cargo.lock'))
    failures = {}
    cases = list(cases)
    for attempt in range(4):
        src, linemap = render_bin(cases)
        path = os.path.join(RT, 'src', 'bin', name + '.rs')
        with open(path, 'w') as fh:
            fh.write(src)
        p = jv.sh('cargo build --offline --release --bin %s --message-format short 2>&1' % name, cwd=RT, check=False,
                  timeout=timeout)
        if p.returncode == 0:
            break
        bad = {}
        for m in re.finditer(r'src/bin/%s\.rs:(\d+):\d+: error(.*)' % re.escape(name), p.stdout):
            cid = linemap.get(int(m.group(1)))
            if cid:
                bad.setdefault(cid, m.group(2).strip()[:300])
        if not bad:
            raise RuntimeError('rt build failed:\n' + p.stdout[-3000:])
        failures.update(bad)
        cases = [c for c in cases if c[0] not in bad]
    else:
        raise RuntimeError('rt build keeps failing')
    exe = os.path.join(jv.TARGET, 'release', name)
    p = subprocess.run([exe], stdout=subprocess.PIPE, stderr=subprocess.PIPE, text=True, timeout=timeout)
    res = {}
    for line in p.stdout.splitlines():
        if line.startswith('CASE\t'):
            _, cid, r, lg = (line.split('\t') + [''])[:4]
            res[cid] = (r, lg.split(' ') if lg else [])
    os.unlink(path)
    return res, failures
