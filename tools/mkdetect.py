#!/usr/bin/env python3
"""Writes the detection table (seeded changes x checks) into DESIGN.md between the markers, from seeded/*/meta.json."""
import json, os, re, subprocess
V = '/verif'
rows = []
for d in sorted(os.listdir(os.path.join(V, 'seeded'))):
    m = json.load(open(os.path.join(V, 'seeded', d, 'meta.json')))
    patch = open(os.path.join(V, 'seeded', d, 'patch.diff')).read()
    files = sorted(set(re.findall(r'^\+\+\+ b/(\S+)', patch, flags=re.M)))
    notes = open(os.path.join(V, 'seeded', d, 'NOTES.md')).read()
    first = next((l.strip('# ').strip() for l in notes.splitlines() if l.strip() and not l.startswith('```')), '')
    det = []
    for p, o in sorted(m.get('detected_by', {}).items()):
        kind = 'concrete failing input' if o.get('witness') else ('no-failing-input-found' if o.get('line') else 'NOT DETECTED')
        det.append('%s: exit %s, %s (%ss)' % (p, o['exit'], kind, o['wall_s']))
    rows.append('| %s | %s | %s | %s | %s |' % (m['id'], m['breaks_property'], ', '.join(os.path.basename(f) for f in files), first[:110].replace('|', '/'), '; '.join(det)))
table = ('| seeded change | breaks | files | what (first line of its NOTES.md) | detected by (quick tier, current tree) |\n|---|---|---|---|---|\n' + '\n'.join(rows))
p = os.path.join(V, 'DESIGN.md')
s = open(p).read()
a, b = '<!-- DETECT:BEGIN -->', '<!-- DETECT:END -->'
if a in s:
    s = s[:s.index(a) + len(a)] + '\n' + table + '\n' + s[s.index(b):]
    open(p, 'w').write(s)
print(len(rows), 'rows')
