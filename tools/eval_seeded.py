#!/usr/bin/env python3
"""eval_seeded.py [ids...] : applies each seeded change to /repo, runs the check of the property it breaks, reverts, records the outcome
in seeded/<id>/meta.json (detected_by) and prints a table.  /repo must be clean before and is clean after."""
import sys, os, json, subprocess, time, re
V = '/verif'
ids = sys.argv[1:] or sorted(os.listdir(os.path.join(V, 'seeded')))
extra = {}   # id -> additional properties to run


def sh(cmd, **kw):
    return subprocess.run(cmd, shell=True, stdout=subprocess.PIPE, stderr=subprocess.STDOUT, text=True, **kw)


assert sh('git -C /repo status --porcelain').stdout.strip() == '', '/repo not clean'
rows = []
for i in ids:
    d = os.path.join(V, 'seeded', i)
    meta = json.load(open(os.path.join(d, 'meta.json')))
    pid = meta['breaks_property']
    props = [pid] + [p for p in os.environ.get('ALSO', '').split(',') if p]
    a = sh('git -C /repo apply %s/patch.diff' % d)
    if a.returncode != 0:
        rows.append((i, pid, 'patch does not apply', ''))
        continue
    try:
        for p in props:
            t0 = time.time()
            r = sh('cd %s && ./check %s --tier quick' % (V, p), timeout=3600)
            m = re.search(r'^VIOLATION .*$', r.stdout, flags=re.M)
            w = re.search(r'^  witness: (.*)$', r.stdout, flags=re.M)
            outcome = {'exit': r.returncode, 'line': m.group(0) if m else None, 'witness': (w.group(1)[:400] if w else None), 'wall_s': round(time.time() - t0, 1)}
            meta.setdefault('detected_by', {})[p] = outcome
            rows.append((i, p, 'exit %d' % r.returncode, (m.group(0) if m else r.stdout[-200:]).replace(V, '')[:150]))
    finally:
        sh('git -C /repo checkout -- .')
    json.dump(meta, open(os.path.join(d, 'meta.json'), 'w'), indent=1)
for r in rows:
    print('%-14s %-4s %-8s %s' % r)
assert sh('git -C /repo status --porcelain').stdout.strip() == ''
