#!/usr/bin/env python3
"""Regenerates /verif/MANIFEST.json from tools/props.py (claimed properties = those with a Properties/<ID>.v file)."""
import json, os, sys
sys.path.insert(0, os.path.dirname(os.path.abspath(__file__)))
import props
V = '/verif'
all_props = [json.loads(l) for l in open(os.path.join(V, 'properties.jsonl'))]
claimed = [p['id'] for p in all_props if p['id'] in props.PROPS and os.path.exists(os.path.join(V, 'coq', 'Properties', p['id'] + '.v'))
           and p['id'] not in props.NOT_CLAIMED]
m = {
    "version": 1,
    "setup_cmd": "./setup.sh",
    "hooks": {"guard": "join_verif",
              "enable": "no hooks exist: the harnesses link /repo/join_impl and /repo/join by path and use public items only (RUSTFLAGS=\"--cfg join_verif\" is reserved, no source line tests it)",
              "baseline_off_cmd": "cd /repo && cargo test --workspace --no-fail-fast --offline --lib --tests",
              "source_commits": [], "add_only": True},
    "engines": [{"name": "rocq-model+correspondence", "path": "/verif/check", "serves_properties": claimed,
                 "kind_free_text": "Coq 8.16 development (generator model Gen.v/Print.v, reference semantics Spec.v / SpecOpts.v, parser model Parse.v, thread machine Threads.v, poll machine Async.v) with the property theorems in coq/Properties; tied to /repo's working tree on every run by correspondence checks: A expansion token-for-token, P parse trees, B compiled macro invocations with instrumented operands, B4 async macros under a deterministic executor"}],
    "checks": [], "not_applicable": [],
    "notes": "Five genuine defects were found and repaired by unguarded `fix:` commits in /repo (see known_findings.json, DESIGN.md sections 5 and 11.4). ./check <ID> --dev-skip-proofs is a development aid, never registered."
}
for p in all_props:
    i = p['id']
    if i in claimed:
        P = props.PROPS[i]
        m['checks'].append({
            "property_id": i, "quick_cmd": "./check %s --tier quick" % i, "thorough_cmd": "./check %s --tier thorough" % i,
            "evidence_file": "/verif/evidence/%s.json" % i, "replay_cmd_template": "./check %s --replay {path}" % i,
            "engine": "rocq-model+correspondence",
            "level_claimed": {"category": P['level'], "text": P.get('claim', props.DEFAULT_CLAIM), "design_ref": "DESIGN.md section 6 (%s) and section 11" % i},
            "level_note": P.get('note', props.DEFAULT_NOTE),
            "technique": P.get('technique', "machine-checked proof in Rocq (Coq 8.16.1) of theorems about a hand-written Gallina model + correspondence check model vs implementation on every run")})
    else:
        m['not_applicable'].append({"property_id": i, "reason": props.NOT_CLAIMED.get(i, "check not yet registered in this session: its theorem file / correspondence families are still under construction")})
json.dump(m, open(os.path.join(V, 'MANIFEST.json'), 'w'), indent=1)
print('claimed:', claimed)
