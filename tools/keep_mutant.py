#!/usr/bin/env python3
"""keep_mutant.py <ID> <mN> : copy a confirmed seeded change into /verif/seeded/<ID>-<mN>/ with meta.json"""
import sys, os, json, shutil
pid, m = sys.argv[1], sys.argv[2]
pre = os.environ.get('MUTPREFIX', 'mut')
suffix = os.environ.get('MUTSUFFIX', '')
src = '/tmp/%s-%s-out/%s' % (pre, pid, m)
conf = json.load(open(os.path.join(src, 'confirm.json')))
assert conf['applies'] and conf['suite_exit'] == 0 and conf['suite_passed'] == 80 and conf['demo_clean_exit'] == 0 and conf['demo_patched_exit'] != 0, conf
dst = '/verif/seeded/%s-%s%s' % (pid, m, suffix)
os.makedirs(dst, exist_ok=True)
for f in ('patch.diff', 'demo.rs', 'NOTES.md'):
    shutil.copy(os.path.join(src, f), os.path.join(dst, f))
notes = open(os.path.join(src, 'NOTES.md')).read()
meta = {'id': '%s-%s%s' % (pid, m, suffix), 'breaks_property': pid,
        'needs_to_manifest': 'see NOTES.md (written by the sub-agent that produced the change)',
        'confirmed_by': 'tools/confirm_mutant.sh in a scratch worktree: git apply --check; cargo test --workspace --lib --tests (80 passed, 0 failed) with the patch; '
                        'demo.rs as join/tests/verif_demo.rs passes on the clean tree and fails with the patch',
        'confirmation': conf, 'detected_by': {}}
json.dump(meta, open(os.path.join(dst, 'meta.json'), 'w'), indent=1)
print(dst)
