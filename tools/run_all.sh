#!/bin/bash
# runs every registered check once (tier $1, default quick) on the current tree and prints one line per property
tier=${1:-quick}
cd /verif
for id in $(python3 -c "import json; print(' '.join(c['property_id'] for c in json.load(open('MANIFEST.json'))['checks']))"); do
  s=$(date +%s)
  out=$(./check $id --tier $tier 2>&1); code=$?
  echo "$id exit=$code $(( $(date +%s) - s ))s :: $(echo "$out" | grep -E '^(OK|VIOLATION|KNOWN-FINDING|MACHINERY)' | head -2 | tr '\n' ' ' | cut -c1-200)"
done
