#!/bin/bash
# confirm_mutant.sh <ID> <mN>: in the scratch worktree /tmp/mut-<ID>: patch applies, suite passes with the patch,
# demo fails with the patch and passes without.  Writes /tmp/mut-<ID>-out/<mN>/confirm.json
id=$1; m=$2; pre=${MUTPREFIX:-mut}; wt=/tmp/$pre-$id; out=/tmp/$pre-$id-out/$m
export CARGO_NET_OFFLINE=true
cd $wt || exit 2
git checkout -q -- . ; git clean -qfd -e target
git apply --check $out/patch.diff || { echo "{\"applies\": false}" > $out/confirm.json; exit 1; }
cp $out/demo.rs join/tests/verif_demo.rs
timeout 1200 cargo test --offline -p join --test verif_demo > $out/c_demo_clean.log 2>&1; demo_clean=$?
rm -f join/tests/verif_demo.rs
git apply $out/patch.diff
timeout 2400 cargo test --workspace --no-fail-fast --offline --lib --tests > $out/c_suite.log 2>&1; suite=$?
cp $out/demo.rs join/tests/verif_demo.rs
timeout 1200 cargo test --offline -p join --test verif_demo > $out/c_demo_patched.log 2>&1; demo_patched=$?
passed=$(grep -h "^test result" $out/c_suite.log | awk '{s+=$4} END {print s}')
failed=$(grep -h "^test result" $out/c_suite.log | awk '{s+=$6} END {print s}')
rm -f join/tests/verif_demo.rs; git checkout -q -- . ; git clean -qfd -e target
echo "{\"applies\": true, \"suite_exit\": $suite, \"suite_passed\": ${passed:-0}, \"suite_failed\": ${failed:-0}, \"demo_clean_exit\": $demo_clean, \"demo_patched_exit\": $demo_patched}" > $out/confirm.json
cat $out/confirm.json
