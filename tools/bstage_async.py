"""Correspondence B4 (async): the poll-level machine Join.Async vs. the REAL async macros.

corr_B4(seed, n_programs, tier) generates program shapes (1-4 branches, depth profiles up to 3,
0-2 gates per branch-step at varied positions, failing leaves at chosen (branch, step)
positions, the four macro kinds and the two aliases) and action lists (all permutations of the
flips for <= 4 gates with polls interleaved, random beyond; batches of flips before one poll;
spurious polls / task runs), renders

  (i)  /verif/harness/asyncrt/src/cases.rs  -- one real macro invocation per program, one
       `run(name, prog, actions)` per action list -- built with cargo and executed, and
  (ii) /verif/.cache/work/cases_async_*.v   -- `Eval vm_compute in (run_shape p acts)` per run,

and compares the two observation sequences EXACTLY (see prelude.rs for the token language).

The only semantics on the python side is `derive_script`: which atoms of a generated chain
execute (an `and_then` element is skipped once the chain's value is Err).  Everything about
polling, waking, ordering and completion comes from Coq on one side and from rustc + futures
+ tokio on the other.
"""
import fcntl, itertools, os, random, re, shutil, subprocess, sys, time
from concurrent.futures import ThreadPoolExecutor

VERIF = '/verif'
REPO = '/repo'
CRATE = os.path.join(VERIF, 'harness', 'asyncrt')
TARGET = os.path.join(VERIF, '.cache', 'target-asyncrt')
WORK = os.path.join(VERIF, '.cache', 'work')
THEORIES = os.environ.get('BSTAGE_ASYNC_THEORIES', os.path.join(VERIF, 'coq', 'theories'))  # override: mutation tests of the model
EXE = os.path.join(TARGET, 'release', 'asyncrt')
ENV = dict(os.environ, CARGO_NET_OFFLINE='true', CARGO_TARGET_DIR=TARGET)
NSHARD = 8

MACROS = {  # (try, spawn) -> names (the aliases included)
    (False, False): ['join_async'],
    (True, False): ['try_join_async'],
    (False, True): ['join_async_spawn', 'async_spawn'],
    (True, True): ['try_join_async_spawn', 'try_async_spawn'],
}


# ----------------------------------------------------------------------------- programs

class Program:
    """branches[b] = list over steps k of element lists; an element is a tuple:
       ('init',) ('gti', g) ('evm', e) ('evi', e) ('eva', e) ('gta', g) ('gtt', g) ('fla',) ('flm',)"""

    def __init__(self, pid, is_try, is_spawn, macro, branches):
        self.pid, self.is_try, self.is_spawn, self.macro, self.branches = pid, is_try, is_spawn, macro, branches

    @property
    def nsteps(self):
        return max(len(b) for b in self.branches)

    def gates(self):
        gs = []
        for br in self.branches:
            for st in br:
                for el in st:
                    if el[0] in ('gti', 'gta', 'gtt') and el[1] not in gs:
                        gs.append(el[1])
        return gs

    # -- the shape given to the model -------------------------------------------------
    def derive_scripts(self):
        """-> steps: list over k of list of (b, script, ok); script = list of ('E', e) | ('G', g).
        An and_then element (eva, gta, fla) runs only while the chain's value is Ok."""
        per_branch = []
        for b, br in enumerate(self.branches):
            ok = True
            rows = []
            for k, st in enumerate(br):
                script = []
                for el in st:
                    t = el[0]
                    if t == 'init':
                        pass
                    elif t in ('gti', 'gtt'):
                        script.append(('G', el[1]))
                    elif t in ('evm', 'evi'):
                        script.append(('E', el[1]))
                    elif t == 'eva':
                        if ok:
                            script.append(('E', el[1]))
                    elif t == 'gta':
                        if ok:
                            script.append(('G', el[1]))
                    elif t in ('fla', 'flm'):
                        ok = False
                    else:
                        raise ValueError(t)
                rows.append((b, script, ok))
            per_branch.append(rows)
        steps = []
        for k in range(self.nsteps):
            steps.append([rows[k] for rows in per_branch if k < len(rows)])
        return steps

    def n_fail(self):
        return sum(1 for br in self.branches for st in br for el in st if el[0] in ('fla', 'flm'))

    # -- Rust -------------------------------------------------------------------------
    def rust_text(self):
        brs = []
        for b, br in enumerate(self.branches):
            parts = []
            for k, st in enumerate(br):
                els = []
                for el in st:
                    t = el[0]
                    if t == 'init':
                        els.append('init(%d)' % b)
                    elif t == 'gti':
                        els.append('gti(%d,%d,%d)' % (k, b, el[1]))
                    elif t == 'evm':
                        els.append('|> evm(%d,%d,%d)' % (k, b, el[1]))
                    elif t == 'evi':
                        els.append('?? evi(%d,%d,%d)' % (k, b, el[1]))
                    elif t == 'eva':
                        els.append('=> eva(%d,%d,%d)' % (k, b, el[1]))
                    elif t == 'gta':
                        els.append('=> gta(%d,%d,%d)' % (k, b, el[1]))
                    elif t == 'gtt':
                        els.append('..then(gtt(%d,%d,%d))' % (k, b, el[1]))
                    elif t == 'fla':
                        els.append('=> fla(%d,%d)' % (k, b))
                    elif t == 'flm':
                        els.append('|> flm(%d,%d)' % (k, b))
                els.append('|> fin(%d,%d)' % (k, b))
                els.append('..traced(%d,%d)' % (k, b))
                if k > 0:
                    els[0] = '~' + els[0]
                parts.append(' '.join(els))
            brs.append(' '.join(parts))
        return '%s! { %s }' % (self.macro, ', '.join(brs))

    def rust_fn(self):
        show = 'show_try' if self.is_try else 'show_plain'
        return ('fn prog_%d() -> RootFut {\n    let f = %s;\n    Box::pin(f.map(%s))\n}\n'
                % (self.pid, self.rust_text(), show))

    # -- Coq --------------------------------------------------------------------------
    def coq_shape(self):
        def atom(a):
            return ('AEv %d%%N' if a[0] == 'E' else 'AGate %d%%N') % a[1]
        steps = []
        for st in self.derive_scripts():
            steps.append('[' + '; '.join('mkBstep %d [%s] %s' % (b, '; '.join(atom(a) for a in sc), 'true' if ok else 'false')
                                         for (b, sc, ok) in st) + ']')
        return 'mkShape %s %s [%s]' % ('true' if self.is_try else 'false', 'true' if self.is_spawn else 'false',
                                       '; '.join(steps))


def gen_program(rng, pid, kind=None):
    is_try, is_spawn = kind if kind is not None else (rng.random() < 0.55, rng.random() < 0.5)
    macro = rng.choice(MACROS[(is_try, is_spawn)])
    n = rng.choice([1, 2, 2, 3, 3, 3, 4, 4])
    density = rng.choice([0.25, 0.5, 0.8])           # how many gates
    share = rng.choice([0.0, 0.0, 0.15, 0.4])        # probability that a gate id is reused
    pfail = rng.choice([0.0, 0.15, 0.35]) if is_try else rng.choice([0.0, 0.0, 0.2])
    next_gate, next_ev = [1], [10]
    used = []

    def gate():
        if used and rng.random() < share:
            return rng.choice(used)
        g = next_gate[0]
        next_gate[0] += 1
        used.append(g)
        return g

    def ev():
        next_ev[0] += 1
        return next_ev[0]

    deep = (pid % 12 == 11)                          # every 12th program has a branch with 9-12 steps (few atoms per step)
    if deep:
        n = rng.choice([1, 2, 2, 3])
        density = 0.25
    branches = []
    for b in range(n):
        depth = rng.choice([1, 2, 2, 3, 3])
        if deep and b == n - 1:
            depth = rng.randint(9, 12)
        br = []
        for k in range(depth):
            ngates = 0
            if rng.random() < density:
                ngates = 1
                if rng.random() < density * 0.6:
                    ngates = 2
            nev = rng.choice([0, 1, 1, 2, 3]) if not deep else rng.choice([1, 1, 2])
            body = ['g'] * ngates + ['e'] * nev
            rng.shuffle(body)                        # gates at varied positions
            if rng.random() < pfail:
                body.insert(rng.randrange(len(body) + 1), 'f')
            els = []
            if k == 0:
                if body and body[0] == 'g':
                    els.append(('gti', gate()))      # the branch's initial expression is a gate future
                    body = body[1:]
                else:
                    els.append(('init',))
            for idx, x in enumerate(body):
                at_step_start = (k > 0 and idx == 0)  # must be an operator that accepts the `~` prefix
                if x == 'g':
                    t = 'gta' if (at_step_start or rng.random() < 0.6) else 'gtt'
                    els.append((t, gate()))
                elif x == 'e':
                    els.append((rng.choice(['evm', 'evi', 'eva']), ev()))
                else:
                    els.append((rng.choice(['fla', 'flm']),))
            br.append(els)
        branches.append(br)
    return Program(pid, is_try, is_spawn, macro, branches)


# ----------------------------------------------------------------------------- action lists

def rounds(rng, spawn, style):
    """what the executor does after a batch of flips"""
    if not spawn:
        return {'min': ['P'], 'spur': ['P'] * rng.choice([1, 2, 3]), 'none': []}[style]
    if style == 'min':
        return ['T', 'P']
    if style == 'none':
        return []
    return rng.choice([['T', 'P'], ['P', 'T', 'P'], ['T', 'T', 'P'], ['P'], ['T'], ['T', 'P', 'T', 'P'], ['P', 'P', 'T']])


def tail(prog):
    n = prog.nsteps + 1
    return (['T', 'P'] * n) if prog.is_spawn else ['P', 'P']


def action_lists(rng, prog, tier):
    """-> list of (pattern name, [tokens])"""
    gates = prog.gates()
    out = []
    if len(gates) <= 4:
        perms = list(itertools.permutations(gates))
        exhaustive = True
    else:
        perms = []
        for _ in range(24 if tier == 'thorough' else 8):
            p = gates[:]
            rng.shuffle(p)
            perms.append(tuple(p))
        exhaustive = False
    cap = {'quick': 10, 'normal': 30, 'thorough': 10 ** 6}.get(tier, 30)
    if len(perms) > cap:
        perms = rng.sample(perms, cap)
    for pi, perm in enumerate(perms):
        # (1) first poll, then every flip followed by a round
        acts = ['P'] if rng.random() < 0.8 else []
        if prog.is_spawn and acts and rng.random() < 0.7:
            acts += ['T']
        for g in perm:
            acts += ['F%d' % g] + rounds(rng, prog.is_spawn, 'min')
        out.append(('each' + ('' if exhaustive else '-rand'), acts + tail(prog)))
        # (2) batches of flips before one poll, spurious polls / task runs in between
        if tier != 'quick' or pi % 3 == 0:
            acts = []
            if rng.random() < 0.3:
                acts += rounds(rng, prog.is_spawn, 'spur')
            i = 0
            while i < len(perm):
                j = min(len(perm), i + rng.choice([1, 1, 2, 3]))
                acts += ['F%d' % g for g in perm[i:j]]
                acts += rounds(rng, prog.is_spawn, rng.choice(['min', 'spur', 'spur', 'none']))
                i = j
            out.append(('batch', acts + tail(prog)))
    # (3) everything flipped before the first poll; (4) no flips at all; (5) flips only (lazy);
    # (6) a partial run that leaves the root pending; (7) double flips and foreign gates
    allf = ['F%d' % g for g in gates]
    out.append(('allfirst', allf + tail(prog)))
    out.append(('noflip', rounds(rng, prog.is_spawn, 'spur') + tail(prog)))
    out.append(('nopoll', (['T'] if rng.random() < 0.5 else []) + allf + ['T'] + allf))
    if gates:
        some = rng.sample(gates, max(1, len(gates) // 2))
        out.append(('partial', ['P'] + ['F%d' % g for g in some] + rounds(rng, prog.is_spawn, 'spur')))
        g = rng.choice(gates)
        mixed = ['P', 'F%d' % g, 'F%d' % g, 'F999'] + rounds(rng, prog.is_spawn, 'spur') + allf + allf + tail(prog)
        out.append(('double', mixed))
    return out


# ----------------------------------------------------------------------------- rendering / running

HEADER_RS = '''// GENERATED by /verif/tools/bstage_async.py -- overwritten at every run.
#![allow(unused_imports, unused_variables, unused_mut, unused_parens, unused_braces, dead_code, unreachable_code, unused_must_use, redundant_semicolons, clippy::all)]
use crate::prelude::*;
use join::*;
use futures::future::FutureExt;

'''


def render_rust(progs, runs):
    src = [HEADER_RS]
    for p in progs:
        src.append(p.rust_fn())
    src.append('pub fn run_all() {\n')
    for (name, p, _pat, acts) in runs:
        src.append('    run("%s", prog_%d, "%s");\n' % (name, p.pid, ' '.join(acts)))
    src.append('}\n')
    return ''.join(src)


def coq_action(a):
    if a == 'P':
        return 'Poll'
    if a == 'T':
        return 'RunTasks'
    return 'Flip %s%%N' % a[1:]


def render_coq(progs, runs):
    lines = ['From Coq Require Import List NArith Bool Arith.', 'Import ListNotations.', 'Require Import Join.Async.', '']
    for p in progs:
        lines.append('Definition p%d : shape := %s.' % (p.pid, p.coq_shape()))
    for (name, p, _pat, acts) in runs:
        lines.append('Eval vm_compute in (run_shape p%d [%s]).' % (p.pid, '; '.join(coq_action(a) for a in acts)))
    return '\n'.join(lines) + '\n'


OBS_RE = re.compile(r'ONew (\d+) (\d+)|OPoll (\d+) (\d+)|OEv (\d+) (\d+) (\d+)(?:%N)?|OChk (\d+) (\d+) (\d+)(?:%N)? (true|false)'
                    r'|ODone (\d+) (\d+) (true|false)|ORoot RPending|ORoot ROk|ORoot \(RErr (\d+) (\d+)\)|OGone|ONotify')


def parse_obs(text):
    toks = []
    pos = 0
    text = text.strip()
    assert text.startswith('[') and text.endswith(']'), text[:200]
    inner = text[1:-1].strip()
    if not inner:
        return toks
    for item in inner.split(';'):
        item = ' '.join(item.split())
        m = OBS_RE.fullmatch(item)
        if not m:
            raise ValueError('cannot parse observation %r' % item)
        s = m.group(0)
        if s.startswith('ONew'):
            toks.append('N %s %s' % (m.group(1), m.group(2)))
        elif s.startswith('OPoll'):
            toks.append('T %s %s' % (m.group(3), m.group(4)))
        elif s.startswith('OEv'):
            toks.append('E %s %s %s' % (m.group(5), m.group(6), m.group(7)))
        elif s.startswith('OChk'):
            toks.append('C %s %s %s %s' % (m.group(8), m.group(9), m.group(10), '1' if m.group(11) == 'true' else '0'))
        elif s.startswith('ODone'):
            toks.append('D %s %s %s' % (m.group(12), m.group(13), '1' if m.group(14) == 'true' else '0'))
        elif s == 'ORoot RPending':
            toks.append('R:pending')
        elif s == 'ORoot ROk':
            toks.append('R:ok')
        elif s.startswith('ORoot (RErr'):
            toks.append('R:err %s %s' % (m.group(15), m.group(16)))
        elif s == 'OGone':
            toks.append('G')
        elif s == 'ONotify':
            toks.append('W')
    return toks


def sh(cmd, cwd=None, timeout=1800, env=None):
    return subprocess.run(cmd, shell=True, cwd=cwd, env=env or ENV, timeout=timeout,
                          stdout=subprocess.PIPE, stderr=subprocess.STDOUT, text=True)


def ensure_async_vo():
    v = os.path.join(THEORIES, 'Async.v')
    vo = os.path.join(THEORIES, 'Async.vo')
    if not os.path.exists(vo) or os.path.getmtime(vo) < os.path.getmtime(v):
        p = sh('timeout 600 coqc -Q %s Join %s' % (THEORIES, v))
        if p.returncode != 0:
            raise RuntimeError('Async.v does not compile:\n' + p.stdout[-3000:])


def run_model(progs, runs, tag):
    """-> list of token lists, in the order of runs"""
    ensure_async_vo()
    os.makedirs(WORK, exist_ok=True)
    shards = [runs[i::NSHARD] for i in range(NSHARD)]
    files = []
    for i, sr in enumerate(shards):
        if not sr:
            files.append(None)
            continue
        used = {id(r[1]): r[1] for r in sr}
        f = os.path.join(WORK, 'cases_async_%s_%d.v' % (tag, i))
        with open(f, 'w') as fh:
            fh.write(render_coq(list(used.values()), sr))
        files.append(f)

    def one(f):
        if f is None:
            return []
        p = sh('timeout 900 coqc -Q %s Join %s' % (THEORIES, f), timeout=1000)
        if p.returncode != 0:
            raise RuntimeError('coqc failed on %s:\n%s' % (f, p.stdout[-3000:]))
        outs = re.findall(r'=\s*(\[.*?\])\s*:\s*list obs', p.stdout, re.S)
        return [parse_obs(o) for o in outs]

    try:
        with ThreadPoolExecutor(NSHARD) as ex:
            res = list(ex.map(one, files))
    finally:
        for f in files:
            if f:
                base = f[:-2]
                for ext in ('.v', '.vo', '.vok', '.vos', '.glob'):
                    try:
                        os.unlink(base + ext)
                    except OSError:
                        pass
                try:
                    os.unlink(os.path.join(os.path.dirname(f), '.' + os.path.basename(base) + '.aux'))
                except OSError:
                    pass
    out = [None] * len(runs)
    for i, sr in enumerate(shards):
        assert len(res[i]) == len(sr), (len(res[i]), len(sr), files[i])
        for j, toks in enumerate(res[i]):
            out[i + j * NSHARD] = toks
    return out


def run_real(progs, runs):
    """-> dict name -> token list (the real macros, compiled and executed)"""
    os.makedirs(WORK, exist_ok=True)
    with open(os.path.join(WORK, 'asyncrt.lock'), 'w') as lock:
        fcntl.flock(lock, fcntl.LOCK_EX)
        shutil.copyfile(os.path.join(REPO, 'Cargo.lock'), os.path.join(CRATE, 'Cargo.lock'))
        cases_rs = os.path.join(CRATE, 'src', 'cases.rs')
        src = render_rust(progs, runs)
        if not (os.path.exists(cases_rs) and open(cases_rs).read() == src):   # unchanged: let cargo skip the rebuild
            with open(cases_rs, 'w') as fh:
                fh.write(src)
        t0 = time.time()
        p = sh('timeout 3000 cargo build --offline --release --message-format short 2>&1', cwd=CRATE, timeout=3100)
        if p.returncode != 0:
            raise RuntimeError('asyncrt build failed:\n' + p.stdout[-6000:])
        t_build = time.time() - t0
        q = subprocess.run(['timeout', '1200', EXE], stdout=subprocess.PIPE, stderr=subprocess.PIPE, text=True, timeout=1300)
        if q.returncode != 0:
            raise RuntimeError('asyncrt run failed (%s):\n%s' % (q.returncode, q.stderr[-3000:]))
    res = {}
    for line in q.stdout.splitlines():
        if line.startswith('CASE\t'):
            parts = line.split('\t')
            res[parts[1]] = [t for t in parts[2].split(';') if t] if len(parts) > 2 else []
    return res, t_build


def corr_B4(seed, n_programs, tier='normal', kinds=None):
    """Runs correspondence B4.  Returns a dict:
       programs, runs, agree, disagree, disagreements (each with its replay), distribution, timings."""
    rng = random.Random(seed)
    progs, runs = [], []
    dist = {'kind': {}, 'macro': {}, 'branches': {}, 'depth_profile': {}, 'gates': {}, 'shared_gate': 0, 'failing_leaves': {},
            'pattern': {}, 'actions_per_list': {}}

    def bump(d, k):
        d[k] = d.get(k, 0) + 1

    for pid in range(n_programs):
        kind = kinds[pid % len(kinds)] if kinds else None
        p = gen_program(rng, pid, kind)
        progs.append(p)
        bump(dist['kind'], ('try' if p.is_try else 'plain') + ('+spawn' if p.is_spawn else ''))
        bump(dist['macro'], p.macro)
        bump(dist['branches'], len(p.branches))
        bump(dist['depth_profile'], '/'.join(str(len(b)) for b in p.branches))
        ng = len(p.gates())
        bump(dist['gates'], ng if ng <= 4 else '5+')
        occ = sum(1 for br in p.branches for st in br for el in st if el[0] in ('gti', 'gta', 'gtt'))
        if occ > ng:
            dist['shared_gate'] += 1
        bump(dist['failing_leaves'], min(p.n_fail(), 3))
        for ai, (pat, acts) in enumerate(action_lists(rng, p, tier)):
            runs.append(('p%da%d' % (pid, ai), p, pat, acts))
            bump(dist['pattern'], pat)
            bump(dist['actions_per_list'], (len(acts) // 5) * 5)
    tag = '%d_%d' % (os.getpid(), seed)
    t0 = time.time()
    real, t_build = run_real(progs, runs)
    t_real = time.time() - t0
    t0 = time.time()
    model = run_model(progs, runs, tag)
    t_model = time.time() - t0
    agree, dis = 0, []
    completed = 0
    for (name, p, pat, acts), m in zip(runs, model):
        r = real.get(name)
        if r is not None and any(t in ('R:ok',) or t.startswith('R:err') for t in r):
            completed += 1
        if r == m:
            agree += 1
        else:
            first = next((i for i, (x, y) in enumerate(zip(r or [], m)) if x != y), min(len(r or []), len(m)))
            dis.append({'case': name, 'pattern': pat, 'program': p.rust_text(), 'shape': p.coq_shape(), 'macro': p.macro,
                        'depths': [len(b) for b in p.branches], 'is_try': p.is_try, 'is_spawn': p.is_spawn,
                        'actions': ' '.join(acts), 'first_diff': first, 'real': r, 'model': m})
    samples = [{'macro': p.macro, 'program': p.rust_text(), 'actions': ' '.join(acts), 'observed': ';'.join(real.get(name) or [])[:400]}
               for (name, p, pat, acts) in runs[:2]]
    return {'seed': seed, 'tier': tier, 'programs': len(progs), 'runs': len(runs), 'agree': agree, 'disagree': len(dis), 'samples': samples,
            'runs_completed': completed, 'disagreements': dis, 'distribution': dist,
            'seconds': {'cargo_build': round(t_build, 1), 'real_total': round(t_real, 1), 'model': round(t_model, 1)}}


def print_summary(res, out=sys.stdout):
    w = out.write
    w('B4 async: seed %s tier %s: %d programs, %d runs (program x action list): %d agree, %d disagree; %d runs reach completion\n'
      % (res['seed'], res['tier'], res['programs'], res['runs'], res['agree'], res['disagree'], res['runs_completed']))
    w('  seconds: %s\n' % res['seconds'])
    for k, v in res['distribution'].items():
        if isinstance(v, dict):
            w('  %-16s %s\n' % (k, ' '.join('%s:%s' % (a, v[a]) for a in sorted(v, key=str))))
        else:
            w('  %-16s %s\n' % (k, v))
    for d in res['disagreements'][:10]:
        w('  DISAGREE %s [%s]\n    program: %s\n    shape:   %s\n    actions: %s\n    first difference at %d\n    real:  %s\n    model: %s\n'
          % (d['case'], d['pattern'], d['program'], d['shape'], d['actions'], d['first_diff'],
             ';'.join(d['real'] or ['<missing>']), ';'.join(d['model'])))


if __name__ == '__main__':
    n = int(sys.argv[1]) if len(sys.argv) > 1 else 320
    tier = sys.argv[2] if len(sys.argv) > 2 else 'normal'
    seed = int(sys.argv[3]) if len(sys.argv) > 3 else 20260928
    res = corr_B4(seed, n, tier)
    print_summary(res)
    sys.exit(0 if res['disagree'] == 0 else 1)
