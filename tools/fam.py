"""Families of programs, the A/B correspondence pipelines, property projections, replay."""
import os, re, json, random, itertools, collections
import jv, gen, rt

B_HEADER = ('From Coq Require Import ZArith NArith.\n'
            'From Join Require Import Tok Names Ast Ir Print Gen Comp Std Denote Concrete Spec Check.\n'
            'Local Open Scope Z_scope.\n')


# ============================================================================= A families (token level)
# each returns a list of (kind, text, tag)

PROG_OF = {}      # (kind, text) -> the abstract program the text was rendered from


def _reg(p, tag):
    t = p.render()
    PROG_OF[(p.kind, t)] = p
    return (p.kind, t, tag)


def famA_profile(rng, tier, kinds=gen.KINDS):
    nmax, dmax = (3, 3) if tier == 'quick' else (4, 4)
    progs = gen.family_profile(rng, nmax=nmax, dmax=dmax, kinds=kinds, random_extra=40 if tier == 'quick' else 400)
    return [_reg(p, 'profile%s' % (p.profile(),)) for p in progs]


def famA_bigindex(rng, tier):
    """two-digit branch / action / operand indices (C17)"""
    out = []
    for kind in gen.KINDS:
        n = 24 if tier == 'thorough' else 13
        brs = []
        for b in range(n):
            acts = []
            for e in range(rng.choice([1, 12, 24]) if b in (1, 11, n - 1) else rng.randint(0, 2)):
                op = rng.choice(['Map', 'AndThen', 'Then', 'Fold'])
                if op == 'Fold':
                    acts.append(gen.Act('Fold', ['{ i%d_%d }' % (b, e), '{ g%d_%d }' % (b, e)]))
                else:
                    acts.append(gen.Act(op, ['{ f%d_%d }' % (b, e)] if rng.random() < 0.5 else ['f%d_%d' % (b, e)]))
            if acts and rng.random() < 0.5:
                acts[rng.randrange(len(acts))].deferred = True
            brs.append(gen.Branch('v%d' % b, acts, ('x%d' % b) if rng.random() < 0.2 else None))
        out.append(_reg(gen.Prog(kind, brs), 'bigindex'))
    return out


def famA_deep(rng, tier):
    """branches with 9..14 steps (step numbers 8 and beyond), all kinds"""
    out = []
    for kind in gen.KINDS:
        for _ in range(2 if tier == 'quick' else 8):
            n = rng.randint(1, 3)
            prof = tuple(rng.randint(9, 14) if b == 0 else rng.randint(1, 10) for b in range(n))
            p = gen.profile_prog(kind, prof, rng, handler=rng.random() < 0.4, lets=[b for b in range(n) if rng.random() < 0.3], extra_ops=True)
            out.append(_reg(p, 'deep%s' % (prof,)))
    return out


def famA_profile_async(rng, tier):
    return famA_profile(rng, tier, kinds=['100', '101', '110', '111'])


def famA_profile_spawn(rng, tier):
    return famA_profile(rng, tier, kinds=['001', '011', '101', '111'])


def _operands(op, rng, i):
    n = gen.OPS[op][1]
    shapes = ['f%d' % i, '|x| x + %d' % i, '{ let k = %d; move |x| x + k }' % i, 'g::<u8, Vec<_>>(%d)' % i, '|x| -> u8 { x }', 'obj.m%d' % i,
              'm!(a |> b, %d)' % i, '(|x| (x > %d) | (x < 2))' % i,
              # a brace- or bracket-delimited macro invocation is an ordinary expression, not a block operand
              'm! { a |> b, %d }' % i, 'vec![f, %d]' % i,
              # block-LIKE expressions that are not blocks (only `{..}` / labelled blocks are hoisted)
              'if c%d { f } else { g }' % i, 'match k%d { _ => f }' % i, 'unsafe { f%d }' % i, "'l%d: { f }" % i, 'async { f%d }' % i, 'loop { break f%d }' % i]
    if op in ('Dot', 'Dot2'):
        return ['m%d()' % i]
    if op == 'Collect':
        return [rng.choice(['', 'Vec<_>', 'Vec<(u8, u8)>'])]
    if op == 'Unzip':
        return [rng.choice(['', '_, _, Vec<_>, Vec<_>', 'u8, char, Vec<u8>, String', '_, _, Vec<_>, std::collections::BTreeSet<_>'])]
    return [rng.choice(shapes) for _ in range(n)]


def _act(op, rng, i, deferred=False):
    ops = [o for o in _operands(op, rng, i) if o != '']
    a = gen.Act(op, ops, deferred=deferred)
    if op == 'Unzip' and ops:
        a.operands = ops
    return a


def famA_ops(rng, tier):
    """every operator alone, all adjacent pairs, with and without `~`, wrappers, random chains - all 8 kinds"""
    names = list(gen.OPS.keys())
    out = []
    i = 0
    for a in names:
        for b in names + [None]:
            for deferred in (False, True):
                if tier == 'quick' and b is not None and rng.random() < 0.6:
                    continue
                i += 1
                acts = [_act(a, rng, i)] + ([_act(b, rng, i + 1000, deferred)] if b else [])
                kind = rng.choice(gen.KINDS)
                out.append(_reg(gen.Prog(kind, [gen.Branch('v', acts)]), 'ops'))
    for w in gen.WRAPPERS:
        for closing in ('explicit', 'step', 'end'):
            for depth in (1, 2, 3):
                i += 1
                acts = []
                for dd in range(depth):
                    acts.append(gen.Act(rng.choice(gen.WRAPPERS) if dd else w, wrap=True))
                    acts.append(_act(rng.choice(['Map', 'Then', 'AndThen', 'Fold']), rng, i + dd))
                if closing == 'explicit':
                    acts += [gen.Act(None, unwrap=True) for _ in range(depth)] + [_act('Map', rng, i + 50)]
                elif closing == 'step':
                    acts += [_act('Map', rng, i + 60, deferred=True)]
                kind = rng.choice(gen.KINDS)
                out.append(_reg(gen.Prog(kind, [gen.Branch('{ init() }', acts), gen.Branch('w', [_act('Inspect', rng, i)])]), 'ops-wrap'))
    for _ in range(150 if tier == 'quick' else 1500):
        i += 1
        nb = rng.randint(1, 3)
        brs = []
        for b in range(nb):
            acts = []
            for e in range(rng.randint(0, 6)):
                acts.append(_act(rng.choice(names), rng, i * 10 + e, deferred=rng.random() < 0.25))
            brs.append(gen.Branch(rng.choice(['v%d' % b, '{ blk(%d) }' % b, 'Some(%d)' % b]), acts, ('x%d' % b) if rng.random() < 0.2 else None))
        kind = rng.choice(gen.KINDS)
        out.append(_reg(gen.Prog(kind, brs), 'ops-random'))
    return out


def famA_opts(rng, tier):
    """all subsets x orders of the four options x kinds x depth shapes (single step, two steps, differing depths)"""
    import itertools
    opts = {'fcp': ['futures_crate_path(::futures)', 'futures_crate_path(::my::futures03)'],
            'joiner': ['custom_joiner(my_join)', 'custom_joiner(join_all!)', 'custom_joiner(::rayon::join)'],
            'transpose': ['transpose_results(false)', 'transpose_results(true)'],
            'lazy': ['lazy_branches(true)', 'lazy_branches(false)']}
    shapes = [(1, 1), (2, 2), (1, 2, 3), (3, 1), (1,), (3,)]
    out = []
    for r in range(0, 5):
        for sub in itertools.combinations(sorted(opts), r):
            for perm in itertools.permutations(sub):
                for kind in gen.KINDS:
                    if tier == 'quick' and rng.random() < 0.75:
                        continue
                    shape = rng.choice(shapes)
                    p = gen.profile_prog(kind, shape, rng, handler=rng.random() < 0.3, lets=[b for b in range(len(shape)) if rng.random() < 0.2],
                                         extra_ops=rng.random() < 0.5)
                    p.options = []
                    text_opts = ' '.join(rng.choice(opts[o]) for o in perm)
                    t = (text_opts + ' ' if text_opts else '') + p.render()
                    PROG_OF[(kind, t)] = p
                    out.append((kind, t, 'opts-%d' % r))
    return out


def famA_handler(rng, tier):
    """3 handler kinds x 8 macro kinds (legal and illegal) x branch counts x handler position x depth shapes"""
    out = []
    for kind in gen.KINDS:
        for hk in ('map', 'and_then', 'then'):
            for n in (1, 2, 3):
                for pos in range(n + 1):
                    for deep in (False, True):
                        if tier == 'quick' and rng.random() < 0.4:
                            continue
                        brs = ['v%d |> f%d%s' % (b, b, (' ~|> g%d' % b) if (deep and b % 2 == 0) else '') for b in range(n)]
                        args = ', '.join('a%d' % i for i in range(n))
                        items = brs[:pos] + ['%s => |%s| h(%s)' % (hk, args, args)] + brs[pos:]
                        out.append((kind, ', '.join(items), 'handler-%s' % hk))
    return out


def handler_legal(kind, text):
    is_try = kind[1] == '1'
    hk = [h for h in ('and_then', 'map', 'then') if re.search(r'(^|, )%s =>' % h, text)]
    if not hk:
        return None
    return (hk[0] in ('map', 'and_then')) == is_try


A_FAMILIES = {'deep': famA_deep, 'opts': famA_opts, 'handler': famA_handler, 'ops': famA_ops, 'profile': famA_profile, 'bigindex': famA_bigindex, 'profile_async': famA_profile_async,
              'profile_spawn': famA_profile_spawn}


COMB_OF = {'Dot2': 'Dot'}


def intended(prog):
    """what the DSL text of a generated program MEANS, independently of any parser: per branch the members (comb, deferred, mv)"""
    out = []
    for b in prog.branches:
        ms = [('Initial', False, 'NoMove')]
        for a in b.acts:
            if a.unwrap:
                ms.append(('UNWRAP', a.deferred, 'Unwrap'))
            else:
                ms.append((COMB_OF.get(a.op, a.op), a.deferred, 'Wrap' if a.wrap else 'NoMove'))
        out.append(ms)
    return out


def impose_intended(prog, dump):
    """Compares the implementation's parse dump with the intended structure and returns (differences, dump carrying the
    INTENDED flags): the model is always run on what the program means, so a parser / accessor that misreads `~`, `>>>`
    or an operator cannot hide behind its own dump (correspondence P-lite)."""
    diffs = []
    want = intended(prog)
    brs = dump['branches']
    if len(brs) != len(want):
        return ['%d branches parsed, %d written' % (len(brs), len(want))], dump
    import copy
    d2 = copy.deepcopy(dump)
    for bi, (b, w) in enumerate(zip(d2['branches'], want)):
        if len(b['members']) != len(w):
            diffs.append('branch %d: %d members parsed, %d written' % (bi, len(b['members']), len(w)))
            continue
        for mi, (m, (comb, deferred, mv)) in enumerate(zip(b['members'], w)):
            got = (m['comb'], m['deferred'], m['mv'])
            if got != (comb, deferred, mv):
                diffs.append('branch %d member %d: parsed as %s, written %s' % (bi, mi, got, (comb, deferred, mv)))
                if m['comb'] == comb:
                    m['deferred'], m['mv'] = deferred, mv
    return diffs, d2


def dedup(cases):
    seen, out = set(), []
    for c in cases:
        k = (c[0], c[1])
        if k not in seen:
            seen.add(k)
            out.append(c)
    return out


def run_history(rng, tier, rep, distinct):
    """C20: the same invocations expanded repeatedly, in permuted order, and concurrently from 8 threads; EVERY expansion of
    the history is compared with the single value the model gives (correspondence A)."""
    base = dedup([(k, t, 'history', tag) for (k, t, tag) in famA_profile(rng, 'quick') + famA_ops(rng, 'quick') + famA_opts(rng, 'quick')])
    rng.shuffle(base)
    base = base[:60 if tier == 'quick' else 300]
    # invocations that differ only in an option value (or its absence), for every kind that emits option-dependent helper items:
    # anything remembered from one expansion shows in another one
    fixed = []
    for k in ('100', '110', '101', '111'):
        for o in ('futures_crate_path(::fut_a) ', 'futures_crate_path(::fut_b::inner) ', ''):
            fixed.append((k, o + 'a |> f ~|> g, b', 'history', 'fcp'))
    for k in ('000', '001', '010'):
        for o in ('custom_joiner(ja) ', 'custom_joiner(jb!) lazy_branches(true) ', ''):
            fixed.append((k, o + 'a |> f, b ~|> g, c', 'history', 'joiner'))
    base = dedup(base + fixed)
    rng.shuffle(base)
    hist = []
    for rnd in range(3):                       # three passes, each in a different order, interleaved with other invocations
        order = list(range(len(base)))
        rng.shuffle(order)
        hist += order
    ids = [('h%d' % i, base[j][0], base[j][1]) for i, j in enumerate(hist)]
    seq = jv.corr_A_gen(ids, tag='Hseq')
    conc = jv.corr_A_gen(ids[:len(base) * 2], tag='Hconc', threads=8)
    # the same invocations once more in a fresh process, in the REVERSE order of the first pass: a value that depends on what was expanded
    # before shows as a difference between the two histories
    rids = [('r%d' % i, base[j][0], base[j][1]) for i, j in enumerate(reversed(hist[:len(base)]))]
    rev = jv.corr_A_gen(rids, tag='Hrev')
    # and short histories in fresh processes that START with each of the option-varying invocations in turn, followed by all of them
    fidx = [j for j in range(len(base)) if base[j][3] in ('fcp', 'joiner')]
    lead, lead_js = [], []
    for a in fidx:
        js = [a] + fidx
        lead += jv.corr_A_gen([('l%d_%d' % (a, i), base[j][0], base[j][1]) for i, j in enumerate(js)], tag='Hlead')
        lead_js += js
    first = {}
    for r, j in list(zip(seq, hist)) + list(zip(conc, hist)) + list(zip(rev, reversed(hist[:len(base)]))) + list(zip(lead, lead_js)):
        rep['A_cases'] += 1
        distinct.add((r['kind'], r['text']))
        toks = (r['impl'].get('gen') or {}).get('ok')
        bad = None
        if r['status'] != 'ok':
            bad = 'expansion differs from the model value (%s)' % r['status']
        elif r['impl'].get('concurrent_equal') is False:
            bad = 'threads expanding the same invocation concurrently produced different text'
        elif j in first and first[j] != toks:
            bad = 'a later expansion of the same invocation differs from the first one'
        first.setdefault(j, toks)
        if bad:
            rep['A_diffs'].append({'family': 'history', 'kind': r['kind'], 'text': r['text'], 'code': r.get('code'), 'status': bad})
            if 'model value' not in bad or (j in first and first[j] != toks):
                rep['witnesses'].append({'macro': gen.KIND_NAME[r['kind']], 'dsl': r['text'], 'why': bad,
                                         'history': 'position %s of a history of %d expansions (3 shuffled passes over %d invocations, then 8 threads, then one reversed pass and %d short histories with a different leading invocation, each in a fresh process)' % (r['id'], len(ids), len(base), len(fidx))})
    rep['families']['A:history'] = {'invocations': len(base), 'sequential_expansions': len(seq), 'concurrent_expansions_x8': len(conc), 'reversed_pass_expansions': len(rev), 'leading_invocation_histories': len(fidx), 'their_expansions': len(lead)}
    rep['samples'].append({'stage': 'A/history', 'kind': base[0][0], 'dsl': base[0][1][:200], 'expanded_times': 3 + 8})


def run_A(fams, rng, tier, extra=None):
    cases, famof = [], {}
    for f in fams:
        fn = A_FAMILIES[f]
        for (kind, text, tag) in fn(rng, tier):
            cases.append((kind, text, f, tag))
    cases = dedup(cases)
    ids = [('a%d' % i, c[0], c[1]) for i, c in enumerate(cases)]
    res = jv.corr_A_gen(ids, tag='A', fix=lambda kind, text, dump: impose_intended(PROG_OF[(kind, text)], dump) if (kind, text) in PROG_OF else ([], dump))
    for r, c in zip(res, cases):
        r['family'] = c[2]
        r['tag'] = c[3]
    return res


# ============================================================================= B families (typed, compiled)

def famB_profile(rng, tier, kinds=('000', '010', '001', '011'), fail_rate=0.15, handler_rate=0.5, lets_rate=0.3,
                 nmax=3, dmax=3, reps=1, **kw):
    progs = []
    profiles = list(gen.all_profiles(nmax, dmax))
    if tier == 'thorough':
        reps *= 4
    for p in profiles:
        for kind in kinds:
            for _ in range(reps):
                is_try = kind[1] == '1'
                h = None
                if rng.random() < handler_rate:
                    h = rng.choice(['map', 'and_then']) if is_try else 'then'
                lets = [b for b in range(len(p)) if rng.random() < lets_rate]
                if kind[0] == '1':
                    if len(p) > 4:
                        continue
                    akw = {k: v for k, v in kw.items() if k in ('cap_rate', 'wrap_rate', 'boom_rate', 'generic_only')}
                    fr = 0.0 if kind == '111' else fail_rate     # detached tokio tasks of a failing step keep running: exercised by B4, not here
                    progs.append(gen.typed_prog_async(rng, kind, p, handler=h, lets=lets, fail_rate=fr, **akw))
                else:
                    progs.append(gen.typed_prog(rng, kind, p, handler=h, lets=lets, fail_rate=fail_rate, **kw))
    return progs


def famB_fail(rng, tier, kinds=('010', '011')):
    return famB_profile(rng, tier, kinds=kinds, fail_rate=0.45, handler_rate=0.4, reps=2)


def famB_wrap(rng, tier, kinds=('000', '010', '001', '011')):
    return famB_profile(rng, tier, kinds=kinds, wrap_rate=0.7, cap_rate=0.35, nmax=2, dmax=3, reps=3)


def famB_caps(rng, tier, kinds=('000', '010', '001', '011')):
    return famB_profile(rng, tier, kinds=kinds, cap_rate=0.6, lets_rate=0.6, reps=1)


def famB_opts(rng, tier, kinds=('000', '010')):
    """custom joiner (a logging macro) with eager and lazy branches, sequential kinds, all depth profiles n,d<=3"""
    progs = []
    for p in gen.all_profiles(3, 3):
        for kind in kinds:
            for mode in ('eager', 'lazy'):
                if tier == 'quick' and rng.random() < 0.4:
                    continue
                h = None
                if rng.random() < 0.3:
                    h = rng.choice(['map', 'and_then']) if kind[1] == '1' else 'then'
                progs.append(gen.typed_prog(rng, kind, p, handler=h, lets=[b for b in range(len(p)) if rng.random() < 0.2], joiner=mode,
                                            fail_rate=0.15, cap_rate=0.2))
    return progs


def famB_alive(rng, tier, kinds=('001', '011'), iflike_rate=0.0):
    """thread kinds: every active branch of a multi-branch step waits inside its first callback until ALL of them are there"""
    progs = famB_profile(rng, tier, kinds=kinds, fail_rate=0.0, handler_rate=0.2, lets_rate=0.2, nmax=3, dmax=3, reps=1, meet=True, iflike_rate=iflike_rate)
    for i, p in enumerate(progs):
        if i % 4 == 1:
            p.unnamed = True            # evaluated on an unnamed thread: branch threads must be called join_<i>
        if i % 3 == 2:
            p.macro = {'001': 'spawn', '011': 'try_spawn'}.get(p.kind)     # the alias entry points behave exactly like their targets
    return progs


def famB_panic(rng, tier, kinds=('000', '010', '001', '011', '100', '110')):
    progs = famB_profile(rng, tier, kinds=kinds, fail_rate=0.05, handler_rate=0.3, nmax=3, dmax=3, reps=2, boom_rate=0.25)
    for p in progs:
        if p.kind in ('001', '011'):
            add_waiting_sibling(rng, p)
    return progs


def add_waiting_sibling(rng, p):
    """thread kinds: a LATER-numbered sibling of the panicking branch, in the same step, ends its step in a callback that waits until the
    harness has seen the macro expression return or panic - the caller must not wait for it (C18: never left blocked)"""
    text = p.render()
    boom = [(i, p.table.where[i]) for (toks, i, rule, cap) in p.table.ops if rule in ('KPanic', 'KPanicEval') and i in p.table.where
            and re.search(r'boom_\w+(?: :: < [^(]*>)? \( %d[ ,)]' % i, text)]
    if not boom:
        return
    (bid, (bb, bk)) = boom[0]
    cands = [j for j, br in enumerate(p.branches) if j > bb and br.depth() > bk]
    if not cands or bb < 0:
        return
    j = rng.choice(cands)
    br = p.branches[j]
    # index just before the first action of step bk+1 of branch j (or the end)
    k, pos = 0, len(br.acts)
    for idx, a in enumerate(br.acts):
        if a.deferred:
            k += 1
            if k == bk + 1:
                pos = idx
                break
    # do not put it inside an open wrapper
    opened = 0
    for a in br.acts[:pos]:
        opened += 1 if a.wrap else (-1 if a.unwrap else 0)
        if a.deferred:
            opened = 1 if a.wrap else 0
    if opened > 0:
        return
    p.table.cur = (j, bk)
    txt = p.table.new(lambda i: (['wait_rel', '(', str(i), ')'], 'KId', False))
    br.acts.insert(pos, gen.Act('Then', [txt]))


ALIAS = {'001': 'spawn', '011': 'try_spawn', '101': 'async_spawn', '111': 'try_async_spawn'}


def famB_pairs(rng, tier):
    """the same program under the plain macro, its spawn counterpart and the alias of that (sync kinds)"""
    import copy
    out = []
    base = famB_profile(rng, tier, kinds=('000', '010'), handler_rate=0.4, nmax=3, dmax=3, reps=1, cap_rate=0.0)
    for i, p in enumerate(base):
        p.pair = i
        out.append(p)
        q = copy.copy(p)
        q.kind = p.kind[:2] + '1'
        q.pair = i
        out.append(q)
        r = copy.copy(q)
        r.macro = ALIAS[q.kind]
        r.pair = i
        out.append(r)
        if i % 3 == 0:
            u = copy.copy(q)            # the spawn macro evaluated on a thread WITHOUT a name (threads are then called join_<i>)
            u.unnamed = True
            u.pair = i
            out.append(u)
    return out


def famB_profile_async(rng, tier, kinds=('100', '110', '101', '111'), **kw):
    return famB_profile(rng, tier, kinds=kinds, **kw)


def famB_survivor(rng, tier):
    """async kinds, tuple payloads, only value-generic operators, profiles with a lone long branch: index / projection mistakes in the
    per-step result routing compile and show as wrong values"""
    progs = []
    profiles = [(1, 3), (3, 1), (2, 4, 1), (1, 2, 4), (3, 1, 1), (2, 2, 4), (1, 3, 2)]
    for p in profiles:
        for kind in ('110', '111', '100', '101'):
            for _ in range(1 if tier == 'quick' else 4):
                h = None
                if rng.random() < 0.3:
                    h = rng.choice(['map', 'and_then']) if kind[1] == '1' else 'then'
                progs.append(gen.typed_prog_async(rng, kind, p, handler=h, lets=[], fail_rate=0.0, cap_rate=0.0, wrap_rate=0.0, generic_only=True))
    return progs


def famB_fail_async(rng, tier):
    return famB_profile(rng, tier, kinds=('110',), fail_rate=0.45, handler_rate=0.4, reps=2)


B_FAMILIES = {'opts': famB_opts, 'survivor': famB_survivor, 'profile_async': famB_profile_async, 'fail_async': famB_fail_async, 'profile': famB_profile, 'fail': famB_fail, 'wrap': famB_wrap, 'caps': famB_caps, 'alive': famB_alive,
              'panic': famB_panic, 'pairs': famB_pairs}


def canon_log(entries):
    def thread_of(s):
        return s.split('@', 1)[0] if '@' in s else ''
    return sorted(entries, key=thread_of)      # stable


def coq_strlist(l):
    return '[' + '; '.join(jv.cs(s) for s in l) + ']'


def run_B(fams, rng, tier, name='b', fam_args=None):
    """Returns list of case dicts: prog, macro, text, observed, rt_code, mm_code, a_code, family."""
    progs = []
    for f in fams:
        for p in B_FAMILIES[f](rng, tier, **((fam_args or {}).get(f, {}))):
            p.family = f
            progs.append(p)
    return run_B_progs(progs, name)


def run_B_progs(progs, name='b', all_strings=False):
    cases = []
    for i, p in enumerate(progs):
        mode = 'async' if p.kind[0] == '1' else ('sync-unnamed' if getattr(p, 'unnamed', False) else 'sync')
        cases.append(('%d' % i, getattr(p, 'macro', None) or gen.KIND_NAME[p.kind], p.render(), mode, getattr(p, 'items', [])))
    res, failures = rt.build_and_run(name, cases)
    impl = jv.run_impl([(c[0], progs[int(c[0])].kind, c[2]) for c in cases], tag='Bimpl')
    out, items, idx = [], [], []
    for c, r in zip(cases, impl):
        i = int(c[0])
        p = progs[i]
        d = {'id': c[0], 'prog': p, 'kind': p.kind, 'macro': c[1], 'text': c[2], 'family': p.family,
             'observed': None, 'rt_code': None, 'mm_code': None, 'a_code': None, 'compile_error': failures.get(c[0])}
        out.append(d)
        if c[0] in failures or c[0] not in res:
            continue
        pr = r.get('parse') or {}
        if 'ok' not in pr:
            d['compile_error'] = 'impl parse failed: %s' % json.dumps(pr)[:200]
            continue
        pdiffs, dump2 = impose_intended(p, pr['ok'])
        d['p_diffs'] = pdiffs
        pr = {'ok': dump2}
        result, lg = res[c[0]]
        if c[3] == 'async':
            # the harness logs POLL when it starts driving the future: nothing may have been evaluated before (laziness)
            if lg and lg[0] == 'POLL':
                lg = lg[1:]
            else:
                d['eager'] = [e for e in lg[:lg.index('POLL')]] if 'POLL' in lg else lg
                lg = [e for e in lg if e != 'POLL']
        d['observed'] = [result] + canon_log(lg)
        nm = 'c%d' % len(items)
        defs = ('Definition %s_i := %s.\nDefinition %s_t := %s.\nDefinition %s_o := %s.\nDefinition %s_g := %s.' % (
            nm, jv.cinput(pr['ok']), nm, p.table.coq(), nm, coq_strlist(d['observed']), nm, jv.coutcome(r['gen'])))
        cfg = jv.cconfig(p.kind)
        tn = 'None' if getattr(p, 'unnamed', False) else '(Some "main")'
        d['_tn'] = tn
        # the reference is SpecOpts.spec_opts at the options the input carries (= Spec.spec for the default options, proved)
        mm = 'check_mm_as %s %s %s_i %s_t' % (tn, cfg, nm, nm)
        expr = ('(check_rt_as %s %s %s_i %s_t %s_o + 1000000000 * (%s + 1000000000 * check_gen %s %s_i %s_g))%%N'
                % (tn, cfg, nm, nm, nm, mm, cfg, nm, nm))
        items.append((defs, expr))
        d['_defs'], d['_nm'] = defs, nm
        idx.append(d)
    vals = jv.run_coq_shards(items, header=B_HEADER, tag='B')
    for d, v in zip(idx, vals):
        d['rt_code'] = v % 1000000000
        d['mm_code'] = (v // 1000000000) % 1000000000
        d['a_code'] = v // (1000000000 ** 2)
    # phase 2: the strings (Spec's and the model's result+trace) for the cases that differ, in one sharded run
    differing = [d for d in idx if all_strings or d['rt_code'] or d['a_code'] or d['mm_code']][:MAX_EXAMINED if not all_strings else 200]
    sitems = []
    for d in differing:
        cfg = jv.cconfig(d['kind'])
        sitems.append((d['_defs'], ['spec_opts_run_as %s %s %s_i %s_t' % (d['_tn'], cfg, d['_nm'], d['_nm']),
                                    'model_run_as %s %s %s_i %s_t' % (d['_tn'], cfg, d['_nm'], d['_nm'])]))
    for d, v in zip(differing, jv.run_coq_strings(sitems, header=B_HEADER, tag='Bs')):
        d['exp'] = {'spec': v[0], 'model': v[1]}
    return out


MAX_EXAMINED = 48


def expected_strings(d):
    """model_run and spec_run strings for one case (diagnostics and projections)."""
    p = d['prog']
    impl = jv.run_impl([('x', p.kind, d['text'])], tag='Bdiag')[0]
    defs = 'Definition i := %s.\nDefinition t := %s.' % (jv.cinput(impl['parse']['ok']), p.table.coq())
    cfg = jv.cconfig(p.kind)
    res = {}
    for nm, fn in (('spec', 'spec_opts_run'), ('model', 'model_run')):
        out = jv.coq_eval_strings(defs, '%s %s i t' % (fn, cfg), header='Set Printing Width 1000000.\nSet Printing Depth 1000000.\n' + B_HEADER)
        m = re.search(r'= "(.*)"\s*:\s*string', out, re.S)
        res[nm] = re.sub(r'\s+', ' ', m.group(1)).replace('""', '"').split(' ') if m else None
    return res


# ============================================================================= projections: property oracles on (expected, observed)
# each returns None if the observed behaviour satisfies the property on this case, or a short description

def entry_id(e):
    e = e.split('@', 1)[1] if '@' in e else e
    m = re.match(r'[EC](\d+)', e)
    return int(m.group(1)) if m else None


def proj_result(d, exp):
    if exp['spec'][0] != d['observed'][0]:
        return 'result: expected %s, observed %s' % (exp['spec'][0], d['observed'][0])


def proj_exact(d, exp):
    if exp['spec'] != d['observed']:
        return 'result+trace: expected %s, observed %s' % (' '.join(exp['spec']), ' '.join(d['observed']))


def proj_multiset(d, exp):
    r = proj_result(d, exp)
    if r:
        return r
    a, b = collections.Counter(exp['spec'][1:]), collections.Counter(d['observed'][1:])
    if a != b:
        return 'event multiset differs: missing %s, extra %s' % (dict(a - b), dict(b - a))


def steps_of(d, entries):
    w = d['prog'].table.where
    return [(w.get(entry_id(e), (None, None)), e) for e in entries]


def proj_barrier(d, exp, raw=None):
    """no event of step k+1 before every event of step k (on the global order of the observed log)"""
    log = d.get('raw_log') or d['observed'][1:]
    last = -1
    for ((b, k), e) in steps_of(d, log):
        if k is None:
            continue
        if k < last:
            return 'event %s of step %d observed after an event of step %d' % (e, k, last)
        last = max(last, k)


def proj_abort(d, exp):
    """C06/C18: nothing of a later step than the spec's last step is evaluated; all of the failing step is; nobody was left waiting"""
    for e in d['observed'][1:]:
        if 'TIMEOUT' in e:
            return 'the caller was left blocked: %s waited for the macro expression to return or panic until it timed out' % e
    r = proj_result(d, exp)
    ks = [k for ((b, k), e) in steps_of(d, exp['spec'][1:]) if k is not None]
    kmax = max(ks) if ks else 0
    for ((b, k), e) in steps_of(d, d['observed'][1:]):
        if k is not None and k > kmax:
            return 'event %s of step %d evaluated although the run ends in step %d' % (e, k, kmax)
    a, b_ = collections.Counter(exp['spec'][1:]), collections.Counter(d['observed'][1:])
    if a - b_:
        return 'events of the last step missing: %s' % dict(a - b_)
    return r


def proj_caps(d, exp):
    """C11/C12: capture entries (E<id>{..}) - same snapshots, same relative order, and the full per-thread order"""
    return proj_exact(d, exp)


PROJ = {'result': proj_result, 'exact': proj_exact, 'multiset': proj_multiset, 'barrier': proj_barrier,
        'abort': proj_abort, 'caps': proj_caps}


# ============================================================================= B4: async kinds under a controlled executor
# oracles on the REAL observation trace of a disagreeing run (tokens: 'N k b' chain created, 'T k b' polled, 'E k b e' event,
# 'C k b g r' gate polled, 'D k b ok' chain completed, 'R:pending|ok|err k b' result of a root poll, 'G' polled after completion, 'W' root notified)

def _steps_of_trace(tr):
    out = []
    for t in tr:
        f = t.split()
        if f[0] in ('N', 'T', 'E', 'C', 'D'):
            out.append((f[0], int(f[1]), int(f[2]), f))
        else:
            out.append((f[0], None, None, f))
    return out


def b4_barrier(d):
    done = set()
    for (t, k, b, f) in _steps_of_trace(d['real'] or []):
        if k is None:
            continue
        for k0 in range(k):
            for b0, dep in enumerate(d['depths']):
                if dep > k0 and (k0, b0) not in done:
                    return 'observation %s of step %d before branch %d completed step %d' % (' '.join(f), k, b0, k0)
        if t == 'D':
            done.add((k, b))


def b4_lazy_complete(d):
    tr = d['real'] or []
    acts = d['actions'].split()
    if 'P' not in acts and tr:
        return 'observations %s although the future was never polled' % tr[:5]
    m = d['model'] or []
    done = lambda t: t == 'R:ok' or t.startswith('R:err')
    if any(done(t) for t in m) and not any(done(t) for t in tr):
        return 'the future does not complete under this wake-up order (the machine does)'
    polls = lambda l: sum(1 for t in l[:next((i for i, t in enumerate(l) if done(t)), len(l))] if t.startswith('R:'))
    if any(done(t) for t in m) and polls(tr) > polls(m):
        return ('the future needs %d polls to complete under this wake-up order, the machine %d: a poll returned Pending although every branch could complete '
                '(no pending point outstanding, nobody holds the waker)' % (polls(tr) + 1, polls(m) + 1))
    return b4_barrier(d)


def b4_try_abort(d):
    tr = _steps_of_trace(d['real'] or [])
    fail_step = None
    for (t, k, b, f) in tr:
        if fail_step is not None and k is not None and k > fail_step:
            return 'observation %s of step %d after a branch failed in step %d' % (' '.join(f), k, fail_step)
        if t == 'D' and f[3] == '0' and fail_step is None:
            fail_step = k
        if t == 'R:ok' and fail_step is not None:
            return 'Ok result although a branch failed in step %d' % fail_step
        if t == 'R:err' and fail_step is not None and int(f[1]) != fail_step:
            return 'error of step %s returned, earliest failing step is %d' % (f[1], fail_step)


B4_PROJ = {'barrier': b4_barrier, 'lazy_complete': b4_lazy_complete, 'try_abort': b4_try_abort}


def run_B4(pid, P, seed, tier):
    import bstage_async
    n = P.get('B4_n', 36) if tier == 'quick' else P.get('B4_n', 36) * 6
    return bstage_async.corr_B4(seed, n, 'quick' if tier == 'quick' else 'normal', kinds=P.get('B4_kinds'))


# ============================================================================= per-property run

def nontrivial(text):
    return (',' in text) or ('~' in text) or (len(text.split()) > 3)


def extract_macro_table():
    """(name, is_async, is_try, is_spawn) for every #[proc_macro] entry point of /repo/join/src/lib.rs, in source order"""
    src = open(os.path.join(jv.REPO, 'join', 'src', 'lib.rs')).read()
    out = []
    for m in re.finditer(r'#\[proc_macro\]\s*pub fn (\w+)\s*\(.*?\n\}', src, flags=re.S):
        body = m.group(0)
        f = {k: re.search(r'%s:\s*(true|false)' % k, body) for k in ('is_async', 'is_try', 'is_spawn')}
        if all(f.values()):
            out.append((m.group(1),) + tuple(f[k].group(1) == 'true' for k in ('is_async', 'is_try', 'is_spawn')))
    return out


def check_macro_table(rep):
    tab = extract_macro_table()
    coq = '[' + '; '.join('(%s, mkConfig %s %s %s)' % (jv.cs(n), jv.cbool(a), jv.cbool(t), jv.cbool(sp)) for (n, a, t, sp) in tab) + ']'
    v = jv.run_coq_shards([('', 'N.of_nat (table_diff macro_table %s)' % coq)],
                          header='From Coq Require Import NArith.\nFrom Join Require Import Tok Ast Macros.\n', tag='M')[0]
    rep['families']['lib.rs macro table'] = {'entries': len(tab), 'equal_to_model': v == 0}
    rep['A_cases'] += 1
    if v != 0:
        doc = {'try_join': (False, True, False), 'try_join_async': (True, True, False), 'try_join_spawn': (False, True, True),
               'try_spawn': (False, True, True), 'try_join_async_spawn': (True, True, True), 'try_async_spawn': (True, True, True),
               'join': (False, False, False), 'join_async': (True, False, False), 'join_spawn': (False, False, True),
               'spawn': (False, False, True), 'join_async_spawn': (True, False, True), 'async_spawn': (True, False, True)}
        bad = [(n, (a, t, sp)) for (n, a, t, sp) in tab if doc.get(n) != (a, t, sp)]
        rep['A_diffs'].append({'family': 'macro-table', 'kind': '-', 'text': 'join/src/lib.rs', 'code': v, 'status': 'diff'})
        rep['witnesses'].append({'macro': bad[0][0] if bad else '?', 'dsl': '(any input)',
                                 'why': 'join/src/lib.rs configures %s; documented (is_async, is_try, is_spawn) = %s' % (
                                     bad[:3], [doc.get(b[0]) for b in bad[:3]])})


def run_P(pid, P, rng, tier, rep, distinct):
    """correspondence P: the implementation's parser vs Parse.parse run with syn's own answers (tools/pstage.py)"""
    import pstage
    pstage.build_parserun()
    cases = pstage.corr_P_family(rng, tier)
    res = pstage.corr_P([('p%d' % i, k, t) for i, (k, t) in enumerate(cases)], tag='P' + pid)
    st = collections.Counter(r['status'] for r in res)
    rep['families']['P:parser'] = dict(st)
    for r in res:
        if r['status'] == 'lexerr':
            continue
        rep['A_cases'] += 1
        if nontrivial(r['text']):
            distinct.add((r['kind'], r['text']))
        if r['status'] in ('ok', 'ok-retok', 'parse-err-agree'):
            continue
        rep['A_diffs'].append({'family': 'P:parser', 'kind': r['kind'], 'text': r['text'], 'code': r.get('code'), 'status': r['status'] + ' ' + r.get('where', '')})
        pr = (r.get('impl') or {}).get('parse') or {}
        if r['status'] == 'impl-panic' and P['P'] in ('total', 'split'):
            rep['witnesses'].append({'macro': gen.KIND_NAME.get(r['kind'], r['kind']), 'dsl': r['text'],
                                     'why': 'the parser panicked instead of returning a diagnostic: %s' % json.dumps(pr)[:300]})
        elif r['status'] in ('diff', 'class-mismatch') and len(rep['witnesses']) < 20:
            try:
                mr = re.sub(r'\s+', ' ', pstage.model_result(r))[-600:]
            except Exception as e:
                mr = 'model result unavailable: %s' % e
            rep['witnesses'].append({'macro': gen.KIND_NAME.get(r['kind'], r['kind']), 'dsl': r['text'],
                                     'why': 'the implementation parses this input differently from the parser model for which the property is proved (%s %s)' % (r['status'], r.get('where', '')),
                                     'implementation': json.dumps(pr)[:800], 'model': mr})
    for r in res[:2]:
        rep['samples'].append({'stage': 'P', 'kind': r['kind'], 'dsl': r['text'][:300], 'status': r['status']})


def run_property(pid, P, rng, tier, seed, escalate=False, only_B=False):
    rep = {'A_cases': 0, 'A_diffs': [], 'B_cases': 0, 'B_diffs': [], 'mm_diffs': 0, 'witnesses': [], 'families': {},
           'samples': [], 'distinct_nontrivial': 0, 'rule': '', 'escalated': escalate}
    distinct = set()
    if P.get('A') and not only_B:
        res = run_A(P['A'], rng, tier)
        for r in res:
            rep['families'].setdefault('A:' + r['family'], collections.Counter())[r['status'].split(' ')[0]] += 1
            if r['status'] == 'ok' or r['status'].startswith('diff'):
                rep['A_cases'] += 1
                if nontrivial(r['text']):
                    distinct.add((r['kind'], r['text']))
            if r['status'].startswith('diff'):
                rep['A_diffs'].append(r)
            g0 = (r['impl'].get('gen') or {})
            if 'ok' in g0 and g0.get('expr_ok') is False and P.get('expr_oracle'):
                rep['witnesses'].append({'macro': gen.KIND_NAME[r['kind']], 'dsl': r['text'],
                                         'why': 'the expansion is not a syntactically valid Rust expression (syn::parse2::<Expr> rejects it): ' + ' '.join(g0['ok'][:60])})
            if 'ok' in g0 and P.get('fcp_oracle') and 'futures_crate_path(' in r['text'] and 'futures_crate_path(::futures)' not in r['text']:
                flat = ' ' + ' '.join(g0['ok']) + ' '
                if ' : : futures : : ' in flat:
                    rep['witnesses'].append({'macro': gen.KIND_NAME[r['kind']], 'dsl': r['text'],
                                             'why': 'a futures item of the expansion comes from ::futures although futures_crate_path(p) names another path: ..'
                                                    + flat[max(0, flat.index(' : : futures : : ') - 60):flat.index(' : : futures : : ') + 60]})
            if r['family'] == 'handler' and P.get('handler_oracle'):
                legal = handler_legal(r['kind'], r['text'])
                g = (r['impl'].get('gen') or {})
                if legal is False and 'ok' in g:
                    rep['witnesses'].append({'macro': gen.KIND_NAME[r['kind']], 'dsl': r['text'], 'why': 'a handler of the wrong kind for this macro is accepted (expansion produced) instead of being rejected'})
                if legal is True and 'ok' not in g:
                    rep['witnesses'].append({'macro': gen.KIND_NAME[r['kind']], 'dsl': r['text'], 'why': 'a legal handler is rejected: %s' % json.dumps(g)[:200]})
            elif r['status'] != 'ok':
                # the generator produced something the implementation's parser rejects: our bug, or a parser change
                rep['A_diffs'].append(r)
        for r in res[:2]:
            rep['samples'].append({'stage': 'A', 'kind': r['kind'], 'dsl': r['text'][:300],
                                   'expansion_head': ' '.join((r['impl'].get('gen') or {}).get('ok', [])[:40])})
    if P.get('B'):
        t = 'thorough' if (escalate and tier == 'quick') else tier
        res = run_B(P['B'], rng, t, name='b_' + pid.lower(), fam_args=P.get('B_args'))
        rejected = 0
        for d in res:
            c = rep['families'].setdefault('B:' + d['family'], collections.Counter())
            if d['observed'] is None:
                rejected += 1
                c['not-compiled'] += 1
                # programs are well typed by construction: a rejection is a broken correspondence (and, for C01, a violation)
                rep['B_diffs'].append({'family': d['family'], 'macro': d['macro'], 'text': d['text'], 'code': -1,
                                       'expected': 'a well-typed program compiles', 'observed': 'rejected: %s' % d['compile_error']})
                if P.get('compile_is_property'):
                    rep['witnesses'].append({'macro': d['macro'], 'dsl': d['text'], 'why': 'a well-typed chain expands to code that does not compile: %s' % d['compile_error']})
                continue
            rep['B_cases'] += 1
            c[d['kind']] += 1
            if nontrivial(d['text']) and len(d['observed']) > 2:
                distinct.add((d['kind'], d['text']))
            if d['mm_code']:
                rep['mm_diffs'] += 1
            bad = d['rt_code'] or d['a_code']
            if d.get('eager'):
                rep['B_diffs'].append({'family': d['family'], 'macro': d['macro'], 'text': d['text'], 'code': -2,
                                       'expected': 'nothing is evaluated before the future is polled', 'observed': 'before the first poll: ' + ' '.join(d['eager'])})
                if P.get('lazy_is_property'):
                    rep['witnesses'].append({'macro': d['macro'], 'dsl': d['text'], 'why': 'evaluated before the future was first polled: ' + ' '.join(d['eager'])})
            if d['a_code'] or d.get('p_diffs'):
                rep['A_diffs'].append({'family': d['family'], 'kind': d['kind'], 'text': d['text'], 'code': d['a_code'],
                                       'status': 'diff' + (' parse: ' + '; '.join(d['p_diffs'][:3]) if d.get('p_diffs') else '')})
            if d['rt_code'] or (d['a_code'] and P.get('proj')):
                exp = d.get('exp')
                if not exp or not exp['spec']:
                    continue
                if d['rt_code']:
                    rep['B_diffs'].append({'family': d['family'], 'macro': d['macro'], 'text': d['text'], 'code': d['rt_code'],
                                           'expected': ' '.join(exp['model'] or []), 'observed': ' '.join(d['observed'])})
                why = PROJ[P['proj']](d, exp)
                if why:
                    if not rep.get('_shrunk') and d['family'] not in ('pairs',):
                        rep['_shrunk'] = True
                        try:
                            import shrink
                            small = shrink.shrink(d, PROJ[P['proj']], lambda ps, nm: run_B_progs(ps, nm, all_strings=True), name='shr_' + pid.lower())
                            if small is not d:
                                e2 = small['exp']
                                rep['witnesses'].append({'macro': small['macro'], 'dsl': small['text'], 'why': small['why'], 'shrunk_from': d['text'][:400],
                                                         'expected_by_spec': ' '.join(e2['spec']), 'observed': ' '.join(small['observed']),
                                                         'operand_table': small['prog'].table.coq()[:2000]})
                        except Exception as ex:
                            rep.setdefault('notes', []).append('shrinking failed: %s' % ex)
                    rep['witnesses'].append({'macro': d['macro'], 'dsl': d['text'], 'why': why,
                                             'expected_by_spec': ' '.join(exp['spec']), 'observed': ' '.join(d['observed']),
                                             'operand_table': d['prog'].table.coq()[:2000]})
        rep['B_compile_rejected'] = rejected
        if P.get('pairs'):
            groups = collections.defaultdict(list)
            for d in res:
                if hasattr(d['prog'], 'pair'):
                    groups[d['prog'].pair].append(d)
            for gid, ds in groups.items():
                ok = [d for d in ds if d['observed'] is not None]
                if len(ok) != len(ds) and ok:
                    bad = [d for d in ds if d['observed'] is None][0]
                    rep['B_diffs'].append({'family': 'pairs', 'macro': bad['macro'], 'text': bad['text'], 'code': -1,
                                           'expected': 'compiles like its counterpart', 'observed': 'rejected: %s' % bad['compile_error']})
                    rep['witnesses'].append({'macro': bad['macro'], 'dsl': bad['text'],
                                             'why': 'compiles under %s but not under %s: %s' % (ok[0]['macro'], bad['macro'], bad['compile_error'])})
                    continue

                def norm(d):
                    return (d['observed'][0], sorted(e.split('@', 1)[-1] for e in d['observed'][1:]))
                for d in ok[1:]:
                    if norm(d) != norm(ok[0]):
                        rep['witnesses'].append({'macro': d['macro'], 'dsl': d['text'],
                                                 'why': '%s and %s disagree on the same branches: %s vs %s' % (
                                                     ok[0]['macro'], d['macro'], ' '.join(ok[0]['observed']), ' '.join(d['observed']))})
        # typed programs are well typed by construction: a compile error is itself a finding for C01-like claims,
        # but the typed generator is not perfect; report, do not alarm
        for d in res[:3]:
            if d['observed']:
                rep['samples'].append({'stage': 'B', 'macro': d['macro'], 'dsl': d['text'][:300], 'observed': ' '.join(d['observed'])[:300]})
    if P.get('macro_table') and not only_B:
        check_macro_table(rep)
    if P.get('doc_table') and not only_B:
        import doctab
        doctab.check_doc_table(rep)
    if P.get('P') and not only_B:
        run_P(pid, P, rng, tier, rep, distinct)
    if P.get('history') and not only_B:
        run_history(rng, tier, rep, distinct)
    if P.get('B1'):
        import b1
        r = b1.run(rng, tier, caps=(P['B1'] == 'caps'))
        rep['B_cases'] += r['cases']
        rep['b4_distinct'] = rep.get('b4_distinct', 0) + r['cases']
        rep['families']['B1:documented-chain'] = dict(r['dist'], failures=len(r['failures']), rejected=len(r['rejected']))
        rep['samples'] += r['samples']
        for f in r['failures'] + r['rejected']:
            rep['B_diffs'].append({'family': 'B1', 'macro': f['macro'], 'text': f['dsl'], 'code': -1, 'expected': 'the documented method chain', 'observed': f['why']})
            rep['witnesses'].append(f)
    if P.get('nest'):
        import nest
        r = nest.run(tier, which=(P['nest'] if P['nest'] in nest.LISTS else 'nest'))
        rep['B_cases'] += r['cases']
        rep['b4_distinct'] = rep.get('b4_distinct', 0) + r['cases']
        rep['families']['B:nest'] = dict(r['dist'], failures=len(r['failures']), rejected=len(r['rejected']))
        rep['samples'] += r['samples']
        for f in r['failures'] + r['rejected']:
            rep['B_diffs'].append({'family': 'nest', 'macro': f['macro'], 'text': f['dsl'], 'code': -1, 'expected': 'same value as without nesting', 'observed': f['why']})
            rep['witnesses'].append(f)
    if P.get('nocost'):
        import nocost
        r = nocost.run(rng, tier, only_borrow=(P['nocost'] == 'borrow'))
        rep['B_cases'] += r['cases']
        rep['b4_distinct'] = rep.get('b4_distinct', 0) + r['cases']
        rep['families']['B:nocost'] = dict(r['dist'], failures=len(r['failures']), rejected=len(r['rejected']))
        rep['samples'] += r['samples']
        for f in r['failures'] + r['rejected']:
            rep['B_diffs'].append({'family': 'nocost', 'macro': f['macro'], 'text': f['dsl'], 'code': -1, 'expected': '0 allocations / compiles and runs', 'observed': f['why']})
            rep['witnesses'].append(f)
    r4 = None
    if P.get('B4'):
        try:
            r4 = run_B4(pid, P, seed, tier)
        except RuntimeError as ex:
            if 'build failed' not in str(ex):
                raise
            # the generated programs compile on the tree the harness was validated on: the real macros no longer accept them
            msg = re.sub(r'\s+', ' ', str(ex))[-700:]
            rep['B_diffs'].append({'family': 'B4:async', 'macro': '(async macros)', 'text': '(generated gate-future programs, harness/asyncrt/src/cases.rs)', 'code': -1,
                                   'expected': 'the programs of correspondence B4 compile', 'observed': 'cargo build failed: ' + msg})
    if r4 is not None:
        rep['B_cases'] += r4['runs']
        rep['families']['B4:async'] = {'programs': r4['programs'], 'runs': r4['runs'], 'agree': r4['agree'], 'completed': r4['runs_completed'],
                                       'macros': r4['distribution']['macro'], 'branches': r4['distribution']['branches'],
                                       'gates': r4['distribution']['gates'], 'patterns': r4['distribution']['pattern']}
        rep['b4_distinct'] = r4['runs']
        for s4 in r4.get('samples', []):
            rep['samples'].append(dict(s4, stage='B4'))
        for d in r4['disagreements']:
            rep['B_diffs'].append({'family': 'B4:async', 'macro': d['macro'], 'text': d['program'], 'code': d['first_diff'],
                                   'expected': ';'.join(d['model'] or [])[:600], 'observed': ';'.join(d['real'] or [])[:600],
                                   'actions': d['actions']})
            why = B4_PROJ[P['B4']](d)
            if why:
                rep['witnesses'].append({'macro': d['macro'], 'dsl': d['program'], 'actions': d['actions'], 'why': why,
                                         'observed': ';'.join(d['real'] or [])[:1500]})
    rep['distinct_nontrivial'] = len(distinct) + rep.get('b4_distinct', 0)
    rep['rule'] = ('A: generated programs of the families %s expanded by the implementation and by the model (compared token for token inside Coq); '
                   'B: typed generated programs of the families %s compiled against /repo/join, run with instrumented operands, compared with the model '
                   '(den (gen p)) and the reference Spec under the same rule table; distinct = distinct (kind, DSL text); non-trivial = more than one '
                   'branch or step or operator, and for B a trace with at least 2 events' % (P.get('A'), P.get('B')))
    rep['families'] = {k: dict(v) for k, v in rep['families'].items()}
    return rep


def match_known(pid, w, known):
    for k in known.get('open', []):
        if k['property'] == pid and k.get('macro') == w.get('macro') and k.get('dsl') == w.get('dsl'):
            return k
    return None


def replay(pid, P, path):
    """Re-runs the stored input: through correspondence A (expansion vs model) and, when it is a compilable macro invocation of the B
    harness, through the real macro (result + event log), next to what the reference semantics expects."""
    r = json.load(open(path))
    w = r.get('witness')
    print('property %s; replay file %s' % (pid, path))
    for b in r.get('broken', []):
        print('  no longer checks: %s' % json.dumps(b)[:400])
    if not w:
        print('no concrete input stored: the replay names the theorem / correspondence that no longer checks (no-failing-input-found)')
        return 1
    print('stored witness: macro=%s\n  dsl: %s\n  why: %s' % (w.get('macro'), w.get('dsl'), w.get('why')))
    names = dict((v, k) for k, v in gen.KIND_NAME.items())
    names.update({v: k for k, v in ALIAS.items()})
    kind = names.get(w.get('macro'))
    ok, out = jv.build_implrun()
    if kind and ok:
        try:
            res = jv.corr_A_gen([('r', kind, w['dsl'])], tag='replay')
            print('A (implementation expansion vs model) on the stored input: %s' % res[0]['status'])
        except Exception as ex:
            print('A could not be run on the stored input: %s' % ex)
    if kind and 'expected_by_spec' in w:
        mode = 'async' if kind[0] == '1' else 'sync'
        try:
            obs, fails = rt.build_and_run('replay', [('0', w['macro'], w['dsl'], mode)])
            if '0' in obs:
                lg = [e for e in obs['0'][1] if e != 'POLL']
                print('expected by the reference semantics: %s' % w['expected_by_spec'])
                print('observed now                       : %s %s' % (obs['0'][0], ' '.join(canon_log(lg))))
                print('REPRODUCED' if ([obs['0'][0]] + canon_log(lg)) != w['expected_by_spec'].split(' ') else 'NOT REPRODUCED (the implementation now agrees with the reference semantics on this input)')
            else:
                print('the stored program does not compile now: %s' % fails.get('0'))
        except Exception as ex:
            print('B could not be run on the stored input: %s' % str(ex)[:300])
    return 0
