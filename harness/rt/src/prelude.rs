//! Instrumented operands for correspondence B.  Every operand logs its own evaluation ("E<id>") and
//! every closure logs each call with its argument ("C<id>(arg)"); the same rules exist in
//! coq/theories/Concrete.v (apply_rule).
#![allow(dead_code)]
use std::sync::Mutex;

pub static LOG: Mutex<Vec<String>> = Mutex::new(Vec::new());

pub fn log(s: String) {
    // entries made on a thread other than "main" carry the thread's name
    let t = std::thread::current();
    let s = match t.name() {
        Some("main") => s,
        Some(n) => format!("{}@{}", n, s),
        None => format!("?@{}", s),
    };
    LOG.lock().unwrap_or_else(|e| e.into_inner()).push(s);
}
pub fn take_log() -> Vec<String> {
    std::mem::take(&mut *LOG.lock().unwrap_or_else(|e| e.into_inner()))
}

pub trait Show {
    fn show(&self) -> String;
}
impl Show for i64 {
    fn show(&self) -> String {
        format!("{}", self)
    }
}
impl Show for bool {
    fn show(&self) -> String {
        format!("{}", self)
    }
}
impl Show for () {
    fn show(&self) -> String {
        "()".into()
    }
}
impl<T: Show + ?Sized> Show for &T {
    fn show(&self) -> String {
        (**self).show()
    }
}
impl<T: Show> Show for Option<T> {
    fn show(&self) -> String {
        match self {
            Some(v) => format!("Some({})", v.show()),
            None => "None".into(),
        }
    }
}
impl<T: Show, E: Show> Show for Result<T, E> {
    fn show(&self) -> String {
        match self {
            Ok(v) => format!("Ok({})", v.show()),
            Err(e) => format!("Err({})", e.show()),
        }
    }
}
impl<T: Show> Show for Vec<T> {
    fn show(&self) -> String {
        format!("[{}]", self.iter().map(|x| x.show()).collect::<Vec<_>>().join(","))
    }
}
impl<T: Show> Show for std::collections::BTreeSet<T> {
    fn show(&self) -> String {
        format!("{{{}}}", self.iter().map(|x| x.show()).collect::<Vec<_>>().join(","))
    }
}
macro_rules! tuple_show {
    ($($n:ident),+) => {
        impl<$($n: Show),+> Show for ($($n,)+) {
            #[allow(non_snake_case)]
            fn show(&self) -> String {
                let ($($n,)+) = self;
                format!("({})", vec![$($n.show()),+].join(","))
            }
        }
    };
}
tuple_show!(A, B);
tuple_show!(A, B, C);
tuple_show!(A, B, C, D);
tuple_show!(A, B, C, D, E);
tuple_show!(A, B, C, D, E, F);

pub fn cv<T>(id: i64, v: T) -> T {
    log(format!("E{}", id));
    v
}
pub fn add(id: i64, k: i64) -> impl Fn(i64) -> i64 + Send + Sync + Copy + 'static {
    log(format!("E{}", id));
    move |x| {
        log(format!("C{}({})", id, x.show()));
        x + k
    }
}
pub fn opt_if(id: i64, m: i64, r: i64, k: i64) -> impl Fn(i64) -> Option<i64> + Send + Sync + Copy + 'static {
    log(format!("E{}", id));
    move |x| {
        log(format!("C{}({})", id, x.show()));
        if x.rem_euclid(m) == r {
            None
        } else {
            Some(x + k)
        }
    }
}
pub fn res_if(id: i64, m: i64, r: i64, k: i64, e: i64) -> impl Fn(i64) -> Result<i64, i64> + Send + Sync + Copy + 'static {
    log(format!("E{}", id));
    move |x| {
        log(format!("C{}({})", id, x.show()));
        if x.rem_euclid(m) == r {
            Err(e)
        } else {
            Ok(x + k)
        }
    }
}
pub fn pred(id: i64, m: i64, r: i64) -> impl Fn(&i64) -> bool + Send + Sync + Copy + 'static {
    log(format!("E{}", id));
    move |x| {
        log(format!("C{}({})", id, x.show()));
        x.rem_euclid(m) != r
    }
}
pub fn ident<T: Show>(id: i64) -> impl Fn(T) -> T + Send + Sync + Copy + 'static {
    log(format!("E{}", id));
    move |x| {
        log(format!("C{}({})", id, x.show()));
        x
    }
}
pub fn ins<T: Show>(id: i64) -> impl Fn(&T) + Send + Sync + Copy + 'static {
    log(format!("E{}", id));
    move |x| {
        log(format!("C{}({})", id, x.show()));
    }
}
pub fn or_else_opt(id: i64, v: Option<i64>) -> impl Fn() -> Option<i64> + Send + Sync + Copy + 'static {
    log(format!("E{}", id));
    move || {
        log(format!("C{}()", id));
        v
    }
}
pub fn or_else_res(id: i64, k: i64) -> impl Fn(i64) -> Result<i64, i64> + Send + Sync + Copy + 'static {
    log(format!("E{}", id));
    move |e| {
        log(format!("C{}({})", id, e.show()));
        if k < 0 {
            Err(e - k)
        } else {
            Ok(e + k)
        }
    }
}
pub fn cap(id: i64, names: Vec<String>) {
    log(format!("E{}{{{}}}", id, names.join(",")));
}
pub fn named<T: Show>(name: &str, v: &T) -> String {
    format!("{}={}", name, v.show())
}
pub fn unbound(name: &str) -> String {
    format!("{}=?", name)
}

macro_rules! handlers {
    ($f:ident, $fs:ident, $fo:ident, $($n:ident),+) => {
        #[allow(non_snake_case)]
        pub fn $f<$($n: Show),+>(id: i64) -> impl Fn($($n),+) -> ($($n),+) + Send + Sync + 'static {
            log(format!("E{}", id));
            move |$($n),+| {
                log(format!("C{}({})", id, vec![$($n.show()),+].join(",")));
                ($($n),+)
            }
        }
        #[allow(non_snake_case)]
        pub fn $fs<$($n: Show),+>(id: i64) -> impl Fn($($n),+) -> Option<($($n),+)> + Send + Sync + 'static {
            log(format!("E{}", id));
            move |$($n),+| {
                log(format!("C{}({})", id, vec![$($n.show()),+].join(",")));
                Some(($($n),+))
            }
        }
        #[allow(non_snake_case)]
        pub fn $fo<$($n: Show),+>(id: i64) -> impl Fn($($n),+) -> Result<($($n),+), i64> + Send + Sync + 'static {
            log(format!("E{}", id));
            move |$($n),+| {
                log(format!("C{}({})", id, vec![$($n.show()),+].join(",")));
                Ok(($($n),+))
            }
        }
    };
}
handlers!(hd1, hd1_some, hd1_ok, A);
handlers!(hd2, hd2_some, hd2_ok, A, B);
handlers!(hd3, hd3_some, hd3_ok, A, B, C);
handlers!(hd4, hd4_some, hd4_ok, A, B, C, D);
handlers!(hd5, hd5_some, hd5_ok, A, B, C, D, E);
handlers!(hd6, hd6_some, hd6_ok, A, B, C, D, E, F);

/// Runs one case: result (or PANIC) followed by the log.
pub fn run_case(id: &str, f: impl FnOnce() -> String + std::panic::UnwindSafe) {
    take_log();
    RELEASED.store(false, std::sync::atomic::Ordering::SeqCst);
    BOOMED.store(false, std::sync::atomic::Ordering::SeqCst);
    let r = std::panic::catch_unwind(f);
    RELEASED.store(true, std::sync::atomic::Ordering::SeqCst);
    let res = match r {
        Ok(s) => s,
        Err(_) => {
            // branch threads that were not joined (the caller panicked first) may still be finishing
            std::thread::sleep(std::time::Duration::from_millis(30));
            "PANIC".to_string()
        }
    };
    let lg = take_log();
    println!("CASE\t{}\t{}\t{}", id, res, lg.join(" "));
}

// ---- rendezvous: all `n` parties of `group` must be inside their callback at the same time (C08) ----
pub static MEET: Mutex<Vec<(usize, usize)>> = Mutex::new(Vec::new());
pub fn meet<T: Show>(id: i64, group: usize, n: usize) -> impl Fn(T) -> T + Send + Sync + 'static {
    log(format!("E{}", id));
    move |x| {
        log(format!("C{}({})", id, x.show()));
        {
            let mut m = MEET.lock().unwrap_or_else(|e| e.into_inner());
            match m.iter_mut().find(|(g, _)| *g == group) {
                Some(e) => e.1 += 1,
                None => m.push((group, 1)),
            }
        }
        let t0 = std::time::Instant::now();
        loop {
            let c = MEET.lock().unwrap_or_else(|e| e.into_inner()).iter().find(|(g, _)| *g == group).map(|e| e.1).unwrap_or(0);
            if c >= n {
                break;
            }
            if t0.elapsed() > std::time::Duration::from_millis(1500) {
                log(format!("TIMEOUT{}", id));
                break;
            }
            std::thread::sleep(std::time::Duration::from_micros(200));
        }
        x
    }
}

// ---- panicking callbacks (C18) ----
pub fn boom_i(id: i64) -> impl Fn(i64) -> i64 + Send + Sync + 'static {
    log(format!("E{}", id));
    move |x| {
        log(format!("C{}({})", id, x.show()));
        BOOMED.store(true, std::sync::atomic::Ordering::SeqCst);
        panic!("boom")
    }
}
pub fn boom_o(id: i64) -> impl Fn(i64) -> Option<i64> + Send + Sync + 'static {
    log(format!("E{}", id));
    move |x| {
        log(format!("C{}({})", id, x.show()));
        BOOMED.store(true, std::sync::atomic::Ordering::SeqCst);
        panic!("boom")
    }
}
pub fn boom_r(id: i64) -> impl Fn(i64) -> Result<i64, i64> + Send + Sync + 'static {
    log(format!("E{}", id));
    move |x| {
        log(format!("C{}({})", id, x.show()));
        BOOMED.store(true, std::sync::atomic::Ordering::SeqCst);
        panic!("boom")
    }
}
/// a panicking operand EXPRESSION (evaluated where the operand stands)
pub fn boom_e<T>(id: i64) -> T {
    log(format!("E{}", id));
    BOOMED.store(true, std::sync::atomic::Ordering::SeqCst);
    panic!("boom")
}

// ---- async kinds: ready futures (value-level correspondence; pending points are exercised by harness/asyncrt) ----
pub fn fut<T>(id: i64, v: T) -> futures::future::Ready<T> {
    log(format!("E{}", id));
    futures::future::ready(v)
}
/// adds k to the payload of an Option / Result / plain value (operand of `|>` on a future: FutureExt::map sees the whole output)
pub trait WAdd {
    fn wadd(self, k: i64) -> Self;
}
impl WAdd for i64 {
    fn wadd(self, k: i64) -> Self {
        self + k
    }
}
impl<T: WAdd> WAdd for Option<T> {
    fn wadd(self, k: i64) -> Self {
        self.map(|x| x.wadd(k))
    }
}
impl<T: WAdd> WAdd for Result<T, i64> {
    fn wadd(self, k: i64) -> Self {
        self.map(|x| x.wadd(k))
    }
}
pub fn wadd<T: WAdd + Show>(id: i64, k: i64) -> impl Fn(T) -> T + Send + Sync + 'static {
    log(format!("E{}", id));
    move |x| {
        log(format!("C{}({})", id, x.show()));
        x.wadd(k)
    }
}
pub fn fres_if(id: i64, m: i64, r: i64, k: i64, e: i64) -> impl Fn(i64) -> futures::future::Ready<Result<i64, i64>> + Send + Sync + 'static {
    log(format!("E{}", id));
    move |x| {
        log(format!("C{}({})", id, x.show()));
        futures::future::ready(if x.rem_euclid(m) == r { Err(e) } else { Ok(x + k) })
    }
}
pub fn for_else_res(id: i64, k: i64) -> impl Fn(i64) -> futures::future::Ready<Result<i64, i64>> + Send + Sync + 'static {
    log(format!("E{}", id));
    move |e| {
        log(format!("C{}({})", id, e.show()));
        futures::future::ready(if k < 0 { Err(e - k) } else { Ok(e + k) })
    }
}
macro_rules! fhandlers {
    ($f:ident, $fo:ident, $($n:ident),+) => {
        #[allow(non_snake_case)]
        pub fn $f<$($n: Show),+>(id: i64) -> impl Fn($($n),+) -> futures::future::Ready<($($n),+)> + Send + Sync + 'static {
            log(format!("E{}", id));
            move |$($n),+| {
                log(format!("C{}({})", id, vec![$($n.show()),+].join(",")));
                futures::future::ready(($($n),+))
            }
        }
        #[allow(non_snake_case)]
        pub fn $fo<$($n: Show),+>(id: i64) -> impl Fn($($n),+) -> futures::future::Ready<Result<($($n),+), i64>> + Send + Sync + 'static {
            log(format!("E{}", id));
            move |$($n),+| {
                log(format!("C{}({})", id, vec![$($n.show()),+].join(",")));
                futures::future::ready(Ok(($($n),+)))
            }
        }
    };
}
fhandlers!(fhd1, fhd1_ok, A);
fhandlers!(fhd2, fhd2_ok, A, B);
fhandlers!(fhd3, fhd3_ok, A, B, C);
fhandlers!(fhd4, fhd4_ok, A, B, C, D);

/// drives the future a macro returns on a tokio current-thread runtime (tasks of the spawn kinds run on this thread)
pub fn block_on_rt<F: std::future::Future>(f: F) -> F::Output {
    let rt = tokio::runtime::Builder::new_current_thread().enable_all().build().unwrap();
    rt.block_on(f)
}
pub fn boom_w<T: Show>(id: i64) -> impl Fn(T) -> T + Send + Sync + 'static {
    log(format!("E{}", id));
    move |x| {
        log(format!("C{}({})", id, x.show()));
        BOOMED.store(true, std::sync::atomic::Ordering::SeqCst);
        panic!("boom")
    }
}

// ---- B1: iterator chains; the oracle is the plain-Rust documented chain compiled in the same binary ----
impl Show for usize {
    fn show(&self) -> String {
        format!("{}", self)
    }
}
impl Show for u8 {
    fn show(&self) -> String {
        format!("{}", self)
    }
}
pub fn vals(id: i64, v: Vec<i64>) -> Vec<i64> {
    log(format!("E{}", id));
    v
}
pub fn iadd(id: i64, k: i64) -> impl FnMut(i64) -> i64 + Copy {
    log(format!("E{}", id));
    move |x| {
        log(format!("C{}({})", id, x.show()));
        x + k
    }
}
pub fn ipred(id: i64, m: i64, r: i64) -> impl FnMut(&i64) -> bool + Copy {
    log(format!("E{}", id));
    move |x| {
        log(format!("C{}({})", id, x.show()));
        x.rem_euclid(m) != r
    }
}
pub fn ioptif(id: i64, m: i64, r: i64, k: i64) -> impl FnMut(i64) -> Option<i64> + Copy {
    log(format!("E{}", id));
    move |x| {
        log(format!("C{}({})", id, x.show()));
        if x.rem_euclid(m) == r {
            None
        } else {
            Some(x + k)
        }
    }
}
pub fn ifold(id: i64, k: i64) -> impl FnMut(i64, i64) -> i64 + Copy {
    log(format!("E{}", id));
    move |acc, x| {
        log(format!("C{}({},{})", id, acc.show(), x.show()));
        acc * k + x
    }
}
pub fn itryfold(id: i64, m: i64, r: i64) -> impl FnMut(i64, i64) -> Option<i64> + Copy {
    log(format!("E{}", id));
    move |acc, x| {
        log(format!("C{}({},{})", id, acc.show(), x.show()));
        if x.rem_euclid(m) == r {
            None
        } else {
            Some(acc + x)
        }
    }
}
pub fn ipairsum(id: i64) -> impl FnMut((i64, i64)) -> i64 + Copy {
    log(format!("E{}", id));
    move |(a, b)| {
        log(format!("C{}({},{})", id, a.show(), b.show()));
        a * 10 + b
    }
}
pub fn ienum(id: i64) -> impl FnMut((usize, i64)) -> i64 + Copy {
    log(format!("E{}", id));
    move |(i, x)| {
        log(format!("C{}({},{})", id, i.show(), x.show()));
        x * 100 + i as i64
    }
}
pub fn iins(id: i64) -> impl FnMut(&i64) + Copy {
    log(format!("E{}", id));
    move |x| {
        log(format!("C{}({})", id, x.show()));
    }
}
pub fn cint(id: i64, v: i64) -> i64 {
    log(format!("E{}", id));
    v
}
/// runs both versions of one B1 case and prints result / callback trace of each
pub fn run_b1(id: &str, mac: impl FnOnce() -> String + std::panic::UnwindSafe, doc: impl FnOnce() -> String + std::panic::UnwindSafe) {
    take_log();
    let r1 = std::panic::catch_unwind(mac).unwrap_or_else(|_| "PANIC".to_string());
    let l1 = take_log();
    let r2 = std::panic::catch_unwind(doc).unwrap_or_else(|_| "PANIC".to_string());
    let l2 = take_log();
    println!("B1\t{}\t{}\t{}\t{}\t{}", id, r1, l1.join(" "), r2, l2.join(" "));
}

/// like run_case, but the macro is evaluated on a thread WITHOUT a name (std::thread::spawn)
pub fn run_case_unnamed(id: &'static str, f: impl FnOnce() -> String + std::panic::UnwindSafe + Send + 'static) {
    take_log();
    let h = std::thread::spawn(move || std::panic::catch_unwind(f));
    let res = match h.join() {
        Ok(Ok(s)) => s,
        _ => {
            std::thread::sleep(std::time::Duration::from_millis(30));
            "PANIC".to_string()
        }
    };
    let lg = take_log();
    println!("CASE\t{}\t{}\t{}", id, res, lg.join(" "));
}

pub fn boom_ins<T: Show>(id: i64) -> impl Fn(&T) + Send + Sync + Copy + 'static {
    log(format!("E{}", id));
    move |x| {
        log(format!("C{}({})", id, x.show()));
        BOOMED.store(true, std::sync::atomic::Ordering::SeqCst);
        panic!("boom")
    }
}
// ---- a callback that waits until the harness has seen the macro expression return or panic (C18: the caller is never left blocked) ----
pub static RELEASED: std::sync::atomic::AtomicBool = std::sync::atomic::AtomicBool::new(false);
pub static BOOMED: std::sync::atomic::AtomicBool = std::sync::atomic::AtomicBool::new(false);
pub fn wait_rel<T: Show>(id: i64) -> impl Fn(T) -> T + Send + Sync + Copy + 'static {
    log(format!("E{}", id));
    move |x| {
        log(format!("C{}({})", id, x.show()));
        // give a panicking sibling the time to panic; then, IF one has panicked, wait until the harness has seen the macro
        // expression return or panic: the caller must get there without waiting for this thread
        std::thread::sleep(std::time::Duration::from_millis(15));
        let t0 = std::time::Instant::now();
        while BOOMED.load(std::sync::atomic::Ordering::SeqCst) && !RELEASED.load(std::sync::atomic::Ordering::SeqCst) {
            if t0.elapsed() > std::time::Duration::from_millis(1500) {
                log(format!("TIMEOUT{}", id));
                break;
            }
            std::thread::sleep(std::time::Duration::from_micros(200));
        }
        x
    }
}
