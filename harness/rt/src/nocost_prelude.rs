//! C19 harness: a counting global allocator (per thread) and move-only / borrowing values.
#![allow(dead_code)]
use std::alloc::{GlobalAlloc, Layout, System};
use std::cell::Cell;

thread_local! { pub static ALLOCS: Cell<u64> = Cell::new(0); }

pub struct Counting;
unsafe impl GlobalAlloc for Counting {
    unsafe fn alloc(&self, l: Layout) -> *mut u8 {
        let _ = ALLOCS.try_with(|c| c.set(c.get() + 1));
        System.alloc(l)
    }
    unsafe fn dealloc(&self, p: *mut u8, l: Layout) {
        System.dealloc(p, l)
    }
    unsafe fn realloc(&self, p: *mut u8, l: Layout, n: usize) -> *mut u8 {
        let _ = ALLOCS.try_with(|c| c.set(c.get() + 1));
        System.realloc(p, l, n)
    }
}
pub fn allocs() -> u64 {
    ALLOCS.with(|c| c.get())
}

/// a move-only value: no Clone, no Copy; drops are counted
pub struct Tok(pub i64);
thread_local! { pub static DROPS: Cell<i64> = Cell::new(0); pub static MADE: Cell<i64> = Cell::new(0); }
impl Tok {
    pub fn new(v: i64) -> Tok {
        MADE.with(|c| c.set(c.get() + 1));
        Tok(v)
    }
}
impl Drop for Tok {
    fn drop(&mut self) {
        DROPS.with(|c| c.set(c.get() + 1));
    }
}
pub fn made_dropped() -> (i64, i64) {
    (MADE.with(|c| c.get()), DROPS.with(|c| c.get()))
}
pub fn bump(t: Tok, k: i64) -> Tok {
    let v = t.0 + k;
    std::mem::forget(t);
    MADE.with(|c| c.set(c.get() - 1));
    Tok::new(v)
}
