//! Prelude of the asyncrt harness: instrumented leaf futures and closures, gates, and a
//! deterministic executor that applies an action list to the future returned by ONE real
//! invocation of join_async! / try_join_async! / join_async_spawn! / try_join_async_spawn!.
//!
//! Log tokens (compared exactly with the observations of Join.Async.run_async):
//!   N k b        the chain expression of branch b / step k has been evaluated        (ONew)
//!   T k b        that chain is polled                                                 (OPoll)
//!   E k b e      logging closure e of that chain runs                                 (OEv)
//!   C k b g r    its gate future on gate g is polled, r = 1 iff the gate is flipped   (OChk)
//!   D k b ok     the chain completes, ok = 1 iff its value is Ok                      (ODone)
//!   R:pending | R:ok | R:err k b     result of a poll of the root                     (ORoot)
//!   G            Poll action after the root completed (the future is gone)            (OGone)
//!   W            the root waker is woken                                              (ONotify)
#![allow(dead_code)]

use std::cell::RefCell;
use std::collections::HashMap;
use std::future::Future;
use std::pin::Pin;
use std::sync::Arc;
use std::task::{Context, Poll, Wake, Waker};

pub type R = Result<i64, i64>;
pub type RootFut = Pin<Box<dyn Future<Output = String>>>;

struct GateSt {
    flipped: bool,
    /// one waker slot per parked leaf (k, b), in registration order
    slots: Vec<((u64, u64), Waker)>,
}

thread_local! {
    static LOG: RefCell<Vec<String>> = RefCell::new(Vec::new());
    static GATES: RefCell<HashMap<u64, GateSt>> = RefCell::new(HashMap::new());
}

pub fn log(s: String) {
    LOG.with(|l| l.borrow_mut().push(s));
}

fn reset() {
    LOG.with(|l| l.borrow_mut().clear());
    GATES.with(|g| g.borrow_mut().clear());
}

fn flip(g: u64) {
    let woken: Vec<Waker> = GATES.with(|gs| {
        let mut gs = gs.borrow_mut();
        let st = gs.entry(g).or_insert(GateSt { flipped: false, slots: Vec::new() });
        if st.flipped {
            Vec::new()
        } else {
            st.flipped = true;
            st.slots.drain(..).map(|(_, w)| w).collect()
        }
    });
    for w in woken {
        w.wake();
    }
}

// ------------------------------------------------------------------------------ gate future

/// Leaf future: Ready(v) iff gate g is flipped, otherwise stores the waker of the current
/// context in its slot on the gate.  Deregisters when dropped.
pub struct GateFut {
    k: u64,
    b: u64,
    g: u64,
    v: Option<R>,
}

impl Future for GateFut {
    type Output = R;
    fn poll(mut self: Pin<&mut Self>, cx: &mut Context<'_>) -> Poll<R> {
        let (k, b, g) = (self.k, self.b, self.g);
        let ready = GATES.with(|gs| {
            let mut gs = gs.borrow_mut();
            let st = gs.entry(g).or_insert(GateSt { flipped: false, slots: Vec::new() });
            if st.flipped {
                true
            } else {
                match st.slots.iter_mut().find(|(id, _)| *id == (k, b)) {
                    Some(slot) => slot.1 = cx.waker().clone(),
                    None => st.slots.push(((k, b), cx.waker().clone())),
                }
                false
            }
        });
        log(format!("C {} {} {} {}", k, b, g, if ready { 1 } else { 0 }));
        if ready {
            Poll::Ready(self.v.take().expect("gate future polled after completion"))
        } else {
            Poll::Pending
        }
    }
}

impl Drop for GateFut {
    fn drop(&mut self) {
        let (k, b, g) = (self.k, self.b, self.g);
        let _ = GATES.try_with(|gs| {
            if let Ok(mut gs) = gs.try_borrow_mut() {
                if let Some(st) = gs.get_mut(&g) {
                    st.slots.retain(|(id, _)| *id != (k, b));
                }
            }
        });
    }
}

// ------------------------------------------------------------------------------ chain elements

/// initial expression of a branch: an immediately ready future
pub fn init(b: u64) -> futures::future::Ready<R> {
    futures::future::ready(Ok(b as i64))
}
/// initial expression of a branch: a gate future
pub fn gti(k: u64, b: u64, g: u64) -> GateFut {
    GateFut { k, b, g, v: Some(Ok(b as i64)) }
}
/// `|> evm(k,b,e)` : FutureExt::map closure, logs E (runs whatever the value is)
pub fn evm(k: u64, b: u64, e: u64) -> impl FnOnce(R) -> R + Send + 'static {
    move |r| {
        log(format!("E {} {} {}", k, b, e));
        r
    }
}
/// `?? evi(k,b,e)` : FutureExt::inspect closure
pub fn evi(k: u64, b: u64, e: u64) -> impl FnOnce(&R) + Send + 'static {
    move |_r| {
        log(format!("E {} {} {}", k, b, e));
    }
}
/// `=> eva(k,b,e)` : TryFutureExt::and_then closure (runs only on Ok), logs E
pub fn eva(k: u64, b: u64, e: u64) -> impl FnOnce(i64) -> futures::future::Ready<R> + Send + 'static {
    move |v| {
        log(format!("E {} {} {}", k, b, e));
        futures::future::ready(Ok(v))
    }
}
/// `=> gta(k,b,g)` : and_then closure returning a gate future (runs only on Ok)
pub fn gta(k: u64, b: u64, g: u64) -> impl FnOnce(i64) -> GateFut + Send + 'static {
    move |v| GateFut { k, b, g, v: Some(Ok(v)) }
}
/// `..then(gtt(k,b,g))` : FutureExt::then closure returning a gate future (runs whatever the value is)
pub fn gtt(k: u64, b: u64, g: u64) -> impl FnOnce(R) -> GateFut + Send + 'static {
    move |r| GateFut { k, b, g, v: Some(r) }
}
pub fn errcode(k: u64, b: u64) -> i64 {
    (k * 1000 + b) as i64
}
/// `=> fla(k,b)` : and_then closure that fails the chain
pub fn fla(k: u64, b: u64) -> impl FnOnce(i64) -> futures::future::Ready<R> + Send + 'static {
    move |_v| futures::future::ready(Err(errcode(k, b)))
}
/// `|> flm(k,b)` : map closure that fails the chain
pub fn flm(k: u64, b: u64) -> impl FnOnce(R) -> R + Send + 'static {
    move |r| r.and_then(|_| Err(errcode(k, b)))
}
/// `|> fin(k,b)` : last closure of every branch-step chain.  Calling `fin` (when the chain
/// expression is evaluated) logs N; the closure (when the chain completes) logs D.
pub fn fin(k: u64, b: u64) -> impl FnOnce(R) -> R + Send + 'static {
    log(format!("N {} {}", k, b));
    move |r| {
        log(format!("D {} {} {}", k, b, if r.is_ok() { 1 } else { 0 }));
        r
    }
}

/// `..traced(k,b)` : outermost wrapper of a branch-step chain, logs T at every poll.
pub struct Traced<F> {
    inner: Pin<Box<F>>,
    k: u64,
    b: u64,
}
impl<F: Future> Future for Traced<F> {
    type Output = F::Output;
    fn poll(mut self: Pin<&mut Self>, cx: &mut Context<'_>) -> Poll<F::Output> {
        log(format!("T {} {}", self.k, self.b));
        self.inner.as_mut().poll(cx)
    }
}
pub trait TracedExt: Future + Sized {
    fn traced(self, k: u64, b: u64) -> Traced<Self> {
        Traced { inner: Box::pin(self), k, b }
    }
}
impl<F: Future + Sized> TracedExt for F {}

pub fn show_try<T>(r: Result<T, i64>) -> String {
    match r {
        Ok(_) => "ok".to_string(),
        Err(c) => format!("err {} {}", c / 1000, c % 1000),
    }
}
pub fn show_plain<T>(_r: T) -> String {
    "ok".to_string()
}

// ------------------------------------------------------------------------------ executor

struct RootWake;
impl Wake for RootWake {
    fn wake(self: Arc<Self>) {
        log("W".to_string());
    }
    fn wake_by_ref(self: &Arc<Self>) {
        log("W".to_string());
    }
}

/// Applies the action list (`F<g>` flip gate g, `P` poll the root once, `T` let the tokio
/// runtime run its queued tasks) to the future made by `mk`, prints `CASE\t<name>\t<log>`.
pub fn run(name: &str, mk: fn() -> RootFut, acts: &str) {
    reset();
    let rt = tokio::runtime::Builder::new_current_thread().enable_all().build().unwrap();
    let guard = rt.enter();
    let mut fut: Option<RootFut> = Some(mk());
    let waker = Waker::from(Arc::new(RootWake));
    for a in acts.split_whitespace() {
        match &a[..1] {
            "F" => flip(a[1..].parse().unwrap()),
            "P" => {
                let res = match fut.as_mut() {
                    None => None,
                    Some(f) => {
                        let mut cx = Context::from_waker(&waker);
                        Some(f.as_mut().poll(&mut cx))
                    }
                };
                match res {
                    None => log("G".to_string()),
                    Some(Poll::Pending) => log("R:pending".to_string()),
                    Some(Poll::Ready(s)) => {
                        log(format!("R:{}", s));
                        fut = None;
                    }
                }
            }
            "T" => rt.block_on(tokio::task::yield_now()),
            _ => panic!("bad action {}", a),
        }
    }
    let out = LOG.with(|l| l.borrow().join(";"));
    drop(fut);
    drop(guard);
    drop(rt);
    println!("CASE\t{}\t{}", name, out);
}
