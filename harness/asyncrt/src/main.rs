use join::*;
use futures::future::{ready, Future};
fn main() {
    let f = try_join_async_spawn! {
        ready(Ok::<i64,i64>(1)) |> |r| r => |v| ready(Ok::<i64,i64>(v)) ~=> |v| ready(Ok::<i64,i64>(v)) ~|> |r| r,
        ready(Ok::<i64,i64>(2)) ~|> |r| r,
        ready(Ok::<i64,i64>(3)) ~|> |r| r ~|> |r| r,
    };
    let _ = f;
}
