//! P-stage runner: for each input line `id \t kind \t DSL text` prints one JSON line with
//!   * "lex":    the token trees as proc_macro2 lexes them (same shape as implrun),
//!   * "parse":  {"ok": <structural dump of JoinInputDefault>} | {"err": <message>} | {"panic": <message>},
//!   * "oracle": the answers `syn` itself gives to every question the Coq model (Parse.v) may ask
//!               about this input:
//!       "rows":  for every start position s of the top-level token list, the list of positions a
//!                `parse_until` call started at s copies into its `tokens` accumulator (a `~` standing
//!                at the head of the input at an iteration is erased, everything else is copied), and
//!                for every prefix of that accumulator a code: bit 0 = `parse2::<Expr>` succeeds,
//!                bit 1 = `parse2::<Type>` succeeds;
//!       "lets":  for every (s, k) whose accumulator parses as `Expr::Let`: the `let_shape`
//!                (null = pattern is not `Pat::Ident`, else [PatIdent tokens, identifier, value tokens]);
//!       "epref": for every suffix of the top-level token list: how many token trees
//!                `input.parse::<Expr>()` consumes (null = it fails);
//!       "paths": for every top-level parenthesised group: how many token trees of its content
//!                `content.parse::<Path>()` consumes (null = it fails).
//! The only logic of the parser that is repeated here is the `~` erasure rule that fixes which token
//! lists can be asked about; if it were wrong the model would report OracleMiss.
use join_impl::chain::expr::{ActionExpr, ErrExpr, InitialExpr, ProcessExpr};
use join_impl::chain::group::{ApplicationType, MoveType};
use join_impl::chain::Chain;
use join_impl::handler::Handler;
use join_impl::parse::utils::is_block_expr;
use join_impl::JoinInputDefault;
use proc_macro2::{Delimiter, Spacing, TokenStream, TokenTree};
use quote::ToTokens;
use std::fmt::Write as _;
use std::io::{BufRead, Write};
use syn::parse::{ParseStream, Parser};

fn jstr(s: &str) -> String {
    let mut o = String::with_capacity(s.len() + 2);
    o.push('"');
    for c in s.chars() {
        match c {
            '"' => o.push_str("\\\""),
            '\\' => o.push_str("\\\\"),
            '\n' => o.push_str("\\n"),
            '\r' => o.push_str("\\r"),
            '\t' => o.push_str("\\t"),
            c if (c as u32) < 0x20 => {
                let _ = write!(o, "\\u{:04x}", c as u32);
            }
            c => o.push(c),
        }
    }
    o.push('"');
    o
}

fn toks(ts: TokenStream) -> String {
    let mut o = String::from("[");
    let mut first = true;
    for t in ts {
        if !first {
            o.push(',');
        }
        first = false;
        match t {
            TokenTree::Punct(p) => {
                let _ = write!(
                    o,
                    "[\"P\",{},{}]",
                    jstr(&p.as_char().to_string()),
                    p.spacing() == Spacing::Joint
                );
            }
            TokenTree::Ident(i) => {
                let _ = write!(o, "[\"I\",{}]", jstr(&i.to_string()));
            }
            TokenTree::Literal(l) => {
                let _ = write!(o, "[\"L\",{}]", jstr(&l.to_string()));
            }
            TokenTree::Group(g) => {
                let d = match g.delimiter() {
                    Delimiter::Parenthesis => "(",
                    Delimiter::Brace => "{",
                    Delimiter::Bracket => "[",
                    Delimiter::None => "",
                };
                let _ = write!(o, "[\"G\",{},{}]", jstr(d), toks(g.stream()));
            }
        }
    }
    o.push(']');
    o
}

fn exprs_json(es: &[syn::Expr]) -> (String, String) {
    let ops: Vec<String> = es.iter().map(|e| toks(e.to_token_stream())).collect();
    let blocks: Vec<String> = es.iter().map(|e| is_block_expr(e).to_string()).collect();
    (format!("[{}]", ops.join(",")), format!("[{}]", blocks.join(",")))
}
fn types_json(ts: Option<&[syn::Type]>) -> (String, String) {
    match ts {
        None => ("[]".into(), "[]".into()),
        Some(ts) => {
            let ops: Vec<String> = ts.iter().map(|e| toks(e.to_token_stream())).collect();
            let blocks: Vec<String> = ts.iter().map(|_| "false".to_string()).collect();
            (format!("[{}]", ops.join(",")), format!("[{}]", blocks.join(",")))
        }
    }
}

fn member_json(m: &join_impl::chain::group::ExprGroup<ActionExpr>) -> String {
    use ProcessExpr as P;
    let (comb, (ops, blocks)) = match m.expr() {
        ActionExpr::Process(p) => match p {
            P::Map(e) => ("Map", exprs_json(e)),
            P::Then(e) => ("Then", exprs_json(e)),
            P::AndThen(e) => ("AndThen", exprs_json(e)),
            P::Filter(e) => ("Filter", exprs_json(e)),
            P::FindMap(e) => ("FindMap", exprs_json(e)),
            P::Flatten => ("Flatten", exprs_json(&[])),
            P::Inspect(e) => ("Inspect", exprs_json(e)),
            P::Dot(e) => ("Dot", exprs_json(e)),
            P::Chain(e) => ("Chain", exprs_json(e)),
            P::Collect(t) => ("Collect", types_json(t.as_ref().map(|t| &t[..]))),
            P::Enumerate => ("Enumerate", exprs_json(&[])),
            P::FilterMap(e) => ("FilterMap", exprs_json(e)),
            P::Find(e) => ("Find", exprs_json(e)),
            P::Fold(e) => ("Fold", exprs_json(e)),
            P::Partition(e) => ("Partition", exprs_json(e)),
            P::TryFold(e) => ("TryFold", exprs_json(e)),
            P::Unzip(t) => ("Unzip", types_json(t.as_ref().map(|t| &t[..]))),
            P::Zip(e) => ("Zip", exprs_json(e)),
            P::UNWRAP => ("UNWRAP", exprs_json(&[])),
        },
        ActionExpr::Err(e) => match e {
            ErrExpr::Or(e) => ("Or", exprs_json(e)),
            ErrExpr::OrElse(e) => ("OrElse", exprs_json(e)),
            ErrExpr::MapErr(e) => ("MapErr", exprs_json(e)),
        },
        ActionExpr::Initial(InitialExpr::Single(e)) => ("Initial", exprs_json(e)),
    };
    let mv = match m.move_type() {
        MoveType::Wrap => "Wrap",
        MoveType::Unwrap => "Unwrap",
        MoveType::None => "NoMove",
    };
    format!(
        "{{\"comb\":\"{}\",\"deferred\":{},\"mv\":\"{}\",\"ops\":{},\"blocks\":{}}}",
        comb,
        *m.application_type() == ApplicationType::Deferred,
        mv,
        ops,
        blocks
    )
}

fn opt<T>(o: Option<T>, f: impl FnOnce(T) -> String) -> String {
    o.map(f).unwrap_or_else(|| "null".into())
}

fn dump(p: &JoinInputDefault) -> String {
    let branches: Vec<String> = p
        .branches
        .iter()
        .map(|b| {
            let pat = opt(b.id(), |id| {
                format!("[{},{}]", toks(id.to_token_stream()), jstr(&id.ident.to_string()))
            });
            let members: Vec<String> = b.members().iter().map(member_json).collect();
            format!("{{\"pat\":{},\"members\":[{}]}}", pat, members.join(","))
        })
        .collect();
    let handler = opt(p.handler.as_ref(), |h| {
        let k = match h {
            Handler::Map(_) => "HMap",
            Handler::Then(_) => "HThen",
            Handler::AndThen(_) => "HAndThen",
        };
        format!("[\"{}\",{}]", k, toks(h.extract_expr().to_token_stream()))
    });
    format!(
        "{{\"branches\":[{}],\"handler\":{},\"fcp\":{},\"joiner\":{},\"transpose\":{},\"lazy\":{}}}",
        branches.join(","),
        handler,
        opt(p.futures_crate_path.as_ref(), |x| toks(x.to_token_stream())),
        opt(p.custom_joiner.as_ref(), |x| toks(x.clone())),
        opt(p.transpose_results, |x| x.to_string()),
        opt(p.lazy_branches, |x| x.to_string()),
    )
}

fn panic_msg(e: Box<dyn std::any::Any + Send>) -> String {
    e.downcast_ref::<String>()
        .cloned()
        .or_else(|| e.downcast_ref::<&str>().map(|s| s.to_string()))
        .unwrap_or_else(|| "<non-string panic>".into())
}

// ---------------------------------------------------------------------------------- oracle tables

fn stream_of(tts: &[TokenTree], idxs: &[usize]) -> TokenStream {
    idxs.iter().map(|&i| tts[i].clone()).collect()
}

fn is_tilde(t: &TokenTree) -> bool {
    matches!(t, TokenTree::Punct(p) if p.as_char() == '~')
}

/// positions copied into `tokens` by a parse_until call that starts at s
fn consumed_positions(tts: &[TokenTree], s: usize) -> Vec<usize> {
    let n = tts.len();
    let mut p = s;
    let mut acc = Vec::new();
    while p < n {
        if is_tilde(&tts[p]) {
            p += 1;
            if p >= n {
                break;
            }
        }
        acc.push(p);
        p += 1;
    }
    acc
}

/// number of token trees a parser consumes from the front of `ts` (None = it fails)
fn prefix_len<T: syn::parse::Parse>(ts: TokenStream, total: usize) -> Option<usize> {
    let parser = |input: ParseStream<'_>| -> syn::Result<usize> {
        input.parse::<T>()?;
        let rest: TokenStream = input.parse()?;
        Ok(rest.into_iter().count())
    };
    match std::panic::catch_unwind(move || parser.parse2(ts)) {
        Ok(Ok(rest)) => Some(total - rest),
        _ => None,
    }
}

fn valid<T: syn::parse::Parse>(ts: TokenStream) -> bool {
    matches!(std::panic::catch_unwind(move || syn::parse2::<T>(ts).is_ok()), Ok(true))
}

fn oracle_json(ts: &TokenStream) -> String {
    let tts: Vec<TokenTree> = ts.clone().into_iter().collect();
    let n = tts.len();
    let mut rows = Vec::with_capacity(n + 1);
    let mut lets = Vec::new();
    for s in 0..=n {
        let idxs = consumed_positions(&tts, s);
        let mut codes = Vec::with_capacity(idxs.len() + 1);
        for k in 0..=idxs.len() {
            let sub = stream_of(&tts, &idxs[..k]);
            let sub2 = sub.clone();
            let e = std::panic::catch_unwind(move || syn::parse2::<syn::Expr>(sub2));
            let mut code = 0;
            if let Ok(Ok(expr)) = e {
                code |= 1;
                if let syn::Expr::Let(l) = expr {
                    let shape = match &l.pat {
                        syn::Pat::Ident(p) => format!(
                            "[{},{},{}]",
                            toks(p.to_token_stream()),
                            jstr(&p.ident.to_string()),
                            toks(l.expr.to_token_stream())
                        ),
                        _ => "null".to_string(),
                    };
                    lets.push(format!("[{},{},{}]", s, k, shape));
                }
            }
            if valid::<syn::Type>(sub) {
                code |= 2;
            }
            codes.push(code.to_string());
        }
        let idxs: Vec<String> = idxs.iter().map(|i| i.to_string()).collect();
        rows.push(format!("[[{}],[{}]]", idxs.join(","), codes.join(",")));
    }
    let mut epref = Vec::with_capacity(n + 1);
    for p in 0..=n {
        let sub: TokenStream = tts[p..].iter().cloned().collect();
        epref.push(format!(
            "[{},{}]",
            p,
            opt(prefix_len::<syn::Expr>(sub, n - p), |x| x.to_string())
        ));
    }
    let mut paths = Vec::new();
    for t in &tts {
        if let TokenTree::Group(g) = t {
            if g.delimiter() == Delimiter::Parenthesis {
                let total = g.stream().into_iter().count();
                paths.push(format!(
                    "[{},{}]",
                    toks(g.stream()),
                    opt(prefix_len::<syn::Path>(g.stream(), total), |x| x.to_string())
                ));
            }
        }
    }
    format!(
        "{{\"rows\":[{}],\"lets\":[{}],\"epref\":[{}],\"paths\":[{}]}}",
        rows.join(","),
        lets.join(","),
        epref.join(","),
        paths.join(",")
    )
}

pub fn run_case(text: &str) -> String {
    let ts: TokenStream = match text.parse() {
        Ok(ts) => ts,
        Err(e) => return format!("\"lex\":null,\"lexerr\":{}", jstr(&e.to_string())),
    };
    let lex = toks(ts.clone());
    let oracle = oracle_json(&ts);
    let parsed = std::panic::catch_unwind(|| syn::parse2::<JoinInputDefault>(ts));
    let parse_json = match parsed {
        Err(e) => format!("{{\"panic\":{}}}", jstr(&panic_msg(e))),
        Ok(Err(e)) => format!("{{\"err\":{}}}", jstr(&e.to_string())),
        Ok(Ok(p)) => format!("{{\"ok\":{}}}", dump(&p)),
    };
    format!("\"lex\":{},\"parse\":{},\"oracle\":{}", lex, parse_json, oracle)
}

fn main() {
    std::panic::set_hook(Box::new(|_| {}));
    let args: Vec<String> = std::env::args().collect();
    let input = std::fs::File::open(&args[1]).expect("cases file");
    let out = std::io::stdout();
    let mut out = std::io::BufWriter::new(out.lock());
    for line in std::io::BufReader::new(input).lines() {
        let line = line.unwrap();
        if line.is_empty() {
            continue;
        }
        let mut it = line.splitn(3, '\t');
        let id = it.next().unwrap();
        let kind = it.next().unwrap();
        let text = it.next().unwrap_or("");
        writeln!(out, "{{\"id\":{},\"kind\":{},{}}}", jstr(id), jstr(kind), run_case(text)).unwrap();
    }
}
