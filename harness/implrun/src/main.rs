//! Library-level runner for correspondence A: for each input (macro kind, DSL text) prints one
//! JSON line with the lexed token trees, the parse result of `JoinInputDefault`, and the
//! flattened expansion produced by `generate_join` (or the way it failed).
use join_impl::chain::expr::{ActionExpr, ErrExpr, InitialExpr, ProcessExpr};
use join_impl::chain::group::{ApplicationType, MoveType};
use join_impl::chain::Chain;
use join_impl::handler::Handler;
use join_impl::parse::utils::is_block_expr;
use join_impl::{generate_join, Config, JoinInputDefault};
use proc_macro2::{Delimiter, Spacing, TokenStream, TokenTree};
use quote::ToTokens;
use std::fmt::Write as _;
use std::io::{BufRead, Write};

fn jstr(s: &str) -> String {
    let mut o = String::with_capacity(s.len() + 2);
    o.push('"');
    for c in s.chars() {
        match c {
            '"' => o.push_str("\\\""),
            '\\' => o.push_str("\\\\"),
            '\n' => o.push_str("\\n"),
            '\r' => o.push_str("\\r"),
            '\t' => o.push_str("\\t"),
            c if (c as u32) < 0x20 => {
                let _ = write!(o, "\\u{:04x}", c as u32);
            }
            c => o.push(c),
        }
    }
    o.push('"');
    o
}

fn toks(ts: TokenStream) -> String {
    let mut o = String::from("[");
    let mut first = true;
    for t in ts {
        if !first {
            o.push(',');
        }
        first = false;
        match t {
            TokenTree::Punct(p) => {
                let _ = write!(
                    o,
                    "[\"P\",{},{}]",
                    jstr(&p.as_char().to_string()),
                    p.spacing() == Spacing::Joint
                );
            }
            TokenTree::Ident(i) => {
                let _ = write!(o, "[\"I\",{}]", jstr(&i.to_string()));
            }
            TokenTree::Literal(l) => {
                let _ = write!(o, "[\"L\",{}]", jstr(&l.to_string()));
            }
            TokenTree::Group(g) => {
                let d = match g.delimiter() {
                    Delimiter::Parenthesis => "(",
                    Delimiter::Brace => "{",
                    Delimiter::Bracket => "[",
                    Delimiter::None => "",
                };
                let _ = write!(o, "[\"G\",{},{}]", jstr(d), toks(g.stream()));
            }
        }
    }
    o.push(']');
    o
}

fn flat(ts: TokenStream, out: &mut Vec<String>) {
    for t in ts {
        match t {
            TokenTree::Punct(p) => out.push(p.as_char().to_string()),
            TokenTree::Ident(i) => out.push(i.to_string()),
            TokenTree::Literal(l) => out.push(l.to_string()),
            TokenTree::Group(g) => {
                let (a, b) = match g.delimiter() {
                    Delimiter::Parenthesis => ("(", ")"),
                    Delimiter::Brace => ("{", "}"),
                    Delimiter::Bracket => ("[", "]"),
                    Delimiter::None => ("", ""),
                };
                if !a.is_empty() {
                    out.push(a.to_string());
                }
                flat(g.stream(), out);
                if !b.is_empty() {
                    out.push(b.to_string());
                }
            }
        }
    }
}

fn exprs_json(es: &[syn::Expr]) -> (String, String) {
    let ops: Vec<String> = es.iter().map(|e| toks(e.to_token_stream())).collect();
    let blocks: Vec<String> = es.iter().map(|e| is_block_expr(e).to_string()).collect();
    (format!("[{}]", ops.join(",")), format!("[{}]", blocks.join(",")))
}
fn types_json(ts: Option<&[syn::Type]>) -> (String, String) {
    match ts {
        None => ("[]".into(), "[]".into()),
        Some(ts) => {
            let ops: Vec<String> = ts.iter().map(|e| toks(e.to_token_stream())).collect();
            let blocks: Vec<String> = ts.iter().map(|_| "false".to_string()).collect();
            (format!("[{}]", ops.join(",")), format!("[{}]", blocks.join(",")))
        }
    }
}

fn member_json(m: &join_impl::chain::group::ExprGroup<ActionExpr>) -> String {
    use ProcessExpr as P;
    let (comb, (ops, blocks)) = match m.expr() {
        ActionExpr::Process(p) => match p {
            P::Map(e) => ("Map", exprs_json(e)),
            P::Then(e) => ("Then", exprs_json(e)),
            P::AndThen(e) => ("AndThen", exprs_json(e)),
            P::Filter(e) => ("Filter", exprs_json(e)),
            P::FindMap(e) => ("FindMap", exprs_json(e)),
            P::Flatten => ("Flatten", exprs_json(&[])),
            P::Inspect(e) => ("Inspect", exprs_json(e)),
            P::Dot(e) => ("Dot", exprs_json(e)),
            P::Chain(e) => ("Chain", exprs_json(e)),
            P::Collect(t) => ("Collect", types_json(t.as_ref().map(|t| &t[..]))),
            P::Enumerate => ("Enumerate", exprs_json(&[])),
            P::FilterMap(e) => ("FilterMap", exprs_json(e)),
            P::Find(e) => ("Find", exprs_json(e)),
            P::Fold(e) => ("Fold", exprs_json(e)),
            P::Partition(e) => ("Partition", exprs_json(e)),
            P::TryFold(e) => ("TryFold", exprs_json(e)),
            P::Unzip(t) => ("Unzip", types_json(t.as_ref().map(|t| &t[..]))),
            P::Zip(e) => ("Zip", exprs_json(e)),
            P::UNWRAP => ("UNWRAP", exprs_json(&[])),
        },
        ActionExpr::Err(e) => match e {
            ErrExpr::Or(e) => ("Or", exprs_json(e)),
            ErrExpr::OrElse(e) => ("OrElse", exprs_json(e)),
            ErrExpr::MapErr(e) => ("MapErr", exprs_json(e)),
        },
        ActionExpr::Initial(InitialExpr::Single(e)) => ("Initial", exprs_json(e)),
    };
    let mv = match m.move_type() {
        MoveType::Wrap => "Wrap",
        MoveType::Unwrap => "Unwrap",
        MoveType::None => "NoMove",
    };
    format!(
        "{{\"comb\":\"{}\",\"deferred\":{},\"mv\":\"{}\",\"ops\":{},\"blocks\":{}}}",
        comb,
        *m.application_type() == ApplicationType::Deferred,
        mv,
        ops,
        blocks
    )
}

fn opt<T>(o: Option<T>, f: impl FnOnce(T) -> String) -> String {
    o.map(f).unwrap_or_else(|| "null".into())
}

fn dump(p: &JoinInputDefault) -> String {
    let branches: Vec<String> = p
        .branches
        .iter()
        .map(|b| {
            let pat = opt(b.id(), |id| {
                format!("[{},{}]", toks(id.to_token_stream()), jstr(&id.ident.to_string()))
            });
            let members: Vec<String> = b.members().iter().map(member_json).collect();
            format!("{{\"pat\":{},\"members\":[{}]}}", pat, members.join(","))
        })
        .collect();
    let handler = opt(p.handler.as_ref(), |h| {
        let k = match h {
            Handler::Map(_) => "HMap",
            Handler::Then(_) => "HThen",
            Handler::AndThen(_) => "HAndThen",
        };
        format!("[\"{}\",{}]", k, toks(h.extract_expr().to_token_stream()))
    });
    format!(
        "{{\"branches\":[{}],\"handler\":{},\"fcp\":{},\"joiner\":{},\"transpose\":{},\"lazy\":{}}}",
        branches.join(","),
        handler,
        opt(p.futures_crate_path.as_ref(), |x| toks(x.to_token_stream())),
        opt(p.custom_joiner.as_ref(), |x| toks(x.clone())),
        opt(p.transpose_results, |x| x.to_string()),
        opt(p.lazy_branches, |x| x.to_string()),
    )
}

fn panic_msg(e: Box<dyn std::any::Any + Send>) -> String {
    e.downcast_ref::<String>()
        .cloned()
        .or_else(|| e.downcast_ref::<&str>().map(|s| s.to_string()))
        .unwrap_or_else(|| "<non-string panic>".into())
}

pub fn run_case(kind: &str, text: &str) -> String {
    let b: Vec<bool> = kind.chars().map(|c| c == '1').collect();
    let (is_async, is_try, is_spawn) = (b[0], b[1], b[2]);
    let ts: TokenStream = match text.parse() {
        Ok(ts) => ts,
        Err(e) => return format!("\"lex\":null,\"lexerr\":{}", jstr(&e.to_string())),
    };
    let lex = toks(ts.clone());
    let parsed = std::panic::catch_unwind(|| syn::parse2::<JoinInputDefault>(ts));
    let (parse_json, gen_json) = match parsed {
        Err(e) => (format!("{{\"panic\":{}}}", jstr(&panic_msg(e))), "null".to_string()),
        Ok(Err(e)) => (format!("{{\"err\":{}}}", jstr(&e.to_string())), "null".to_string()),
        Ok(Ok(p)) => {
            let d = dump(&p);
            let g = std::panic::catch_unwind(std::panic::AssertUnwindSafe(|| {
                generate_join(
                    &p,
                    Config {
                        is_async,
                        is_try,
                        is_spawn,
                    },
                )
            }));
            let gj = match g {
                Ok(out) => {
                    let expr_ok = syn::parse2::<syn::Expr>(out.clone()).is_ok();
                    let mut v = Vec::new();
                    flat(out, &mut v);
                    let v: Vec<String> = v.iter().map(|s| jstr(s)).collect();
                    format!("{{\"ok\":[{}],\"expr_ok\":{}}}", v.join(","), expr_ok)
                }
                Err(e) => {
                    let m = panic_msg(e);
                    if m.contains("called `Result::unwrap()` on an `Err` value") {
                        format!("{{\"config\":{}}}", jstr(&m))
                    } else {
                        format!("{{\"panic\":{}}}", jstr(&m))
                    }
                }
            };
            (format!("{{\"ok\":{}}}", d), gj)
        }
    };
    format!("\"lex\":{},\"parse\":{},\"gen\":{}", lex, parse_json, gen_json)
}

fn main() {
    std::panic::set_hook(Box::new(|_| {}));
    let args: Vec<String> = std::env::args().collect();
    let input = std::fs::File::open(&args[1]).expect("cases file");
    let lines: Vec<String> = std::io::BufReader::new(input).lines().map(|l| l.unwrap()).filter(|l| !l.is_empty()).collect();
    let threads: usize = std::env::var("IMPLRUN_THREADS").ok().and_then(|s| s.parse().ok()).unwrap_or(1);
    let run_all = |lines: &[String]| -> Vec<String> {
        lines
            .iter()
            .map(|line| {
                let mut it = line.splitn(3, '\t');
                let id = it.next().unwrap();
                let kind = it.next().unwrap();
                let text = it.next().unwrap_or("");
                format!("{{\"id\":{},\"kind\":{},{}}}", jstr(id), jstr(kind), run_case(kind, text))
            })
            .collect()
    };
    let out = std::io::stdout();
    let mut out = std::io::BufWriter::new(out.lock());
    if threads <= 1 {
        for l in run_all(&lines) {
            writeln!(out, "{}", l).unwrap();
        }
    } else {
        // the same inputs expanded concurrently from several threads (each thread in a different rotation):
        // the result of thread 0 is printed, with a flag telling whether every thread produced the same text
        let lines = std::sync::Arc::new(lines);
        let handles: Vec<_> = (0..threads)
            .map(|t| {
                let lines = lines.clone();
                std::thread::spawn(move || {
                    let n = lines.len();
                    let mut order: Vec<usize> = (0..n).collect();
                    order.rotate_left(if n > 0 { (t * 7) % n } else { 0 });
                    let mut res = vec![String::new(); n];
                    for i in order {
                        let line = &lines[i];
                        let mut it = line.splitn(3, '\t');
                        let id = it.next().unwrap();
                        let kind = it.next().unwrap();
                        let text = it.next().unwrap_or("");
                        res[i] = format!("{{\"id\":{},\"kind\":{},{}}}", jstr(id), jstr(kind), run_case(kind, text));
                    }
                    res
                })
            })
            .collect();
        let results: Vec<Vec<String>> = handles.into_iter().map(|h| h.join().unwrap()).collect();
        for i in 0..lines.len() {
            let same = results.iter().all(|r| r[i] == results[0][i]);
            let l = &results[0][i];
            writeln!(out, "{},\"concurrent_equal\":{}}}", &l[..l.len() - 1], same).unwrap();
        }
    }
}
