(* C13 - Handlers: map / and_then only on success, then always, exactly once.  Model: Spec.v + Gen.v. *)
From Coq Require Import List ZArith Lia.
From Join Require Import Tok Names Ast Ir Gen Comp Std Denote Spec Leaves SpecProps.
From Join Require Ir Gen RefineBase RefineChain RefineProg RefineTop.

(* OBLIGATION map_handler_on_success *)
Theorem map_handler_on_success :
  forall callsem awaitsem (p : sprog) hv fam x,
    is_async (sp_cfg p) = false ->
    handle_results callsem awaitsem p (Some (HMap, hv)) (DV (wrapf fam x)) =
    (let! d := call_handler callsem p hv (DV x) in let! y := to_val d in Ret (DV (wrapf fam y))).
Proof. exact map_on_success. Qed.
Print Assumptions map_handler_on_success.

(* OBLIGATION and_then_handler_on_success *)
Theorem and_then_handler_on_success :
  forall callsem awaitsem (p : sprog) hv fam x,
    is_async (sp_cfg p) = false ->
    handle_results callsem awaitsem p (Some (HAndThen, hv)) (DV (wrapf fam x)) =
    (let! d := call_handler callsem p hv (DV x) in let! y := to_val d in Ret (DV y)).
Proof. exact and_then_on_success. Qed.
Print Assumptions and_then_handler_on_success.

(* OBLIGATION map_and_then_not_called_on_failure *)
Theorem map_and_then_not_called_on_failure :
  forall callsem awaitsem (p : sprog) k hv fam w,
    is_async (sp_cfg p) = false -> failf fam w = true -> k = HMap \/ k = HAndThen ->
    handle_results callsem awaitsem p (Some (k, hv)) (DV w) = Ret (DV w).
Proof. exact map_and_then_skip_failure. Qed.
Print Assumptions map_and_then_not_called_on_failure.

(* OBLIGATION then_handler_always_once *)
Theorem then_handler_always_once :
  forall callsem awaitsem (p : sprog) hv rs,
    is_async (sp_cfg p) = false ->
    handle_results callsem awaitsem p (Some (HThen, hv)) rs = call_handler callsem p hv rs.
Proof. exact then_always_once. Qed.
Print Assumptions then_handler_always_once.

(* OBLIGATION then_handler_awaited_in_async *)
Theorem then_handler_awaited_in_async :
  forall callsem awaitsem (p : sprog) hv rs,
    is_async (sp_cfg p) = true ->
    handle_results callsem awaitsem p (Some (HThen, hv)) rs =
    (let! d := call_handler callsem p hv rs in let! v := await_d awaitsem d in Ret (DV v)).
Proof. exact then_awaited_async. Qed.
Print Assumptions then_handler_awaited_in_async.

(* OBLIGATION handler_receives_values_in_branch_order *)
Theorem handler_receives_values_in_branch_order :
  forall callsem (p : sprog) hv vs,
    List.length vs = List.length (sp_trees p) -> List.length (sp_trees p) <> 1 ->
    call_handler callsem p hv (DV (VTuple vs)) = apply callsem hv (map DV vs).
Proof. exact handler_args_in_branch_order. Qed.
Print Assumptions handler_receives_values_in_branch_order.

(* OBLIGATION wrong_handler_kind_rejected *)
(* the generator rejects `map`/`and_then` for non-try macros and `then` for try macros *)
Theorem wrong_handler_kind_rejected :
  forall cfg inp h,
    i_handler inp = Some h ->
    (is_try cfg = false /\ (fst h = HMap \/ fst h = HAndThen) -> gen cfg inp = ConfigError 1) /\
    (is_try cfg = true /\ fst h = HThen -> gen cfg inp = ConfigError 2).
Proof.
  intros cfg inp [k o] Hh. unfold gen, jout_new. rewrite Hh. cbn [fst].
  split.
  - intros [Ht [-> | ->]]; rewrite Ht; reflexivity.
  - intros [Ht ->]; rewrite Ht; reflexivity.
Qed.
Print Assumptions wrong_handler_kind_rejected.

(* the tie between Spec.v and the generator model, PROVED for all eight kinds and all inputs (theories/proofs/RefineTop.v):
   what is proved about `spec` above holds of the meaning of the generated code *)
(* OBLIGATION generated_code_refines_reference_semantics *)
Theorem generated_code_refines_reference_semantics :
  forall (msem : string -> option (list operand) -> dval -> list dval -> comp dval)
         (dotsem : operand -> list (string * option val) -> dval -> comp dval)
         (callsem : val -> list dval -> comp dval) (awaitsem : val -> comp val)
         (cfg : config) (inp : input) (e : Ir.rexpr) (sp : sprog),
      RefineProg.wf inp -> Gen.gen cfg inp = Ir.Ok e -> prepare cfg inp = Some sp ->
      den (user_names inp) msem dotsem callsem awaitsem e empty_env = spec msem dotsem callsem awaitsem sp.
Proof. exact RefineTop.gen_refines_spec. Qed.
Print Assumptions generated_code_refines_reference_semantics.
