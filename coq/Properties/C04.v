(* C04 - Result positions: branch i's final value is element i.
   Only property theorems here; proofs are in theories/proofs/SpecProps.v.

   The model is the reference semantics Spec.v (tied to the code on every run by correspondence B:
   compiled macro invocations vs `spec` under the same rule table; and to the generator model by
   `check_mm`).  `T b k d` is an ARBITRARY predicate "d is what branch b's chain produced in step k";
   the chains themselves (user code, any operators) and the world are universally quantified. *)
From Coq Require Import List ZArith Lia.
From Join Require Import Tok Names Ast Comp Std Denote Spec Leaves SpecProps.
From Join Require SpecSpawnProps.
From Join Require SpecSpawn.
From Join Require SpecPositions.
From Join Require ThreadsProps.
From Join Require RefineCorollaries.
From Join Require Ir Gen RefineBase RefineChain RefineProg RefineTop.

(* OBLIGATION result_positions_join *)
(* join! (sequential, non-try), for EVERY branch count n >= 1 and EVERY depth profile: whatever the world
   answers, the result holds at position b a value produced by branch b in its LAST step (a bare value when
   n = 1).  `StateOK 0 st0` holds trivially for the initial state. *)
Theorem result_positions_join :
  forall msem dotsem callsem awaitsem (p : sprog) (T : nat -> nat -> dval -> Prop),
    (forall sn cp k st b, leaves (chain msem dotsem callsem p sn cp k st b) (T b k)) ->
    (forall b, b < List.length (sp_trees p) -> 1 <= depth p b) ->
    is_async (sp_cfg p) = false -> is_spawn (sp_cfg p) = false -> is_try (sp_cfg p) = false ->
    forall fuel k st, fuel + k = max_depth p -> StateOK p T k st ->
      leaves (steps msem dotsem callsem awaitsem p fuel k st) (ResultOK p T).
Proof. exact SpecProps.result_positions_join. Qed.
Print Assumptions result_positions_join.

(* OBLIGATION finished_branch_untouched *)
(* a branch that is not active in a step keeps its value untouched *)
Theorem finished_branch_untouched :
  forall st acts ds b, ~ In b acts -> nth b (set_all st acts ds) None = nth b st None.
Proof. exact nth_set_all_notin. Qed.
Print Assumptions finished_branch_untouched.

(* OBLIGATION active_branch_gets_own_value *)
(* destructuring a step result: the j-th active branch receives the j-th value, for any relation R *)
Theorem active_branch_gets_own_value :
  forall (R : nat -> dval -> Prop) st acts ds b,
    NoDup acts -> Forall (fun a => a < List.length st) acts -> Forall2 R acts ds -> In b acts ->
    exists d, nth b (set_all st acts ds) None = Some d /\ R b d.
Proof. exact nth_set_all_in. Qed.
Print Assumptions active_branch_gets_own_value.

(* OBLIGATION try_success_tuple_positions *)
(* try kinds, final step: the success value is Some/Ok of the payloads IN BRANCH ORDER (bare when n = 1);
   see C05 for the failure case.  (Corollary of transpose_first_failure with no failing branch.) *)
Theorem try_success_tuple_positions :
  forall awaitsem (p : sprog) fam (w v : nat -> val),
    (forall b, b < List.length (sp_trees p) -> wellf fam (w b) (v b)) ->
    forall st, 1 <= List.length (sp_trees p) -> StEq p st (mid w v 0) ->
      first_fail_from fam w 0 (List.length (sp_trees p)) = None ->
      transpose awaitsem p (seq 0 (List.length (sp_trees p))) st =
      Ret (DV (wrapf fam (bare_or_tuple (map v (seq 0 (List.length (sp_trees p))))))).
Proof.
  intros awaitsem p fam w v Hw st Hn Hst Hff.
  rewrite (transpose_first_failure awaitsem p fam w v Hw (List.length (sp_trees p)) 0 st) by (auto; lia).
  rewrite Hff. reflexivity.
Qed.
Print Assumptions try_success_tuple_positions.

(* non-vacuity: the initial state satisfies the invariant *)
Example initial_state_ok : forall (p : sprog) T,
  StateOK p T 0 (map (fun _ => None) (sp_trees p)).
Proof. intros p T. split; [apply map_length|]. intros b _ H. inversion H. Qed.

(* the tie between Spec.v and the generator model, PROVED for all eight kinds and all inputs (theories/proofs/RefineTop.v):
   what is proved about `spec` above holds of the meaning of the generated code *)
(* OBLIGATION generated_code_refines_reference_semantics *)
Theorem generated_code_refines_reference_semantics :
  forall (msem : string -> option (list operand) -> dval -> list dval -> comp dval)
         (dotsem : operand -> list (string * option val) -> dval -> comp dval)
         (callsem : val -> list dval -> comp dval) (awaitsem : val -> comp val)
         (cfg : config) (inp : input) (e : Ir.rexpr) (sp : sprog),
      RefineProg.wf inp -> Gen.gen cfg inp = Ir.Ok e -> prepare cfg inp = Some sp ->
      den (user_names inp) msem dotsem callsem awaitsem e empty_env = spec msem dotsem callsem awaitsem sp.
Proof. exact RefineTop.gen_refines_spec. Qed.
Print Assumptions generated_code_refines_reference_semantics.

(* OBLIGATION generated_join_result_positions *)
(* C04 for the GENERATED code of join! (no handler): every way den (gen cfg inp) can end satisfies ResultOK - position b holds a value of branch b's last step *)
Theorem generated_join_result_positions :
  forall
    (msem : String.string ->
            option (list Tok.operand) -> Comp.dval -> list Comp.dval -> Comp.comp Comp.dval)
    (dotsem : Tok.operand -> list (String.string * option Comp.val) -> Comp.dval -> Comp.comp Comp.dval)
    (callsem : Comp.val -> list Comp.dval -> Comp.comp Comp.dval)
    (awaitsem : Comp.val -> Comp.comp Comp.val)
    (inp : Ast.input) (e : Ir.rexpr) (sp : Spec.sprog) (T : nat -> nat -> Comp.dval -> Prop),
  let cfg := {| Ast.is_async := false; Ast.is_try := false; Ast.is_spawn := false |} in
  Ast.i_handler inp = None ->
  RefineProg.wf inp ->
  Gen.gen cfg inp = Ir.Ok e ->
  Spec.prepare cfg inp = Some sp ->
  (forall (sn : list (String.string * option Comp.val)) (cp : Spec.caps) (k : nat) 
     (st : Spec.state) (b : nat), Leaves.leaves (Spec.chain msem dotsem callsem sp sn cp k st b) (T b k)) ->
  Leaves.leaves (Denote.den (Spec.user_names inp) msem dotsem callsem awaitsem e Denote.empty_env)
    (SpecProps.ResultOK sp T).
Proof. exact (@RefineCorollaries.den_gen_result_positions). Qed.
Print Assumptions generated_join_result_positions.

(* OBLIGATION thread_step_delivers_results_in_branch_order *)
(* thread kinds (every world, EVERY schedule): when the caller is past the spawn-all/join-all block, ALL n children have finished and the continuation runs on the list rs of their outcomes IN SPAWN (= branch) ORDER: position i of the step result is the outcome of the thread that ran the i-th active branch *)
Theorem thread_step_delivers_results_in_branch_order :
  forall (wstate : Type)
    (handle : option String.string -> Comp.ev -> wstate -> option Comp.val * wstate)
    (names : list String.string) (ts : list (Comp.comp Comp.val))
    (K : list (option Comp.val) -> Comp.comp Comp.val) (s0 : Threads.state wstate) 
    (c : nat),
  Datatypes.length names = Datatypes.length ts ->
  ThreadsProps.ccode wstate c s0 (ThreadsProps.block names ts K) ->
  forall sched : list nat,
  let s := Threads.run_thr handle sched s0 in
  (exists th : Threads.thread,
     ThreadsProps.thr_of wstate s c = Some th /\
     ThreadsProps.quiet wstate s0 c s /\
     ((exists (n : String.string) (t : Comp.comp Comp.val) (k : nat -> Comp.comp Comp.val),
         Threads.th_code th = Comp.Spawn n t k) \/
      (exists (h : nat) (k : option Comp.val -> Comp.comp Comp.val), Threads.th_code th = Comp.Join h k))) \/
  (exists (hs : list nat) (rs : list (option Comp.val)) (th : Threads.thread),
     ThreadsProps.all_children_finished wstate names ts s0 c s hs rs /\
     ThreadsProps.thr_of wstate s c = Some th /\ ThreadsProps.cdesc (K rs) (Threads.th_code th)).
Proof. exact (@ThreadsProps.block_barrier). Qed.
Print Assumptions thread_step_delivers_results_in_branch_order.

(* OBLIGATION async_result_positions *)
Theorem async_result_positions :
  forall
    (msem : String.string ->
            option (list Tok.operand) -> Comp.dval -> list Comp.dval -> Comp.comp Comp.dval)
    (dotsem : Tok.operand -> list (String.string * option Comp.val) -> Comp.dval -> Comp.comp Comp.dval)
    (callsem : Comp.val -> list Comp.dval -> Comp.comp Comp.dval)
    (awaitsem : Comp.val -> Comp.comp Comp.val) (p : Spec.sprog) (T : nat -> nat -> Comp.dval -> Prop),
  (forall b : nat, b < Datatypes.length (Spec.sp_trees p) -> 1 <= Spec.depth p b) ->
  (forall (sn : list (String.string * option Comp.val)) (cp : Spec.caps) (k : nat) 
     (st : Spec.state) (b : nat),
   b < Datatypes.length (Spec.sp_trees p) ->
   k < Spec.depth p b ->
   Leaves.leaves (Spec.chain msem dotsem callsem p sn cp k st b)
     (fun d : Comp.dval =>
      Leaves.leaves (Std.await_d awaitsem d) (fun v : Comp.val => T b k (Comp.DV v)))) ->
  Ast.is_async (Spec.sp_cfg p) = true ->
  Ast.is_try (Spec.sp_cfg p) = false ->
  Spec.sp_handler p = None ->
  Leaves.leaves (Spec.spec msem dotsem callsem awaitsem p)
    (fun d : Comp.dval =>
     Leaves.leaves (Std.await_d awaitsem d) (fun v : Comp.val => SpecProps.ResultOK p T (Comp.DV v))).
Proof. exact (@SpecPositions.result_positions_async_await). Qed.
Print Assumptions async_result_positions.

(* OBLIGATION try_sync_result_positions *)
Theorem try_sync_result_positions :
  forall
    (msem : String.string ->
            option (list Tok.operand) -> Comp.dval -> list Comp.dval -> Comp.comp Comp.dval)
    (dotsem : Tok.operand -> list (String.string * option Comp.val) -> Comp.dval -> Comp.comp Comp.dval)
    (callsem : Comp.val -> list Comp.dval -> Comp.comp Comp.dval)
    (awaitsem : Comp.val -> Comp.comp Comp.val) (p : Spec.sprog) (T : nat -> nat -> Comp.dval -> Prop),
  (forall b : nat, b < Datatypes.length (Spec.sp_trees p) -> 1 <= Spec.depth p b) ->
  forall fam : bool,
  (forall (sn : list (String.string * option Comp.val)) (cp : Spec.caps) (k : nat) 
     (st : Spec.state) (b : nat),
   b < Datatypes.length (Spec.sp_trees p) ->
   k < Spec.depth p b -> Leaves.leaves (Spec.chain msem dotsem callsem p sn cp k st b) (T b k)) ->
  (forall (b k : nat) (d : Comp.dval),
   b < Datatypes.length (Spec.sp_trees p) ->
   k < Spec.depth p b -> T b k d -> exists w v : Comp.val, d = Comp.DV w /\ SpecProps.wellf fam w v) ->
  Ast.is_async (Spec.sp_cfg p) = false ->
  Ast.is_spawn (Spec.sp_cfg p) = false ->
  Ast.is_try (Spec.sp_cfg p) = true ->
  Spec.sp_handler p = None ->
  Leaves.leaves (Spec.spec msem dotsem callsem awaitsem p) (SpecPositions.TryResultOK p T fam).
Proof. exact (@SpecPositions.result_positions_try_sync_spec). Qed.
Print Assumptions try_sync_result_positions.

(* OBLIGATION try_async_result_positions *)
Theorem try_async_result_positions :
  forall
    (msem : String.string ->
            option (list Tok.operand) -> Comp.dval -> list Comp.dval -> Comp.comp Comp.dval)
    (dotsem : Tok.operand -> list (String.string * option Comp.val) -> Comp.dval -> Comp.comp Comp.dval)
    (callsem : Comp.val -> list Comp.dval -> Comp.comp Comp.dval)
    (awaitsem : Comp.val -> Comp.comp Comp.val) (p : Spec.sprog) (T : nat -> nat -> Comp.dval -> Prop),
  (forall b : nat, b < Datatypes.length (Spec.sp_trees p) -> 1 <= Spec.depth p b) ->
  (forall (sn : list (String.string * option Comp.val)) (cp : Spec.caps) (k : nat) 
     (st : Spec.state) (b : nat),
   b < Datatypes.length (Spec.sp_trees p) ->
   k < Spec.depth p b ->
   Leaves.leaves (Spec.chain msem dotsem callsem p sn cp k st b)
     (fun d : Comp.dval =>
      Leaves.leaves (Std.await_d awaitsem d) (fun v : Comp.val => T b k (Comp.DV v)))) ->
  Ast.is_async (Spec.sp_cfg p) = true ->
  Ast.is_try (Spec.sp_cfg p) = true ->
  Spec.sp_handler p = None ->
  Leaves.leaves (Spec.spec msem dotsem callsem awaitsem p)
    (fun d : Comp.dval =>
     Leaves.leaves (Std.await_d awaitsem d)
       (fun v : Comp.val => SpecPositions.TryResultOK p T false (Comp.DV v))).
Proof. exact (@SpecPositions.result_positions_try_async_await). Qed.
Print Assumptions try_async_result_positions.

(* OBLIGATION generated_async_result_positions *)
Theorem generated_async_result_positions :
  forall
    (msem : String.string ->
            option (list Tok.operand) -> Comp.dval -> list Comp.dval -> Comp.comp Comp.dval)
    (dotsem : Tok.operand -> list (String.string * option Comp.val) -> Comp.dval -> Comp.comp Comp.dval)
    (callsem : Comp.val -> list Comp.dval -> Comp.comp Comp.dval)
    (awaitsem : Comp.val -> Comp.comp Comp.val) (cfg : Ast.config) (inp : Ast.input) 
    (e : Ir.rexpr) (sp : Spec.sprog) (T : nat -> nat -> Comp.dval -> Prop),
  Ast.is_async cfg = true ->
  Ast.is_try cfg = false ->
  Ast.i_handler inp = None ->
  RefineProg.wf inp ->
  Gen.gen cfg inp = Ir.Ok e ->
  Spec.prepare cfg inp = Some sp ->
  (forall (sn : list (String.string * option Comp.val)) (cp : Spec.caps) (k : nat) 
     (st : Spec.state) (b : nat),
   b < Datatypes.length (Spec.sp_trees sp) ->
   k < Spec.depth sp b ->
   Leaves.leaves (Spec.chain msem dotsem callsem sp sn cp k st b)
     (fun d : Comp.dval =>
      Leaves.leaves (Std.await_d awaitsem d) (fun v : Comp.val => T b k (Comp.DV v)))) ->
  exists c : Comp.comp Comp.val,
    Denote.den (Spec.user_names inp) msem dotsem callsem awaitsem e Denote.empty_env =
    Comp.Ret (Comp.DFut c) /\ Leaves.leaves c (fun v : Comp.val => SpecProps.ResultOK sp T (Comp.DV v)).
Proof. exact (@SpecPositions.den_gen_result_positions_async). Qed.
Print Assumptions generated_async_result_positions.

(* OBLIGATION generated_try_result_positions *)
Theorem generated_try_result_positions :
  forall
    (msem : String.string ->
            option (list Tok.operand) -> Comp.dval -> list Comp.dval -> Comp.comp Comp.dval)
    (dotsem : Tok.operand -> list (String.string * option Comp.val) -> Comp.dval -> Comp.comp Comp.dval)
    (callsem : Comp.val -> list Comp.dval -> Comp.comp Comp.dval)
    (awaitsem : Comp.val -> Comp.comp Comp.val) (inp : Ast.input) (e : Ir.rexpr) 
    (sp : Spec.sprog) (T : nat -> nat -> Comp.dval -> Prop) (fam : bool),
  let cfg := {| Ast.is_async := false; Ast.is_try := true; Ast.is_spawn := false |} in
  Ast.i_handler inp = None ->
  RefineProg.wf inp ->
  Gen.gen cfg inp = Ir.Ok e ->
  Spec.prepare cfg inp = Some sp ->
  (forall (sn : list (String.string * option Comp.val)) (cp : Spec.caps) (k : nat) 
     (st : Spec.state) (b : nat),
   b < Datatypes.length (Spec.sp_trees sp) ->
   k < Spec.depth sp b -> Leaves.leaves (Spec.chain msem dotsem callsem sp sn cp k st b) (T b k)) ->
  (forall (b k : nat) (d : Comp.dval),
   b < Datatypes.length (Spec.sp_trees sp) ->
   k < Spec.depth sp b -> T b k d -> exists w v : Comp.val, d = Comp.DV w /\ SpecProps.wellf fam w v) ->
  Leaves.leaves (Denote.den (Spec.user_names inp) msem dotsem callsem awaitsem e Denote.empty_env)
    (SpecPositions.TryResultOK sp T fam).
Proof. exact (@SpecPositions.den_gen_result_positions_try_sync). Qed.
Print Assumptions generated_try_result_positions.

(* OBLIGATION generated_try_async_result_positions *)
Theorem generated_try_async_result_positions :
  forall
    (msem : String.string ->
            option (list Tok.operand) -> Comp.dval -> list Comp.dval -> Comp.comp Comp.dval)
    (dotsem : Tok.operand -> list (String.string * option Comp.val) -> Comp.dval -> Comp.comp Comp.dval)
    (callsem : Comp.val -> list Comp.dval -> Comp.comp Comp.dval)
    (awaitsem : Comp.val -> Comp.comp Comp.val) (cfg : Ast.config) (inp : Ast.input) 
    (e : Ir.rexpr) (sp : Spec.sprog) (T : nat -> nat -> Comp.dval -> Prop),
  Ast.is_async cfg = true ->
  Ast.is_try cfg = true ->
  Ast.i_handler inp = None ->
  RefineProg.wf inp ->
  Gen.gen cfg inp = Ir.Ok e ->
  Spec.prepare cfg inp = Some sp ->
  (forall (sn : list (String.string * option Comp.val)) (cp : Spec.caps) (k : nat) 
     (st : Spec.state) (b : nat),
   b < Datatypes.length (Spec.sp_trees sp) ->
   k < Spec.depth sp b ->
   Leaves.leaves (Spec.chain msem dotsem callsem sp sn cp k st b)
     (fun d : Comp.dval =>
      Leaves.leaves (Std.await_d awaitsem d) (fun v : Comp.val => T b k (Comp.DV v)))) ->
  exists c : Comp.comp Comp.val,
    Denote.den (Spec.user_names inp) msem dotsem callsem awaitsem e Denote.empty_env =
    Comp.Ret (Comp.DFut c) /\
    Leaves.leaves c (fun v : Comp.val => SpecPositions.TryResultOK sp T false (Comp.DV v)).
Proof. exact (@SpecPositions.den_gen_result_positions_try_async). Qed.
Print Assumptions generated_try_async_result_positions.

(* OBLIGATION spawn_result_positions *)
(* thread kinds, whole program, every schedule: the value the caller of join_spawn! gets lists branch b's last step value at position b *)
Theorem spawn_result_positions :
  forall (h : Comp.ev -> option Comp.val) (W : Type)
    (handle : option String.string -> Comp.ev -> W -> option Comp.val * W)
    (msem : String.string ->
            option (list Tok.operand) -> Comp.dval -> list Comp.dval -> Comp.comp Comp.dval)
    (dotsem : Tok.operand -> list (String.string * option Comp.val) -> Comp.dval -> Comp.comp Comp.dval)
    (callsem : Comp.val -> list Comp.dval -> Comp.comp Comp.dval)
    (awaitsem : Comp.val -> Comp.comp Comp.val) (p : Spec.sprog) (nm : option String.string) 
    (w : W) (sched : list nat) (T : nat -> nat -> Comp.dval -> Prop),
  SpecSpawn.stateless h W handle ->
  SpecCode.user_codeC (@SpecSpawn.ucode) msem dotsem callsem awaitsem ->
  Ast.is_async (Spec.sp_cfg p) = false ->
  Ast.is_try (Spec.sp_cfg p) = false ->
  Spec.sp_handler p = None ->
  (forall (sn : list (String.string * option Comp.val)) (cp : Spec.caps) (k : nat) 
     (st : Spec.state) (b : nat), Leaves.leaves (Spec.chain msem dotsem callsem p sn cp k st b) (T b k)) ->
  (forall b : nat, b < Datatypes.length (Spec.sp_trees p) -> 1 <= Spec.depth p b) ->
  let spawn_prog :=
    Comp.bind (Spec.spec msem dotsem callsem awaitsem (SpecCode.with_spawn true p))
      (fun d : Comp.dval => Comp.to_val d) in
  let s := Threads.run_thr handle sched (Threads.init nm spawn_prog w) in
  forall v : Comp.val, Threads.result_of 0 s = Some (Some v) -> SpecProps.ResultOK p T (Comp.DV v).
Proof. exact (@SpecSpawn.spawn_result_positions). Qed.
Print Assumptions spawn_result_positions.

(* OBLIGATION try_spawn_result_positions *)
(* try_join_spawn!, whole program, every schedule *)
Theorem try_spawn_result_positions :
  forall (h : Comp.ev -> option Comp.val) (W : Type)
    (handle : option String.string -> Comp.ev -> W -> option Comp.val * W),
  SpecSpawn.stateless h W handle ->
  forall
    (msem : String.string ->
            option (list Tok.operand) -> Comp.dval -> list Comp.dval -> Comp.comp Comp.dval)
    (dotsem : Tok.operand -> list (String.string * option Comp.val) -> Comp.dval -> Comp.comp Comp.dval)
    (callsem : Comp.val -> list Comp.dval -> Comp.comp Comp.dval)
    (awaitsem : Comp.val -> Comp.comp Comp.val),
  SpecCode.user_codeC (@SpecSpawn.ucode) msem dotsem callsem awaitsem ->
  forall p : Spec.sprog,
  Ast.is_async (Spec.sp_cfg p) = false ->
  forall (nm : option String.string) (w : W) (T : nat -> nat -> Comp.dval -> Prop) 
    (fam : bool) (sched : list nat),
  Ast.is_try (Spec.sp_cfg p) = true ->
  Spec.sp_handler p = None ->
  (forall (sn : list (String.string * option Comp.val)) (cp : Spec.caps) (k : nat) 
     (st : Spec.state) (b : nat),
   b < Datatypes.length (Spec.sp_trees p) ->
   k < Spec.depth p b -> Leaves.leaves (Spec.chain msem dotsem callsem p sn cp k st b) (T b k)) ->
  (forall (b k : nat) (d : Comp.dval),
   b < Datatypes.length (Spec.sp_trees p) ->
   k < Spec.depth p b -> T b k d -> exists w0 v : Comp.val, d = Comp.DV w0 /\ SpecProps.wellf fam w0 v) ->
  (forall b : nat, b < Datatypes.length (Spec.sp_trees p) -> 1 <= Spec.depth p b) ->
  forall v : Comp.val,
  Threads.result_of 0
    (Threads.run_thr handle sched
       (Threads.init nm
          (Comp.bind (Spec.spec msem dotsem callsem awaitsem (SpecCode.with_spawn true p))
             (fun d : Comp.dval => Comp.to_val d)) w)) = Some (Some v) ->
  SpecPositions.TryResultOK p T fam (Comp.DV v) /\
  (forall x : Comp.val, v = SpecProps.wrapf fam x -> SpecPositions.PayloadsOK p T fam x) /\
  (SpecProps.failf fam v = true ->
   exists b k : nat, b < Datatypes.length (Spec.sp_trees p) /\ k < Spec.depth p b /\ T b k (Comp.DV v)).
Proof. exact (@SpecSpawnProps.try_spawn_result_positions). Qed.
Print Assumptions try_spawn_result_positions.
