(* C06 - try macros: a failed step aborts everything after it.  Model: Spec.v. *)
From Coq Require Import List ZArith Lia.
From Join Require Import Tok Names Ast Comp Std Denote Spec Leaves SpecProps.
From Join Require SpecSpawnProps.
From Join Require Ir Gen RefineBase RefineChain RefineProg RefineTop.

(* OBLIGATION failed_step_aborts *)
(* For every continuation K (= all later steps), the check made after a non-final step is either K (nobody
   failed) or `Ret d` for the failing value d: a computation with no event at all - no operand, callback or
   block capture of a later step.  The whole step (`step_result`: every active branch's chain, to its end)
   has been run BEFORE the check: see try_steps_shape in C05.v, where the check is applied to the complete
   list `ds` of the step's values. *)
Theorem failed_step_aborts :
  forall (ds : list dval) (K : comp dval),
    (let! oks := mapM classify ds in
     match first_false oks ds with
     | Some d => std_map d (fun _ => Panic P_UNREACHABLE)
     | None => K
     end)
    = if all_classified ds then match first_fail_list ds with Some d => Ret d | None => K end
      else Panic P_ILLTYPED.
Proof. exact per_step_check. Qed.
Print Assumptions failed_step_aborts.

(* OBLIGATION handler_not_called_after_failure *)
Theorem handler_not_called_after_failure :
  forall callsem awaitsem (p : sprog) k hv fam w,
    is_async (sp_cfg p) = false -> failf fam w = true -> k = HMap \/ k = HAndThen ->
    handle_results callsem awaitsem p (Some (k, hv)) (DV w) = Ret (DV w).
Proof. exact map_and_then_skip_failure. Qed.
Print Assumptions handler_not_called_after_failure.

Example a_failing_list : first_fail_list [DV (VOk (VInt 1%Z)); DV (VErr (VInt 7%Z)); DV (VErr (VInt 9%Z))] = Some (DV (VErr (VInt 7%Z))).
Proof. reflexivity. Qed.

(* the tie between Spec.v and the generator model, PROVED for all eight kinds and all inputs (theories/proofs/RefineTop.v):
   what is proved about `spec` above holds of the meaning of the generated code *)
(* OBLIGATION generated_code_refines_reference_semantics *)
Theorem generated_code_refines_reference_semantics :
  forall (msem : string -> option (list operand) -> dval -> list dval -> comp dval)
         (dotsem : operand -> list (string * option val) -> dval -> comp dval)
         (callsem : val -> list dval -> comp dval) (awaitsem : val -> comp val)
         (cfg : config) (inp : input) (e : Ir.rexpr) (sp : sprog),
      RefineProg.wf inp -> Gen.gen cfg inp = Ir.Ok e -> prepare cfg inp = Some sp ->
      den (user_names inp) msem dotsem callsem awaitsem e empty_env = spec msem dotsem callsem awaitsem sp.
Proof. exact RefineTop.gen_refines_spec. Qed.
Print Assumptions generated_code_refines_reference_semantics.

(* OBLIGATION try_spawn_abort *)
(* try_join_spawn!: after a failing step the caller's remaining code is Ret of the failure: nothing of a later step, and a map/and_then handler returns it untouched *)
Theorem try_spawn_abort :
  forall
    (msem : String.string ->
            option (list Tok.operand) -> Comp.dval -> list Comp.dval -> Comp.comp Comp.dval)
    (dotsem : Tok.operand -> list (String.string * option Comp.val) -> Comp.dval -> Comp.comp Comp.dval)
    (callsem : Comp.val -> list Comp.dval -> Comp.comp Comp.dval)
    (awaitsem : Comp.val -> Comp.comp Comp.val) (p : Spec.sprog),
  Ast.is_async (Spec.sp_cfg p) = false ->
  forall (fuel k : nat) (st : Spec.state) (sr : Comp.dval) (ds : list Comp.dval) (d : Comp.dval),
  Ast.is_try (Spec.sp_cfg p) = true ->
  fuel <> 0 ->
  Spec.extract (Spec.actives p k) sr = Comp.Ret ds ->
  SpecProps.all_classified ds = true ->
  SpecProps.first_fail_list ds = Some d ->
  Spec.steps msem dotsem callsem awaitsem (SpecCode.with_spawn true p) (S fuel) k st =
  Comp.bind (Spec.step_result msem dotsem callsem awaitsem (SpecCode.with_spawn true p) k st)
    (fun sr0 : Comp.dval =>
     SpecCode.after_sync awaitsem (SpecCode.with_spawn true p)
       (Spec.steps msem dotsem callsem awaitsem (SpecCode.with_spawn true p) fuel (S k))
       (PeanoNat.Nat.eqb fuel 0) k st sr0) /\
  SpecCode.after_sync awaitsem (SpecCode.with_spawn true p)
    (Spec.steps msem dotsem callsem awaitsem (SpecCode.with_spawn true p) fuel (S k))
    (PeanoNat.Nat.eqb fuel 0) k st sr = Comp.Ret d /\
  (forall (hk : Ast.hkind) (hv : Comp.dval) (fam : bool) (wv : Comp.val),
   d = Comp.DV wv ->
   SpecProps.failf fam wv = true ->
   hk = Ast.HMap \/ hk = Ast.HAndThen ->
   Comp.bind
     (SpecCode.after_sync awaitsem (SpecCode.with_spawn true p)
        (Spec.steps msem dotsem callsem awaitsem (SpecCode.with_spawn true p) fuel (S k))
        (PeanoNat.Nat.eqb fuel 0) k st sr)
     (fun rs : Comp.dval =>
      Spec.handle_results callsem awaitsem (SpecCode.with_spawn true p) (Some (hk, hv)) rs) = 
   Comp.Ret d).
Proof. exact (@SpecSpawnProps.try_spawn_abort). Qed.
Print Assumptions try_spawn_abort.
