(* C20 - Expansion is a pure function of the macro input.
   What Rocq contributes is small and said plainly: the model of the expansion, print (gen cfg (parse ts)), IS a function of the
   token trees - it has no other argument (no state, clock, counter, spans).  The property is about the implementation, so the
   weight is on the tie: correspondence A compares EVERY expansion of repeated, permuted and concurrent (8 threads) histories
   with this single model value (family `history`), so hidden state shows up as an A mismatch whose replay is the history. *)
From Coq Require Import List.
From Join Require Import Tok Names Ast Ir Print Gen.

Definition expansion (cfg : config) (inp : input) : res (list string) :=
  match gen cfg inp with Ok e => Ok (print e) | ConfigError n => ConfigError n | InternalBug n => InternalBug n end.

(* OBLIGATION expansion_is_a_function_of_the_input *)
(* any two expansions of equal inputs are equal: whatever happened in between, in whatever order, on whatever thread *)
Theorem expansion_is_a_function_of_the_input :
  forall (history1 history2 : list (config * input)) cfg inp cfg' inp',
    cfg = cfg' -> inp = inp' -> expansion cfg inp = expansion cfg' inp'.
Proof. intros _ _ cfg inp cfg' inp' -> ->. reflexivity. Qed.
Print Assumptions expansion_is_a_function_of_the_input.

(* OBLIGATION expansion_ignores_spacing_of_generated_tokens *)
(* the printer is a homomorphism on the IR: equal IR terms print equally *)
Theorem expansion_ignores_spacing_of_generated_tokens :
  forall e e' : rexpr, e = e' -> print e = print e'.
Proof. intros e e' ->. reflexivity. Qed.
Print Assumptions expansion_ignores_spacing_of_generated_tokens.

(* OBLIGATION history_position_and_neighbours_are_irrelevant *)
(* the shape the `history` family samples, for every history: expand two arbitrary histories (any length, any order, any other
   invocations before, between and after); wherever the same invocation occurs - at any position of either - it got the same expansion *)
Definition expand_history (h : list (config * input)) : list ((config * input) * res (list string)) :=
  map (fun ci => (ci, expansion (fst ci) (snd ci))) h.

Theorem history_position_and_neighbours_are_irrelevant :
  forall (h1 h2 : list (config * input)) ci o1 o2,
    In (ci, o1) (expand_history h1) -> In (ci, o2) (expand_history h2) -> o1 = o2.
Proof.
  intros h1 h2 ci o1 o2 H1 H2. unfold expand_history in *.
  apply in_map_iff in H1. destruct H1 as [x1 [E1 _]]. apply in_map_iff in H2. destruct H2 as [x2 [E2 _]].
  inversion E1; subst. inversion E2; subst. reflexivity.
Qed.
Print Assumptions history_position_and_neighbours_are_irrelevant.

(* OBLIGATION history_expansion_is_compositional *)
(* expanding a history is expanding its parts: no invocation leaves anything behind for a later one *)
Theorem history_expansion_is_compositional :
  forall h1 h2 : list (config * input), expand_history (h1 ++ h2) = expand_history h1 ++ expand_history h2.
Proof. intros h1 h2. unfold expand_history. apply map_app. Qed.
Print Assumptions history_expansion_is_compositional.

(* non-vacuity: a two-invocation history has two entries *)
Example history_nonvacuous : forall c i, Datatypes.length (expand_history ((c, i) :: (c, i) :: nil)) = 2.
Proof. reflexivity. Qed.
