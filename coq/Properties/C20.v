(* C20 - Expansion is a pure function of the macro input.
   What Rocq contributes is small and said plainly: the model of the expansion, print (gen cfg (parse ts)), IS a function of the
   token trees - it has no other argument (no state, clock, counter, spans).  The property is about the implementation, so the
   weight is on the tie: correspondence A compares EVERY expansion of repeated, permuted and concurrent (8 threads) histories
   with this single model value (family `history`), so hidden state shows up as an A mismatch whose replay is the history. *)
From Coq Require Import List.
From Join Require Import Tok Names Ast Ir Print Gen.

Definition expansion (cfg : config) (inp : input) : res (list string) :=
  match gen cfg inp with Ok e => Ok (print e) | ConfigError n => ConfigError n | InternalBug n => InternalBug n end.

(* OBLIGATION expansion_is_a_function_of_the_input *)
(* any two expansions of equal inputs are equal: whatever happened in between, in whatever order, on whatever thread *)
Theorem expansion_is_a_function_of_the_input :
  forall (history1 history2 : list (config * input)) cfg inp cfg' inp',
    cfg = cfg' -> inp = inp' -> expansion cfg inp = expansion cfg' inp'.
Proof. intros _ _ cfg inp cfg' inp' -> ->. reflexivity. Qed.
Print Assumptions expansion_is_a_function_of_the_input.

(* OBLIGATION expansion_ignores_spacing_of_generated_tokens *)
(* the printer is a homomorphism on the IR: equal IR terms print equally *)
Theorem expansion_ignores_spacing_of_generated_tokens :
  forall e e' : rexpr, e = e' -> print e = print e'.
Proof. intros e e' ->. reflexivity. Qed.
Print Assumptions expansion_ignores_spacing_of_generated_tokens.
