(* C05 - try macros: all-success tuple, otherwise the first failure, unchanged.
   Model: Spec.v.  Sequential / thread try macros check the step's results in branch order. *)
From Coq Require Import List ZArith Lia.
From Join Require Import Tok Names Ast Comp Std Denote Spec Leaves SpecProps.
From Join Require SpecSpawnProps.
From Join Require RefineCorollaries.
From Join Require Ir Gen RefineBase RefineChain RefineProg RefineTop.

(* OBLIGATION try_steps_shape *)
(* every step of try_join! / try_join_spawn! (any program, any world): after a NON-final step the values of the
   active branches are inspected in branch order and the value of the LOWEST-NUMBERED failing branch is the
   macro's result AS IS (`Ret d`: payload unchanged, nothing else runs); only if none failed does the next step
   run; the final step transposes. *)
Theorem try_steps_shape :
  forall msem dotsem callsem awaitsem (p : sprog) fuel k st,
    is_try (sp_cfg p) = true -> is_async (sp_cfg p) = false ->
    steps msem dotsem callsem awaitsem p (S fuel) k st =
    (let! sr := step_result msem dotsem callsem awaitsem p k st in
     let! ds := extract (actives p k) sr in
     let st' := set_all st (actives p k) ds in
     if Nat.eqb fuel 0 then transpose awaitsem p (seq 0 (List.length (sp_trees p))) st'
     else if all_classified ds
          then match first_fail_list ds with
               | Some d => Ret d
               | None => steps msem dotsem callsem awaitsem p fuel (S k) st'
               end
          else Panic P_ILLTYPED).
Proof. exact try_steps_sync. Qed.
Print Assumptions try_steps_shape.

(* OBLIGATION first_failure_is_lowest_and_unchanged *)
Theorem first_failure_is_lowest_and_unchanged :
  forall ds d, first_fail_list ds = Some d -> cls d = Some false /\ In d ds.
Proof. exact first_fail_list_cls. Qed.
Print Assumptions first_failure_is_lowest_and_unchanged.

(* OBLIGATION final_step_transposes *)
(* final step, n >= 1 branches holding w_0 .. w_{n-1} (Option family: fam = true; Result family: fam = false):
   Some/Ok (tuple of payloads) iff no branch failed, otherwise the value of the lowest-numbered failing branch. *)
Theorem final_step_transposes :
  forall awaitsem (p : sprog) fam (w v : nat -> val),
    (forall b, b < List.length (sp_trees p) -> wellf fam (w b) (v b)) ->
    forall m i st, i + m = List.length (sp_trees p) -> 1 <= m -> StEq p st (mid w v i) ->
      transpose awaitsem p (seq i m) st =
      Ret (DV (match first_fail_from fam w i m with
               | Some b => w b
               | None => wrapf fam (bare_or_tuple (map v (seq 0 (List.length (sp_trees p)))))
               end)).
Proof. exact transpose_first_failure. Qed.
Print Assumptions final_step_transposes.

(* non-vacuity: a 3-branch final state, Result family, branch 1 and 2 failing: the result is branch 1's error *)
Example first_of_two_failures :
  first_fail_from false (fun b => match b with 0 => VOk (VInt 1%Z) | 1 => VErr (VInt 7%Z) | _ => VErr (VInt 9%Z) end) 0 3 = Some 1.
Proof. reflexivity. Qed.

(* the tie between Spec.v and the generator model, PROVED for all eight kinds and all inputs (theories/proofs/RefineTop.v):
   what is proved about `spec` above holds of the meaning of the generated code *)
(* OBLIGATION generated_code_refines_reference_semantics *)
Theorem generated_code_refines_reference_semantics :
  forall (msem : string -> option (list operand) -> dval -> list dval -> comp dval)
         (dotsem : operand -> list (string * option val) -> dval -> comp dval)
         (callsem : val -> list dval -> comp dval) (awaitsem : val -> comp val)
         (cfg : config) (inp : input) (e : Ir.rexpr) (sp : sprog),
      RefineProg.wf inp -> Gen.gen cfg inp = Ir.Ok e -> prepare cfg inp = Some sp ->
      den (user_names inp) msem dotsem callsem awaitsem e empty_env = spec msem dotsem callsem awaitsem sp.
Proof. exact RefineTop.gen_refines_spec. Qed.
Print Assumptions generated_code_refines_reference_semantics.

(* OBLIGATION generated_try_code_first_step *)
(* the generated code of try_join! / try_join_spawn! IS: step 0 to its end, then the lowest-numbered failing value as is, or the next steps *)
Theorem generated_try_code_first_step :
  forall
    (msem : String.string ->
            option (list Tok.operand) -> Comp.dval -> list Comp.dval -> Comp.comp Comp.dval)
    (dotsem : Tok.operand -> list (String.string * option Comp.val) -> Comp.dval -> Comp.comp Comp.dval)
    (callsem : Comp.val -> list Comp.dval -> Comp.comp Comp.dval)
    (awaitsem : Comp.val -> Comp.comp Comp.val)
    (cfg : Ast.config) (inp : Ast.input) (e : Ir.rexpr) (sp : Spec.sprog),
  Ast.is_async cfg = false ->
  Ast.is_try cfg = true ->
  Ast.i_handler inp = None ->
  RefineProg.wf inp ->
  Gen.gen cfg inp = Ir.Ok e ->
  Spec.prepare cfg inp = Some sp ->
  Denote.den (Spec.user_names inp) msem dotsem callsem awaitsem e Denote.empty_env =
  Comp.bind (Spec.step_result msem dotsem callsem awaitsem sp 0 (RefineCorollaries.init_state sp))
    (fun sr : Comp.dval =>
     Comp.bind (Spec.extract (Spec.actives sp 0) sr)
       (fun ds : list Comp.dval =>
        let st' := Spec.set_all (RefineCorollaries.init_state sp) (Spec.actives sp 0) ds in
        if PeanoNat.Nat.eqb (Spec.max_depth sp - 1) 0
        then Spec.transpose awaitsem sp (List.seq 0 (Datatypes.length (Spec.sp_trees sp))) st'
        else
         if SpecProps.all_classified ds
         then
          match SpecProps.first_fail_list ds with
          | Some d => Comp.Ret d
          | None => Spec.steps msem dotsem callsem awaitsem sp (Spec.max_depth sp - 1) 1 st'
          end
         else Comp.Panic Comp.P_ILLTYPED)).
Proof. exact (@RefineCorollaries.den_gen_try_first_step). Qed.
Print Assumptions generated_try_code_first_step.

(* OBLIGATION try_spawn_first_failure *)
(* try_join_spawn!, WHOLE program on the thread machine, every schedule (stateless world): the caller ends with the outcome of the sequential try steps - the unchanged failing value of the lowest-numbered failing branch of the earliest failing step, else the transposed tuple *)
Theorem try_spawn_first_failure :
  forall (h : Comp.ev -> option Comp.val) (W : Type)
    (handle : option String.string -> Comp.ev -> W -> option Comp.val * W),
  SpecSpawn.stateless h W handle ->
  forall
    (msem : String.string ->
            option (list Tok.operand) -> Comp.dval -> list Comp.dval -> Comp.comp Comp.dval)
    (dotsem : Tok.operand -> list (String.string * option Comp.val) -> Comp.dval -> Comp.comp Comp.dval)
    (callsem : Comp.val -> list Comp.dval -> Comp.comp Comp.dval)
    (awaitsem : Comp.val -> Comp.comp Comp.val),
  SpecCode.user_codeC (@SpecSpawn.ucode) msem dotsem callsem awaitsem ->
  forall p : Spec.sprog,
  Ast.is_async (Spec.sp_cfg p) = false ->
  forall (nm : option String.string) (w : W) (sched : list nat),
  Ast.is_try (Spec.sp_cfg p) = true ->
  Spec.sp_handler p = None ->
  Threads.thr_finished 0
    (Threads.run_thr handle sched
       (Threads.init nm
          (Comp.bind (Spec.spec msem dotsem callsem awaitsem (SpecCode.with_spawn true p))
             (fun d : Comp.dval => Comp.to_val d)) w)) = true ->
  Threads.result_of 0
    (Threads.run_thr handle sched
       (Threads.init nm
          (Comp.bind (Spec.spec msem dotsem callsem awaitsem (SpecCode.with_spawn true p))
             (fun d : Comp.dval => Comp.to_val d)) w)) =
  Some
    match
      SpecSpawnProps.try_outcome h msem dotsem callsem awaitsem p nm (Spec.max_depth p) 0
        (RefineCorollaries.init_state p)
    with
    | Some (Comp.DV v) => Some v
    | _ => None
    end.
Proof. exact (@SpecSpawnProps.try_spawn_first_failure). Qed.
Print Assumptions try_spawn_first_failure.

(* OBLIGATION try_outcome_characterisation *)
Theorem try_outcome_characterisation :
  forall (h : Comp.ev -> option Comp.val)
    (msem : String.string ->
            option (list Tok.operand) -> Comp.dval -> list Comp.dval -> Comp.comp Comp.dval)
    (dotsem : Tok.operand -> list (String.string * option Comp.val) -> Comp.dval -> Comp.comp Comp.dval)
    (callsem : Comp.val -> list Comp.dval -> Comp.comp Comp.dval)
    (awaitsem : Comp.val -> Comp.comp Comp.val) (p : Spec.sprog) (nm : option String.string)
    (fuel k : nat) (st : Spec.state) (d : Comp.dval),
  SpecSpawnProps.try_outcome h msem dotsem callsem awaitsem p nm fuel k st = Some d ->
  exists (fuel' k' : nat) (st' : Spec.state) (ds : list Comp.dval),
    SpecSpawnProps.no_failure_until h msem dotsem callsem awaitsem p nm fuel k st (S fuel') k' st' /\
    SpecSpawnProps.step_values h msem dotsem callsem awaitsem p nm k' st' = Some ds /\
    (fuel' <> 0 /\ SpecProps.all_classified ds = true /\ SpecProps.first_fail_list ds = Some d \/
     fuel' = 0 /\
     SpecSpawn.eval h nm
       (Spec.transpose awaitsem (SpecCode.with_spawn false p) (List.seq 0 (Datatypes.length (Spec.sp_trees p)))
          (Spec.set_all st' (Spec.actives p k') ds)) = Some d).
Proof. exact (@SpecSpawnProps.try_outcome_inv). Qed.
Print Assumptions try_outcome_characterisation.

(* OBLIGATION try_last_step_first_failure *)
Theorem try_last_step_first_failure :
  forall (h : Comp.ev -> option Comp.val) (awaitsem : Comp.val -> Comp.comp Comp.val)
    (p : Spec.sprog) (nm : option String.string) (fam : bool) (wv vv : nat -> Comp.val)
    (st' : Spec.state),
  (forall b : nat, b < Datatypes.length (Spec.sp_trees p) -> SpecProps.wellf fam (wv b) (vv b)) ->
  1 <= Datatypes.length (Spec.sp_trees p) ->
  SpecProps.StEq p st' (fun b : nat => Comp.DV (wv b)) ->
  SpecSpawn.eval h nm
    (Spec.transpose awaitsem (SpecCode.with_spawn false p) (List.seq 0 (Datatypes.length (Spec.sp_trees p))) st') =
  Some
    (Comp.DV
       match SpecProps.first_fail_from fam wv 0 (Datatypes.length (Spec.sp_trees p)) with
       | Some b => wv b
       | None =>
           SpecProps.wrapf fam
             (SpecProps.bare_or_tuple (List.map vv (List.seq 0 (Datatypes.length (Spec.sp_trees p)))))
       end).
Proof. exact (@SpecSpawnProps.try_last_step_first_failure). Qed.
Print Assumptions try_last_step_first_failure.
