(* C17 - Internal names never clash; macros nest freely.
   This file contains only the property theorems; proofs live in theories/proofs. *)
From Coq Require Import List String.
From Join Require Import Tok Names NamesInj.

(* OBLIGATION names_injective_and_disjoint *)
(* Every generated identifier is described by a tag (family + indices); two generated identifiers are
   textually equal only if their tags are equal: each family is injective in ALL its indices (for all
   naturals, hence two-digit indices included; __ewB_E_I in the whole triple - the historical clash),
   and the families __r __sr __j __ew __v __h __rs __inspect __tb __spawn_tokio __handler __fail_index
   __future are pairwise disjoint. *)
Theorem names_injective_and_disjoint : forall g g' : gname, gname_str g = gname_str g' -> g = g'.
Proof. exact gen_names_distinct. Qed.
Print Assumptions names_injective_and_disjoint.

(* OBLIGATION expr_wrapper_name_injective *)
Theorem expr_wrapper_name_injective :
  forall b e i b' e' i', n_ew b e i = n_ew b' e' i' -> b = b' /\ e = e' /\ i = i'.
Proof. exact n_ew_inj. Qed.
Print Assumptions expr_wrapper_name_injective.

(* OBLIGATION user_names_never_clash *)
(* an identifier that does not start with two underscores differs from every generated name *)
Theorem user_names_never_clash :
  forall x g, String.prefix "__" x = false -> x <> gname_str g.
Proof. exact user_name_not_gen. Qed.
Print Assumptions user_names_never_clash.

(* non-vacuity: the historical clash pair is separated, two-digit indices *)
Example ew_1_11_vs_11_1 : n_ew 1 11 0 <> n_ew 11 1 0.
Proof. intro H. apply n_ew_inj in H. destruct H as [H _]. discriminate H. Qed.
