(* Concrete, executable instances of the parameters of Denote/Spec: a rule-table world, std
   Option/Result method semantics, a sequential runner with a log.  Used by correspondence B and
   for testing statements before they are proved.  Contains no proofs. *)
From Coq Require Import ZArith DecimalString Decimal.
From Join Require Import Tok Names Ast Ir Comp Denote.

(* ---- show : the same text the Rust harness prints ---- *)
Definition show_Z (z : Z) : string :=
  match z with
  | Z0 => "0"
  | Zpos p => NilEmpty.string_of_uint (Pos.to_uint p)
  | Zneg p => "-" +++ NilEmpty.string_of_uint (Pos.to_uint p)
  end.

Fixpoint show (v : val) : string :=
  let shows := fix go (l : list val) : string :=
                 match l with
                 | [] => ""
                 | [x] => show x
                 | x :: r => show x +++ "," +++ go r
                 end in
  match v with
  | VUnit => "()"
  | VBool b => if b then "true" else "false"
  | VInt z => show_Z z
  | VOpq n => "<" +++ show_Z n +++ ">"
  | VStr s => s
  | VNone => "None"
  | VSome v => "Some(" +++ show v +++ ")"
  | VOk v => "Ok(" +++ show v +++ ")"
  | VErr v => "Err(" +++ show v +++ ")"
  | VTuple vs => "(" +++ shows vs +++ ")"
  | VList vs => "[" +++ shows vs +++ "]"
  | VHandle h => "<handle>"
  end.

(* ---- rules: what an instrumented operand does ---- *)
Inductive rule :=
| KConst (v : val)                      (* the operand is a plain value (initial values, `or` arguments) *)
| KAdd (k : Z)                          (* |x| x + k *)
| KOptIf (m r k : Z)                    (* |x| if x mod m = r then None else Some(x + k) *)
| KResIf (m r k e : Z)                  (* |x| if x mod m = r then Err(e) else Ok(x + k) *)
| KPred (m r : Z)                       (* |&x| x mod m <> r *)
| KUnit                                 (* |_| () *)
| KOrElseOpt (v : val)                  (* || v *)
| KOrElseRes (k : Z)                    (* |e| Ok(e + k)  or Err *)
| KMapErr (k : Z)                       (* |e| e + k *)
| KId                                   (* |x| x *)
| KBlock (inner : Z)                    (* a `{ cap(..); f(inner, ..) }` block: evaluates to the closure `inner` *)
| KTuple                                (* |a, b, ..| (a, b, ..) : handlers *)
| KTupleSome | KTupleOk                 (* |a, b, ..| Some((a, b, ..)) / Ok(..) *)
| KSum                                  (* |a, b, ..| a + b + .. *)
| KSumOk                                (* |a, b, ..| Ok(a + b + ..) *)
| KSumSome
| KFut (inner : rule)                   (* the closure's answer wrapped in a ready future *)
| KWAdd (k : Z)                         (* |w| w with k added to its payload (Option / Result / plain) *)
| KPanic                                (* the closure panics when called *)
| KPanicEval.                           (* the operand EXPRESSION panics when evaluated *)

Definition sumZ (vs : list val) : option Z :=
  fold_right (fun v acc => match v, acc with VInt z, Some a => Some (z + a)%Z | _, _ => None end) (Some 0%Z) vs.

(* a ready future holding v is represented as VTuple [VStr "fut"; v] *)
Definition VFut (v : val) : val := VTuple [VStr "fut"; v].

Fixpoint apply_rule (r : rule) (args : list val) : option val :=     (* None = panic *)
  match r, args with
  | KConst v, _ => Some v
  | KAdd k, [VInt x] => Some (VInt (x + k))
  | KWAdd k, [VInt x] => Some (VInt (x + k))
  | KWAdd k, [VSome (VInt x)] => Some (VSome (VInt (x + k)))
  | KWAdd k, [VOk (VInt x)] => Some (VOk (VInt (x + k)))
  | KWAdd k, [VSome (VSome (VInt x))] => Some (VSome (VSome (VInt (x + k))))
  | KWAdd k, [VSome (VOk (VInt x))] => Some (VSome (VOk (VInt (x + k))))
  | KWAdd k, [VOk (VSome (VInt x))] => Some (VOk (VSome (VInt (x + k))))
  | KWAdd k, [VOk (VOk (VInt x))] => Some (VOk (VOk (VInt (x + k))))
  | KWAdd k, [v] => Some v
  | KOptIf m r k, [VInt x] => Some (if Z.eqb (x mod m) r then VNone else VSome (VInt (x + k)))
  | KResIf m r k e, [VInt x] => Some (if Z.eqb (x mod m) r then VErr (VInt e) else VOk (VInt (x + k)))
  | KPred m r, [VInt x] => Some (VBool (negb (Z.eqb (x mod m) r)))
  | KUnit, _ => Some VUnit
  | KOrElseOpt v, [] => Some v
  | KOrElseRes k, [VInt e] => Some (if Z.ltb k 0 then VErr (VInt (e - k)) else VOk (VInt (e + k)))
  | KMapErr k, [VInt e] => Some (VInt (e + k))
  | KId, [v] => Some v
  | KTuple, vs => Some (match vs with [v] => v | _ => VTuple vs end)
  | KTupleSome, vs => Some (VSome (match vs with [v] => v | _ => VTuple vs end))
  | KTupleOk, vs => Some (VOk (match vs with [v] => v | _ => VTuple vs end))
  | KSum, vs => match sumZ vs with Some z => Some (VInt z) | None => None end
  | KSumOk, vs => match sumZ vs with Some z => Some (VOk (VInt z)) | None => None end
  | KSumSome, vs => match sumZ vs with Some z => Some (VSome (VInt z)) | None => None end
  | KFut inner, vs => match apply_rule inner vs with Some v => Some (VFut v) | None => None end
  | _, _ => None
  end.

Record opinfo := mkOp { oi_toks : list string; oi_id : Z; oi_rule : rule; oi_cap : bool }.
   (* oi_cap: the operand logs the snapshot of the `let` names it sees *)

Fixpoint lookup_op (tbl : list opinfo) (toks : list string) : option opinfo :=
  match tbl with
  | [] => None
  | o :: r => if strs_eqb (oi_toks o) toks then Some o else lookup_op r toks
  end.
Fixpoint lookup_id (tbl : list opinfo) (id : Z) : option opinfo :=
  match tbl with
  | [] => None
  | o :: r => if Z.eqb (oi_id o) id then Some o else lookup_id r id
  end.

Definition show_snap (s : list (string * option val)) : string :=
  String.concat "," (map (fun xv => fst xv +++ "=" +++ match snd xv with Some v => show v | None => "?" end) s).

(* The world: answers events, keeps a log (most recent first). *)
Definition wstate := list string.
(* entries made on a thread other than "main" carry the thread's name: name@entry *)
Definition tag (tname : option string) (entry : string) : string :=
  match tname with
  | Some n => if String.eqb n "main" then entry else n +++ "@" +++ entry
  | None => "?@" +++ entry
  end.

Definition handle0 (tbl : list opinfo) (tname : option string) (e : ev) (st : wstate) : option val * wstate :=
  match e with
  | EEval o sn =>
      match lookup_op tbl (flat o) with
      | Some oi =>
          let entry := "E" +++ show_Z (oi_id oi) +++ (if oi_cap oi then "{" +++ show_snap sn +++ "}" else "") in
          match oi_rule oi with
          | KPanicEval => (None, entry :: st)
          | KConst v => (Some v, entry :: st)
          | KBlock i =>      (* `{ cap(id, ..); f(i, ..) }`: the inner call logs its own evaluation *)
              ((match lookup_id tbl i with
                | Some inner => match oi_rule inner with KConst v => Some v | KPanicEval => None | _ => Some (VOpq i) end
                | None => Some (VOpq i) end),
               ("E" +++ show_Z i) :: entry :: st)
          | _ => (Some (VOpq (oi_id oi)), entry :: st)
          end
      | None => (None, "E?" :: st)
      end
  | ECall (VOpq id) args =>
      match lookup_id tbl id with
      | Some oi =>
          let entry := "C" +++ show_Z id +++ "(" +++ String.concat "," (map show args) +++ ")" in
          (apply_rule (oi_rule oi) args, entry :: st)
      | None => (None, "C?" :: st)
      end
  | ECall _ _ => (None, "C?" :: st)
  | EThreadName => (Some (match tname with Some n => VSome (VStr n) | None => VNone end), st)
  end.

Fixpoint tag_new (tname : option string) (n : nat) (l : list string) : list string :=
  match n, l with
  | S n', x :: r => tag tname x :: tag_new tname n' r
  | _, _ => l
  end.
Definition handle (tbl : list opinfo) (tname : option string) (e : ev) (st : wstate) : option val * wstate :=
  let '(r, st') := handle0 tbl tname e st in
  (r, tag_new tname (List.length st' - List.length st) st').

(* Sequential runner: a spawned thread runs to completion at its spawn point (one legal schedule). *)
Inductive outcome := OVal (v : val) | OPanic (why : N).

Fixpoint run (tbl : list opinfo) (tname : option string) (threads : list (option val))
         (c : comp val) (st : wstate) {struct c} : outcome * wstate * list (option val) :=
  match c with
  | Ret v => (OVal v, st, threads)
  | Panic n => (OPanic n, st, threads)
  | Vis e k =>
      match handle tbl tname e st with
      | (Some v, st') => run tbl tname threads (k v) st'
      | (None, st') => (OPanic P_USER, st', threads)
      end
  | Spawn name t k =>
      let '(o, st', threads') := run tbl (Some name) threads t st in
      let res := match o with OVal v => Some v | OPanic _ => None end in
      run tbl tname (threads' ++ [res]) (k (List.length threads')) st'
  | Join h k =>
      match nth_error threads h with
      | Some r => run tbl tname threads (k r) st
      | None => (OPanic P_STUCK, st, threads)
      end
  end.

(* canonical form of a log made by several threads: entries grouped by thread (stable), threads
   ordered by name; the main thread's entries (no tag) come first *)
Fixpoint tag_of (s : string) : string :=
  match s with
  | EmptyString => ""
  | String c r => if Ascii.eqb c "@"%char then "" else String c (tag_of r)
  end.
Definition has_tag (s : string) : bool :=
  (fix go (s : string) : bool := match s with EmptyString => false | String c r => Ascii.eqb c "@"%char || go r end) s.
Definition thread_of (s : string) : string := if has_tag s then tag_of s else "".
Fixpoint insert_by_thread (x : string) (l : list string) : list string :=
  match l with
  | [] => [x]
  | y :: r => if negb (String.ltb (thread_of y) (thread_of x)) then x :: l else y :: insert_by_thread x r
  end.
Definition canon_log (l : list string) : list string := fold_right insert_by_thread [] l.

Definition show_outcome (o : outcome) : string :=
  match o with OVal v => show v | OPanic n => "PANIC" end.

Definition run_show (tbl : list opinfo) (tname : option string) (c : comp val) : list string :=
  let '(o, st, _) := run tbl tname [] c [] in
  show_outcome o :: canon_log (rev st).
(* 0 = value; otherwise the panic code (1, 2, 6 mean the model could not give the program a meaning) *)
Definition run_code (tbl : list opinfo) (tname : option string) (c : comp val) : N :=
  let '(o, _, _) := run tbl tname [] c [] in
  match o with OVal _ => 0%N | OPanic n => n end.

(* ---- concrete method semantics: std Option / Result (strict) ---- *)
Definition call1 (f : dval) (args : list val) : comp val :=
  match f with
  | DV fv => Vis (ECall fv args) (fun v => Ret v)
  | DF g => g args
  | _ => Panic P_ILLTYPED
  end.

Definition is_ready_fut (v : val) : option val :=
  match v with VTuple [VStr s; w] => if String.eqb s "fut" then Some w else None | _ => None end.

Definition c_await (v : val) : comp val :=
  match is_ready_fut v with Some w => Ret w | None => Panic P_ILLTYPED end.

(* a receiver that is a future: either a generated one or a ready user future *)
Definition as_fut (d : dval) : option (comp val) :=
  match d with
  | DFut c => Some c
  | DV v => match is_ready_fut v with Some w => Some (Ret w) | None => None end
  | _ => None
  end.

Definition c_msem (m : string) (tf : option (list operand)) (recv : dval) (args : list dval) : comp dval :=
  match as_fut recv with
  | Some c =>
      (* futures 0.3: FutureExt / TryFutureExt *)
      if String.eqb m "map" then
        match args with [f] => Ret (DFut (let! v := c in call1 f [v])) | _ => Panic P_ILLTYPED end
      else if String.eqb m "and_then" then
        match args with
        | [f] => Ret (DFut (let! r := c in
                            match r with
                            | VOk v => let! fut := call1 f [v] in c_await fut
                            | VErr e => Ret (VErr e)
                            | _ => Panic P_ILLTYPED end))
        | _ => Panic P_ILLTYPED end
      else if String.eqb m "inspect" then
        match args with [f] => Ret (DFut (let! v := c in let! _ := call1 f [v] in Ret v)) | _ => Panic P_ILLTYPED end
      else if String.eqb m "or_else" then
        match args with
        | [f] => Ret (DFut (let! r := c in
                            match r with
                            | VOk v => Ret (VOk v)
                            | VErr e => let! fut := call1 f [e] in c_await fut
                            | _ => Panic P_ILLTYPED end))
        | _ => Panic P_ILLTYPED end
      else if String.eqb m "map_err" then
        match args with
        | [f] => Ret (DFut (let! r := c in
                            match r with
                            | VOk v => Ret (VOk v)
                            | VErr e => let! w := call1 f [e] in Ret (VErr w)
                            | _ => Panic P_ILLTYPED end))
        | _ => Panic P_ILLTYPED end
      else Panic P_STUCK
  | None =>
  match recv with
  | DV r =>
      if String.eqb m "map" then
        match r, args with
        | VSome v, [f] => let! w := call1 f [v] in Ret (DV (VSome w))
        | VNone, [_] => Ret (DV VNone)
        | VOk v, [f] => let! w := call1 f [v] in Ret (DV (VOk w))
        | VErr e, [_] => Ret (DV (VErr e))
        | _, _ => Panic P_ILLTYPED end
      else if String.eqb m "and_then" then
        match r, args with
        | VSome v, [f] => let! w := call1 f [v] in Ret (DV w)
        | VNone, [_] => Ret (DV VNone)
        | VOk v, [f] => let! w := call1 f [v] in Ret (DV w)
        | VErr e, [_] => Ret (DV (VErr e))
        | _, _ => Panic P_ILLTYPED end
      else if String.eqb m "filter" then
        match r, args with
        | VSome v, [f] => let! b := call1 f [v] in
                          match b with VBool true => Ret (DV (VSome v)) | VBool false => Ret (DV VNone) | _ => Panic P_ILLTYPED end
        | VNone, [_] => Ret (DV VNone)
        | _, _ => Panic P_ILLTYPED end
      else if String.eqb m "or" then
        match r, args with
        | VSome v, [DV _] => Ret (DV (VSome v))
        | VNone, [DV d] => Ret (DV d)
        | VOk v, [DV _] => Ret (DV (VOk v))
        | VErr _, [DV d] => Ret (DV d)
        | _, _ => Panic P_ILLTYPED end
      else if String.eqb m "or_else" then
        match r, args with
        | VSome v, [_] => Ret (DV (VSome v))
        | VNone, [f] => let! w := call1 f [] in Ret (DV w)
        | VOk v, [_] => Ret (DV (VOk v))
        | VErr e, [f] => let! w := call1 f [e] in Ret (DV w)
        | _, _ => Panic P_ILLTYPED end
      else if String.eqb m "map_err" then
        match r, args with
        | VOk v, [_] => Ret (DV (VOk v))
        | VErr e, [f] => let! w := call1 f [e] in Ret (DV (VErr w))
        | _, _ => Panic P_ILLTYPED end
      else Panic P_STUCK
  | _ => Panic P_STUCK
  end
  end.

Definition c_dotsem (o : operand) (sn : list (string * option val)) (recv : dval) : comp dval := Panic P_STUCK.
(* calling a user value (e.g. a custom joiner) with generated closures among the arguments: the callee invokes each closure once,
   in order, and is then called on the values *)
Definition c_callsem (f : val) (ds : list dval) : comp dval :=
  let! vs := mapM (fun d => match d with
                            | DF g => g []
                            | DV v => Ret v
                            | _ => Panic P_ILLTYPED end) ds in
  Vis (ECall f vs) (fun v => Ret (DV v)).
