(* The dumb printer: rexpr -> flattened token strings.  No arithmetic, no filtering. *)
From Join Require Import Tok Names Ir.

Fixpoint sep {A} (f : A -> list string) (l : list A) : list string :=
  match l with
  | [] => []
  | [x] => f x
  | x :: r => f x ++ [","] ++ sep f r
  end.

Fixpoint print_pat (p : rpat) : list string :=
  match p with
  | PIdent x => [x]
  | PUser toks _ => flat toks
  | PTuple ps => ["("] ++ (fix go (l : list rpat) : list string :=
                             match l with
                             | [] => []
                             | [x] => print_pat x
                             | x :: r => print_pat x ++ [","] ++ go r
                             end) ps ++ [")"]
  end.

Definition tb_fn_tokens : list string :=
  ["fn"; "__tb"; "("; "branch_index"; ":"; "usize"; ")"; "-"; ">"; ":"; ":"; "std"; ":"; ":"; "thread"; ":"; ":"; "Builder"; "{";
   "let"; "thread_name"; "="; "format"; "!"; "("; """join_{}"""; ","; "branch_index"; ")"; ";";
   ":"; ":"; "std"; ":"; ":"; "thread"; ":"; ":"; "Builder"; ":"; ":"; "new"; "("; ")"; "."; "name"; "(";
   ":"; ":"; "std"; ":"; ":"; "thread"; ":"; ":"; "current"; "("; ")"; "."; "name"; "("; ")";
   "."; "map"; "("; "|"; "current_thread_name"; "|";
   "format"; "!"; "("; """{current_thread_name}_{new_thread_name}"""; ",";
   "current_thread_name"; "="; "current_thread_name"; ","; "new_thread_name"; "="; "thread_name"; ")"; ")";
   "."; "unwrap_or"; "("; "thread_name"; ")"; ")"; "}"].

Definition spawn_tokio_fn_tokens (path : list string) : list string :=
  ["fn"; "__spawn_tokio"; "<"; "T"; ","; "F"; ">"; "("; "__future"; ":"; "F"; ")"; "-"; ">"; "impl"] ++ path ++
  [":"; ":"; "future"; ":"; ":"; "Future"; "<"; "Output"; "="; "T"; ">"; "where";
   "F"; ":"] ++ path ++ [":"; ":"; "future"; ":"; ":"; "Future"; "<"; "Output"; "="; "T"; ">"; "+"; "Send"; "+"; "'"; "static"; ",";
   "T"; ":"; "Send"; "+"; "'"; "static"; ","; "{";
   ":"; ":"; "tokio"; ":"; ":"; "spawn"; "("; "__future"; ")"; "."; "map"; "("; "|"; "__v"; "|"; "__v"; "."; "unwrap_or_else"; "(";
   "|"; "err"; "|"; "panic"; "!"; "("; """tokio JoinHandle failed: {:#?}"""; ","; "err"; ")"; ")"; ")"; "}"].

Fixpoint print (e : rexpr) : list string :=
  let plist := fix go (l : list rexpr) : list string :=
                 match l with
                 | [] => []
                 | [x] => print x
                 | x :: r => print x ++ [","] ++ go r
                 end in
  let pstmts := fix go (l : list rstmt) : list string :=
                  match l with [] => [] | s :: r => print_stmt s ++ go r end in
  match e with
  | RUser o => flat o
  | RVar x => [x]
  | RUsize n => [dec n +++ "usize"]
  | RBool b => [if b then "true" else "false"]
  | RBlock ss e => ["{"] ++ pstmts ss ++ print e ++ ["}"]
  | RAsyncMove ss e => ["async"; "move"; "{"] ++ pstmts ss ++ print e ++ ["}"]
  | RAwait e => print e ++ ["."; "await"]
  | RBoxPin e => ["Box"; ":"; ":"; "pin"; "("] ++ print e ++ [")"]
  | RTuple es => ["("] ++ plist es ++ [")"]
  | RArray es => ["["] ++ plist es ++ ["]"]
  | RField e i => print e ++ ["."; dec i]
  | RMeth recv m tf args =>
      print recv ++ ["."; m] ++
      match tf with None => [] | Some tys => [":"; ":"; "<"] ++ sep flat tys ++ [">"] end ++
      ["("] ++ plist args ++ [")"]
  | RGlue recv m args => print recv ++ ["."; m; "("] ++ plist args ++ [")"]
  | RDot recv o => print recv ++ ["."] ++ flat o
  | RCall f args => print f ++ ["("] ++ plist args ++ [")"]
  | RThenCall o arg => ["("; "{"; "let"; n_handler_tmp; "="] ++ print o ++ [";"; n_handler_tmp; "}"; "("] ++ print arg ++ [")"; ")"]
  | RClosure x body => ["|"; x; "|"] ++ print body
  | RClosureMove x body => ["move"; "|"; x; "|"] ++ print body
  | RClosureIgn body => ["|"; "_"; "|"] ++ print body
  | RMoveThunk body => ["move"; "|"; "|"] ++ print body
  | RNot e => ["!"] ++ print e
  | RRef e => ["&"] ++ print e
  | RUnreachable => ["unreachable"; "!"; "("; ")"]
  | RIfLetSome x scrut thn els =>
      ["if"; "let"; "Some"; "("; x; ")"; "="] ++ print scrut ++ print thn ++ ["else"] ++ print els
  | RMatchIdx scrut arms =>
      ["match"] ++ print scrut ++ ["{"] ++
      (fix go (l : list (nat * rexpr)) : list string :=
         match l with
         | [] => []
         | [(i, x)] => [dec i +++ "usize"; "="; ">"] ++ print x
         | (i, x) :: r => [dec i +++ "usize"; "="; ">"] ++ print x ++ [","] ++ go r
         end) arms ++
      [","; "_"; "="; ">"; "unreachable"; "!"; "("; ")"; "}"]
  | RMatchOk scrut x arm =>
      ["match"] ++ print scrut ++ ["{"; "Ok"; "("; x; ")"; "="; ">"] ++ print arm ++
      [","; "Err"; "("; "err"; ")"; "="; ">"; "Err"; "("; "err"; ")"; "}"]
  | ROk e => ["Ok"; "("] ++ print e ++ [")"]
  | RJoinMac path try => flat path ++ [":"; ":"; if try then "try_join" else "join"; "!"]
  | RJuxt es => (fix go (l : list rexpr) : list string :=
                   match l with [] => [] | x :: r => print x ++ go r end) es
  end
with print_stmt (s : rstmt) : list string :=
  match s with
  | SLet p e => ["let"] ++ print_pat p ++ ["="] ++ print e ++ [";"]
  | SExpr e => print e ++ [";"]
  | SFn name sig _ body => ["fn"; name] ++ sig ++ print body
  | STbFn => tb_fn_tokens
  | SSpawnTokioFn path => spawn_tokio_fn_tokens (flat path)
  | SUseFutures path =>
      ["use"] ++ flat path ++ [":"; ":"; "{"; "FutureExt"; ","; "TryFutureExt"; ","; "StreamExt"; ","; "TryStreamExt"; "}"; ";"]
  end.
