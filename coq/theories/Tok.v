(* Token trees as proc_macro2 lexes them, and their flattening to token strings. *)
From Coq Require Export List String Ascii Bool Arith NArith.
Export ListNotations.
Open Scope string_scope.
Open Scope list_scope.
Infix "+++" := String.append (at level 60, right associativity).

Inductive delim := DParen | DBrace | DBracket | DNone.

(* TP c joint : punctuation character with its spacing (joint = immediately followed by
   another punctuation character); TI identifier (raw identifiers keep their r# prefix);
   TL literal, as printed by proc_macro2; a lifetime 'a is TP "'" true followed by TI a,
   exactly as in proc_macro2. *)
Inductive tt :=
| TP (c : string) (joint : bool)
| TI (s : string)
| TL (s : string)
| TG (d : delim) (ts : list tt).

Definition operand := list tt.

Definition open_of (d : delim) : list string :=
  match d with DParen => ["("] | DBrace => ["{"] | DBracket => ["["] | DNone => [] end.
Definition close_of (d : delim) : list string :=
  match d with DParen => [")"] | DBrace => ["}"] | DBracket => ["]"] | DNone => [] end.

Fixpoint flat1 (t : tt) : list string :=
  match t with
  | TP c _ => [c]
  | TI s => [s]
  | TL s => [s]
  | TG d ts => open_of d ++ (fix go (l : list tt) : list string :=
                               match l with [] => [] | x :: r => flat1 x ++ go r end) ts
                         ++ close_of d
  end.
Definition flat (ts : list tt) : list string := flat_map flat1 ts.

Lemma flat1_TG d ts : flat1 (TG d ts) = open_of d ++ flat ts ++ close_of d.
Proof. reflexivity. Qed.

(* decidable equality on token trees (spacing included) *)
Definition delim_eqb (a b : delim) : bool :=
  match a, b with DParen, DParen | DBrace, DBrace | DBracket, DBracket | DNone, DNone => true | _, _ => false end.

Fixpoint tt_eqb (a b : tt) : bool :=
  match a, b with
  | TP c j, TP c' j' => String.eqb c c' && Bool.eqb j j'
  | TI s, TI s' => String.eqb s s'
  | TL s, TL s' => String.eqb s s'
  | TG d ts, TG d' ts' =>
      delim_eqb d d' &&
      (fix go (l l' : list tt) : bool :=
         match l, l' with
         | [], [] => true
         | x :: r, x' :: r' => tt_eqb x x' && go r r'
         | _, _ => false
         end) ts ts'
  | _, _ => false
  end.

Fixpoint list_eqb {A} (eqb : A -> A -> bool) (l l' : list A) : bool :=
  match l, l' with
  | [], [] => true
  | x :: r, x' :: r' => eqb x x' && list_eqb eqb r r'
  | _, _ => false
  end.
Definition strs_eqb := list_eqb String.eqb.

(* equality up to spacing, used when comparing operands that went through syn *)
Definition toks_eqb (a b : list tt) : bool := strs_eqb (flat a) (flat b).
