(* ParseProps.v - theorems about the parser model Parse.v, each for EVERY oracle.
   See PARSE_NOTES.md for the list and the reading of each statement. *)
From Coq Require Import Lia.
From Join Require Import Tok Ast Parse.

Local Open Scope list_scope.

(* ================================================================================================ *)
(** * A. The determiner table: longest operator wins *)

(* two pattern elements can match the same token *)
Definition tm_compat (a b : tmatch) : bool :=
  match a, b with
  | MP c, MP c' | MP c, MJ c' | MJ c, MP c' | MJ c, MJ c' => String.eqb c c'
  | MI s, MI s' => String.eqb s s'
  | MBracket, MBracket => true
  | _, _ => false
  end.

(* two patterns can match the same token list: compatible up to the length of the shorter one,
   i.e. the shorter spelling is a prefix of the longer one *)
Fixpoint pat_compat (p q : list tmatch) : bool :=
  match p, q with
  | a :: p', b :: q' => tm_compat a b && pat_compat p' q'
  | _, _ => true
  end.

Lemma tm_compat_sound a b t :
  tmatches a t = true -> tmatches b t = true -> tm_compat a b = true.
Proof.
  intros Ha Hb.
  destruct a, b, t; cbn in *; try discriminate; try reflexivity;
    try (destruct joint; try discriminate);
    try (apply String.eqb_eq in Ha; apply String.eqb_eq in Hb; subst; apply String.eqb_refl).
  all: destruct d; try discriminate; reflexivity.
Qed.

Lemma pat_compat_sound p : forall q ts,
  peek_seq p ts = true -> peek_seq q ts = true -> pat_compat p q = true.
Proof.
  induction p as [|a p IH]; intros q ts Hp Hq; [reflexivity|].
  destruct q as [|b q]; [reflexivity|].
  cbn in *. destruct ts as [|t ts]; [discriminate|].
  apply andb_true_iff in Hp as [Ha Hp]. apply andb_true_iff in Hq as [Hb Hq].
  rewrite (tm_compat_sound _ _ _ Ha Hb). cbn. eauto.
Qed.

(* the finite fact, on the table itself *)
Definition table_pairs_ok : bool :=
  forallb (fun idi =>
    forallb (fun jdj =>
      if Nat.ltb (fst idi) (fst jdj) then
        forallb (fun pi => forallb (fun pj =>
          implb (pat_compat pi pj) (Nat.ltb (List.length pj) (List.length pi))) (d_pats (snd jdj))) (d_pats (snd idi))
      else true) (enum_from 0 determiners)) (enum_from 0 determiners).

Lemma table_pairs_ok_true : table_pairs_ok = true.
Proof. vm_compute. reflexivity. Qed.

Lemma In_enum_from {A} (l : list A) : forall k i x,
  nth_error l i = Some x -> In (k + i, x) (enum_from k l).
Proof.
  induction l as [|y l IH]; intros k i x H; destruct i; cbn in *; try discriminate.
  - inversion H; subst. left. f_equal. lia.
  - right. replace (k + S i) with (S k + i) by lia. apply IH. exact H.
Qed.

(* Whenever the spelling of determiner s1 (pattern p1, table index i1) is a proper prefix of that of s2
   (pattern p2, index i2) - i.e. the two can match the same tokens and p1 is shorter - s2 stands before s1;
   and two different rows of equal length never overlap. *)
Theorem longest_operator_wins_table :
  forall i1 i2 d1 d2 p1 p2,
    nth_error determiners i1 = Some d1 -> nth_error determiners i2 = Some d2 ->
    In p1 (d_pats d1) -> In p2 (d_pats d2) ->
    pat_compat p2 p1 = true -> i2 < i1 ->
    List.length p1 < List.length p2.
Proof.
  intros i1 i2 d1 d2 p1 p2 H1 H2 Hp1 Hp2 Hc Hlt.
  pose proof table_pairs_ok_true as T. unfold table_pairs_ok in T.
  rewrite forallb_forall in T.
  specialize (T (i2, d2) (In_enum_from determiners 0 i2 d2 H2)).
  rewrite forallb_forall in T.
  specialize (T (i1, d1) (In_enum_from determiners 0 i1 d1 H1)).
  cbn [fst snd] in T.
  destruct (Nat.ltb_spec i2 i1) as [_|]; [|lia].
  rewrite forallb_forall in T. specialize (T p2 Hp2).
  rewrite forallb_forall in T. specialize (T p1 Hp1).
  rewrite Hc in T. cbn in T. apply Nat.ltb_lt in T. exact T.
Qed.

Lemma find_from_spec ds : forall k ts i d,
  find_from ds k ts = Some (i, d) ->
  exists j, i = k + j /\ nth_error ds j = Some d /\ d_check d ts = true /\
            forall j' d', j' < j -> nth_error ds j' = Some d' -> d_check d' ts = false.
Proof.
  induction ds as [|d0 ds IH]; intros k ts i d H; cbn in H; [discriminate|].
  destruct (d_check d0 ts) eqn:E.
  - inversion H; subst. exists 0. repeat split; auto; try lia.
  - apply IH in H as (j & -> & Hn & Hc & Hmin).
    exists (S j). repeat split; auto; try lia.
    intros j' d' Hj Hn'. destruct j'; cbn in Hn'.
    + inversion Hn'; subst. exact E.
    + eapply Hmin; [|exact Hn']. lia.
Qed.

Lemma find_from_none ds : forall k ts,
  find_from ds k ts = None -> forall j d, nth_error ds j = Some d -> d_check d ts = false.
Proof.
  induction ds as [|d0 ds IH]; intros k ts H j d Hn; destruct j; cbn in *; try discriminate.
  - inversion Hn; subst. destruct (d_check d ts); [discriminate|reflexivity].
  - destruct (d_check d0 ts); [discriminate|]. eapply IH; eauto.
Qed.

Lemma find_from_complete ds : forall k ts j d,
  nth_error ds j = Some d -> d_check d ts = true -> find_from ds k ts <> None.
Proof.
  intros k ts j d Hn Hc Hnone. rewrite (find_from_none ds k ts Hnone j d Hn) in Hc. discriminate.
Qed.

Lemma first_match_spec ts d :
  first_match ts = Some d ->
  exists i, nth_error determiners i = Some d /\ d_check d ts = true /\
            forall j d', j < i -> nth_error determiners j = Some d' -> d_check d' ts = false.
Proof.
  unfold first_match, find_first.
  destruct (find_from determiners 0 ts) as [[i d0]|] eqn:E; [|discriminate].
  intros H; inversion H; subst.
  apply find_from_spec in E as (j & -> & Hn & Hc & Hmin). exists j. auto.
Qed.

(* A search from the start of the table returns the determiner of a matching row unless an EARLIER row
   matches too - and then that row's spelling is strictly longer (it extends the shorter spelling). *)
Theorem longest_operator_wins :
  forall ts i d p,
    nth_error determiners i = Some d -> In p (d_pats d) -> peek_seq p ts = true ->
    exists j d', first_match ts = Some d' /\ nth_error determiners j = Some d' /\ j <= i /\
      (j < i -> exists p', In p' (d_pats d') /\ peek_seq p' ts = true /\ List.length p < List.length p').
Proof.
  intros ts i d p Hn Hp Hm.
  assert (Hc : d_check d ts = true).
  { unfold d_check. apply existsb_exists. eauto. }
  destruct (first_match ts) as [d'|] eqn:E.
  - destruct (first_match_spec ts d' E) as (j & Hj & Hc' & Hmin).
    exists j, d'. repeat split; auto.
    + destruct (Nat.le_gt_cases j i); auto.
      rewrite (Hmin i d H Hn) in Hc. discriminate.
    + intros Hlt. unfold d_check in Hc'. apply existsb_exists in Hc' as (p' & Hp' & Hm').
      exists p'. repeat split; auto.
      eapply (longest_operator_wins_table i j d d' p p'); eauto.
      eapply pat_compat_sound; eauto.
  - exfalso. unfold first_match, find_first in E.
    destruct (find_from determiners 0 ts) as [[? ?]|] eqn:E'; [discriminate|].
    eapply find_from_complete; eauto.
Qed.

(* The documented spellings as proc_macro2 lexes them (all characters but the last are Joint; the spacing j of
   the last character depends on what follows). *)
Definition PJ (c : string) : tt := TP c true.
Definition spellings (j : bool) : list (list tt * comb) :=
  [ ([PJ "|"; TP ">" j], Map); ([PJ "-"; TP ">" j], Then); ([PJ "="; TP ">" j], AndThen);
    ([PJ "<"; TP "|" j], Or); ([PJ "<"; TP "=" j], OrElse); ([PJ ">"; TP "." j], Dot); ([PJ "."; TP "." j], Dot);
    ([PJ "!"; TP ">" j], MapErr); ([PJ ">"; PJ "@"; TP ">" j], Chain); ([PJ "?"; TP "?" j], Inspect);
    ([PJ "?"; TP ">" j], Filter); ([PJ "?"; PJ "|"; PJ ">"; TP "@" j], FindMap); ([PJ "?"; PJ "|"; TP ">" j], FilterMap);
    ([PJ "|"; TI "n"; TP ">" j], Enumerate); ([PJ "?"; PJ "&"; PJ "!"; TP ">" j], Partition);
    ([PJ "^"; PJ "^"; TP ">" j], Flatten); ([PJ "^"; TP "@" j], Fold); ([PJ "?"; PJ "^"; TP "@" j], TryFold);
    ([PJ "?"; TP "@" j], Find); ([PJ ">"; PJ "^"; TP ">" j], Zip); ([PJ "<"; PJ "-"; TP ">" j], Unzip);
    ([PJ "<"; PJ "<"; TP "<" j], UNWRAP) ].
(* `=>[]`: the bracket group is part of the spelling, its content is ignored *)
Definition collect_spelling (j : bool) (content : list tt) : list tt := [PJ "="; TP ">" j; TG DBracket content].

(* `rest` turns the spelling of c into a longer documented operator: `?|>` + `@` = `?|>@`, `=>` + `[..]` = `=>[]` *)
Definition extends_op (c : comb) (rest : list tt) : bool :=
  match c, rest with
  | FilterMap, t :: _ => tmatches (MP "@") t
  | AndThen, t :: _ => tmatches MBracket t
  | _, _ => false
  end.

Theorem documented_operator_wins :
  forall j s c rest, In (s, c) (spellings j) -> extends_op c rest = false ->
    exists d, first_match (s ++ rest) = Some d /\ d_comb d = Some c.
Proof.
  intros j s c rest Hin Hext. cbn in Hin.
  repeat (destruct Hin as [Hin|Hin]; [inversion Hin; subst; clear Hin|]); try contradiction;
    try (eexists; split; [reflexivity|reflexivity]).
  - (* => *) destruct rest as [|t rest]; [eexists; split; reflexivity|].
    cbn in Hext. unfold first_match, find_first. cbn.
    destruct t; cbn in *; try (eexists; split; reflexivity).
    destruct d; cbn in *; try discriminate; eexists; split; reflexivity.
  - (* ?|> *) destruct rest as [|t rest]; [eexists; split; reflexivity|].
    cbn in Hext. unfold first_match, find_first. cbn.
    destruct t; cbn in *; try (eexists; split; reflexivity).
    rewrite Hext. cbn. eexists; split; reflexivity.
Qed.

Theorem collect_spelling_wins :
  forall j content rest, exists d, first_match (collect_spelling j content ++ rest) = Some d /\ d_comb d = Some Collect.
Proof. intros. eexists; split; reflexivity. Qed.

Print Assumptions longest_operator_wins_table.
Print Assumptions longest_operator_wins.
Print Assumptions documented_operator_wins.

(* ================================================================================================ *)
(** * B. Basic facts about parse_until (every oracle) *)

Definition suffix (a b : list tt) : Prop := exists pre, b = pre ++ a.

Lemma suffix_refl a : suffix a a.
Proof. exists []. reflexivity. Qed.
Lemma suffix_trans a b c : suffix a b -> suffix b c -> suffix a c.
Proof. intros [p ->] [q ->]. exists (q ++ p). now rewrite app_assoc. Qed.
Lemma suffix_cons t a b : suffix a b -> suffix a (t :: b).
Proof. intros [p ->]. exists (t :: p). reflexivity. Qed.
Lemma suffix_length a b : suffix a b -> List.length a <= List.length b.
Proof. intros [p ->]. rewrite app_length. lia. Qed.
Lemma suffix_same_length a b : suffix a b -> List.length a = List.length b -> a = b.
Proof.
  intros [p ->] H. rewrite app_length in H. destruct p; [reflexivity|]. cbn in H. lia.
Qed.

Lemma erase_spec n : forall ts r, erase n ts = Some r -> suffix r ts /\ List.length ts = n + List.length r.
Proof.
  induction n as [|n IH]; intros ts r H; cbn in H.
  - inversion H; subst. split; [apply suffix_refl|reflexivity].
  - destruct ts as [|t ts]; [discriminate|]. apply IH in H as [Hs Hl].
    split; [apply suffix_cons; exact Hs|cbn; lia].
Qed.

Lemma erase_enough n : forall ts, n <= List.length ts -> exists r, erase n ts = Some r.
Proof.
  induction n as [|n IH]; intros ts H; cbn; [eauto|].
  destruct ts as [|t ts]; cbn in H; [lia|]. apply IH. lia.
Qed.

Lemma peek_seq_length p : forall ts, peek_seq p ts = true -> List.length p <= List.length ts.
Proof.
  induction p as [|m p IH]; intros ts H; cbn in *; [lia|].
  destruct ts as [|t ts]; [discriminate|]. apply andb_true_iff in H as [_ H]. apply IH in H. cbn. lia.
Qed.

(* finite facts about the table *)
Definition table_rows_ok : bool :=
  forallb (fun d =>
    forallb (fun p => Nat.leb (d_len d) (List.length p)) (d_pats d) && d_validate d &&
    match d_comb d with
    | Some c => Nat.leb 2 (d_len d) && negb (comb_eqb c Initial)
    | None => Nat.eqb (d_len d) 0
    end) determiners.
Lemma table_rows_ok_true : table_rows_ok = true.
Proof. vm_compute. reflexivity. Qed.

Lemma comb_eqb_refl c : comb_eqb c c = true.
Proof. destruct c; reflexivity. Qed.
Lemma comb_eqb_eq a b : comb_eqb a b = true -> a = b.
Proof. destruct a, b; cbn; intros; try discriminate; reflexivity. Qed.

Lemma det_row_facts d :
  In d determiners ->
  (forall p, In p (d_pats d) -> d_len d <= List.length p) /\ d_validate d = true /\
  (forall c, d_comb d = Some c -> 2 <= d_len d /\ c <> Initial) /\
  (d_comb d = None -> d_len d = 0).
Proof.
  intros Hin. pose proof table_rows_ok_true as T. unfold table_rows_ok in T.
  rewrite forallb_forall in T. specialize (T d Hin).
  apply andb_true_iff in T as [T T3]. apply andb_true_iff in T as [T1 T2].
  rewrite forallb_forall in T1.
  repeat split.
  - intros p Hp. apply Nat.leb_le. auto.
  - exact T2.
  - rewrite H in T3. apply andb_true_iff in T3 as [T3 _]. apply Nat.leb_le. exact T3.
  - rewrite H in T3. apply andb_true_iff in T3 as [_ T3]. intros ->. discriminate.
  - intros H. rewrite H in T3. apply Nat.eqb_eq. exact T3.
Qed.

Lemma d_check_length d ts :
  In d determiners -> d_check d ts = true -> d_len d <= List.length ts.
Proof.
  intros Hin Hc. unfold d_check in Hc. apply existsb_exists in Hc as (p & Hp & Hm).
  destruct (det_row_facts d Hin) as (Hl & _). specialize (Hl p Hp).
  apply peek_seq_length in Hm. lia.
Qed.

Lemma nth_error_skipn' {A} n : forall (l : list A) i, nth_error (skipn n l) i = nth_error l (n + i).
Proof.
  induction n as [|n IH]; intros l i; [reflexivity|].
  destruct l as [|x l]; cbn; [destruct i; reflexivity|apply IH].
Qed.
Lemma nth_error_firstn' {A} n : forall (l : list A) i x, nth_error (firstn n l) i = Some x -> nth_error l i = Some x.
Proof.
  induction n as [|n IH]; intros l i x H; cbn in H; [destruct i; discriminate|].
  destruct l as [|y l]; [destruct i; discriminate|]. destruct i; cbn in *; [exact H|eauto].
Qed.

Lemma find_first_spec ts i d :
  find_first ts = Some (i, d) -> nth_error determiners i = Some d /\ d_check d ts = true.
Proof.
  unfold find_first. intros H. apply find_from_spec in H as (j & -> & Hn & Hc & _). auto.
Qed.

Lemma find_first_In ts i d : find_first ts = Some (i, d) -> In d determiners /\ d_check d ts = true.
Proof. intros H. apply find_first_spec in H as [Hn Hc]. split; [eapply nth_error_In; eauto|exact Hc]. Qed.

Lemma find_first_none ts :
  (forall d, In d determiners -> d_check d ts = false) -> find_first ts = None.
Proof.
  intros H. destruct (find_first ts) as [[i d]|] eqn:E; [|reflexivity].
  apply find_first_In in E as [Hin Hc]. rewrite (H d Hin) in Hc. discriminate.
Qed.

(* what `try_accept` accepting means *)
Definition accepted (o : oracle) (k : pkind) (allow_empty : bool) (acc : list tt) : Prop :=
  (acc = [] /\ allow_empty = true) \/ check_valid o k acc = Ans true.

Lemma try_accept_Accept o k a acc inp d :
  try_accept o k a acc inp = Accept d ->
  In d determiners /\ d_check d inp = true /\ accepted o k a acc.
Proof.
  unfold try_accept. destruct (find_first inp) as [[i d']|] eqn:E; [|discriminate].
  apply find_first_In in E as [Hin Hc].
  destruct (is_nil acc && a) eqn:En.
  - intros H; inversion H; subst. repeat split; auto. left.
    apply andb_true_iff in En as [En ->]. destruct acc; [auto|discriminate].
  - destruct (det_row_facts d' Hin) as (_ & Hv & _). rewrite Hv. cbn.
    destruct (check_valid o k acc) as [[|]|] eqn:Ev; try discriminate.
    intros H; inversion H; subst. repeat split; auto. right. exact Ev.
Qed.

Lemma pu_loop_nil o k a acc : pu_loop o k a acc [] = PUEnd acc.
Proof. reflexivity. Qed.

Lemma pu_loop_cons o k a acc t rest :
  pu_loop o k a acc (t :: rest) =
  if is_tilde t then
    match try_accept o k a acc rest with
    | Accept d => PUStop acc true d rest
    | AMiss => PUErr EOracleMiss
    | Continue =>
        match rest with
        | [] => PUErr EUnexpectedEnd
        | x :: rest' => pu_loop o k a (acc ++ [x]) rest'
        end
    end
  else
    match try_accept o k a acc (t :: rest) with
    | Accept d => PUStop acc false d (t :: rest)
    | AMiss => PUErr EOracleMiss
    | Continue => pu_loop o k a (acc ++ [t]) rest
    end.
Proof. reflexivity. Qed.

Lemma pu_loop_stop o k a : forall n inp acc acc' def d inp',
  List.length inp <= n ->
  pu_loop o k a acc inp = PUStop acc' def d inp' ->
  suffix inp' inp /\ (exists l, acc' = acc ++ l) /\ In d determiners /\ d_check d inp' = true /\ accepted o k a acc'.
Proof.
  induction n as [|n IH]; intros inp acc acc' def d inp' Hn H.
  - destruct inp; [discriminate|cbn in Hn; lia].
  - destruct inp as [|t rest]; [discriminate|]. rewrite pu_loop_cons in H. cbn in Hn.
    destruct (is_tilde t).
    + destruct (try_accept o k a acc rest) as [d0| |] eqn:E; try discriminate.
      * inversion H; subst. apply try_accept_Accept in E as (Hin & Hc & Ha).
        repeat split; auto. -- apply suffix_cons, suffix_refl. -- exists []. now rewrite app_nil_r.
      * destruct rest as [|x rest']; [discriminate|]. cbn in Hn.
        apply IH in H as (Hs & (l & ->) & Hr); [|lia].
        split; [do 2 apply suffix_cons; exact Hs|]. split; [|exact Hr].
        exists (x :: l). now rewrite <- app_assoc.
    + destruct (try_accept o k a acc (t :: rest)) as [d0| |] eqn:E; try discriminate.
      * inversion H; subst. apply try_accept_Accept in E as (Hin & Hc & Ha).
        repeat split; auto. -- apply suffix_refl. -- exists []. now rewrite app_nil_r.
      * apply IH in H as (Hs & (l & ->) & Hr); [|lia].
        split; [apply suffix_cons; exact Hs|]. split; [|exact Hr].
        exists (t :: l). now rewrite <- app_assoc.
Qed.

Lemma finish_unit_ok o k acc next rest u :
  finish_unit o k acc next rest = POk u -> u = mkUnit acc next rest /\ check_valid o k acc = Ans true.
Proof.
  unfold finish_unit. destruct (check_valid o k acc) as [[|]|]; try discriminate.
  intros H; inversion H; auto.
Qed.

(* a group as parse_until produces it *)
Definition group_coherent (g : group) : Prop :=
  (g_mv g = Wrap -> can_be_wrapper (g_comb g) = true) /\
  (g_mv g = Unwrap <-> g_comb g = UNWRAP) /\
  g_comb g <> Initial.

(* where a unit without a following operator stops: end of input, a `,`, or a handler *)
Definition stops_at_separator (rest : list tt) : Prop :=
  rest = [] \/ (exists t r, rest = t :: r /\ tmatches (MP ",") t = true) \/ peek_handler rest <> None.

Lemma det_none_cases d :
  In d determiners -> d_comb d = None -> d_pats d = [[MP ","]] \/ d_pats d = handler_pats.
Proof.
  intros Hin Hn. cbn in Hin.
  repeat (destruct Hin as [Hin|Hin]; [subst d; cbn in Hn; try discriminate; auto|]). contradiction.
Qed.

Lemma handler_check_peek ts :
  existsb (fun p => peek_seq p ts) handler_pats = true -> peek_handler ts <> None.
Proof.
  unfold handler_pats, peek_handler. cbn [existsb].
  destruct (peek_seq [MI "then"; MJ "="; MP ">"] ts); [discriminate|].
  destruct (peek_seq [MI "and_then"; MJ "="; MP ">"] ts); [discriminate|].
  destruct (peek_seq [MI "map"; MJ "="; MP ">"] ts); [discriminate|]. cbn. discriminate.
Qed.

Theorem parse_until_post o k a inp u :
  parse_until o k a inp = POk u ->
  suffix (u_rest u) inp /\
  accepted o k false (u_tokens u) /\
  match u_next u with
  | Some g => List.length (u_rest u) + 2 <= List.length inp /\ group_coherent g
  | None => stops_at_separator (u_rest u)
  end.
Proof.
  unfold parse_until.
  destruct (pu_loop o k a [] inp) as [acc|acc def d inp'|e] eqn:E; try discriminate.
  - intros H. apply finish_unit_ok in H as [-> Hv]. cbn.
    split; [exists inp; now rewrite app_nil_r|]. split; [right; exact Hv|left; reflexivity].
  - apply (pu_loop_stop o k a (List.length inp)) in E as (Hs & _ & Hin & Hc & _); [|lia].
    pose proof (d_check_length d inp' Hin Hc) as Hlen.
    destruct (det_row_facts d Hin) as (_ & _ & Hsome & Hnone).
    destruct (d_comb d) as [c|] eqn:Ec.
    + destruct (Hsome c eq_refl) as [H2 Hni].
      destruct (erase (d_len d) inp') as [forked|] eqn:Ef; [|discriminate].
      destruct (peek_seq wrapper_pat forked) eqn:Ew; cbn [andb].
      * destruct (comb_is_unwrap c) eqn:Eu; [discriminate|].
        destruct (can_be_wrapper c) eqn:Ecw; cbn [negb]; [|discriminate].
        destruct (erase 3 inp') as [inp''|] eqn:E3; [|discriminate].
        destruct (erase (d_len d) inp'') as [rest|] eqn:E4; [|discriminate].
        intros H. apply finish_unit_ok in H as [-> Hv]. cbn.
        apply erase_spec in E3 as [Hs3 Hl3]. apply erase_spec in E4 as [Hs4 Hl4].
        split; [eapply suffix_trans; [exact Hs4|]; eapply suffix_trans; [exact Hs3|exact Hs]|].
        split; [right; exact Hv|]. apply suffix_length in Hs. split; [lia|].
        repeat split; cbn; auto; try discriminate. intros ->. discriminate.
      * destruct (erase (d_len d) inp') as [rest|] eqn:E4; [|discriminate].
        inversion Ef; subst forked.
        intros H. apply finish_unit_ok in H as [-> Hv]. cbn.
        apply erase_spec in E4 as [Hs4 Hl4].
        split; [eapply suffix_trans; [exact Hs4|exact Hs]|].
        split; [right; exact Hv|]. apply suffix_length in Hs. split; [lia|].
        unfold comb_is_unwrap. repeat split; cbn; auto.
        -- intros H. destruct (comb_eqb c UNWRAP); discriminate.
        -- destruct (comb_eqb c UNWRAP) eqn:Eu; [intros _; now apply comb_eqb_eq|discriminate].
        -- intros ->. reflexivity.
    + rewrite (Hnone eq_refl). cbn [erase].
      intros H. apply finish_unit_ok in H as [-> Hv]. cbn.
      split; [exact Hs|]. split; [right; exact Hv|].
      unfold d_check in Hc. destruct (det_none_cases d Hin Ec) as [Hp|Hp]; rewrite Hp in Hc.
      * cbn in Hc. destruct inp' as [|t r]; [discriminate|]. right; left. exists t, r. split; auto.
        rewrite orb_false_r, andb_true_r in Hc. exact Hc.
      * right; right. now apply handler_check_peek.
Qed.

(* ---- the unit parsers ---- *)

Definition next_post (inp : list tt) (next : option group) (rest : list tt) : Prop :=
  match next with
  | Some g => List.length rest + 2 <= List.length inp /\ group_coherent g
  | None => stops_at_separator rest
  end.

Lemma next_post_suffix inp inp' next rest :
  suffix inp inp' -> next_post inp next rest -> next_post inp' next rest.
Proof.
  intros Hs. destruct next; cbn; [|auto]. intros [Hl Hc]. apply suffix_length in Hs. split; [lia|auto].
Qed.

Lemma parse_n_S o c' k inp :
  parse_n o (S c') k inp =
  match parse_until o k false inp with
  | PErr e => PErr e
  | POk u =>
      match c' with
      | 0 => POk ([u_tokens u], u_next u, u_rest u)
      | S _ =>
          match u_rest u with
          | [] => PErr EExpectedComma
          | t :: rest' =>
              if tmatches (MP ",") t then
                match u_next u with
                | Some _ => PErr EExpectedUnits
                | None =>
                    match parse_n o c' k rest' with
                    | PErr e => PErr e
                    | POk (ops, next, rest'') => POk (u_tokens u :: ops, next, rest'')
                    end
                end
              else PErr EExpectedComma
          end
      end
  end.
Proof. reflexivity. Qed.

Lemma parse_n_post o k : forall count inp ops next rest,
  parse_n o count k inp = POk (ops, next, rest) ->
  suffix rest inp /\ List.length ops = count /\
  Forall (fun e => check_valid o k e = Ans true) ops /\
  ((count = 0 /\ next = None /\ rest = inp) \/ (0 < count /\ next_post inp next rest)).
Proof.
  induction count as [|c IH]; intros inp ops next rest H.
  - cbn in H. inversion H; subst. repeat split; auto using suffix_refl.
  - rewrite parse_n_S in H.
    destruct (parse_until o k false inp) as [u|e] eqn:E; [|discriminate].
    apply parse_until_post in E as (Hs & Hv & Hn).
    destruct Hv as [[_ Hv]|Hv]; [discriminate|].
    destruct c as [|c'].
    + inversion H; subst. split; [exact Hs|]. split; [reflexivity|]. split; [constructor; auto|].
      right. split; [lia|exact Hn].
    + destruct (u_rest u) as [|t rest'] eqn:Er; [discriminate|].
      destruct (tmatches (MP ",") t); [|discriminate].
      destruct (u_next u); [discriminate|].
      destruct (parse_n o (S c') k rest') as [[[ops' next'] rest'']|] eqn:E'; [|discriminate].
      inversion H; subst. apply IH in E' as (Hs' & Hl' & Hf' & Hn').
      assert (Hs2 : suffix rest' inp).
      { eapply suffix_trans; [|exact Hs]. apply suffix_cons, suffix_refl. }
      repeat split.
      * eapply suffix_trans; eauto.
      * cbn. now rewrite Hl'.
      * constructor; auto.
      * right. split; [lia|]. destruct Hn' as [(Hz & _)|(_ & Hn')]; [discriminate|].
        eapply next_post_suffix; eauto.
Qed.

Lemma parse_n_or_empty_post o count allow k inp us :
  parse_n_or_empty o count allow k inp = POk us ->
  suffix (us_rest us) inp /\
  ((count = 0 /\ us_next us = None /\ us_rest us = inp) \/ next_post inp (us_next us) (us_rest us)) /\
  match us_parsed us with
  | Some ops => List.length ops = count /\ Forall (fun e => check_valid o k e = Ans true) ops
  | None => allow = true
  end.
Proof.
  unfold parse_n_or_empty.
  assert (Hfall : match parse_n o count k inp with
                  | PErr e => PErr e
                  | POk (ops, next, rest) => POk (mkUnits (Some ops) next rest)
                  end = POk us ->
                  suffix (us_rest us) inp /\
                  ((count = 0 /\ us_next us = None /\ us_rest us = inp) \/ next_post inp (us_next us) (us_rest us)) /\
                  match us_parsed us with
                  | Some ops => List.length ops = count /\ Forall (fun e => check_valid o k e = Ans true) ops
                  | None => allow = true
                  end).
  { destruct (parse_n o count k inp) as [[[ops next] rest]|] eqn:E; [|discriminate].
    intros H; inversion H; subst; cbn. apply parse_n_post in E as (Hs & Hl & Hf & Hn).
    repeat split; auto. destruct Hn as [Hn|[_ Hn]]; auto. }
  destruct allow; [|exact Hfall].
  destruct (parse_until o KEmpty true inp) as [u|e] eqn:E; [|exact Hfall].
  intros H; inversion H; subst; cbn. apply parse_until_post in E as (Hs & _ & Hn).
  repeat split; auto.
Qed.

Lemma parse_stream_post o g inp r :
  parse_stream o g inp = POk r ->
  a_comb (mr_action r) = g_comb g /\ a_deferred (mr_action r) = g_deferred g /\ a_mv (mr_action r) = g_mv g /\
  suffix (mr_rest r) inp /\
  ((has_inner_exprs (g_comb g) = false /\ g_mv g <> Wrap /\ mr_next r = None /\ mr_rest r = inp) \/
   next_post inp (mr_next r) (mr_rest r)) /\
  (g_comb g = Initial -> g_mv g <> Wrap -> exists e, a_ops (mr_action r) = [e] /\ valid_expr o e = Ans true).
Proof.
  unfold parse_stream. destruct (g_mv g) eqn:Em.
  - destruct (can_be_wrapper (g_comb g)) eqn:Ecw; [|discriminate].
    destruct (parse_until o KEmpty true inp) as [u|e] eqn:E; [|discriminate].
    intros H; inversion H; subst; cbn. apply parse_until_post in E as (Hs & _ & Hn).
    repeat split; auto. intros _ Hc. congruence.
  - destruct (parse_n_or_empty o _ _ _ inp) as [us|e] eqn:E; [|discriminate].
    intros H; inversion H; subst; cbn. apply parse_n_or_empty_post in E as (Hs & Hn & Hp).
    repeat split; auto.
    + destruct Hn as [(Hz & Hn & Hr)|Hn]; [left|right; exact Hn].
      repeat split; auto; try discriminate. destruct (g_comb g); cbn in Hz; try discriminate; reflexivity.
    + intros Hi _. rewrite Hi in Hp. cbn in Hp.
      destruct (us_parsed us) as [ops|]; [|discriminate].
      destruct Hp as [Hl Hf]. destruct ops as [|e [|? ?]]; try discriminate.
      inversion Hf; subst. exists e. split; auto.
  - destruct (parse_n_or_empty o _ _ _ inp) as [us|e] eqn:E; [|discriminate].
    intros H; inversion H; subst; cbn. apply parse_n_or_empty_post in E as (Hs & Hn & Hp).
    repeat split; auto.
    + destruct Hn as [(Hz & Hn & Hr)|Hn]; [left|right; exact Hn].
      repeat split; auto; try discriminate. destruct (g_comb g); cbn in Hz; try discriminate; reflexivity.
    + intros Hi _. rewrite Hi in Hp. cbn in Hp.
      destruct (us_parsed us) as [ops|]; [|discriminate].
      destruct Hp as [Hl Hf]. destruct ops as [|e [|? ?]]; try discriminate.
      inversion Hf; subst. exists e. split; auto.
Qed.

(* ================================================================================================ *)
(** * C. The chain builder: shape of every accepted chain (wrapper_balance_invariant) *)

From Coq Require Import ZArith.

Definition delta (m : action) : Z :=
  match a_mv m with Wrap => 1 | Unwrap => -1 | NoMove => 0 end%Z.

(* running Wrap/Unwrap balance; it restarts from 0 at every Deferred member (= first member of a step) *)
Fixpoint step_balances (cur : Z) (ms : list action) : list Z :=
  match ms with
  | [] => []
  | m :: r => let c := ((if a_deferred m then 0 else cur) + delta m)%Z in c :: step_balances c r
  end.

Definition member_ok (m : action) : Prop :=
  (a_mv m = Wrap -> can_be_wrapper (a_comb m) = true) /\ (a_mv m = Unwrap <-> a_comb m = UNWRAP).

Definition chain_wf (ms : list action) : Prop :=
  exists m0 rest, ms = m0 :: rest /\
    a_comb m0 = Initial /\ a_mv m0 = NoMove /\ a_deferred m0 = false /\
    Forall (fun m => a_comb m <> Initial) rest /\
    Forall member_ok ms /\
    Forall (fun z => (0 <= z)%Z) (step_balances 0 ms).

Lemma build_rest_eq o fuel count m next inp :
  build_rest o fuel count m next inp =
  match next with
  | None => match finish_chain m inp with PErr e => PErr e | POk rest => POk ([m], rest) end
  | Some g =>
      match bump count g with
      | None => PErr EUnexpectedUnwrap
      | Some count' =>
          match fuel with
          | 0 => PErr EOutOfFuel
          | S fuel' =>
              match parse_stream o g inp with
              | PErr e => PErr e
              | POk r =>
                  match build_rest o fuel' count' (mr_action r) (mr_next r) (mr_rest r) with
                  | PErr e => PErr e
                  | POk (ms, rest) => POk (m :: ms, rest)
                  end
              end
          end
      end
  end.
Proof. destruct fuel; reflexivity. Qed.

Lemma finish_chain_post m inp rest :
  finish_chain m inp = POk rest ->
  suffix rest inp /\ (forall t r, inp = t :: r -> tmatches (MP ",") t = true -> rest = r).
Proof.
  unfold finish_chain. destruct (last_is_block m).
  - destruct inp as [|t r].
    + intros H; inversion H; subst. split; [apply suffix_refl|intros; discriminate].
    + destruct (tmatches (MP ",") t) eqn:Et; intros H; inversion H; subst.
      * split; [apply suffix_cons, suffix_refl|]. intros t' r' Heq _. now inversion Heq.
      * split; [apply suffix_refl|]. intros t' r' Heq Ht. inversion Heq; subst. congruence.
  - destruct inp as [|t r].
    + intros H; inversion H; subst. split; [apply suffix_refl|intros; discriminate].
    + destruct (tmatches (MP ",") t) eqn:Et; intros H; inversion H; subst.
      split; [apply suffix_cons, suffix_refl|]. intros t' r' Heq _. now inversion Heq.
Qed.

Lemma bump_spec count g c' :
  bump count g = Some c' ->
  Z.of_nat c' = ((if g_deferred g then 0 else Z.of_nat count) +
                 match g_mv g with Wrap => 1 | Unwrap => -1 | NoMove => 0 end)%Z.
Proof.
  unfold bump. destruct (g_deferred g), (g_mv g); cbn; intros H; try (inversion H; subst; lia).
  destruct count; [discriminate|]. inversion H; subst. lia.
Qed.

Lemma build_rest_inv o : forall fuel count m next inp ms rest,
  build_rest o fuel count m next inp = POk (ms, rest) ->
  (forall g, next = Some g -> group_coherent g) ->
  exists ms', ms = m :: ms' /\
    Forall member_ok ms' /\ Forall (fun m => a_comb m <> Initial) ms' /\
    Forall (fun z => (0 <= z)%Z) (step_balances (Z.of_nat count) ms') /\
    suffix rest inp.
Proof.
  induction fuel as [|fuel IH]; intros count m next inp ms rest H Hg; rewrite build_rest_eq in H.
  - destruct next as [g|].
    + destruct (bump count g); discriminate.
    + destruct (finish_chain m inp) as [r|] eqn:E; [|discriminate]. inversion H; subst.
      exists []. apply finish_chain_post in E as [Hs _]. repeat split; auto; constructor.
  - destruct next as [g|].
    + destruct (bump count g) as [c'|] eqn:Eb; [|discriminate].
      destruct (parse_stream o g inp) as [r|] eqn:Ep; [|discriminate].
      destruct (build_rest o fuel c' (mr_action r) (mr_next r) (mr_rest r)) as [[ms1 rest1]|] eqn:Er; [|discriminate].
      inversion H; subst.
      apply parse_stream_post in Ep as (Hc & Hd & Hm & Hs & Hn & _).
      apply IH in Er as (ms' & -> & Hok & Hni & Hbal & Hs').
      * exists (mr_action r :: ms'). destruct (Hg g eq_refl) as (Hw & Hu & Hi).
        apply bump_spec in Eb.
        repeat split; auto.
        -- constructor; [|exact Hok]. unfold member_ok. rewrite Hc, Hm. split; auto.
        -- constructor; [|exact Hni]. rewrite Hc. exact Hi.
        -- cbn [step_balances]. unfold delta. rewrite Hd, Hm, <- Eb. constructor; [lia|exact Hbal].
        -- eapply suffix_trans; eauto.
      * intros g' Hg'. destruct Hn as [(_ & _ & Hn & _)|Hn]; [congruence|].
        rewrite Hg' in Hn. apply Hn.
    + destruct (finish_chain m inp) as [r|] eqn:E; [|discriminate]. inversion H; subst.
      exists []. apply finish_chain_post in E as [Hs _]. repeat split; auto; constructor.
Qed.

Lemma initial_fixup_post o m m' pat :
  initial_fixup o m = POk (m', pat) ->
  a_comb m' = a_comb m /\ a_deferred m' = a_deferred m /\ a_mv m' = a_mv m /\
  exists e ops, a_ops m' = e :: ops /\ e <> [].
Proof.
  unfold initial_fixup. destruct (a_ops m) as [|e ops] eqn:Eo; [discriminate|].
  destruct (let_split o e) as [[| |p n v]|]; try discriminate.
  - destruct e as [|t e]; [discriminate|]. cbn. intros H. inversion H; subst.
    repeat split; auto. exists (t :: e), ops. split; [exact Eo|discriminate].
  - destruct v as [|t v]; [discriminate|]. cbn. intros H. inversion H; subst. cbn.
    repeat split; auto. exists (t :: v), []. split; [reflexivity|discriminate].
Qed.

Lemma build_inv o inp b rest :
  build o inp = POk (b, rest) ->
  chain_wf (b_members b) /\ suffix rest inp /\
  (inp <> [] -> peek_handler inp = None -> List.length rest < List.length inp).
Proof.
  unfold build.
  destruct (parse_stream o initial_group inp) as [r|] eqn:Ep; [|discriminate].
  destruct (initial_fixup o (mr_action r)) as [[m pat]|] eqn:Ei; [|discriminate].
  destruct (build_rest o (S (List.length (mr_rest r))) 0 m (mr_next r) (mr_rest r)) as [[ms rest1]|] eqn:Er; [|discriminate].
  intros H; inversion H; subst. cbn [b_members].
  apply parse_stream_post in Ep as (Hc & Hd & Hm & Hs & Hn & _). cbn in Hc, Hd, Hm.
  apply initial_fixup_post in Ei as (Hc' & Hd' & Hm' & _).
  pose proof Er as Er'.
  apply build_rest_inv in Er as (ms' & -> & Hok & Hni & Hbal & Hs').
  2:{ intros g Hg. destruct Hn as [(_ & _ & Hn & _)|Hn]; [congruence|]. rewrite Hg in Hn. apply Hn. }
  split; [|split].
  - exists m, ms'. repeat split; try congruence; auto.
    + constructor; [|exact Hok]. unfold member_ok. rewrite Hm', Hm, Hc', Hc. split; [discriminate|].
      split; discriminate.
    + cbn [step_balances]. unfold delta. rewrite Hd', Hd, Hm', Hm. cbn. constructor; [lia|exact Hbal].
  - eapply suffix_trans; eauto.
  - intros Hne Hph.
    pose proof (suffix_length _ _ Hs) as L1. pose proof (suffix_length _ _ Hs') as L2.
    destruct Hn as [(Hx & _)|Hn]; [discriminate|].
    destruct (mr_next r) as [g|] eqn:En.
    + cbn in Hn. lia.
    + cbn in Hn. rewrite build_rest_eq in Er'.
      destruct (finish_chain m (mr_rest r)) as [r1|] eqn:Ef; [|discriminate].
      inversion Er'; subst. apply finish_chain_post in Ef as [_ Hcomma].
      destruct Hn as [Hn|[(t & r' & Hn & Ht)|Hn]].
      * rewrite Hn in *. cbn in L2. destruct inp; [congruence|]. cbn. lia.
      * rewrite (Hcomma t r' Hn Ht) in *. rewrite Hn in L1. cbn in L1. lia.
      * destruct (Nat.eq_dec (List.length (mr_rest r)) (List.length inp)) as [Heq|Hneq]; [|lia].
        apply suffix_same_length in Hs; [|exact Heq]. rewrite Hs in Hn. contradiction.
Qed.

(* c. Every chain of an accepted branch: non-empty, starts with the `Initial` action (Instant, no move), no other
   member is `Initial`, `Wrap` only on `can_be_wrapper` combinators, `Unwrap` exactly on `UNWRAP`, and in every
   step the running Wrap/Unwrap balance is >= 0 at every prefix. *)
Theorem wrapper_balance_invariant o inp b rest :
  build o inp = POk (b, rest) -> chain_wf (b_members b).
Proof. intros H. now apply build_inv in H. Qed.

Lemma main_loop_eq o fuel hseen inp :
  main_loop o fuel hseen inp =
  match inp with
  | [] => POk ([], None)
  | _ :: _ =>
      match fuel with
      | 0 => PErr EOutOfFuel
      | S fuel' =>
          match peek_handler inp with
          | Some hk =>
              if hseen then PErr EMultipleHandlers
              else match parse_handler o hk inp with
                   | PErr e => PErr e
                   | POk (h, rest) =>
                       match main_loop o fuel' true rest with
                       | PErr e => PErr e
                       | POk (bs, _) => POk (bs, Some h)
                       end
                   end
          | None =>
              match build o inp with
              | PErr e => PErr e
              | POk (b, rest) =>
                  match main_loop o fuel' hseen rest with
                  | PErr e => PErr e
                  | POk (bs, h) => POk (b :: bs, h)
                  end
              end
          end
      end
  end.
Proof. destruct fuel; reflexivity. Qed.

Lemma main_loop_branches o : forall fuel hseen inp bs h,
  main_loop o fuel hseen inp = POk (bs, h) -> Forall (fun b => chain_wf (b_members b)) bs.
Proof.
  induction fuel as [|fuel IH]; intros hseen inp bs h H; rewrite main_loop_eq in H.
  - destruct inp; [|discriminate]. inversion H; constructor.
  - destruct inp as [|t inp']; [inversion H; constructor|].
    destruct (peek_handler (t :: inp')) as [hk|].
    + destruct hseen; [discriminate|].
      destruct (parse_handler o hk (t :: inp')) as [[h0 rest]|]; [|discriminate].
      destruct (main_loop o fuel true rest) as [[bs' h']|] eqn:E; [|discriminate].
      inversion H; subst. eapply IH; eauto.
    + destruct (build o (t :: inp')) as [[b rest]|] eqn:Eb; [|discriminate].
      destruct (main_loop o fuel hseen rest) as [[bs' h']|] eqn:E; [|discriminate].
      inversion H; subst. constructor; [eapply wrapper_balance_invariant; eauto|eapply IH; eauto].
Qed.

(* the same for whole macro inputs: what the generator may rely on *)
Theorem parse_ok_chains o ts i :
  parse o ts = POk i ->
  i_branches i <> [] /\ Forall (fun b => chain_wf (b_members b)) (i_branches i).
Proof.
  unfold parse. destruct (parse_options o ts) as [[st rest]|]; [|discriminate].
  destruct (main_loop o (S (List.length rest)) false rest) as [[bs h]|] eqn:E; [|discriminate].
  destruct bs as [|b bs]; [discriminate|]. cbn [is_nil].
  destruct (o_unexpected st); [discriminate|]. intros H; inversion H; subst; cbn.
  split; [discriminate|]. eapply main_loop_branches; eauto.
Qed.

Print Assumptions wrapper_balance_invariant.
Print Assumptions parse_ok_chains.

(* ================================================================================================ *)
(** * B'. No internal-bug value, enough fuel (first half of C15, for every oracle and every token stream) *)

Definition is_internal (e : perr) : bool :=
  match e with EOutOfFuel | EBug _ => true | _ => false end.

Lemma pu_loop_err o k a : forall n inp acc e,
  List.length inp <= n -> pu_loop o k a acc inp = PUErr e -> is_internal e = false.
Proof.
  induction n as [|n IH]; intros inp acc e Hn H.
  - destruct inp; [discriminate|cbn in Hn; lia].
  - destruct inp as [|t rest]; [discriminate|]. rewrite pu_loop_cons in H. cbn in Hn.
    destruct (is_tilde t).
    + destruct (try_accept o k a acc rest); try discriminate.
      * destruct rest as [|x rest']; [inversion H; reflexivity|]. cbn in Hn. eapply IH; [|exact H]. lia.
      * inversion H; reflexivity.
    + destruct (try_accept o k a acc (t :: rest)); try discriminate.
      * eapply IH; [|exact H]. lia.
      * inversion H; reflexivity.
Qed.

Lemma finish_unit_err o k acc next rest e :
  finish_unit o k acc next rest = PErr e -> is_internal e = false.
Proof.
  unfold finish_unit. destruct (check_valid o k acc) as [[|]|]; intros H; inversion H; reflexivity.
Qed.

Lemma parse_until_err o k a inp e : parse_until o k a inp = PErr e -> is_internal e = false.
Proof.
  unfold parse_until.
  destruct (pu_loop o k a [] inp) as [acc|acc def d inp'|e'] eqn:E.
  - apply finish_unit_err.
  - destruct (d_comb d) as [c|].
    + destruct (erase (d_len d) inp') as [forked|]; [|intros H; inversion H; reflexivity].
      destruct (peek_seq wrapper_pat forked && comb_is_unwrap c); [intros H; inversion H; reflexivity|].
      destruct (peek_seq wrapper_pat forked && negb (can_be_wrapper c)); [intros H; inversion H; reflexivity|].
      destruct (if peek_seq wrapper_pat forked then erase 3 inp' else Some inp') as [inp''|];
        [|intros H; inversion H; reflexivity].
      destruct (erase (d_len d) inp'') as [rest|]; [|intros H; inversion H; reflexivity].
      apply finish_unit_err.
    + destruct (erase (d_len d) inp') as [rest|]; [|intros H; inversion H; reflexivity].
      apply finish_unit_err.
  - intros H; inversion H; subst. eapply pu_loop_err; [|exact E]. apply Nat.le_refl.
Qed.

Lemma parse_n_err o k : forall count inp e, parse_n o count k inp = PErr e -> is_internal e = false.
Proof.
  induction count as [|c IH]; intros inp e H; [discriminate|]. rewrite parse_n_S in H.
  destruct (parse_until o k false inp) as [u|e'] eqn:E.
  - destruct c as [|c']; [discriminate|].
    destruct (u_rest u) as [|t rest']; [inversion H; reflexivity|].
    destruct (tmatches (MP ",") t); [|inversion H; reflexivity].
    destruct (u_next u); [inversion H; reflexivity|].
    destruct (parse_n o (S c') k rest') as [[[? ?] ?]|e''] eqn:E'; [discriminate|].
    inversion H; subst. eapply IH; eauto.
  - inversion H; subst. eapply parse_until_err; eauto.
Qed.

Lemma parse_n_or_empty_err o count allow k inp e :
  parse_n_or_empty o count allow k inp = PErr e -> is_internal e = false.
Proof.
  unfold parse_n_or_empty.
  assert (Hf : match parse_n o count k inp with
               | PErr e => PErr e
               | POk (ops, next, rest) => POk (mkUnits (Some ops) next rest)
               end = PErr e -> is_internal e = false).
  { destruct (parse_n o count k inp) as [[[? ?] ?]|e'] eqn:E; [discriminate|].
    intros H; inversion H; subst. eapply parse_n_err; eauto. }
  destruct allow; [|exact Hf]. destruct (parse_until o KEmpty true inp); [discriminate|exact Hf].
Qed.

Lemma parse_stream_err o g inp e : parse_stream o g inp = PErr e -> is_internal e = false.
Proof.
  unfold parse_stream. destruct (g_mv g).
  - destruct (can_be_wrapper (g_comb g)); [|intros H; inversion H; reflexivity].
    destruct (parse_until o KEmpty true inp) eqn:E; [discriminate|].
    intros H; inversion H; subst. eapply parse_until_err; eauto.
  - destruct (parse_n_or_empty o _ _ _ inp) eqn:E; [discriminate|].
    intros H; inversion H; subst. eapply parse_n_or_empty_err; eauto.
  - destruct (parse_n_or_empty o _ _ _ inp) eqn:E; [discriminate|].
    intros H; inversion H; subst. eapply parse_n_or_empty_err; eauto.
Qed.

Lemma finish_chain_err m inp e : finish_chain m inp = PErr e -> is_internal e = false.
Proof.
  unfold finish_chain. destruct (last_is_block m); destruct inp as [|t r]; try discriminate;
    destruct (tmatches (MP ",") t); try discriminate. intros H; inversion H; reflexivity.
Qed.

Lemma build_rest_err o : forall fuel count m next inp e,
  List.length inp < fuel -> build_rest o fuel count m next inp = PErr e -> is_internal e = false.
Proof.
  induction fuel as [|fuel IH]; intros count m next inp e Hf H; [lia|]. rewrite build_rest_eq in H.
  destruct next as [g|]; [|destruct (finish_chain m inp) eqn:E; [discriminate|inversion H; subst; eapply finish_chain_err; eauto]].
  destruct (bump count g); [|inversion H; reflexivity].
  destruct (parse_stream o g inp) as [r|e'] eqn:Ep; [|inversion H; subst; eapply parse_stream_err; eauto].
  destruct (build_rest o fuel n (mr_action r) (mr_next r) (mr_rest r)) as [[? ?]|e'] eqn:Er; [discriminate|].
  inversion H; subst.
  apply parse_stream_post in Ep as (_ & _ & _ & Hs & Hn & _).
  destruct (mr_next r) as [g'|] eqn:En.
  - eapply IH; [|exact Er]. destruct Hn as [(_ & _ & Hx & _)|Hn]; [discriminate|]. cbn in Hn. lia.
  - rewrite build_rest_eq in Er.
    destruct (finish_chain (mr_action r) (mr_rest r)) eqn:E; [discriminate|].
    inversion Er; subst. eapply finish_chain_err; eauto.
Qed.

Lemma initial_fixup_err o m e :
  a_ops m <> [] -> initial_fixup o m = PErr e -> is_internal e = false.
Proof.
  unfold initial_fixup. destruct (a_ops m) as [|x ops]; [congruence|]. intros _.
  destruct (let_split o x) as [[| |p n v]|]; try (intros H; inversion H; reflexivity).
  - destruct (is_nil x); [intros H; inversion H; reflexivity|discriminate].
  - destruct (is_nil v); [intros H; inversion H; reflexivity|discriminate].
Qed.

Lemma build_err o inp e : build o inp = PErr e -> is_internal e = false.
Proof.
  unfold build.
  destruct (parse_stream o initial_group inp) as [r|e'] eqn:Ep;
    [|intros H; inversion H; subst; eapply parse_stream_err; eauto].
  apply parse_stream_post in Ep as (_ & _ & _ & _ & _ & Hops).
  destruct (Hops eq_refl) as (x & Hx & _); [discriminate|].
  destruct (initial_fixup o (mr_action r)) as [[m pat]|e'] eqn:Ei.
  - destruct (build_rest o _ 0 m (mr_next r) (mr_rest r)) as [[? ?]|e'] eqn:Er; [discriminate|].
    intros H; inversion H; subst. eapply build_rest_err; [|exact Er]. lia.
  - intros H; inversion H; subst. eapply initial_fixup_err; [|exact Ei]. rewrite Hx. discriminate.
Qed.

Lemma parse_handler_post o hk inp h rest :
  parse_handler o hk inp = POk (h, rest) -> List.length rest + 3 <= List.length inp.
Proof.
  unfold parse_handler. destruct (erase 3 inp) as [body|] eqn:E; [|discriminate].
  apply erase_spec in E as [_ Hl].
  destruct (expr_prefix o body) as [[n|]|]; try discriminate.
  intros H; injection H as _ Hr; subst rest.
  pose proof (skipn_length n body) as Hs.
  destruct (skipn n body) as [|t r]; [cbn [List.length]; lia|].
  cbn [List.length] in Hs.
  match goal with |- context [if ?c then _ else _] => destruct c end; cbn [List.length]; lia.
Qed.

Lemma parse_handler_err o hk inp e : parse_handler o hk inp = PErr e -> is_internal e = false.
Proof.
  unfold parse_handler. destruct (erase 3 inp); [|intros H; inversion H; reflexivity].
  destruct (expr_prefix o l) as [[n|]|]; try discriminate; intros H; inversion H; reflexivity.
Qed.

Lemma main_loop_err o : forall fuel hseen inp e,
  List.length inp <= fuel -> main_loop o fuel hseen inp = PErr e -> is_internal e = false.
Proof.
  induction fuel as [|fuel IH]; intros hseen inp e Hf H; rewrite main_loop_eq in H.
  - destruct inp; [discriminate|cbn in Hf; lia].
  - destruct inp as [|t inp']; [discriminate|].
    destruct (peek_handler (t :: inp')) as [hk|] eqn:Eh.
    + destruct hseen; [inversion H; reflexivity|].
      destruct (parse_handler o hk (t :: inp')) as [[h0 rest]|e'] eqn:Ep;
        [|inversion H; subst; eapply parse_handler_err; eauto].
      apply parse_handler_post in Ep.
      destruct (main_loop o fuel true rest) as [[? ?]|e'] eqn:E; [discriminate|].
      inversion H; subst. eapply IH; [|exact E]. lia.
    + destruct (build o (t :: inp')) as [[b rest]|e'] eqn:Eb; [|inversion H; subst; eapply build_err; eauto].
      apply build_inv in Eb as (_ & _ & Hp). specialize (Hp ltac:(discriminate) Eh).
      destruct (main_loop o fuel hseen rest) as [[? ?]|e'] eqn:E; [discriminate|].
      inversion H; subst. eapply IH; [|exact E]. lia.
Qed.

Lemma opt_payload_err o k st content e : opt_payload o k st content = PErr e -> is_internal e = false.
Proof.
  unfold opt_payload. destruct k.
  - destruct (path_prefix o content) as [[n|]|]; try discriminate; intros H; inversion H; reflexivity.
  - discriminate.
  - destruct (lit_bool content) as [[? ?]|]; [discriminate|intros H; inversion H; reflexivity].
  - destruct (lit_bool content) as [[? ?]|]; [discriminate|intros H; inversion H; reflexivity].
Qed.

Lemma opt_loop_cons o st t rest :
  opt_loop o st (t :: rest) =
  match which_opt t with
  | None => POk (st, t :: rest)
  | Some k =>
      match rest with
      | TG DParen content :: rest' =>
          if opt_is_set k st then PErr (EOptionTwice k)
          else match opt_payload o k st content with
               | PErr e => PErr e
               | POk st' => opt_loop o st' rest'
               end
      | _ => PErr (EOptionNoParens k)
      end
  end.
Proof. reflexivity. Qed.

Lemma opt_loop_err o : forall n inp st e,
  List.length inp <= n -> opt_loop o st inp = PErr e -> is_internal e = false.
Proof.
  induction n as [|n IH]; intros inp st e Hn H.
  - destruct inp; [discriminate|cbn in Hn; lia].
  - destruct inp as [|t rest]; [discriminate|]. rewrite opt_loop_cons in H. cbn in Hn.
    destruct (which_opt t) as [k|]; [|discriminate].
    destruct rest as [|[| | |[] content] rest']; try (inversion H; reflexivity).
    destruct (opt_is_set k st); [inversion H; reflexivity|].
    destruct (opt_payload o k st content) as [st'|e'] eqn:E.
    + eapply IH; [|exact H]. cbn in Hn. lia.
    + inversion H; subst. eapply opt_payload_err; eauto.
Qed.

(* C15, first half: for every oracle and every token stream the parser terminates (it is a total function), never
   runs out of its fuel and never reaches one of the `expect(".. This's a bug ..")` sites. *)
Theorem parse_never_internal o ts e : parse o ts = PErr e -> is_internal e = false.
Proof.
  unfold parse. destruct (parse_options o ts) as [[st rest]|e'] eqn:Eo.
  - destruct (main_loop o (S (List.length rest)) false rest) as [[bs h]|e'] eqn:E.
    + destruct (is_nil bs); [intros H; inversion H; reflexivity|].
      destruct (o_unexpected st); [intros H; inversion H; reflexivity|discriminate].
    + intros H; inversion H; subst. eapply main_loop_err; [|exact E]. lia.
  - intros H; inversion H; subst. unfold parse_options in Eo.
    eapply opt_loop_err; [|exact Eo]. apply Nat.le_refl.
Qed.

Corollary parse_total o ts :
  (exists i, parse o ts = POk i) \/ (exists e, parse o ts = PErr e /\ e <> EOutOfFuel /\ forall n, e <> EBug n).
Proof.
  destruct (parse o ts) as [i|e] eqn:E; [eauto|]. right. exists e.
  apply parse_never_internal in E. repeat split; auto; intros; intro; subst; discriminate.
Qed.

Print Assumptions parse_never_internal.

(* ================================================================================================ *)
(** * B''. Structurally invalid input is rejected (second half of C15) *)

(* what "rejected" means: an error, and not one of the internal ones *)
Definition rejected {A} (r : presult A) : Prop := exists e, r = PErr e /\ is_internal e = false.

(* ---- no branch ---- *)
Theorem empty_stream_rejected o : parse o [] = PErr ENoBranch.
Proof. reflexivity. Qed.

Theorem no_branch_rejected o ts i : parse o ts = POk i -> i_branches i <> [].
Proof. intros H. now apply parse_ok_chains in H. Qed.

(* ---- empty branch ---- *)
Lemma pu_loop_end o k a : forall n inp acc acc',
  List.length inp <= n -> pu_loop o k a acc inp = PUEnd acc' -> exists l, acc' = acc ++ l.
Proof.
  induction n as [|n IH]; intros inp acc acc' Hn H.
  - destruct inp; [|cbn in Hn; lia]. inversion H; subst. exists []. now rewrite app_nil_r.
  - destruct inp as [|t rest]; [inversion H; subst; exists []; now rewrite app_nil_r|].
    rewrite pu_loop_cons in H. cbn in Hn.
    destruct (is_tilde t).
    + destruct (try_accept o k a acc rest); try discriminate.
      destruct rest as [|x rest']; [discriminate|]. cbn in Hn.
      apply IH in H as (l & ->); [|lia]. exists (x :: l). now rewrite <- app_assoc.
    + destruct (try_accept o k a acc (t :: rest)); try discriminate.
      apply IH in H as (l & ->); [|lia]. exists (t :: l). now rewrite <- app_assoc.
Qed.

(* the tokens of a unit that starts at a non-`~` token t: nothing, or a list that starts with t *)
Lemma parse_until_tokens_head o k a t rest u :
  is_tilde t = false -> parse_until o k a (t :: rest) = POk u ->
  u_tokens u = [] \/ exists l, u_tokens u = t :: l.
Proof.
  intros Ht. unfold parse_until. rewrite pu_loop_cons, Ht.
  destruct (try_accept o k a [] (t :: rest)) as [d| |] eqn:E; try discriminate.
  - destruct (d_comb d).
    + destruct (erase (d_len d) (t :: rest)); [|discriminate].
      destruct (peek_seq wrapper_pat l && comb_is_unwrap c); [discriminate|].
      destruct (peek_seq wrapper_pat l && negb (can_be_wrapper c)); [discriminate|].
      destruct (if peek_seq wrapper_pat l then erase 3 (t :: rest) else Some (t :: rest)); [|discriminate].
      destruct (erase (d_len d) l0); [|discriminate].
      intros H. apply finish_unit_ok in H as [-> _]. left. reflexivity.
    + destruct (erase (d_len d) (t :: rest)); [|discriminate].
      intros H. apply finish_unit_ok in H as [-> _]. left. reflexivity.
  - cbn [app].
    destruct (pu_loop o k a [t] rest) as [acc|acc def d inp'|e] eqn:El; try discriminate.
    + apply (pu_loop_end o k a (List.length rest)) in El as (l & ->); [|lia].
      intros H. apply finish_unit_ok in H as [-> _]. right. exists l. reflexivity.
    + apply (pu_loop_stop o k a (List.length rest)) in El as (_ & (l & ->) & _); [|lia].
      destruct (d_comb d).
      * destruct (erase (d_len d) inp'); [|discriminate].
        destruct (peek_seq wrapper_pat l0 && comb_is_unwrap c); [discriminate|].
        destruct (peek_seq wrapper_pat l0 && negb (can_be_wrapper c)); [discriminate|].
        destruct (if peek_seq wrapper_pat l0 then erase 3 inp' else Some inp'); [|discriminate].
        destruct (erase (d_len d) l1); [|discriminate].
        intros H. apply finish_unit_ok in H as [-> _]. right. exists l. reflexivity.
      * destruct (erase (d_len d) inp'); [|discriminate].
        intros H. apply finish_unit_ok in H as [-> _]. right. exists l. reflexivity.
Qed.

(* The one thing `syn` contributes to the rejection of an empty branch: neither the empty token list nor a list
   that starts with a comma is an expression. *)
Definition no_comma_expr (o : oracle) : Prop :=
  valid_expr o [] <> Ans true /\
  forall t ts, tmatches (MP ",") t = true -> valid_expr o (t :: ts) <> Ans true.

Lemma comma_not_tilde t : tmatches (MP ",") t = true -> is_tilde t = false.
Proof.
  unfold is_tilde. destruct t; cbn [tmatches]; try reflexivity. intros H. apply String.eqb_eq in H. subst. reflexivity.
Qed.

Lemma comma_not_handler t rest : tmatches (MP ",") t = true -> peek_handler (t :: rest) = None.
Proof. destruct t; cbn [tmatches]; try discriminate. reflexivity. Qed.

Lemma build_at_comma o t rest :
  no_comma_expr o -> tmatches (MP ",") t = true -> rejected (build o (t :: rest)).
Proof.
  intros [H0 H1] Ht. destruct (build o (t :: rest)) as [[b r]|e] eqn:E.
  - exfalso. unfold build in E.
    destruct (parse_stream o initial_group (t :: rest)) as [mr|] eqn:Ep; [|discriminate].
    clear E. unfold parse_stream in Ep. cbn [g_mv initial_group g_comb arity ar_count ar_allow_empty ar_kind] in Ep.
    unfold parse_n_or_empty in Ep. rewrite parse_n_S in Ep.
    destruct (parse_until o KExpr false (t :: rest)) as [u|] eqn:Eu; [|discriminate].
    pose proof Eu as Eu'. apply parse_until_post in Eu' as (_ & [[_ Hx]|Hv] & _); [discriminate|].
    apply parse_until_tokens_head in Eu; [|now apply comma_not_tilde].
    cbn in Hv. destruct Eu as [Hu|(l & Hu)]; rewrite Hu in Hv; [contradiction|].
    eapply H1; eauto.
  - exists e. split; [reflexivity|]. eapply build_err; eauto.
Qed.

(* an empty branch - the loop standing at a `,`: leading comma, `a,,b`, `a, ,` .. *)
Theorem empty_branch_rejected o fuel hseen t rest :
  no_comma_expr o -> tmatches (MP ",") t = true -> rejected (main_loop o (S fuel) hseen (t :: rest)).
Proof.
  intros Ho Ht. rewrite main_loop_eq. rewrite (comma_not_handler t rest Ht).
  destruct (build_at_comma o t rest Ho Ht) as (e & -> & He). exists e. auto.
Qed.

Corollary leading_comma_rejected o t rest :
  no_comma_expr o -> tmatches (MP ",") t = true -> rejected (parse o (t :: rest)).
Proof.
  intros Ho Ht. unfold parse.
  assert (Hopt : parse_options o (t :: rest) = POk (empty_opts, t :: rest)).
  { destruct t; cbn [tmatches] in Ht; try discriminate. reflexivity. }
  rewrite Hopt. destruct (empty_branch_rejected o (List.length (t :: rest)) false t rest Ho Ht) as (e & -> & He).
  exists e. auto.
Qed.

(* `a,,b`: whenever a branch ends in front of a second comma, the whole input is rejected *)
Corollary double_comma_rejected o fuel hseen inp b t rest :
  no_comma_expr o -> inp <> [] -> peek_handler inp = None ->
  build o inp = POk (b, t :: rest) -> tmatches (MP ",") t = true ->
  rejected (main_loop o (S (S fuel)) hseen inp).
Proof.
  intros Ho Hne Hph Hb Ht. rewrite main_loop_eq. destruct inp as [|x inp']; [congruence|].
  rewrite Hph, Hb.
  destruct (empty_branch_rejected o fuel hseen t rest Ho Ht) as (e & -> & He). exists e. auto.
Qed.

(* ---- `<<<` without an open `>>>` in the same step ---- *)
(* `count` is the number of wrappers opened and not yet closed in the current step (build_rest_inv);
   an `<<<` that arrives when it is 0, or that is itself deferred (first action of a new step), is rejected -
   this includes the cross-step case `a |> >>> |> f ~|> g <<< |> h`, where the `~` has reset the count. *)
Theorem unexpected_unwrap_rejected o fuel count m g inp :
  g_mv g = Unwrap -> g_deferred g = true \/ count = 0 ->
  build_rest o fuel count m (Some g) inp = PErr EUnexpectedUnwrap.
Proof.
  intros Hm Hc. rewrite build_rest_eq. unfold bump. rewrite Hm.
  destruct Hc as [-> | ->]; [reflexivity|]. destruct (g_deferred g); reflexivity.
Qed.

(* a deferred action resets the count: after `~op` only wrappers opened by `~op` itself or later count *)
Theorem deferred_resets_balance count g :
  g_deferred g = true -> bump count g = bump 0 g.
Proof. intros H. unfold bump. now rewrite H. Qed.

(* general form: if the running per-step balance of the members goes negative the builder cannot return Ok *)
Theorem negative_balance_rejected o inp b rest :
  build o inp = POk (b, rest) -> Forall (fun z => (0 <= z)%Z) (step_balances 0 (b_members b)).
Proof. intros H. apply wrapper_balance_invariant in H as (m0 & r & _ & _ & _ & _ & _ & _ & H). exact H. Qed.

(* ---- `>>>` after a non-wrapper operator, `<<< >>>` ---- *)
Theorem wrap_misuse_rejected o k a inp acc def d inp' c forked :
  pu_loop o k a [] inp = PUStop acc def d inp' ->          (* the unit ends at determiner d .. *)
  d_comb d = Some c -> erase (d_len d) inp' = Some forked ->
  peek_seq wrapper_pat forked = true ->                     (* .. which is followed by `>>>` *)
  (c = UNWRAP -> parse_until o k a inp = PErr EWrapAndUnwrap) /\
  (c <> UNWRAP -> can_be_wrapper c = false -> parse_until o k a inp = PErr ECantBeWrapper).
Proof.
  intros Hl Hc He Hw. unfold parse_until. rewrite Hl, Hc, He, Hw. cbn [andb]. split.
  - intros ->. reflexivity.
  - intros Hn Hcw. unfold comb_is_unwrap. destruct (comb_eqb c UNWRAP) eqn:E.
    + apply comb_eqb_eq in E. contradiction.
    + rewrite Hcw. reflexivity.
Qed.

(* the twelve operators after which `>>>` is rejected *)
Theorem non_wrappers :
  forall c, In c [Then; Or; Dot; Chain; Flatten; Collect; Enumerate; Fold; TryFold; Unzip; Zip; Initial] ->
            can_be_wrapper c = false /\ c <> UNWRAP.
Proof. intros c H. cbn in H. repeat (destruct H as [<-|H]; [split; [reflexivity|discriminate]|]). contradiction. Qed.

(* ---- a non-identifier `let` pattern ---- *)
Theorem incorrect_let_rejected o inp r e ops :
  parse_stream o initial_group inp = POk r -> a_ops (mr_action r) = e :: ops ->
  let_split o e = Ans LetBadPat -> build o inp = PErr EIncorrectLet.
Proof. intros Hp Ho Hl. unfold build, initial_fixup. rewrite Hp, Ho, Hl. reflexivity. Qed.

(* ---- a duplicated option, at the place where it is noticed (the sequence-level statement is in part E) ---- *)
Theorem option_twice_rejected o k st t content rest :
  which_opt t = Some k -> opt_is_set k st = true ->
  opt_loop o st (t :: TG DParen content :: rest) = PErr (EOptionTwice k).
Proof. intros Ht Hs. rewrite opt_loop_cons, Ht, Hs. reflexivity. Qed.

(* ---- a second handler ---- *)
Theorem second_handler_rejected o fuel inp hk :
  peek_handler inp = Some hk -> main_loop o (S fuel) true inp = PErr EMultipleHandlers.
Proof.
  intros H. rewrite main_loop_eq. destruct inp as [|t r]; [discriminate|]. rewrite H. reflexivity.
Qed.

(* once a handler has been seen the flag stays set: nothing after it can be accepted as a handler *)
Theorem handler_seen_none o : forall fuel inp bs h, main_loop o fuel true inp = POk (bs, h) -> h = None.
Proof.
  induction fuel as [|fuel IH]; intros inp bs h H; rewrite main_loop_eq in H.
  - destruct inp; [|discriminate]. now inversion H.
  - destruct inp as [|t r]; [now inversion H|].
    destruct (peek_handler (t :: r)); [discriminate|].
    destruct (build o (t :: r)) as [[b rest]|]; [|discriminate].
    destruct (main_loop o fuel true rest) as [[bs' h']|] eqn:E; [|discriminate].
    inversion H; subst. eapply IH; eauto.
Qed.

Print Assumptions empty_branch_rejected.
Print Assumptions unexpected_unwrap_rejected.
Print Assumptions wrap_misuse_rejected.
Print Assumptions incorrect_let_rejected.
Print Assumptions option_twice_rejected.
Print Assumptions second_handler_rejected.

(* ================================================================================================ *)
(** * D. C14: units, operators, chains - the round trip *)

(* ---- D.1 parse_until, split into the scanning loop and what happens at the determiner it stops at ---- *)

Definition after_stop (def : bool) (d : determiner) (inp' : list tt) : presult (option group * list tt) :=
  match d_comb d with
  | None =>
      match erase (d_len d) inp' with
      | None => PErr EUnexpectedEnd
      | Some rest => POk (None, rest)
      end
  | Some c =>
      match erase (d_len d) inp' with
      | None => PErr EUnexpectedEnd
      | Some forked =>
          let wrap := peek_seq wrapper_pat forked in
          if wrap && comb_is_unwrap c then PErr EWrapAndUnwrap
          else if wrap && negb (can_be_wrapper c) then PErr ECantBeWrapper
          else
            match (if wrap then erase 3 inp' else Some inp') with
            | None => PErr EUnexpectedEnd
            | Some inp'' =>
                match erase (d_len d) inp'' with
                | None => PErr EUnexpectedEnd
                | Some rest =>
                    POk (Some (mkGroup c def (if wrap then Wrap else if comb_is_unwrap c then Unwrap else NoMove)), rest)
                end
            end
      end
  end.

Lemma parse_until_alt o k a inp :
  parse_until o k a inp =
  match pu_loop o k a [] inp with
  | PUErr e => PErr e
  | PUEnd acc => finish_unit o k acc None []
  | PUStop acc def d inp' =>
      match after_stop def d inp' with
      | PErr e => PErr e
      | POk (next, rest) => finish_unit o k acc next rest
      end
  end.
Proof.
  unfold parse_until, after_stop.
  destruct (pu_loop o k a [] inp) as [acc|acc def d inp'|e]; try reflexivity.
  destruct (d_comb d) as [c|].
  - destruct (erase (d_len d) inp') as [forked|]; [|reflexivity].
    destruct (peek_seq wrapper_pat forked && comb_is_unwrap c); [reflexivity|].
    destruct (peek_seq wrapper_pat forked && negb (can_be_wrapper c)); [reflexivity|].
    destruct (if peek_seq wrapper_pat forked then erase 3 inp' else Some inp') as [inp''|]; [|reflexivity].
    destruct (erase (d_len d) inp''); reflexivity.
  - destruct (erase (d_len d) inp'); reflexivity.
Qed.

(* a leading `~` of what follows an operand *)
Definition strip_tilde (follow : list tt) : bool * list tt :=
  match follow with
  | t :: r => if is_tilde t then (true, r) else (false, follow)
  | [] => (false, [])
  end.

(* How the tokens `follow` that stand after a complete operand are resolved: end of input, or (after an optional
   `~`) the first matching determiner of the table and the group / remaining input it yields. *)
Definition resolves (follow : list tt) (next : option group) (rest : list tt) : Prop :=
  match follow with
  | [] => next = None /\ rest = []
  | _ :: _ => exists i d, find_first (snd (strip_tilde follow)) = Some (i, d) /\
                          after_stop (fst (strip_tilde follow)) d (snd (strip_tilde follow)) = POk (next, rest)
  end.

(* An operand that is ATOMIC FOR THE ORACLE in front of `follow`:
   - it holds no top-level `~`;
   - the oracle accepts it as a whole;
   - at every proper prefix (the empty one included) at which some determiner matches the upcoming tokens, the
     oracle says "not a complete operand" - operator look-alikes inside an incomplete operand.
   (On the pinned tree a fourth clause about the rotated determiner cycle was needed - finding P1, now fixed.) *)
Definition atomic (o : oracle) (k : pkind) (e follow : list tt) : Prop :=
  forallb (fun t => negb (is_tilde t)) e = true /\
  check_valid o k e = Ans true /\
  (forall e1 e2, e = e1 ++ e2 -> e2 <> [] -> forall d, In d determiners -> d_check d (e2 ++ follow) = true ->
                 check_valid o k e1 = Ans false).

Lemma pu_loop_scan o k e follow :
  atomic o k e follow ->
  forall e2 e1, e = e1 ++ e2 ->
    pu_loop o k false e1 (e2 ++ follow) = pu_loop o k false e follow.
Proof.
  intros (Hnt & Hv & Hint).
  induction e2 as [|t e2 IH]; intros e1 He.
  - rewrite app_nil_r in He. subst e1. reflexivity.
  - cbn [app]. rewrite pu_loop_cons.
    assert (Ht : is_tilde t = false).
    { rewrite forallb_forall in Hnt. specialize (Hnt t). rewrite He in Hnt.
      apply negb_true_iff. apply Hnt. apply in_or_app. right. left. reflexivity. }
    rewrite Ht. unfold try_accept.
    destruct (find_first (t :: e2 ++ follow)) as [[i d]|] eqn:Ef.
    + destruct (find_first_In _ _ _ Ef) as [Hin Hc].
      rewrite andb_false_r. destruct (det_row_facts d Hin) as (_ & Hval & _). rewrite Hval. cbn [negb].
      rewrite (Hint e1 (t :: e2) He ltac:(discriminate) d Hin Hc).
      apply IH. rewrite He. now rewrite <- app_assoc.
    + apply IH. rewrite He. now rewrite <- app_assoc.
Qed.

Lemma pu_loop_at_end o k e follow :
  atomic o k e follow ->
  pu_loop o k false e follow =
  match follow with
  | [] => PUEnd e
  | _ :: _ => match find_first (snd (strip_tilde follow)) with
              | Some (_, d) => PUStop e (fst (strip_tilde follow)) d (snd (strip_tilde follow))
              | None => pu_loop o k false e follow
              end
  end.
Proof.
  intros (Hnt & Hv & Hint). destruct follow as [|t r]; [reflexivity|].
  unfold strip_tilde in *. rewrite pu_loop_cons.
  destruct (is_tilde t) eqn:Ht; cbn [fst snd] in *.
  - destruct (find_first r) as [[i d]|] eqn:Ef; [|reflexivity].
    unfold try_accept. rewrite Ef.
    destruct (find_first_In _ _ _ Ef) as [Hin Hc].
    rewrite andb_false_r. destruct (det_row_facts d Hin) as (_ & Hval & _). rewrite Hval. cbn [negb].
    rewrite Hv. reflexivity.
  - destruct (find_first (t :: r)) as [[i d]|] eqn:Ef; [|reflexivity].
    unfold try_accept. rewrite Ef.
    destruct (find_first_In _ _ _ Ef) as [Hin Hc].
    rewrite andb_false_r. destruct (det_row_facts d Hin) as (_ & Hval & _). rewrite Hval. cbn [negb].
    rewrite Hv. reflexivity.
Qed.

(* C14 at the level of one unit: an atomic operand is cut exactly at its end, whatever look-alikes it contains;
   the `~` (deferred flag) and the operator found there are exactly those that stand there, and the operator is
   the first matching row of the table, i.e. the longest documented one (part A). *)
Theorem unit_roundtrip o k e follow next rest :
  atomic o k e follow -> resolves follow next rest ->
  parse_until o k false (e ++ follow) = POk (mkUnit e next rest).
Proof.
  intros Ha Hres. rewrite parse_until_alt.
  rewrite (pu_loop_scan o k e follow Ha e [] eq_refl).
  rewrite (pu_loop_at_end o k e follow Ha).
  destruct Ha as (_ & Hv & _). unfold resolves in Hres.
  destruct follow as [|t r].
  - destruct Hres as [-> ->]. unfold finish_unit. now rewrite Hv.
  - destruct Hres as (i & d & Hf & Has). rewrite Hf, Has. unfold finish_unit. now rewrite Hv.
Qed.

(* a unit that may be empty (after `>>>`, after `^^>`, `|n>`, `<<<`, `=>[]`, `<->`): the next operator is taken at once *)
Theorem empty_unit o follow next rest :
  resolves follow next rest -> parse_until o KEmpty true follow = POk (mkUnit [] next rest).
Proof.
  intros Hres. rewrite parse_until_alt. unfold resolves in Hres.
  destruct follow as [|t r].
  - destruct Hres as [-> ->]. reflexivity.
  - destruct Hres as (i & d & Hf & Has). rewrite pu_loop_cons. unfold strip_tilde in *.
    destruct (is_tilde t); cbn [fst snd] in *; unfold try_accept; rewrite Hf; cbn [is_nil andb]; rewrite Has; reflexivity.
Qed.

Print Assumptions unit_roundtrip.
Print Assumptions empty_unit.

(* ---- D.2 how operators and separators resolve ---- *)

Definition TILDE : tt := TP "~" true.
Definition wrap3 (j : bool) : list tt := [PJ ">"; PJ ">"; TP ">" j].

(* s is a documented spelling of combinator c *)
Definition documented (s : list tt) (c : comb) : Prop :=
  (exists j, In (s, c) (spellings j)) \/ (c = Collect /\ exists j content, s = collect_spelling j content).

Lemma erase_app_len (l : list tt) : forall Y, erase (List.length l) (l ++ Y) = Some Y.
Proof. induction l as [|x l IH]; intros Y; cbn; auto. Qed.

Lemma erase_add a : forall b ts,
  erase (a + b) ts = match erase a ts with Some r => erase b r | None => None end.
Proof.
  induction a as [|a IH]; intros b ts; cbn; [reflexivity|].
  destruct ts as [|t ts]; [reflexivity|]. apply IH.
Qed.

Lemma documented_resolves_at s c X :
  documented s c -> extends_op c X = false ->
  exists i d, find_first (s ++ X) = Some (i, d) /\ d_comb d = Some c /\ d_len d = List.length s /\
              is_tilde (hd TILDE s) = false /\ s <> [].
Proof.
  intros [[j Hin]|[-> (j & content & ->)]] Hext.
  - cbn in Hin.
    repeat (destruct Hin as [Hin|Hin]; [inversion Hin; subst; clear Hin|]); try contradiction;
      try (do 2 eexists; repeat split; try reflexivity; discriminate).
    + (* => *) destruct X as [|t X]; [do 2 eexists; repeat split; try reflexivity; discriminate|].
      cbn in Hext. unfold find_first. cbn.
      destruct t; cbn in *; try (do 2 eexists; repeat split; try reflexivity; discriminate).
      destruct d; cbn in *; try discriminate; do 2 eexists; repeat split; try reflexivity; discriminate.
    + (* ?|> *) destruct X as [|t X]; [do 2 eexists; repeat split; try reflexivity; discriminate|].
      cbn in Hext. unfold find_first. cbn.
      destruct t; cbn in *; try (do 2 eexists; repeat split; try reflexivity; discriminate).
      rewrite Hext. cbn. do 2 eexists; repeat split; try reflexivity; discriminate.
  - do 2 eexists; repeat split; try reflexivity; discriminate.
Qed.

Definition mv_of (c : comb) (wrap : bool) : mv :=
  if wrap then Wrap else if comb_is_unwrap c then Unwrap else NoMove.

(* `~` and `>>>` attach to exactly the operator they precede / follow *)
Theorem resolves_op s c X (def wrap : bool) (jw : bool) :
  documented s c ->
  extends_op c ((if wrap then wrap3 jw else []) ++ X) = false ->
  (wrap = false -> peek_seq wrapper_pat X = false) ->
  (wrap = true -> can_be_wrapper c = true) ->
  resolves ((if def then [TILDE] else []) ++ s ++ (if wrap then wrap3 jw else []) ++ X)
           (Some (mkGroup c def (mv_of c wrap))) X.
Proof.
  intros Hdoc Hext Hnw Hcw.
  destruct (documented_resolves_at s c _ Hdoc Hext) as (i & d & Hf & Hc & Hl & Ht & Hne).
  set (W := if wrap then wrap3 jw else []) in *.
  assert (Hstrip : strip_tilde ((if def then [TILDE] else []) ++ s ++ W ++ X) = (def, s ++ W ++ X)).
  { destruct def; [reflexivity|]. destruct s as [|t s']; [congruence|]. cbn in *. now rewrite Ht. }
  assert (Hcons : exists t r, (if def then [TILDE] else []) ++ s ++ W ++ X = t :: r).
  { destruct def; [eexists; eexists; reflexivity|]. destruct s as [|t s']; [congruence|]. eexists; eexists; reflexivity. }
  destruct Hcons as (t0 & r0 & Hcons). unfold resolves. rewrite Hcons, <- Hcons, Hstrip. cbn [fst snd].
  exists i, d. split; [exact Hf|].
  unfold after_stop. rewrite Hc, Hl, erase_app_len.
  assert (Hu : can_be_wrapper c = true -> comb_is_unwrap c = false) by (destruct c; cbn; congruence).
  destruct wrap; subst W.
  - assert (Hp : peek_seq wrapper_pat (wrap3 jw ++ X) = true) by reflexivity.
    rewrite Hp. cbn [andb]. rewrite (Hu (Hcw eq_refl)), (Hcw eq_refl). cbn [negb].
    assert (E3 : exists r3, erase 3 (s ++ wrap3 jw ++ X) = Some r3 /\ erase (List.length s) r3 = Some X).
    { pose proof (erase_add 3 (List.length s) (s ++ wrap3 jw ++ X)) as Ha.
      replace (3 + List.length s) with (List.length (s ++ wrap3 jw)) in Ha by (rewrite app_length; cbn; lia).
      rewrite (app_assoc s (wrap3 jw) X) in Ha at 1. rewrite erase_app_len in Ha.
      destruct (erase 3 (s ++ wrap3 jw ++ X)) as [r3|]; [|discriminate]. exists r3. auto. }
    destruct E3 as (r3 & -> & ->). unfold mv_of. reflexivity.
  - cbn [app]. rewrite (Hnw eq_refl). cbn [andb]. rewrite erase_app_len. reflexivity.
Qed.

Lemma resolves_nil : resolves [] None [].
Proof. split; reflexivity. Qed.

Lemma resolves_comma t tail : tmatches (MP ",") t = true -> resolves (t :: tail) None (t :: tail).
Proof.
  intros Ht. unfold resolves, strip_tilde. rewrite (comma_not_tilde t Ht). cbn [fst snd].
  destruct t; cbn [tmatches] in Ht; try discriminate. apply String.eqb_eq in Ht. subst c.
  exists 0. eexists. split; reflexivity.
Qed.

Lemma resolves_handler sep hk : peek_handler sep = Some hk -> resolves sep None sep.
Proof.
  intros Hp. destruct sep as [|t r]; [discriminate|].
  destruct t as [c j|s|l|dl g]; try discriminate.
  unfold resolves, strip_tilde. cbn [is_tilde tmatches fst snd].
  assert (Hh : existsb (fun p => peek_seq p (TI s :: r)) handler_pats = true).
  { unfold peek_handler in Hp. unfold handler_pats. cbn [existsb].
    destruct (peek_seq [MI "then"; MJ "="; MP ">"] (TI s :: r)); [reflexivity|].
    destruct (peek_seq [MI "and_then"; MJ "="; MP ">"] (TI s :: r)); [reflexivity|].
    destruct (peek_seq [MI "map"; MJ "="; MP ">"] (TI s :: r)); [reflexivity|discriminate]. }
  exists 24. eexists. split.
  - unfold find_first. cbn [determiners find_from d_check cdet d_pats existsb peek_seq tmatches andb orb].
    rewrite Hh. reflexivity.
  - reflexivity.
Qed.

(* ---- D.3 members: operands by arity ---- *)

Definition COMMA : tt := TP "," false.

Fixpoint join_ops (ops : list operand) : list tt :=
  match ops with
  | [] => []
  | e :: r => match r with [] => e | _ :: _ => e ++ COMMA :: join_ops r end
  end.

(* every operand atomic in front of what follows IT: a comma and the remaining operands, resp. F after the last one *)
Fixpoint operands_ok (o : oracle) (k : pkind) (ops : list operand) (F : list tt) : Prop :=
  match ops with
  | [] => True
  | e :: r => match r with
              | [] => atomic o k e F
              | _ :: _ => atomic o k e (COMMA :: join_ops r ++ F) /\ operands_ok o k r F
              end
  end.

Lemma parse_n_roundtrip o k F next rest : forall ops,
  ops <> [] -> operands_ok o k ops F -> resolves F next rest ->
  parse_n o (List.length ops) k (join_ops ops ++ F) = POk (ops, next, rest).
Proof.
  induction ops as [|e r IH]; intros Hne Hok Hres; [congruence|].
  cbn [List.length]. rewrite parse_n_S. destruct r as [|e' r'].
  - cbn in Hok |- *. rewrite (unit_roundtrip o k e F next rest Hok Hres). reflexivity.
  - destruct Hok as [Ha Hok].
    change (join_ops (e :: e' :: r')) with (e ++ COMMA :: join_ops (e' :: r')) in *.
    rewrite <- app_assoc.
    change ((COMMA :: join_ops (e' :: r')) ++ F) with (COMMA :: join_ops (e' :: r') ++ F).
    rewrite (unit_roundtrip o k e _ None (COMMA :: join_ops (e' :: r') ++ F) Ha (resolves_comma COMMA _ eq_refl)).
    cbn [u_rest u_next u_tokens].
    change (tmatches (MP ",") COMMA) with true. cbn iota.
    rewrite (IH ltac:(discriminate) Hok Hres). reflexivity.
Qed.

Lemma try_accept_kempty o a acc inp :
  acc <> [] -> try_accept o KEmpty a acc inp = Continue.
Proof.
  intros Hne. unfold try_accept. destruct (find_first inp) as [[i d]|] eqn:E; [|reflexivity].
  apply find_first_In in E as [Hin _]. destruct (det_row_facts d Hin) as (_ & Hv & _).
  destruct acc; [congruence|]. cbn. rewrite Hv. reflexivity.
Qed.

Lemma pu_loop_kempty o a : forall n inp acc,
  acc <> [] -> List.length inp <= n ->
  (exists acc', pu_loop o KEmpty a acc inp = PUEnd acc' /\ acc' <> []) \/
  (exists e, pu_loop o KEmpty a acc inp = PUErr e).
Proof.
  induction n as [|n IH]; intros inp acc Hne Hn.
  - destruct inp; [|cbn in Hn; lia]. left. exists acc. auto.
  - destruct inp as [|t rest]; [left; exists acc; auto|]. rewrite pu_loop_cons. cbn in Hn.
    destruct (is_tilde t).
    + rewrite (try_accept_kempty o a acc rest Hne).
      destruct rest as [|x rest']; [right; eauto|]. cbn in Hn. apply IH; [|lia]. now destruct acc.
    + rewrite (try_accept_kempty o a acc (t :: rest) Hne).
      apply IH; [|lia]. now destruct acc.
Qed.

(* a type operand after `=>[]` / `<->`: the "is it empty?" attempt fails and the real parse takes over *)
Lemma empty_attempt_fails o t rest :
  is_tilde t = false -> (forall d, In d determiners -> d_check d (t :: rest) = false) ->
  exists e, parse_until o KEmpty true (t :: rest) = PErr e.
Proof.
  intros Ht Hnd. rewrite parse_until_alt, pu_loop_cons, Ht. unfold try_accept.
  rewrite (find_first_none (t :: rest) Hnd). cbn [app].
  destruct (pu_loop_kempty o true (List.length rest) rest [t] ltac:(discriminate) (Nat.le_refl _))
    as [(acc' & -> & Hne)|(e & ->)]; [|eauto].
  unfold finish_unit. cbn. destruct acc'; [congruence|]. cbn. eauto.
Qed.

Definition is_wrap (m : action) : bool := match a_mv m with Wrap => true | _ => false end.

Definition operand_toks (m : action) : list tt :=
  if is_wrap m then [] else join_ops (a_ops m).

(* what a member must look like so that its operands, followed by F, parse back to it *)
Definition member_rt (o : oracle) (m : action) (F : list tt) : Prop :=
  if is_wrap m then can_be_wrapper (a_comb m) = true /\ a_ops m = [wrapper_placeholder]
  else
    let a := arity (a_comb m) in
    match a_ops m with
    | [] => ar_allow_empty a = true            (* `^^>` `|n>` `<<<`, and `=>[]` / `<->` without types *)
    | e0 :: _ =>
        List.length (a_ops m) = ar_count a /\ operands_ok o (ar_kind a) (a_ops m) F /\
        (ar_allow_empty a = true ->
           exists t e', e0 = t :: e' /\ is_tilde t = false /\
                        forall d, In d determiners -> d_check d (join_ops (a_ops m) ++ F) = false)
    end.

Definition group_of (m : action) : group := mkGroup (a_comb m) (a_deferred m) (a_mv m).

Lemma join_ops_head (e0 : operand) (r : list operand) F t e' :
  e0 = t :: e' -> exists tl, join_ops (e0 :: r) ++ F = t :: tl.
Proof. intros ->. destruct r; cbn; eauto. Qed.

Theorem parse_stream_roundtrip o m F next rest :
  member_rt o m F -> resolves F next rest ->
  parse_stream o (group_of m) (operand_toks m ++ F) = POk (mkMember m next rest).
Proof.
  destruct m as [c d mv ops]. unfold member_rt, operand_toks, group_of, is_wrap, parse_stream.
  cbn [a_mv a_comb a_ops a_deferred g_mv g_comb g_deferred].
  intros Hm Hres.
  assert (Hgen : mv <> Wrap ->
    (let a := arity c in
     match ops with
     | [] => ar_allow_empty a = true
     | e0 :: _ =>
         List.length ops = ar_count a /\ operands_ok o (ar_kind a) ops F /\
         (ar_allow_empty a = true ->
          exists t e', e0 = t :: e' /\ is_tilde t = false /\
                       forall d, In d determiners -> d_check d (join_ops ops ++ F) = false)
     end) ->
    match parse_n_or_empty o (ar_count (arity c)) (ar_allow_empty (arity c)) (ar_kind (arity c)) (join_ops ops ++ F) with
    | PErr e => PErr e
    | POk us => POk (mkMember (mkAction c d mv (match us_parsed us with Some l => l | None => [] end))
                              (us_next us) (us_rest us))
    end = POk (mkMember (mkAction c d mv ops) next rest)).
  { intros _ H. cbn zeta in H. unfold parse_n_or_empty. destruct ops as [|e0 r].
    - rewrite H. cbn [join_ops app]. rewrite (empty_unit o F next rest Hres). reflexivity.
    - destruct H as (Hl & Hok & Hemp). rewrite <- Hl.
      rewrite (parse_n_roundtrip o _ F next rest (e0 :: r) ltac:(discriminate) Hok Hres).
      destruct (ar_allow_empty (arity c)); [|reflexivity].
      destruct (Hemp eq_refl) as (t & e' & He0 & Ht & Hnd).
      destruct (join_ops_head e0 r F t e' He0) as (tl & Htl). rewrite Htl in Hnd. rewrite Htl.
      destruct (empty_attempt_fails o t tl Ht Hnd) as (e & ->). reflexivity. }
  destruct mv.
  - destruct Hm as [Hcw ->]. rewrite Hcw. cbn [app]. rewrite (empty_unit o F next rest Hres). reflexivity.
  - apply Hgen; [discriminate|exact Hm].
  - apply Hgen; [discriminate|exact Hm].
Qed.

(* ---- D.4 chains ---- *)

Record item := mkItem {
  it_m : action;            (* the member *)
  it_sp : list tt;          (* the spelling used for its operator *)
  it_jw : bool              (* spacing of the last `>` of `>>>`, if wrapped *)
}.

Definition op_toks (it : item) : list tt :=
  (if a_deferred (it_m it) then [TILDE] else []) ++ it_sp it ++ (if is_wrap (it_m it) then wrap3 (it_jw it) else []).

(* a chain after its initial expression: operator, operands, operator, operands ... and the separator *)
Fixpoint render_items (its : list item) (sep : list tt) : list tt :=
  match its with
  | [] => sep
  | it :: r => op_toks it ++ operand_toks (it_m it) ++ render_items r sep
  end.

Definition item_ok (o : oracle) (it : item) (Fnext : list tt) : Prop :=
  let m := it_m it in
  let X := operand_toks m ++ Fnext in
  documented (it_sp it) (a_comb m) /\
  a_mv m = mv_of (a_comb m) (is_wrap m) /\
  extends_op (a_comb m) ((if is_wrap m then wrap3 (it_jw it) else []) ++ X) = false /\
  (is_wrap m = false -> peek_seq wrapper_pat X = false) /\
  member_rt o m Fnext.

Fixpoint items_ok (o : oracle) (its : list item) (sep : list tt) : Prop :=
  match its with
  | [] => True
  | it :: r => item_ok o it (render_items r sep) /\ items_ok o r sep
  end.

(* end of input, a comma, or the start of a handler *)
Definition sep_ok (sep : list tt) : Prop :=
  sep = [] \/ (exists t tail, sep = t :: tail /\ tmatches (MP ",") t = true) \/ (exists hk, peek_handler sep = Some hk).

Lemma resolves_sep sep : sep_ok sep -> resolves sep None sep.
Proof.
  intros [->|[(t & tail & -> & Ht)|(hk & Hh)]].
  - apply resolves_nil. - now apply resolves_comma. - eapply resolves_handler; eauto.
Qed.

Definition next_of (its : list item) : option group :=
  match its with [] => None | it :: _ => Some (group_of (it_m it)) end.
Definition rest_of (its : list item) (sep : list tt) : list tt :=
  match its with [] => sep | it :: r => operand_toks (it_m it) ++ render_items r sep end.

Lemma resolves_items o its sep :
  items_ok o its sep -> sep_ok sep -> resolves (render_items its sep) (next_of its) (rest_of its sep).
Proof.
  destruct its as [|it r]; intros Hok Hsep; [now apply resolves_sep|].
  destruct Hok as [(Hdoc & Hmv & Hext & Hnw & Hm) _]. cbn [render_items next_of rest_of].
  unfold op_toks, group_of. rewrite Hmv. rewrite <- !app_assoc.
  apply resolves_op; auto.
  intros Hw. unfold member_rt in Hm. rewrite Hw in Hm. apply Hm.
Qed.

(* what the builder must return for the rendered chain: the members, or `Unexpected <<<` as soon as the running
   per-step balance would go negative, or the comma error of the separator *)
Fixpoint expected_rest (count : nat) (m : action) (its : list item) (sep : list tt) : presult (list action * list tt) :=
  match its with
  | [] => match finish_chain m sep with PErr e => PErr e | POk r => POk ([m], r) end
  | it :: r =>
      match bump count (group_of (it_m it)) with
      | None => PErr EUnexpectedUnwrap
      | Some c' =>
          match expected_rest c' (it_m it) r sep with
          | PErr e => PErr e
          | POk (ms, rest) => POk (m :: ms, rest)
          end
      end
  end.

Theorem build_rest_roundtrip o sep : sep_ok sep -> forall its fuel count m,
  items_ok o its sep -> List.length its <= fuel ->
  build_rest o fuel count m (next_of its) (rest_of its sep) = expected_rest count m its sep.
Proof.
  intros Hsep. induction its as [|it r IH]; intros fuel count m Hok Hf; rewrite build_rest_eq.
  - reflexivity.
  - cbn [next_of rest_of expected_rest]. destruct (bump count (group_of (it_m it))) as [c'|]; [|reflexivity].
    destruct fuel as [|fuel]; [cbn in Hf; lia|]. destruct Hok as [Hit Hok].
    destruct Hit as (_ & _ & _ & _ & Hm).
    rewrite (parse_stream_roundtrip o (it_m it) (render_items r sep) (next_of r) (rest_of r sep) Hm
               (resolves_items o r sep Hok Hsep)).
    cbn [mr_action mr_next mr_rest]. rewrite IH; auto. cbn in Hf. lia.
Qed.

Lemma render_items_length o sep : forall its, items_ok o its sep -> List.length its <= List.length (render_items its sep).
Proof.
  induction its as [|it r IH]; intros Hok; [cbn; lia|]. destruct Hok as [(Hdoc & _) Hok].
  cbn [render_items List.length]. rewrite !app_length. specialize (IH Hok).
  assert (1 <= List.length (op_toks it)).
  { unfold op_toks. rewrite !app_length.
    destruct (documented_resolves_at _ _ [] Hdoc) as (_ & _ & _ & _ & _ & _ & Hne).
    - destruct (a_comb (it_m it)); reflexivity.
    - destruct (it_sp it); [congruence|]. cbn. lia. }
  lia.
Qed.

(* C14 for one branch.  e0: the tokens of the initial expression; its: the operators with their operands;
   sep: what stands behind the branch.  The result is exactly the chain that was rendered (or the error its shape
   demands): nothing is split, merged or reordered, every `~`, `>>>`, `<<<` sits on its own operator. *)
Theorem chain_roundtrip o e0 its sep :
  atomic o KExpr e0 (render_items its sep) -> items_ok o its sep -> sep_ok sep ->
  build o (e0 ++ render_items its sep) =
  match initial_fixup o (mkAction Initial false NoMove [e0]) with
  | PErr e => PErr e
  | POk (m0, pat) =>
      match expected_rest 0 m0 its sep with
      | PErr e => PErr e
      | POk (ms, rest) => POk (mkBranch pat ms, rest)
      end
  end.
Proof.
  intros Ha Hok Hsep. unfold build, parse_stream.
  cbn [g_mv initial_group g_comb g_deferred arity ar_count ar_allow_empty ar_kind].
  unfold parse_n_or_empty. rewrite parse_n_S.
  rewrite (unit_roundtrip o KExpr e0 _ (next_of its) (rest_of its sep) Ha (resolves_items o its sep Hok Hsep)).
  cbn [u_tokens u_next u_rest us_parsed us_next us_rest mr_action mr_next mr_rest].
  destruct (initial_fixup o (mkAction Initial false NoMove [e0])) as [[m0 pat]|]; [|reflexivity].
  rewrite (build_rest_roundtrip o sep Hsep its); auto.
  pose proof (render_items_length o sep its Hok) as Hl.
  destruct its as [|it r]; cbn [List.length rest_of render_items] in *; [lia|].
  destruct Hok as [_ Hok]. pose proof (render_items_length o sep r Hok). rewrite app_length. lia.
Qed.

(* the accepted case spelled out: balance never negative, separator acceptable *)
Fixpoint bumps (count : nat) (gs : list group) : option nat :=
  match gs with
  | [] => Some count
  | g :: r => match bump count g with None => None | Some c => bumps c r end
  end.

Lemma last_cons {A} : forall (l : list A) x m, last (x :: l) m = last l x.
Proof.
  induction l as [|y l IH]; intros x m; [reflexivity|].
  change (last (x :: y :: l) m) with (last (y :: l) m). now rewrite !IH.
Qed.

Lemma expected_rest_ok sep : forall its count m,
  bumps count (map (fun it => group_of (it_m it)) its) <> None ->
  expected_rest count m its sep =
  match finish_chain (last (map it_m its) m) sep with
  | PErr e => PErr e
  | POk r => POk (m :: map it_m its, r)
  end.
Proof.
  induction its as [|it r IH]; intros count m Hb; [reflexivity|].
  cbn [expected_rest map bumps] in *. destruct (bump count (group_of (it_m it))) as [c'|]; [|congruence].
  rewrite (IH c' (it_m it) Hb).
  rewrite last_cons.
  destruct (finish_chain _ sep); reflexivity.
Qed.

(* C15 seen from the tokens: a rendered chain whose running per-step balance goes negative (a `<<<` without an
   open `>>>` in its own step) is rejected with `Unexpected <<<`, whatever the oracle says about the operands *)
Lemma expected_rest_unbalanced sep : forall its count m,
  bumps count (map (fun it => group_of (it_m it)) its) = None ->
  expected_rest count m its sep = PErr EUnexpectedUnwrap.
Proof.
  induction its as [|it r IH]; intros count m Hb; [discriminate|].
  cbn [expected_rest map bumps] in *. destruct (bump count (group_of (it_m it))) as [c'|]; [|reflexivity].
  now rewrite (IH c' (it_m it) Hb).
Qed.

Print Assumptions parse_stream_roundtrip.
Print Assumptions chain_roundtrip.

(* ================================================================================================ *)
(** * E. Options (C16) and handler position (C13) *)

Record oitem := mkOItem { oi_k : optk; oi_content : list tt }.

Definition render_opt (oi : oitem) : list tt := [TI (opt_kw (oi_k oi)); TG DParen (oi_content oi)].
Definition render_opts (l : list oitem) : list tt := flat_map render_opt l.

(* the payload is what the option expects: a complete path, anything, a boolean *)
Definition payload_ok (o : oracle) (oi : oitem) : Prop :=
  match oi_k oi with
  | OFcp => path_prefix o (oi_content oi) = Ans (Some (List.length (oi_content oi)))
  | OJoiner => True
  | OTranspose | OLazy => oi_content oi = [TI "true"] \/ oi_content oi = [TI "false"]
  end.

Definition bool_of (content : list tt) : bool :=
  match lit_bool content with Some (b, _) => b | None => false end.

Definition set_opt (st : opts) (oi : oitem) : opts :=
  match oi_k oi with
  | OFcp => mkOpts (Some (oi_content oi)) (o_joiner st) (o_transpose st) (o_lazy st) (o_unexpected st || false)
  | OJoiner => mkOpts (o_fcp st) (Some (oi_content oi)) (o_transpose st) (o_lazy st) (o_unexpected st)
  | OTranspose => mkOpts (o_fcp st) (o_joiner st) (Some (bool_of (oi_content oi))) (o_lazy st) (o_unexpected st || false)
  | OLazy => mkOpts (o_fcp st) (o_joiner st) (o_transpose st) (Some (bool_of (oi_content oi))) (o_unexpected st || false)
  end.

Lemma opt_payload_ok o oi st :
  payload_ok o oi -> opt_payload o (oi_k oi) st (oi_content oi) = POk (set_opt st oi).
Proof.
  unfold payload_ok, opt_payload, set_opt. destruct (oi_k oi).
  - intros ->. rewrite firstn_all, skipn_all. reflexivity.
  - reflexivity.
  - intros [-> | ->]; reflexivity.
  - intros [-> | ->]; reflexivity.
Qed.

Definition optk_eqb (a b : optk) : bool :=
  match a, b with OFcp, OFcp | OJoiner, OJoiner | OTranspose, OTranspose | OLazy, OLazy => true | _, _ => false end.

Lemma opt_kw_eqb a b : String.eqb (opt_kw a) (opt_kw b) = optk_eqb a b.
Proof. destruct a, b; reflexivity. Qed.

(* the tokens behind the options do not start with an option keyword *)
Definition not_opt_start (rest : list tt) : Prop :=
  match rest with
  | [] => True
  | t :: _ => which_opt t = None
  end.

Definition keys (ois : list oitem) : list optk := map oi_k ois.

Fixpoint distinct (ks : list optk) : bool :=
  match ks with
  | [] => true
  | k :: r => negb (existsb (optk_eqb k) r) && distinct r
  end.

Definition opts_of (ois : list oitem) : opts := fold_left set_opt ois empty_opts.

Lemma optk_eqb_refl k : optk_eqb k k = true.
Proof. destruct k; reflexivity. Qed.
Lemma optk_eqb_sym a b : optk_eqb a b = optk_eqb b a.
Proof. destruct a, b; reflexivity. Qed.
Lemma optk_eqb_eq a b : optk_eqb a b = true -> a = b.
Proof. destruct a, b; try discriminate; reflexivity. Qed.

Lemma which_opt_kw k : which_opt (TI (opt_kw k)) = Some k.
Proof. destruct k; reflexivity. Qed.

Lemma opt_loop_render_opt o st oi X :
  opt_loop o st (render_opt oi ++ X) =
  if opt_is_set (oi_k oi) st then PErr (EOptionTwice (oi_k oi))
  else match opt_payload o (oi_k oi) st (oi_content oi) with
       | PErr e => PErr e
       | POk st' => opt_loop o st' X
       end.
Proof.
  unfold render_opt. change ([TI (opt_kw (oi_k oi)); TG DParen (oi_content oi)] ++ X)
    with (TI (opt_kw (oi_k oi)) :: TG DParen (oi_content oi) :: X).
  rewrite opt_loop_cons, which_opt_kw. reflexivity.
Qed.

Lemma opt_loop_stop o st rest : not_opt_start rest -> opt_loop o st rest = POk (st, rest).
Proof. destruct rest as [|t r]; [reflexivity|]. cbn [not_opt_start]. intros H. now rewrite opt_loop_cons, H. Qed.

Lemma opt_is_set_set_opt k st oi :
  opt_is_set k (set_opt st oi) = optk_eqb k (oi_k oi) || opt_is_set k st.
Proof. destruct oi as [k' c]. destruct k, k'; reflexivity. Qed.

Lemma opt_is_set_fold k : forall ois st,
  In k (keys ois) \/ opt_is_set k st = true -> opt_is_set k (fold_left set_opt ois st) = true.
Proof.
  induction ois as [|oi r IH]; intros st H; cbn [fold_left].
  - destruct H as [[]|H]; exact H.
  - apply IH. destruct H as [[H|H]|H].
    + right. rewrite opt_is_set_set_opt, <- H, optk_eqb_refl. reflexivity.
    + left. exact H.
    + right. rewrite opt_is_set_set_opt, H. apply orb_true_r.
Qed.

(* the loop runs through any sequence of distinct, not yet given options *)
Lemma opt_loop_distinct o X : forall ois st,
  distinct (keys ois) = true -> (forall k, In k (keys ois) -> opt_is_set k st = false) ->
  Forall (payload_ok o) ois ->
  opt_loop o st (render_opts ois ++ X) = opt_loop o (fold_left set_opt ois st) X.
Proof.
  induction ois as [|oi r IH]; intros st Hd Hns Hp; [reflexivity|].
  cbn [render_opts flat_map]. rewrite <- app_assoc. rewrite opt_loop_render_opt.
  rewrite (Hns (oi_k oi) (or_introl eq_refl)).
  inversion Hp as [|? ? Hp1 Hp2]; subst. rewrite (opt_payload_ok o oi st Hp1).
  cbn [keys map distinct] in Hd. apply andb_true_iff in Hd as [Hd1 Hd2].
  cbn [fold_left]. apply IH; auto.
  intros k Hk. rewrite opt_is_set_set_opt. rewrite (Hns k (or_intror Hk)), orb_false_r.
  destruct (optk_eqb k (oi_k oi)) eqn:E; [|reflexivity].
  apply optk_eqb_eq in E. subst k. apply negb_true_iff in Hd1.
  assert (existsb (optk_eqb (oi_k oi)) (map oi_k r) = true)
    by (apply existsb_exists; exists (oi_k oi); split; [exact Hk|apply optk_eqb_refl]).
  congruence.
Qed.

(* C16: every permutation of every subset of the four options is accepted, whatever stands behind them *)
Theorem options_any_order o ois rest :
  distinct (keys ois) = true -> Forall (payload_ok o) ois -> not_opt_start rest ->
  parse_options o (render_opts ois ++ rest) = POk (opts_of ois, rest).
Proof.
  intros Hd Hp Hr. unfold parse_options.
  rewrite (opt_loop_distinct o rest ois empty_opts Hd ltac:(intros k _; destruct k; reflexivity) Hp).
  now apply opt_loop_stop.
Qed.

(* C16 / C15: a duplicated option is rejected wherever it stands, whatever follows it - no exception
   (on the pinned tree one shape escaped: finding P2, section G) *)
Theorem duplicate_option_rejected o ois dup more rest :
  distinct (keys ois) = true -> In (oi_k dup) (keys ois) -> Forall (payload_ok o) ois ->
  parse_options o (render_opts (ois ++ dup :: more) ++ rest) = PErr (EOptionTwice (oi_k dup)).
Proof.
  intros Hd Hin Hp. unfold parse_options, render_opts.
  rewrite flat_map_app. cbn [flat_map]. rewrite <- !app_assoc.
  rewrite (opt_loop_distinct o _ ois empty_opts Hd ltac:(intros k _; destruct k; reflexivity) Hp).
  rewrite opt_loop_render_opt.
  rewrite (opt_is_set_fold (oi_k dup) ois empty_opts (or_introl Hin)). reflexivity.
Qed.

Lemma distinct_snoc l x : distinct (l ++ [x]) = distinct l && negb (existsb (optk_eqb x) l).
Proof.
  induction l as [|a l IH]; [reflexivity|]. cbn [app distinct existsb]. rewrite IH, existsb_app. cbn [existsb].
  rewrite (optk_eqb_sym x a).
  destruct (existsb (optk_eqb a) l), (optk_eqb a x), (distinct l), (existsb (optk_eqb x) l); reflexivity.
Qed.

(* any option list with a repetition splits at its first repeated option *)
Lemma first_duplicate : forall l,
  distinct (keys l) = false ->
  exists ois dup more, l = ois ++ dup :: more /\ distinct (keys ois) = true /\ In (oi_k dup) (keys ois).
Proof.
  induction l as [|x l IH] using rev_ind; intros H; [discriminate|].
  unfold keys in *. rewrite map_app in H. cbn [map] in H. rewrite distinct_snoc in H.
  destruct (distinct (map oi_k l)) eqn:Ed.
  - cbn in H. apply negb_false_iff in H. apply existsb_exists in H as (k & Hk & He).
    apply optk_eqb_eq in He. subst k. exists l, x, []. auto.
  - destruct (IH eq_refl) as (ois & dup & more & -> & Hd & Hin).
    exists ois, dup, (more ++ [x]). rewrite <- app_assoc. auto.
Qed.

Corollary any_duplicate_rejected o l rest :
  distinct (keys l) = false -> Forall (payload_ok o) l ->
  exists k, parse_options o (render_opts l ++ rest) = PErr (EOptionTwice k).
Proof.
  intros Hd Hp. destruct (first_duplicate l Hd) as (ois & dup & more & -> & Hd' & Hin).
  exists (oi_k dup). apply duplicate_option_rejected; auto.
  apply Forall_app in Hp. apply Hp.
Qed.

Print Assumptions options_any_order.
Print Assumptions duplicate_option_rejected.

(* ---- handler position (C13) ---- *)

(* A branch segment parses to its branch whatever follows it (e.g. a rendered chain that ends with its comma);
   a handler segment likewise. *)
Definition branch_seg (o : oracle) (seg : list tt) (b : branch) : Prop :=
  seg <> [] /\ forall X, peek_handler (seg ++ X) = None /\ build o (seg ++ X) = POk (b, X).
Definition handler_seg (o : oracle) (seg : list tt) (h : hkind * operand) : Prop :=
  forall X, exists hk, peek_handler (seg ++ X) = Some hk /\ parse_handler o hk (seg ++ X) = POk (h, X).

Lemma main_loop_branches_only o hseen : forall segs bs,
  Forall2 (branch_seg o) segs bs ->
  forall fuel tail, List.length segs <= fuel ->
  main_loop o (fuel + 0) hseen (List.concat segs ++ tail) =
  match main_loop o (fuel - List.length segs) hseen tail with
  | PErr e => PErr e
  | POk (bs', h) => POk (bs ++ bs', h)
  end.
Proof.
  induction 1 as [|seg b segs bs Hseg Hrest IH]; intros fuel tail Hf.
  - cbn. rewrite Nat.add_0_r, Nat.sub_0_r. destruct (main_loop o fuel hseen tail) as [[? ?]|]; reflexivity.
  - cbn [List.concat List.length] in *. destruct fuel as [|fuel]; [lia|]. rewrite <- app_assoc.
    destruct Hseg as [Hne Hseg]. destruct (Hseg (List.concat segs ++ tail)) as [Hp Hb].
    cbn [Nat.add]. rewrite main_loop_eq.
    destruct (seg ++ List.concat segs ++ tail) as [|t0 r0] eqn:E.
    { destruct seg; [congruence|discriminate]. }
    rewrite Hp, Hb. rewrite (IH fuel tail ltac:(lia)). cbn [Nat.sub].
    destruct (main_loop o (fuel - List.length segs) hseen tail) as [[? ?]|]; reflexivity.
Qed.

(* C13: the handler may stand before, between or after the branches - the parse result is the same *)
Theorem handler_position_irrelevant o pre post bpre bpost hs h :
  Forall2 (branch_seg o) pre bpre -> Forall2 (branch_seg o) post bpost -> handler_seg o hs h ->
  forall fuel, List.length pre + List.length post + 1 <= fuel ->
  main_loop o fuel false (List.concat pre ++ hs ++ List.concat post) = POk (bpre ++ bpost, Some h).
Proof.
  intros Hpre Hpost Hh fuel Hf.
  pose proof (main_loop_branches_only o false pre bpre Hpre fuel (hs ++ List.concat post) ltac:(lia)) as H1.
  rewrite Nat.add_0_r in H1. rewrite H1. clear H1.
  destruct (fuel - List.length pre) as [|f1] eqn:Ef; [lia|].
  rewrite main_loop_eq. destruct (Hh (List.concat post)) as (hk & Hp & Hph).
  destruct (hs ++ List.concat post) as [|t0 r0] eqn:E; [discriminate|].
  rewrite Hp, Hph.
  pose proof (main_loop_branches_only o true post bpost Hpost f1 [] ltac:(lia)) as H2.
  rewrite Nat.add_0_r, app_nil_r in H2. rewrite H2.
  replace (main_loop o (f1 - List.length post) true []) with (@POk (list branch * option (hkind * operand)) ([], None))
    by (destruct (f1 - List.length post); reflexivity).
  now rewrite app_nil_r.
Qed.

Corollary handler_position_irrelevant' o pre post pre' post' bpre bpost bpre' bpost' hs h fuel :
  Forall2 (branch_seg o) pre bpre -> Forall2 (branch_seg o) post bpost ->
  Forall2 (branch_seg o) pre' bpre' -> Forall2 (branch_seg o) post' bpost' -> handler_seg o hs h ->
  pre ++ post = pre' ++ post' -> bpre ++ bpost = bpre' ++ bpost' ->
  List.length (pre ++ post) + 1 <= fuel ->
  main_loop o fuel false (List.concat pre ++ hs ++ List.concat post) = main_loop o fuel false (List.concat pre' ++ hs ++ List.concat post').
Proof.
  intros H1 H2 H3 H4 Hh Hs Hb Hf. rewrite app_length in Hf.
  assert (Hl : List.length pre' + List.length post' = List.length pre + List.length post).
  { rewrite <- !app_length. now rewrite Hs. }
  rewrite (handler_position_irrelevant o pre post bpre bpost hs h H1 H2 Hh fuel ltac:(lia)).
  rewrite (handler_position_irrelevant o pre' post' bpre' bpost' hs h H3 H4 Hh fuel ltac:(lia)).
  now rewrite Hb.
Qed.

Print Assumptions handler_position_irrelevant.

(* ---- whole macro inputs: options, branches, handler ---- *)

Lemma opts_of_unexpected : forall ois st, o_unexpected (fold_left set_opt ois st) = o_unexpected st.
Proof.
  induction ois as [|oi r IH]; intros st; [reflexivity|]. cbn [fold_left]. rewrite IH.
  unfold set_opt. destruct (oi_k oi); cbn; try apply orb_false_r; reflexivity.
Qed.

(* C13 + C14 + C16 together: any order of distinct options, then the branch segments with the handler segment
   anywhere among them: the same `input` comes out - options, branches in order, handler. *)
Theorem parse_roundtrip o ois pre post bpre bpost hs h :
  distinct (keys ois) = true -> Forall (payload_ok o) ois ->
  not_opt_start (List.concat pre ++ hs ++ List.concat post) ->
  Forall2 (branch_seg o) pre bpre -> Forall2 (branch_seg o) post bpost -> handler_seg o hs h ->
  bpre ++ bpost <> [] ->
  parse o (render_opts ois ++ List.concat pre ++ hs ++ List.concat post) =
  POk (mkInput (bpre ++ bpost) (Some h) (o_fcp (opts_of ois)) (o_joiner (opts_of ois))
               (o_transpose (opts_of ois)) (o_lazy (opts_of ois))).
Proof.
  intros Hd Hp Hn Hpre Hpost Hh Hne. unfold parse.
  rewrite (options_any_order o ois _ Hd Hp Hn).
  rewrite (handler_position_irrelevant o pre post bpre bpost hs h Hpre Hpost Hh).
  - destruct (bpre ++ bpost); [congruence|]. cbn [is_nil]. unfold opts_of at 1. rewrite opts_of_unexpected. reflexivity.
  - rewrite !app_length.
    assert (Hc : forall segs bs, Forall2 (branch_seg o) segs bs -> List.length segs <= List.length (List.concat segs)).
    { induction 1 as [|seg b segs bs [Hs _] _ IH]; [cbn; lia|]. cbn. rewrite app_length.
      destruct seg; [congruence|]. cbn. lia. }
    pose proof (Hc _ _ Hpre). pose proof (Hc _ _ Hpost). lia.
Qed.

Print Assumptions parse_roundtrip.

(* ================================================================================================ *)
(** * D'. groups_are_opaque: cutting a branch into units never looks inside a group *)

(* replace the content of every top-level group by anything *)
Definition regroup (phi : delim -> list tt -> list tt) (t : tt) : tt :=
  match t with TG d c => TG d (phi d c) | _ => t end.
Definition mg (phi : delim -> list tt -> list tt) (ts : list tt) : list tt := map (regroup phi) ts.

(* the oracle that is asked about the regrouped tokens *)
Definition pre_oracle (phi : delim -> list tt -> list tt) (o : oracle) : oracle :=
  mkOracle (fun q => valid_expr o (mg phi q)) (fun q => valid_type o (mg phi q))
           (fun q => expr_prefix o (mg phi q)) (fun q => path_prefix o (mg phi q))
           (fun q => let_split o (mg phi q)).

Section Opaque.
  Variable phi : delim -> list tt -> list tt.
  Variable o : oracle.
  Let o' := pre_oracle phi o.
  Let G := mg phi.

  Lemma tmatches_regroup m t : tmatches m (regroup phi t) = tmatches m t.
  Proof. destruct m, t; reflexivity. Qed.

  Lemma peek_seq_mg p : forall ts, peek_seq p (G ts) = peek_seq p ts.
  Proof.
    induction p as [|m p IH]; intros ts; [reflexivity|]. destruct ts as [|t ts]; [reflexivity|].
    cbn. now rewrite tmatches_regroup, IH.
  Qed.

  Lemma d_check_mg d ts : d_check d (G ts) = d_check d ts.
  Proof. unfold d_check. induction (d_pats d) as [|p ps IH]; [reflexivity|]. cbn. now rewrite peek_seq_mg, IH. Qed.

  Lemma find_from_mg ds : forall k ts, find_from ds k (G ts) = find_from ds k ts.
  Proof. induction ds as [|d ds IH]; intros k ts; [reflexivity|]. cbn. rewrite d_check_mg. destruct (d_check d ts); auto. Qed.

  Lemma find_first_mg ts : find_first (G ts) = find_first ts.
  Proof. unfold find_first. now rewrite find_from_mg. Qed.

  Lemma is_nil_mg ts : is_nil (G ts) = is_nil ts.
  Proof. destruct ts; reflexivity. Qed.

  Lemma check_valid_mg k acc : check_valid o' k acc = check_valid o k (G acc).
  Proof. destruct k; cbn; try reflexivity. now rewrite is_nil_mg. Qed.

  Lemma try_accept_mg k a acc inp : try_accept o k a (G acc) (G inp) = try_accept o' k a acc inp.
  Proof. unfold try_accept. rewrite find_first_mg, is_nil_mg, check_valid_mg. reflexivity. Qed.

  Definition map_stop (r : pu_stop) : pu_stop :=
    match r with
    | PUEnd acc => PUEnd (G acc)
    | PUStop acc def d inp => PUStop (G acc) def d (G inp)
    | PUErr e => PUErr e
    end.

  Lemma pu_loop_mg k a : forall n inp acc, List.length inp <= n ->
    pu_loop o k a (G acc) (G inp) = map_stop (pu_loop o' k a acc inp).
  Proof.
    induction n as [|n IH]; intros inp acc Hn.
    - destruct inp; [reflexivity|cbn in Hn; lia].
    - destruct inp as [|t rest]; [reflexivity|]. cbn in Hn.
      change (G (t :: rest)) with (regroup phi t :: G rest). rewrite !pu_loop_cons.
      unfold is_tilde. rewrite tmatches_regroup. destruct (tmatches (MP "~") t).
      + rewrite try_accept_mg. destruct (try_accept o' k a acc rest); try reflexivity.
        destruct rest as [|x rest']; [reflexivity|]. cbn in Hn.
        change (G (x :: rest')) with (regroup phi x :: G rest'). cbv iota beta.
        replace (G acc ++ [regroup phi x]) with (G (acc ++ [x])) by (unfold G, mg; now rewrite map_app).
        apply IH. lia.
      + change (regroup phi t :: G rest) with (G (t :: rest)). rewrite try_accept_mg.
        destruct (try_accept o' k a acc (t :: rest)); try reflexivity.
        replace (G acc ++ [regroup phi t]) with (G (acc ++ [t])) by (unfold G, mg; now rewrite map_app).
        apply IH. lia.
  Qed.

  Lemma erase_mg n : forall ts, erase n (G ts) = option_map G (erase n ts).
  Proof. induction n as [|n IH]; intros ts; [reflexivity|]. destruct ts; [reflexivity|]. cbn. apply IH. Qed.

  Definition map_unit (r : presult unit_res) : presult unit_res :=
    match r with
    | POk u => POk (mkUnit (G (u_tokens u)) (u_next u) (G (u_rest u)))
    | PErr e => PErr e
    end.

  Lemma finish_unit_mg k acc next rest :
    finish_unit o k (G acc) next (G rest) = map_unit (finish_unit o' k acc next rest).
  Proof. unfold finish_unit. rewrite check_valid_mg. destruct (check_valid o k (G acc)) as [[|]|]; reflexivity. Qed.

  (* Cutting out a unit (and choosing the operator, `~`, `>>>` that end it) depends on the inside of groups only
     through the oracle: if every group's content is replaced by anything else and the oracle is asked about the
     replaced tokens, the same cut is made, the same operator found, the same error raised. *)
  Theorem groups_are_opaque k a ts :
    parse_until o k a (G ts) = map_unit (parse_until o' k a ts).
  Proof.
    unfold parse_until. change (@nil tt) with (G []) at 1.
    rewrite (pu_loop_mg k a (List.length ts) ts [] (Nat.le_refl _)).
    destruct (pu_loop o' k a [] ts) as [acc|acc def d inp'|e]; cbn [map_stop].
    - change (@nil tt) with (G []) at 1. apply finish_unit_mg.
    - destruct (d_comb d) as [c|].
      + rewrite erase_mg. destruct (erase (d_len d) inp') as [forked|]; [|reflexivity]. cbn [option_map].
        rewrite peek_seq_mg.
        destruct (peek_seq wrapper_pat forked && comb_is_unwrap c); [reflexivity|].
        destruct (peek_seq wrapper_pat forked && negb (can_be_wrapper c)); [reflexivity|].
        assert (E : (if peek_seq wrapper_pat forked then erase 3 (G inp') else Some (G inp')) =
                    option_map G (if peek_seq wrapper_pat forked then erase 3 inp' else Some inp')).
        { destruct (peek_seq wrapper_pat forked); [apply erase_mg|reflexivity]. }
        rewrite E. destruct (if peek_seq wrapper_pat forked then erase 3 inp' else Some inp') as [inp''|]; [|reflexivity].
        cbn [option_map]. rewrite erase_mg. destruct (erase (d_len d) inp'') as [rest|]; [|reflexivity].
        cbn [option_map]. apply finish_unit_mg.
      + rewrite erase_mg. destruct (erase (d_len d) inp') as [rest|]; [|reflexivity].
        cbn [option_map]. apply finish_unit_mg.
    - reflexivity.
  Qed.
End Opaque.

Print Assumptions groups_are_opaque.

(* ================================================================================================ *)
(** * F. Non-vacuity: the hypotheses hold on concrete, non-trivial inputs; the two refutations *)

(* deciding `atomic` for a computable oracle and concrete tokens *)
Fixpoint splits (e : list tt) : list (list tt * list tt) :=
  match e with
  | [] => []
  | t :: r => ([], t :: r) :: map (fun p => (t :: fst p, snd p)) (splits r)
  end.

Lemma splits_complete : forall e e1 e2, e = e1 ++ e2 -> e2 <> [] -> In (e1, e2) (splits e).
Proof.
  induction e as [|t r IH]; intros e1 e2 He Hne.
  - destruct e1, e2; try discriminate. congruence.
  - destruct e1 as [|t' e1]; cbn in He.
    + left. now rewrite He.
    + inversion He; subst. right. apply (in_map (fun p => (t' :: fst p, snd p)) _ (e1, e2)). apply IH; auto.
Qed.

Definition any_det (ts : list tt) : bool := existsb (fun d => d_check d ts) determiners.
Definition ans_eqb (a : answer bool) (b : bool) : bool := match a with Ans x => Bool.eqb x b | NoAns => false end.

Definition atomicb (o : oracle) (k : pkind) (e follow : list tt) : bool :=
  forallb (fun t => negb (is_tilde t)) e && ans_eqb (check_valid o k e) true &&
  forallb (fun p => implb (any_det (snd p ++ follow)) (ans_eqb (check_valid o k (fst p)) false)) (splits e).

Lemma ans_eqb_true a b : ans_eqb a b = true -> a = Ans b.
Proof. destruct a as [x|]; cbn; [|discriminate]. intros H. apply Bool.eqb_prop in H. now subst. Qed.

Lemma atomicb_sound o k e follow : atomicb o k e follow = true -> atomic o k e follow.
Proof.
  unfold atomicb. intros H. apply andb_true_iff in H as [H H3].
  apply andb_true_iff in H as [H1 H2]. repeat split.
  - exact H1.
  - now apply ans_eqb_true.
  - intros e1 e2 He Hne d Hin Hc. rewrite forallb_forall in H3. specialize (H3 _ (splits_complete e e1 e2 He Hne)).
    cbn [fst snd] in H3. assert (Ha : any_det (e2 ++ follow) = true) by (apply existsb_exists; eauto).
    rewrite Ha in H3. cbn in H3. now apply ans_eqb_true.
Qed.

(* ---- a small computable oracle: identifiers, single groups, calls `f(..)`, closures `|x| -> T {..}`,
        `let x = v`; types: identifiers and `V<T>` ---- *)
Definition toy_expr (ts : list tt) : bool :=
  match ts with
  | [TI s] => negb (String.eqb s "let")
  | [TG _ _] => true
  | [TI _; TG DParen _] => true
  | [TP b1 _; TI _; TP b2 _; TP m true; TP g _; TI _; TG DBrace _] =>
      String.eqb b1 "|" && String.eqb b2 "|" && String.eqb m "-" && String.eqb g ">"
  | [TI l; TI _; TP q _; TI _] => String.eqb l "let" && String.eqb q "="
  | [TI l; TG DParen _; TP q _; TI _] => String.eqb l "let" && String.eqb q "="
  | _ => false
  end.
Definition toy_type (ts : list tt) : bool :=
  match ts with
  | [TI _] => true
  | [TI _; TP a _; TI _; TP b _] => String.eqb a "<" && String.eqb b ">"
  | _ => false
  end.
Definition toy_let (ts : list tt) : let_shape :=
  match ts with
  | [TI l; TI x; TP q _; TI v] => if String.eqb l "let" && String.eqb q "=" then LetIdent [TI x] x [TI v] else NotLet
  | [TI l; TG DParen _; TP q _; TI _] => if String.eqb l "let" && String.eqb q "=" then LetBadPat else NotLet
  | _ => NotLet
  end.
Definition toy : oracle :=
  mkOracle (fun ts => Ans (toy_expr ts)) (fun ts => Ans (toy_type ts))
           (fun ts => Ans (match ts with TI _ :: _ => Some 1 | _ => None end))
           (fun ts => Ans (Some (List.length ts)))
           (fun ts => Ans (toy_let ts)).

Definition I (s : string) : tt := TI s.
Definition closure : list tt := [TP "|" false; I "x"; TP "|" false; PJ "-"; TP ">" false; I "T"; TG DBrace [I "x"]].

(* the chain   a |> |x| -> T {x} ~=> >>> ?? f <<< ^@ i, g =>[] <-> ?|>@ h   followed by  `, b` *)
Definition ex_items : list item :=
  [ mkItem (mkAction Map false NoMove [closure]) [PJ "|"; TP ">" false] false;
    mkItem (mkAction AndThen true Wrap [wrapper_placeholder]) [PJ "="; TP ">" false] false;
    mkItem (mkAction Inspect false NoMove [[I "f"]]) [PJ "?"; TP "?" false] false;
    mkItem (mkAction UNWRAP false Unwrap []) [PJ "<"; PJ "<"; TP "<" false] false;
    mkItem (mkAction Fold false NoMove [[I "i"]; [I "g"]]) [PJ "^"; TP "@" false] false;
    mkItem (mkAction Collect false NoMove []) (collect_spelling true []) false;
    mkItem (mkAction Unzip false NoMove []) [PJ "<"; PJ "-"; TP ">" true] false;
    mkItem (mkAction FindMap false NoMove [[I "h"]]) [PJ "?"; PJ "|"; PJ ">"; TP "@" false] false ].
Definition ex_sep : list tt := [COMMA; I "b"].

Ltac in_spellings := cbn; repeat (first [left; reflexivity | right]).

Ltac atom := apply atomicb_sound; vm_compute; reflexivity.
(* item_ok = documented /\ mv /\ extends_op /\ no `>>>` behind a plain operator /\ member_rt *)
Ltac item_tac doc mem :=
  split; [doc | split; [reflexivity | split; [reflexivity | split; [first [reflexivity | discriminate] | mem]]]].
Ltac doc_sp j := left; exists j; in_spellings.
Ltac mem_exprs tac := unfold member_rt; cbn; split; [reflexivity | split; [tac | discriminate]].

Example ex_items_ok : items_ok toy ex_items ex_sep.
Proof.
  unfold ex_items, ex_sep. cbn [items_ok].
  split; [item_tac ltac:(doc_sp false) ltac:(mem_exprs atom)|].                       (* |> closure *)
  split; [item_tac ltac:(doc_sp false) ltac:(unfold member_rt; cbn; split; reflexivity)|]. (* ~=> >>> *)
  split; [item_tac ltac:(doc_sp false) ltac:(mem_exprs atom)|].                       (* ?? f *)
  split; [item_tac ltac:(doc_sp false) ltac:(reflexivity)|].                          (* <<< *)
  split; [item_tac ltac:(doc_sp false) ltac:(mem_exprs ltac:(split; atom))|].         (* ^@ i, g *)
  split; [item_tac ltac:(right; split; [reflexivity|exists true, []; reflexivity]) ltac:(reflexivity)|]. (* =>[] *)
  split; [item_tac ltac:(doc_sp true) ltac:(reflexivity)|].                           (* <-> *)
  split; [item_tac ltac:(doc_sp false) ltac:(mem_exprs atom)|].                       (* ?|>@ h *)
  exact Logic.I.
Qed.

Example ex_initial_atomic : atomic toy KExpr [I "a"] (render_items ex_items ex_sep).
Proof. apply atomicb_sound. vm_compute. reflexivity. Qed.

(* the closure operand really contains an operator look-alike (`->` = Then) at an incomplete prefix *)
Example ex_closure_has_lookalike : any_det (skipn 3 closure ++ [I "z"]) = true /\ toy_expr (firstn 3 closure) = false.
Proof. split; reflexivity. Qed.

(* the conclusion of chain_roundtrip on this input, computed through the theorem *)
Example ex_chain_roundtrip :
  build toy ([I "a"] ++ render_items ex_items ex_sep) =
  POk (mkBranch None (mkAction Initial false NoMove [[I "a"]] :: map it_m ex_items), [I "b"]).
Proof.
  rewrite (chain_roundtrip toy [I "a"] ex_items ex_sep ex_initial_atomic ex_items_ok).
  - reflexivity.
  - right; left. exists COMMA, [I "b"]. split; reflexivity.
Qed.

(* C15 witnesses, through the whole parser *)
Definition OP (a b : string) : list tt := [PJ a; TP b false].
Definition W3 : list tt := [PJ ">"; PJ ">"; TP ">" false].
Definition U3 : list tt := [PJ "<"; PJ "<"; TP "<" false].

(* `a |> >>> |> f ~|> g <<< |> h`: the `<<<` stands in a step that has no open `>>>` *)
Example ex_cross_step_unwrap :
  parse toy ([I "a"] ++ OP "|" ">" ++ W3 ++ OP "|" ">" ++ [I "f"] ++ [TILDE] ++ OP "|" ">" ++ [I "g"] ++ U3 ++ OP "|" ">" ++ [I "h"])
  = PErr EUnexpectedUnwrap.
Proof. vm_compute. reflexivity. Qed.

(* balanced per step: accepted *)
Example ex_per_step_balanced :
  exists i, parse toy ([I "a"] ++ OP "|" ">" ++ W3 ++ OP "|" ">" ++ [I "f"] ++ U3 ++ [TILDE] ++ OP "|" ">" ++ W3
                       ++ OP "|" ">" ++ [I "g"] ++ U3 ++ OP "|" ">" ++ [I "h"]) = POk i.
Proof. eexists. vm_compute. reflexivity. Qed.

Example ex_wrap_after_nonwrapper : parse toy ([I "a"] ++ OP "-" ">" ++ W3 ++ OP "|" ">" ++ [I "f"]) = PErr ECantBeWrapper.
Proof. vm_compute. reflexivity. Qed.
Example ex_unwrap_wrap : parse toy ([I "a"] ++ OP "|" ">" ++ W3 ++ U3 ++ W3) = PErr EWrapAndUnwrap.
Proof. vm_compute. reflexivity. Qed.
Example ex_bad_let : parse toy [I "let"; TG DParen [I "p"; COMMA; I "q"]; TP "=" false; I "v"] = PErr EIncorrectLet.
Proof. vm_compute. reflexivity. Qed.
Example ex_good_let :
  parse toy ([I "let"; I "x"; TP "=" false; I "v"] ++ OP "|" ">" ++ [I "f"]) =
  POk (mkInput [mkBranch (Some ([I "x"], "x")) [mkAction Initial false NoMove [[I "v"]]; mkAction Map false NoMove [[I "f"]]]]
               None None None None None).
Proof. vm_compute. reflexivity. Qed.
Example ex_double_comma : parse toy [I "a"; COMMA; COMMA; I "b"] = PErr (EInvalidOperand KExpr).
Proof. vm_compute. reflexivity. Qed.
Example ex_two_handlers :
  parse toy ([I "a"; COMMA; I "map"; PJ "="; TP ">" false; I "f"; COMMA; I "then"; PJ "="; TP ">" false; I "g"])
  = PErr EMultipleHandlers.
Proof. vm_compute. reflexivity. Qed.

Example toy_no_comma_expr : no_comma_expr toy.
Proof.
  split; [discriminate|]. intros t ts Ht. destruct t; cbn [tmatches] in Ht; try discriminate.
  apply String.eqb_eq in Ht. subst c. cbn [valid_expr toy]. intros H. injection H as H. revert H.
  destruct ts as [|t1 [|t2 [|t3 [|t4 [|t5 [|t6 [|t7 ts]]]]]]]; try discriminate.
  all: unfold toy_expr; cbn.
  all: repeat match goal with |- context [match ?x with _ => _ end] => is_var x; destruct x end; try discriminate.
Qed.

(* ---- the two former findings, on the FIXED model (the refutations for the pinned definitions are in part G) ---- *)
Definition p1_tokens : list tt :=
  [I "a"] ++ OP "|" ">" ++ closure ++ collect_spelling false [] ++ OP "|" ">" ++ [I "f"].

(* `a |> |x| -> T {x} =>[] |> f`: `=>[]` after a closure with a return type is Collect *)
Example collect_after_arrow_closure :
  parse toy p1_tokens =
  POk (mkInput [mkBranch None [mkAction Initial false NoMove [[I "a"]]; mkAction Map false NoMove [closure];
                               mkAction Collect false NoMove []; mkAction Map false NoMove [[I "f"]]]]
               None None None None None).
Proof. vm_compute. reflexivity. Qed.

(* .. and the closure is atomic in front of `=>[]` (three clauses, nothing about rotation) *)
Example closure_atomic_before_collect :
  atomic toy KExpr closure (collect_spelling false [] ++ OP "|" ">" ++ [I "f"]).
Proof. apply atomicb_sound. vm_compute. reflexivity. Qed.

Definition opt (k : string) (c : list tt) : list tt := [I k; TG DParen c].
Definition p2_tokens : list tt :=
  opt "lazy_branches" [I "true"] ++ opt "transpose_results" [I "true"] ++ opt "custom_joiner" [I "j"]
  ++ opt "futures_crate_path" [I "f"] ++ opt "futures_crate_path" [I "f"] ++ [COMMA; I "a"].

(* the fifth option, a repeated `futures_crate_path(..)`, is rejected *)
Example fifth_option_rejected : parse toy p2_tokens = PErr (EOptionTwice OFcp).
Proof. vm_compute. reflexivity. Qed.
Example duplicate_rejected_example :
  parse toy (opt "lazy_branches" [I "true"] ++ opt "futures_crate_path" [I "f"] ++ opt "lazy_branches" [I "false"] ++ [I "a"])
  = PErr (EOptionTwice OLazy).
Proof. vm_compute. reflexivity. Qed.

(* hypotheses of options_any_order / duplicate_option_rejected *)
Example ex_options :
  let ois := [mkOItem OLazy [I "true"]; mkOItem OFcp [TP ":" true; TP ":" false; I "futures"]; mkOItem OJoiner [I "j"]] in
  distinct (keys ois) = true /\ Forall (payload_ok toy) ois /\ not_opt_start [I "a"].
Proof. repeat split; try reflexivity. repeat constructor; cbn; auto. Qed.

(* hypotheses of handler_position_irrelevant: `a,` is a branch segment, `map => f,` a handler segment *)
Example ex_branch_seg : branch_seg toy [I "a"; COMMA] (mkBranch None [mkAction Initial false NoMove [[I "a"]]]).
Proof.
  split; [discriminate|]. intros X. split; [reflexivity|].
  change ([I "a"; COMMA] ++ X) with ([I "a"] ++ render_items [] (COMMA :: X)).
  rewrite chain_roundtrip.
  - reflexivity.
  - apply atomicb_sound. vm_compute. reflexivity.
  - exact Logic.I.
  - right; left. exists COMMA, X. split; reflexivity.
Qed.
Example ex_handler_seg : handler_seg toy [I "map"; PJ "="; TP ">" false; I "f"; COMMA] (HMap, [I "f"]).
Proof. intros X. exists HMap. split; reflexivity. Qed.

Example ex_parse_roundtrip :
  let seg := [I "a"; COMMA] in
  let b := mkBranch None [mkAction Initial false NoMove [[I "a"]]] in
  let hs := [I "map"; PJ "="; TP ">" false; I "f"; COMMA] in
  parse toy (render_opts [mkOItem OLazy [I "true"]; mkOItem OJoiner [I "j"]] ++ List.concat [seg] ++ hs ++ List.concat [seg; seg])
  = POk (mkInput [b; b; b] (Some (HMap, [I "f"])) None (Some [I "j"]) None (Some true)).
Proof.
  intros seg b hs.
  rewrite (parse_roundtrip toy _ [seg] [seg; seg] [b] [b; b] hs (HMap, [I "f"])).
  - reflexivity.
  - reflexivity.
  - repeat constructor; cbn; auto.
  - reflexivity.
  - repeat constructor; apply ex_branch_seg.
  - repeat constructor; apply ex_branch_seg.
  - apply ex_handler_seg.
  - discriminate.
Qed.

(* ================================================================================================ *)
(** * G. Regression documentation: the two definitions of the PINNED tree (Parse.Pinned) and their defects *)

Module PinnedProps.
Import Pinned.

(* ---- P1 (C14), fixed by /repo commit 582ee80: the rotated determiner cycle defeated "longest operator wins" ----
   `|x| -> T {x} =>[] |> f` as the operand of a preceding operator: the closure is a complete operand only at its end
   (it is `atomic`), its `->` is an operator look-alike inside a not yet complete operand - and yet the PINNED
   parse_until ended the unit with `=>` (AndThen, leaving `[]` as the next operand), because the search that followed the
   rejected `->` (table row 4) started at row 5 (`=>`), before it wrapped around to row 2 (`=>[]`). *)
Definition p1_unit : list tt := closure ++ collect_spelling false [] ++ OP "|" ">" ++ [I "f"].

Theorem rotation_defeats_longest_match :
  parse_until_pinned toy KExpr false p1_unit =
  POk (mkUnit closure (Some (mkGroup AndThen false NoMove)) ([TG DBracket []] ++ OP "|" ">" ++ [I "f"])).
Proof. vm_compute. reflexivity. Qed.

(* the fixed parse_until on the same tokens: Collect, the bracket group belongs to the operator *)
Theorem rotation_fixed :
  parse_until toy KExpr false p1_unit =
  POk (mkUnit closure (Some (mkGroup Collect false NoMove)) (OP "|" ">" ++ [I "f"])).
Proof. vm_compute. reflexivity. Qed.

(* without a look-alike in the operand the pinned definition agreed with the fixed one *)
Example no_rotation_collect_pinned :
  parse_until_pinned toy KExpr false ([I "c"] ++ collect_spelling false [] ++ OP "|" ">" ++ [I "f"]) =
  parse_until toy KExpr false ([I "c"] ++ collect_spelling false [] ++ OP "|" ">" ++ [I "f"]).
Proof. vm_compute. reflexivity. Qed.

(* ---- P2 (C15/C16), fixed by /repo commit a60958f: the four-pass option loop ---- *)
Lemma which_opt_none t : which_opt t = None -> forall k, tmatches (MI (opt_kw k)) t = false.
Proof.
  unfold which_opt. intros H k.
  destruct (tmatches (MI (opt_kw OFcp)) t) eqn:E1; [discriminate|].
  destruct (tmatches (MI (opt_kw OJoiner)) t) eqn:E2; [discriminate|].
  destruct (tmatches (MI (opt_kw OTranspose)) t) eqn:E3; [discriminate|].
  destruct (tmatches (MI (opt_kw OLazy)) t) eqn:E4; [discriminate|].
  destruct k; assumption.
Qed.

(* the option loop on rendered options, step by step, without the oracle *)
Definition astep (k : optk) (cfg : presult (opts * list oitem)) : presult (opts * list oitem) :=
  match cfg with
  | PErr e => PErr e
  | POk (st, []) => POk (st, [])
  | POk (st, oi :: r) =>
      if optk_eqb k (oi_k oi) then
        if opt_is_set k st then PErr (EOptionTwice k) else POk (set_opt st oi, r)
      else POk (st, oi :: r)
  end.

Definition lift_cfg (rest : list tt) (cfg : presult (opts * list oitem)) : presult (opts * list tt) :=
  match cfg with
  | PErr e => PErr e
  | POk (st, ois) => POk (st, render_opts ois ++ rest)
  end.

Lemma parse_opt_sim o rest k st ois :
  Forall (payload_ok o) ois -> not_opt_start rest ->
  parse_opt o k st (render_opts ois ++ rest) = lift_cfg rest (astep k (POk (st, ois))).
Proof.
  intros Hp Hr. destruct ois as [|oi r]; cbn [render_opts flat_map app astep lift_cfg].
  - unfold parse_opt. destruct rest as [|t rest']; [reflexivity|].
    cbn [not_opt_start] in Hr. now rewrite (which_opt_none t Hr).
  - unfold parse_opt, render_opt. cbn [app tmatches]. rewrite opt_kw_eqb.
    destruct (optk_eqb k (oi_k oi)) eqn:Ek; [|reflexivity].
    assert (k = oi_k oi) as -> by (destruct k, (oi_k oi); try discriminate; reflexivity).
    destruct (opt_is_set (oi_k oi) st); [reflexivity|].
    inversion Hp; subst. rewrite (opt_payload_ok o oi st H1). reflexivity.
Qed.

Lemma astep_Forall o k st ois st' ois' :
  Forall (payload_ok o) ois -> astep k (POk (st, ois)) = POk (st', ois') -> Forall (payload_ok o) ois'.
Proof.
  intros Hp. destruct ois as [|oi r]; cbn.
  - intros H; inversion H; subst. constructor.
  - destruct (optk_eqb k (oi_k oi)).
    + destruct (opt_is_set k st); [discriminate|]. intros H; inversion H; subst. now inversion Hp.
    + intros H; inversion H; subst. exact Hp.
Qed.

Lemma opt_seq_sim o rest : Forall (fun _ : optk => True) [] -> not_opt_start rest ->
  forall ks st ois, Forall (payload_ok o) ois ->
  opt_seq o ks st (render_opts ois ++ rest) = lift_cfg rest (fold_left (fun cfg k => astep k cfg) ks (POk (st, ois))).
Proof.
  intros _ Hr. unfold opt_seq.
  assert (Hgen : forall ks cfg,
            (forall st ois, cfg = POk (st, ois) -> Forall (payload_ok o) ois) ->
            fold_left (fun acc k => match acc with
                                    | PErr e => PErr e
                                    | POk (st', inp') => parse_opt o k st' inp'
                                    end) ks (lift_cfg rest cfg)
            = lift_cfg rest (fold_left (fun cfg k => astep k cfg) ks cfg)).
  { induction ks as [|k ks IH]; intros cfg Hcfg; [reflexivity|]. cbn [fold_left].
    destruct cfg as [[st ois]|e].
    - cbn [lift_cfg]. rewrite (parse_opt_sim o rest k st ois (Hcfg st ois eq_refl) Hr).
      apply IH. intros st' ois' Heq. eapply astep_Forall; [apply (Hcfg st ois eq_refl)|exact Heq].
    - cbn [lift_cfg astep]. apply (IH (PErr e)). intros; discriminate. }
  intros ks st ois Hp. apply (Hgen ks (POk (st, ois))). intros st' ois' H; inversion H; subst; exact Hp.
Qed.

Definition arun (ois : list oitem) : presult (opts * list oitem) :=
  fold_left (fun cfg k => astep k cfg) four_passes (POk (empty_opts, ois)).

Lemma distinct_NoDup ks : distinct ks = true -> NoDup ks.
Proof.
  induction ks as [|k r IH]; intros H; [constructor|]. cbn in H. apply andb_true_iff in H as [H1 H2].
  constructor; [|auto]. intros Hin. apply negb_true_iff in H1.
  assert (existsb (optk_eqb k) r = true) by (apply existsb_exists; exists k; split; [exact Hin|apply optk_eqb_refl]).
  congruence.
Qed.

Lemma distinct_length ks : distinct ks = true -> List.length ks <= 4.
Proof.
  intros H. apply distinct_NoDup in H.
  apply (NoDup_incl_length (l' := [OFcp; OJoiner; OTranspose; OLazy]) H).
  intros k _. destruct k; cbn; auto.
Qed.

(* every permutation of every subset of the four options (65 sequences), arbitrary payloads *)
Lemma arun_distinct ois : distinct (keys ois) = true -> arun ois = POk (opts_of ois, []).
Proof.
  intros H. pose proof (distinct_length _ H) as Hl. unfold keys in *.
  destruct ois as [|[k1 c1] [|[k2 c2] [|[k3 c3] [|[k4 c4] [|x r]]]]]; cbn in Hl; try lia; clear Hl.
  - reflexivity.
  - destruct k1; reflexivity.
  - destruct k1, k2; cbn in H; try discriminate; reflexivity.
  - destruct k1, k2, k3; cbn in H; try discriminate; reflexivity.
  - destruct k1, k2, k3, k4; cbn in H; try discriminate; reflexivity.
Qed.

(* the pinned loop also accepted every permutation of every subset *)
Theorem options_any_order_pinned o ois rest :
  distinct (keys ois) = true -> Forall (payload_ok o) ois -> not_opt_start rest ->
  parse_options_pinned o (render_opts ois ++ rest) = POk (opts_of ois, rest).
Proof.
  intros Hd Hp Hr. unfold parse_options_pinned.
  rewrite (opt_seq_sim o rest (Forall_nil _) Hr four_passes empty_opts ois Hp).
  fold (arun ois). rewrite (arun_distinct ois Hd). reflexivity.
Qed.

Print Assumptions options_any_order_pinned.

(* the one shape of a duplicated option that the four passes do not notice (finding P2) *)
Definition escaping (ks : list optk) (k : optk) : Prop :=
  ks = [OLazy; OTranspose; OJoiner; OFcp] /\ k = OFcp.

Lemma arun_duplicate ois dup :
  distinct (keys ois) = true -> In (oi_k dup) (keys ois) -> ~ escaping (keys ois) (oi_k dup) ->
  arun (ois ++ [dup]) = PErr (EOptionTwice (oi_k dup)).
Proof.
  intros H Hin Hesc. pose proof (distinct_length _ H) as Hl. unfold keys, escaping in *.
  destruct dup as [kd cd]. cbn [oi_k] in *.
  destruct ois as [|[k1 c1] [|[k2 c2] [|[k3 c3] [|[k4 c4] [|x r]]]]]; cbn in Hl; try lia; clear Hl.
  - destruct Hin.
  - destruct k1, kd; cbn in Hin; try (exfalso; intuition discriminate); reflexivity.
  - destruct k1, k2; cbn in H; try discriminate;
      destruct kd; cbn in Hin; try (exfalso; intuition discriminate); reflexivity.
  - destruct k1, k2, k3; cbn in H; try discriminate;
      destruct kd; cbn in Hin; try (exfalso; intuition discriminate); reflexivity.
  - destruct k1, k2, k3, k4; cbn in H; try discriminate;
      destruct kd; cbn in Hin; try (exfalso; intuition discriminate);
      try reflexivity; exfalso; apply Hesc; split; reflexivity.
Qed.

(* on the pinned tree: a duplicated option behind distinct ones was rejected - with exactly one exception *)
Theorem duplicate_option_rejected_pinned o ois dup rest :
  distinct (keys ois) = true -> In (oi_k dup) (keys ois) -> ~ escaping (keys ois) (oi_k dup) ->
  Forall (payload_ok o) (ois ++ [dup]) -> not_opt_start rest ->
  parse_options_pinned o (render_opts (ois ++ [dup]) ++ rest) = PErr (EOptionTwice (oi_k dup)).
Proof.
  intros Hd Hin Hesc Hp Hr. unfold parse_options_pinned.
  rewrite (opt_seq_sim o rest (Forall_nil _) Hr four_passes empty_opts _ Hp).
  fold (arun (ois ++ [dup])). rewrite (arun_duplicate ois dup Hd Hin Hesc). reflexivity.
Qed.

(* ... and the exception: `lazy_branches(..) transpose_results(..) custom_joiner(..) futures_crate_path(..)` use up
   the four passes; a second `futures_crate_path(..)` is then NOT seen by the option loop and is left in the input,
   where it is parsed as the first branch (a call expression).  The full C15/C16 statement "each duplicate is
   rejected" is therefore refuted for the model of the pinned code (see also `duplicate_accepted_example`). *)
Theorem duplicate_option_escapes o cl ct cj cf cf' rest :
  let ois := [mkOItem OLazy cl; mkOItem OTranspose ct; mkOItem OJoiner cj; mkOItem OFcp cf] in
  Forall (payload_ok o) (ois ++ [mkOItem OFcp cf']) -> not_opt_start rest ->
  parse_options_pinned o (render_opts (ois ++ [mkOItem OFcp cf']) ++ rest) =
  POk (opts_of ois, render_opt (mkOItem OFcp cf') ++ rest).
Proof.
  intros ois Hp Hr. unfold parse_options_pinned.
  rewrite (opt_seq_sim o rest (Forall_nil _) Hr four_passes empty_opts _ Hp). reflexivity.
Qed.

Print Assumptions duplicate_option_rejected_pinned.
Print Assumptions duplicate_option_escapes.


(* the pinned loop on the witness: the repeated option is left in the input (and was then parsed as a branch) *)
Example duplicate_accepted_example_pinned :
  parse_options_pinned toy p2_tokens =
  POk (mkOpts (Some [I "f"]) (Some [I "j"]) (Some true) (Some true) false, opt "futures_crate_path" [I "f"] ++ [COMMA; I "a"]).
Proof. vm_compute. reflexivity. Qed.

End PinnedProps.

Print Assumptions PinnedProps.rotation_defeats_longest_match.
