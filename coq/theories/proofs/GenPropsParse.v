(* GenPropsParse - the bridge "parser output is wf_parsed" and the composed C15 statement
     parse o ts = POk inp  ->  gen cfg inp never returns InternalBug
   for EVERY oracle, token stream and configuration.
   NOTE: this file (and only this one of the GenProps files) depends on proofs/ParseProps.v, which belongs to the
   parser worker: it uses chain_wf / member_ok / step_balances / delta, parse_ok_chains, build_rest_eq, main_loop_eq,
   parse_n_or_empty_post and parse_stream_post from there.  Operand arities are proved here. *)
From Coq Require Import Lia ZArith.
From Join Require Import Tok Names Ast Ir Gen Parse ParseProps.
From Join Require Spec.
From Join Require Import GenPropsBase GenPropsB GenPropsA.

Definition arity_ok (m : action) : Prop := ops_arity_ok (a_comb m) (List.length (a_ops m)) = true.

(* ---- every member the parser builds has the number of operands of its combinator ---- *)
Lemma parse_stream_arity o g inp r : parse_stream o g inp = POk r -> arity_ok (mr_action r).
Proof.
  unfold parse_stream, arity_ok. destruct (g_mv g) eqn:Em.
  - destruct (can_be_wrapper (g_comb g)) eqn:Ecw; [|discriminate].
    destruct (parse_until o KEmpty true inp) as [u|e]; [|discriminate].
    intros H; inversion H; subst; cbn [mr_action a_comb a_ops List.length].
    destruct (g_comb g); cbn in Ecw; try discriminate; reflexivity.
  - destruct (parse_n_or_empty o _ _ _ inp) as [us|e] eqn:E; [|discriminate].
    intros H; inversion H; subst; cbn [mr_action a_comb a_ops]. apply parse_n_or_empty_post in E as (_ & _ & Hp).
    destruct (us_parsed us) as [ops|].
    + destruct Hp as [Hl _]. rewrite Hl. destruct (g_comb g); reflexivity.
    + destruct (g_comb g); cbn in Hp; try discriminate; reflexivity.
  - destruct (parse_n_or_empty o _ _ _ inp) as [us|e] eqn:E; [|discriminate].
    intros H; inversion H; subst; cbn [mr_action a_comb a_ops]. apply parse_n_or_empty_post in E as (_ & _ & Hp).
    destruct (us_parsed us) as [ops|].
    + destruct Hp as [Hl _]. rewrite Hl. destruct (g_comb g); reflexivity.
    + destruct (g_comb g); cbn in Hp; try discriminate; reflexivity.
Qed.

Lemma build_rest_arity o : forall fuel count m next inp ms rest,
  build_rest o fuel count m next inp = POk (ms, rest) -> arity_ok m -> Forall arity_ok ms.
Proof.
  induction fuel as [|fuel IH]; intros count m next inp ms rest H Hm; rewrite build_rest_eq in H.
  - destruct next as [g|].
    + destruct (bump count g); discriminate.
    + destruct (finish_chain m inp); [|discriminate]. inversion H; subst. constructor; [exact Hm|constructor].
  - destruct next as [g|].
    + destruct (bump count g) as [c'|]; [|discriminate].
      destruct (parse_stream o g inp) as [r|] eqn:Ep; [|discriminate].
      destruct (build_rest o fuel c' (mr_action r) (mr_next r) (mr_rest r)) as [[ms1 rest1]|] eqn:Er; [|discriminate].
      inversion H; subst. constructor; [exact Hm|]. eapply IH; [exact Er|]. eapply parse_stream_arity; eauto.
    + destruct (finish_chain m inp); [|discriminate]. inversion H; subst. constructor; [exact Hm|constructor].
Qed.

Lemma initial_fixup_arity o m m' pat :
  initial_fixup o m = POk (m', pat) -> a_comb m = Initial -> arity_ok m -> arity_ok m'.
Proof.
  unfold initial_fixup, arity_ok. intros H Hc Hm. destruct (a_ops m) as [|e ops] eqn:Eo; [discriminate|].
  destruct (let_split o e) as [[| |p n v]|]; try discriminate.
  - destruct (is_nil e); [discriminate|]. inversion H; subst. rewrite Eo. exact Hm.
  - destruct (is_nil v); [discriminate|]. inversion H; subst. cbn [a_comb a_ops List.length]. rewrite Hc. reflexivity.
Qed.

Lemma build_arity o inp b rest : build o inp = POk (b, rest) -> Forall arity_ok (b_members b).
Proof.
  unfold build.
  destruct (parse_stream o initial_group inp) as [r|] eqn:Ep; [|discriminate].
  destruct (initial_fixup o (mr_action r)) as [[m pat]|] eqn:Ei; [|discriminate].
  destruct (build_rest o (S (List.length (mr_rest r))) 0 m (mr_next r) (mr_rest r)) as [[ms rest1]|] eqn:Er; [|discriminate].
  intros H; inversion H; subst. cbn [b_members].
  eapply build_rest_arity; [exact Er|]. eapply initial_fixup_arity; [exact Ei| |eapply parse_stream_arity; eauto].
  apply parse_stream_post in Ep as (Hc & _). exact Hc.
Qed.

Lemma main_loop_arity o : forall fuel hseen inp bs h,
  main_loop o fuel hseen inp = POk (bs, h) -> Forall (fun b => Forall arity_ok (b_members b)) bs.
Proof.
  induction fuel as [|fuel IH]; intros hseen inp bs h H; rewrite main_loop_eq in H.
  - destruct inp; [|discriminate]. inversion H; constructor.
  - destruct inp as [|t inp']; [inversion H; constructor|].
    destruct (peek_handler (t :: inp')) as [hk|].
    + destruct hseen; [discriminate|].
      destruct (parse_handler o hk (t :: inp')) as [[h0 rest]|]; [|discriminate].
      destruct (main_loop o fuel true rest) as [[bs' h']|] eqn:E; [|discriminate].
      inversion H; subst. eapply IH; eauto.
    + destruct (build o (t :: inp')) as [[b rest]|] eqn:Eb; [|discriminate].
      destruct (main_loop o fuel hseen rest) as [[bs' h']|] eqn:E; [|discriminate].
      inversion H; subst. constructor; [eapply build_arity; eauto|eapply IH; eauto].
Qed.

Theorem parse_ok_arities o ts i :
  parse o ts = POk i -> Forall (fun b => Forall arity_ok (b_members b)) (i_branches i).
Proof.
  unfold parse. destruct (parse_options o ts) as [[st rest]|]; [|discriminate].
  destruct (main_loop o (S (List.length rest)) false rest) as [[bs h]|] eqn:E; [|discriminate].
  destruct (is_nil bs); [discriminate|]. destruct (o_unexpected st); [discriminate|].
  intros H; inversion H; subst; cbn [i_branches]. eapply main_loop_arity; eauto.
Qed.

(* ---- the builder's per-branch running balance (reset at `~`) is the per-step balance of the generator ---- *)
Lemma balance_steps ms : forall cur,
  Forall (fun z => (0 <= z)%Z) (step_balances (Z.of_nat cur) ms) ->
  match split_steps ms with
  | g :: gs => balancedb cur g = true /\ Forall (fun s => balancedb 0 s = true) gs
  | [] => False
  end.
Proof.
  induction ms as [|m r IH]; intros cur H; cbn [split_steps].
  - split; [reflexivity|constructor].
  - cbn [step_balances] in H. unfold delta in H. inversion H as [|z l Hz Hr]; subst.
    destruct (a_deferred m) eqn:Ed.
    + destruct (a_mv m) eqn:Em.
      * specialize (IH 1 Hr). destruct (split_steps r) as [|g gs]; [contradiction|]. destruct IH as [Hg Hgs].
        split; [reflexivity|]. constructor; [|exact Hgs]. cbn [balancedb]. rewrite Em. exact Hg.
      * exfalso. cbn in Hz. lia.
      * specialize (IH 0 Hr). destruct (split_steps r) as [|g gs]; [contradiction|]. destruct IH as [Hg Hgs].
        split; [reflexivity|]. constructor; [|exact Hgs]. cbn [balancedb]. rewrite Em. exact Hg.
    + destruct (a_mv m) eqn:Em.
      * replace (Z.of_nat cur + 1)%Z with (Z.of_nat (S cur)) in Hr by lia.
        specialize (IH (S cur) Hr). destruct (split_steps r) as [|g gs]; [contradiction|]. destruct IH as [Hg Hgs].
        split; [|exact Hgs]. cbn [balancedb]. rewrite Em. exact Hg.
      * destruct cur as [|c']; [exfalso; cbn in Hz; lia|].
        replace (Z.of_nat (S c') + -1)%Z with (Z.of_nat c') in Hr by lia.
        specialize (IH c' Hr). destruct (split_steps r) as [|g gs]; [contradiction|]. destruct IH as [Hg Hgs].
        split; [|exact Hgs]. cbn [balancedb]. rewrite Em. exact Hg.
      * replace (Z.of_nat cur + 0)%Z with (Z.of_nat cur) in Hr by lia.
        specialize (IH cur Hr). destruct (split_steps r) as [|g gs]; [contradiction|]. destruct IH as [Hg Hgs].
        split; [|exact Hgs]. cbn [balancedb]. rewrite Em. exact Hg.
Qed.

Lemma chain_wf_branch_wf b :
  chain_wf (b_members b) -> Forall arity_ok (b_members b) -> branch_wf b.
Proof.
  intros (m0 & rest & Heq & Hc & Hm & Hd & Hni & Hok & Hbal) Har.
  exists m0, rest. split; [exact Heq|]. split; [exact Hc|]. split; [exact Hd|]. split; [exact Hm|].
  split; [exact Hni|]. split.
  - rewrite Forall_forall in *. intros x Hx. destruct (Hok x Hx) as [Hw Hu]. split; [exact (Har x Hx)|]. split; assumption.
  - pose proof (balance_steps (b_members b) 0 Hbal) as Hs.
    destruct (split_steps (b_members b)) as [|g gs]; [contradiction|]. destruct Hs as [Hg Hgs].
    constructor; [apply nest_some_iff_balanced; exact Hg|].
    eapply Forall_impl; [|exact Hgs]. intros s Hsb. apply nest_some_iff_balanced. exact Hsb.
Qed.

(* what the parser guarantees is (at least) wf_parsed, for every oracle and every token stream *)
Theorem parse_ok_wf o ts inp : parse o ts = POk inp -> wf_parsed inp /\ i_branches inp <> [].
Proof.
  intros H. destruct (parse_ok_chains o ts inp H) as [Hne Hch]. split; [|exact Hne].
  pose proof (parse_ok_arities o ts inp H) as Har. unfold wf_parsed.
  rewrite Forall_forall in *. intros b Hb. apply chain_wf_branch_wf; auto.
Qed.

(* C15 composed: whatever the parser accepts, the generator never panics with an internal error; it produces
   an expansion unless the configuration is one of the four documented rejections *)
Theorem parse_then_gen_no_internal_bug o ts inp cfg :
  parse o ts = POk inp -> forall n, gen cfg inp <> InternalBug n.
Proof. intros H. apply no_internal_bug. exact (proj1 (parse_ok_wf o ts inp H)). Qed.

Theorem parse_then_gen_total o ts inp cfg :
  parse o ts = POk inp -> (exists e, gen cfg inp = Ok e) \/ (exists k, gen cfg inp = ConfigError k /\ (k = 1 \/ k = 2 \/ k = 3)%N).
Proof.
  intros H. destruct (parse_ok_wf o ts inp H) as [Hwf Hne].
  destruct (config_verdict cfg inp) as [k|] eqn:Ev.
  - right. exists k. split; [apply gen_config_error_iff; exact Ev|].
    assert (Hk : gen cfg inp = ConfigError k) by (apply gen_config_error_iff; exact Ev).
    apply config_rejection_exact in Hk. unfold rej_no_branch in Hk.
    destruct Hk as [[-> _]|[[-> _]|[[-> _]|(_ & _ & _ & _ & Hb)]]]; auto. congruence.
  - left. apply gen_total; assumption.
Qed.

Print Assumptions parse_ok_wf.
Print Assumptions parse_then_gen_no_internal_bug.
Print Assumptions parse_then_gen_total.
