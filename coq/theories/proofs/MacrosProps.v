From Join Require Import Tok Ast Macros.

Definition cfg_of (name : string) : option config := macro_config name macro_table.

(* the four alias macros have exactly the configuration of their targets *)
Theorem alias_configs_equal :
  cfg_of "spawn" = cfg_of "join_spawn" /\ cfg_of "try_spawn" = cfg_of "try_join_spawn" /\
  cfg_of "async_spawn" = cfg_of "join_async_spawn" /\ cfg_of "try_async_spawn" = cfg_of "try_join_async_spawn".
Proof. repeat split. Qed.

(* each spawn macro differs from its plain counterpart in `is_spawn` only *)
Definition plain_of (c : config) : config := mkConfig (is_async c) (is_try c) false.
Theorem spawn_pairs_differ_in_spawn_only :
  option_map plain_of (cfg_of "join_spawn") = cfg_of "join" /\
  option_map plain_of (cfg_of "try_join_spawn") = cfg_of "try_join" /\
  option_map plain_of (cfg_of "join_async_spawn") = cfg_of "join_async" /\
  option_map plain_of (cfg_of "try_join_async_spawn") = cfg_of "try_join_async".
Proof. repeat split. Qed.

(* twelve names, eight kinds, every kind is named *)
Theorem twelve_macros_eight_kinds :
  List.length macro_table = 12 /\
  forall a t s, exists name, cfg_of name = Some (mkConfig a t s).
Proof.
  split; [reflexivity|].
  intros [|] [|] [|];
    [exists "try_join_async_spawn"|exists "try_join_async"|exists "join_async_spawn"|exists "join_async"
    |exists "try_join_spawn"|exists "try_join"|exists "join_spawn"|exists "join"]; reflexivity.
Qed.
