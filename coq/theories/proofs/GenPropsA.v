(* GenPropsA - C15 `no_internal_bug`: on everything the parser can produce (`wf_parsed`), the generator
   never reaches one of its `expect/unwrap/panic!` sites, for all 8 configurations, all option settings,
   all handlers.  Stronger form `gen_total`: the generator returns `Ok` unless the configuration is
   rejected.  Converse (`unmatched_unwrap_is_internal_bug`): a `<<<` without a matching `>>>` in its own
   step makes the generator hit an internal error (defect F2 of the pinned tree). *)
From Coq Require Import Lia.
From Join Require Import Tok Names Ast Ir Gen.
From Join Require Spec Render.
From Join Require Import GenPropsBase GenPropsB.

(* ---------------------------------------------------------------------------------------------- *)
(** * What the parser guarantees: wf_parsed (Prop) and wf_parsedb (bool) *)

(* number of operands a member holds, per combinator (Parse.arity; a `>>>` member of a wrapper combinator
   holds the one placeholder closure `|__v| __v`) *)
Definition ops_arity_ok (c : comb) (n : nat) : bool :=
  match c with
  | Flatten | Enumerate | UNWRAP => Nat.eqb n 0
  | Collect => Nat.leb n 1                       (* optional type *)
  | Unzip => Nat.eqb n 0 || Nat.eqb n 4          (* no or four types *)
  | Fold | TryFold => Nat.eqb n 2
  | _ => Nat.eqb n 1                             (* one expression; Dot: one token list; Initial: one expression *)
  end.

Definition mv_okb (a : action) : bool :=
  match a_mv a with
  | Wrap => can_be_wrapper (a_comb a)
  | Unwrap => comb_eqb (a_comb a) UNWRAP
  | NoMove => negb (comb_eqb (a_comb a) UNWRAP)
  end.
Definition act_okb (a : action) : bool := ops_arity_ok (a_comb a) (List.length (a_ops a)) && mv_okb a.

(* running Wrap/Unwrap balance of one step, starting from depth d: never negative *)
Fixpoint balancedb (d : nat) (acts : list action) : bool :=
  match acts with
  | [] => true
  | a :: r =>
      match a_mv a with
      | Wrap => balancedb (S d) r
      | Unwrap => match d with 0 => false | S d' => balancedb d' r end
      | NoMove => balancedb d r
      end
  end.

Definition branch_okb (b : branch) : bool :=
  match b_members b with
  | [] => false
  | m0 :: rest =>
      comb_eqb (a_comb m0) Initial && negb (a_deferred m0) && mv_eqb (a_mv m0) NoMove &&
      forallb (fun m => negb (comb_eqb (a_comb m) Initial)) rest &&
      forallb act_okb (b_members b) &&
      forallb (balancedb 0) (split_steps (b_members b))
  end.
Definition wf_parsedb (inp : input) : bool := forallb branch_okb (i_branches inp).

(* the same as propositions *)
Definition act_ok (a : action) : Prop :=
  ops_arity_ok (a_comb a) (List.length (a_ops a)) = true /\
  (a_mv a = Wrap -> can_be_wrapper (a_comb a) = true) /\
  (a_mv a = Unwrap <-> a_comb a = UNWRAP).

Definition branch_wf (b : branch) : Prop :=
  exists m0 rest, b_members b = m0 :: rest /\
    a_comb m0 = Initial /\ a_deferred m0 = false /\ a_mv m0 = NoMove /\
    Forall (fun m => a_comb m <> Initial) rest /\
    Forall act_ok (b_members b) /\
    Forall (fun step => Spec.nest step <> None) (split_steps (b_members b)).

Definition wf_parsed (inp : input) : Prop := Forall branch_wf (i_branches inp).

(* ---- reflection ---- *)
Lemma comb_eqb_iff a b : comb_eqb a b = true <-> a = b.
Proof. split; [destruct a, b; cbn; intros H; try discriminate; reflexivity|intros ->; destruct b; reflexivity]. Qed.
Lemma mv_eqb_iff a b : mv_eqb a b = true <-> a = b.
Proof. split; [destruct a, b; cbn; intros H; try discriminate; reflexivity|intros ->; destruct b; reflexivity]. Qed.

Lemma comb_eqb_false a b : comb_eqb a b = false <-> a <> b.
Proof.
  destruct (comb_eqb a b) eqn:E.
  - apply comb_eqb_iff in E. split; [discriminate|congruence].
  - split; [|reflexivity]. intros _ H. apply comb_eqb_iff in H. congruence.
Qed.

Lemma act_okb_iff a : act_okb a = true <-> act_ok a.
Proof.
  unfold act_okb, act_ok, mv_okb. rewrite andb_true_iff.
  split.
  - intros [Ha Hm]. split; [exact Ha|].
    destruct (a_mv a) eqn:Em.
    + split; [auto|]. split; [discriminate|]. intros Hc. rewrite Hc in Hm. discriminate.
    + apply comb_eqb_iff in Hm. split; [discriminate|]. split; auto.
    + apply negb_true_iff, comb_eqb_false in Hm. split; [discriminate|]. split; [discriminate|]. intros Hc; congruence.
  - intros (Ha & Hw & Hu). split; [exact Ha|].
    destruct (a_mv a) eqn:Em.
    + auto.
    + apply comb_eqb_iff, Hu. reflexivity.
    + apply negb_true_iff, comb_eqb_false. intros Hc. apply Hu in Hc. discriminate.
Qed.

(* number of `<<<` of a step that no `>>>` of the step matches = levels of the bracket tree beyond one *)
Fixpoint unmatched (acts : list action) : nat :=
  match acts with
  | [] => 0
  | a :: r => match a_mv a with
              | Unwrap => S (unmatched r)
              | Wrap => pred (unmatched r)
              | NoMove => unmatched r
              end
  end.

Lemma nest_levels_length acts : forall e,
  List.length (fold_right Spec.nest_step [[]] (enum_from e acts)) = S (unmatched acts).
Proof.
  induction acts as [|a r IH]; intros e; cbn [enum_from fold_right unmatched]; [reflexivity|].
  specialize (IH (S e)). set (F := fold_right Spec.nest_step [[]] (enum_from (S e) r)) in *.
  unfold Spec.nest_step. cbn [fst snd].
  destruct (a_mv a); destruct F as [|cur [|outer rest]]; cbn [List.length] in *; try lia.
Qed.

Lemma balancedb_unmatched acts : forall d, balancedb d acts = true <-> unmatched acts <= d.
Proof.
  induction acts as [|a r IH]; intros d; cbn [balancedb unmatched].
  - split; [lia|reflexivity].
  - destruct (a_mv a).
    + rewrite IH. lia.
    + destruct d as [|d']; [split; [discriminate|lia]|]. rewrite IH. lia.
    + apply IH.
Qed.

(* "`nest` succeeds" is "the running balance never goes negative" *)
Theorem nest_some_iff_balanced acts : Spec.nest acts <> None <-> balancedb 0 acts = true.
Proof.
  rewrite balancedb_unmatched. unfold Spec.nest, Spec.nest_levels.
  pose proof (nest_levels_length acts 0) as L.
  destruct (fold_right Spec.nest_step [[]] (enum_from 0 acts)) as [|t [|t' r]]; cbn [List.length] in L.
  - lia.
  - split; [lia|discriminate].
  - split; [congruence|lia].
Qed.

Lemma branch_okb_iff b : branch_okb b = true <-> branch_wf b.
Proof.
  unfold branch_okb, branch_wf. destruct (b_members b) as [|m0 rest] eqn:Em.
  - split; [discriminate|]. intros (m & r & H & _); discriminate.
  - rewrite !andb_true_iff, comb_eqb_iff, negb_true_iff, mv_eqb_iff, !forallb_forall.
    split.
    + intros (((((H1 & H2) & H3) & H4) & H5) & H6). exists m0, rest. split; [reflexivity|].
      repeat split; auto.
      * apply Forall_forall. intros m Hm. apply comb_eqb_false, negb_true_iff, H4, Hm.
      * apply Forall_forall. intros m Hm. apply act_okb_iff, H5, Hm.
      * apply Forall_forall. intros s Hs. apply nest_some_iff_balanced, H6, Hs.
    + intros (m & r & Heq & H1 & H2 & H3 & H4 & H5 & H6). inversion Heq; subst m r.
      rewrite Forall_forall in H4, H5, H6. repeat split; auto.
      * intros x Hx. apply negb_true_iff, comb_eqb_false, H4, Hx.
      * intros x Hx. apply act_okb_iff, H5, Hx.
      * intros s Hs. apply nest_some_iff_balanced, H6, Hs.
Qed.

Theorem wf_parsedb_iff inp : wf_parsedb inp = true <-> wf_parsed inp.
Proof.
  unfold wf_parsedb, wf_parsed. rewrite forallb_forall, Forall_forall.
  split; intros H b Hb; apply branch_okb_iff, H, Hb.
Qed.

(* the Initial member has exactly one operand (a consequence of the arity table) *)
Lemma branch_wf_initial_operand b m0 rest :
  branch_wf b -> b_members b = m0 :: rest -> exists o, a_ops m0 = [o].
Proof.
  intros (m & r & Heq & Hc & _ & _ & _ & Hok & _) E. rewrite E in Heq. inversion Heq; subst m r.
  rewrite E in Hok. inversion Hok as [|x l (Ha & _) _]; subst. rewrite Hc in Ha. cbn in Ha.
  destruct (a_ops m0) as [|o [|o' l']]; try discriminate. eauto.
Qed.

(* ---------------------------------------------------------------------------------------------- *)
(** * Totality of the per-action functions *)

Definition pos_okb (p : pos) : bool :=
  match p_comb p with
  | UNWRAP => false
  | Fold | TryFold => Nat.eqb (List.length (p_args p)) 2
  | Collect | Unzip | Flatten | Enumerate => true
  | Dot => Nat.eqb (List.length (p_ops p)) 1
  | _ => Nat.eqb (List.length (p_args p)) 1
  end.

(* with the right number of operands, separating the block operands is exactly `hoist` *)
Lemma separate_block_expr_spec p :
  pos_okb p = true ->
  separate_block_expr p =
  if is_replaceable (p_comb p) && has_inner_exprs (p_comb p)
  then hoist (p_branch p) (p_expr p) 0 (p_args p) else ([], p_args p).
Proof.
  destruct p as [c args ops b e]. unfold pos_okb, separate_block_expr. cbn [p_comb p_args p_ops p_branch p_expr].
  destruct c; cbn [is_replaceable has_inner_exprs andb]; try reflexivity; try discriminate;
    destruct args as [|a1 [|a2 [|a3 r]]]; cbn [List.length Nat.eqb]; try discriminate; intros _;
    cbn [hoist]; repeat (match goal with |- context [arg_is_block ?a] => destruct (arg_is_block a) end);
    reflexivity.
Qed.

Lemma gen_def_and_step_total cfg ds prev p :
  pos_okb p = true -> exists ds' s, gen_def_and_step cfg ds prev p = Ok (ds', s).
Proof.
  intros H. unfold gen_def_and_step. rewrite (separate_block_expr_spec p H).
  destruct p as [c args ops b e]. unfold pos_okb in H. cbn [p_comb p_args p_ops p_branch p_expr] in *.
  destruct c; cbn [is_replaceable has_inner_exprs andb]; try discriminate;
    try (destruct args as [|a1 [|a2 [|a3 r]]]; cbn [List.length Nat.eqb] in H; try discriminate;
         cbn [hoist]; repeat (match goal with |- context [arg_is_block ?a] => destruct (arg_is_block a) end);
         cbn; eauto);
    try (cbn; eauto).
  all: destruct ops as [|o1 [|o2 r']]; cbn [List.length Nat.eqb] in H; try discriminate; cbn; eauto.
Qed.

Lemma can_be_wrapper_replace c (x : rexpr) : can_be_wrapper c = true -> replace_inner c [x] = Some [x].
Proof. destruct c; cbn; intros H; try discriminate; reflexivity. Qed.

Lemma can_be_wrapper_pos_ok w x : can_be_wrapper (p_comb w) = true -> pos_okb (set_args w [x]) = true.
Proof. unfold pos_okb, set_args. cbn [p_comb p_args p_ops]. destruct (p_comb w); cbn; intros H; try discriminate; reflexivity. Qed.

Lemma act_ok_pos_ok a b e : act_okb a = true -> a_mv a = NoMove -> pos_okb (mk_pos a b e) = true.
Proof.
  unfold act_okb, mv_okb, pos_okb, mk_pos. cbn [p_comb p_args p_ops]. intros H Hm. rewrite Hm in H.
  apply andb_true_iff in H as [Ha Hc].
  destruct (a_comb a); cbn in *; try discriminate; rewrite ?map_length; auto.
Qed.

(* ---------------------------------------------------------------------------------------------- *)
(** * The wrapper stack machine cannot fail on balanced, well-formed steps *)

(* every entry below the top of the stack is a wrapper waiting for its closure *)
Definition wrapper_entry (x : rexpr * option pos) : Prop :=
  exists w, snd x = Some w /\ can_be_wrapper (p_comb w) = true.
Definition stk_inv (d : nat) (a : acc) : Prop :=
  exists top rest, a_stk a = top :: rest /\ List.length rest = d /\ Forall wrapper_entry rest.

Lemma wrap_last_total cfg a d :
  stk_inv (S d) a -> exists a', wrap_last cfg a = Ok a' /\ stk_inv d a'.
Proof.
  intros ([prev w0] & rest & Hs & Hl & Hf). unfold wrap_last. rewrite Hs.
  destruct rest as [|[cur ow] rest']; [discriminate|].
  inversion Hf as [|x l (w & Hw & Hc) Hf']; subst. cbn [snd] in Hw. subst ow.
  rewrite (can_be_wrapper_replace _ _ Hc).
  destruct (gen_def_and_step_total cfg (a_defs a) cur (set_args w [wrapper_closure cfg prev])
              (can_be_wrapper_pos_ok w _ Hc)) as (ds' & s & E).
  rewrite E. cbn [rbind fst snd]. eexists. split; [reflexivity|].
  exists (s, None), rest'. cbn [a_stk]. cbn [List.length] in Hl. repeat split; auto; lia.
Qed.

Lemma process_action_total cfg p m a d :
  stk_inv d a ->
  match m with
  | NoMove => pos_okb p = true
  | Wrap => can_be_wrapper (p_comb p) = true
  | Unwrap => 0 < d
  end ->
  exists a', process_action cfg p m a = Ok a' /\
             stk_inv (match m with Wrap => S d | Unwrap => pred d | NoMove => d end) a'.
Proof.
  intros Hi Hm. unfold process_action. destruct m.
  - destruct Hi as ([s w0] & rest & Hs & Hl & Hf). rewrite Hs.
    eexists. split; [reflexivity|]. eexists _, _. cbn [a_stk]. split; [reflexivity|].
    split; [cbn; lia|]. constructor; [|exact Hf]. exists p. auto.
  - destruct d as [|d']; [lia|]. apply wrap_last_total. exact Hi.
  - destruct Hi as ([s w0] & rest & Hs & Hl & Hf). rewrite Hs.
    destruct (gen_def_and_step_total cfg (a_defs a) s p Hm) as (ds' & s' & E). rewrite E.
    cbn [rbind fst snd]. eexists. split; [reflexivity|]. exists (s', None), rest. cbn [a_stk]. auto.
Qed.

Lemma process_actions_total cfg b acts : forall e d a,
  stk_inv d a -> Forall (fun x => act_okb x = true) acts -> balancedb d acts = true ->
  exists a' d', process_actions cfg b e acts a = Ok a' /\ stk_inv d' a'.
Proof.
  induction acts as [|x r IH]; intros e d a Hi Hok Hb; cbn [process_actions].
  - eauto.
  - inversion Hok as [|y l Hx Hr]; subst. cbn [balancedb] in Hb.
    pose proof Hx as Hx'. unfold act_okb, mv_okb in Hx'. apply andb_true_iff in Hx' as [_ Hm].
    destruct (a_mv x) eqn:Em.
    + destruct (process_action_total cfg (mk_pos x b e) Wrap a d Hi Hm) as (a1 & E1 & Hi1).
      rewrite E1. cbn [rbind]. eapply IH; eauto.
    + destruct d as [|d']; [discriminate|].
      destruct (process_action_total cfg (mk_pos x b e) Unwrap a (S d') Hi) as (a1 & E1 & Hi1); [lia|].
      rewrite E1. cbn [rbind]. eapply IH; eauto.
    + destruct (process_action_total cfg (mk_pos x b e) NoMove a d Hi (act_ok_pos_ok x b e Hx Em)) as (a1 & E1 & Hi1).
      rewrite E1. cbn [rbind]. eapply IH; eauto.
Qed.

Lemma close_all_total cfg : forall fuel a d,
  stk_inv d a -> d < fuel -> exists r, close_all fuel cfg a = Ok r.
Proof.
  induction fuel as [|fuel IH]; intros a d Hi Hd; [lia|].
  cbn [close_all]. pose proof Hi as ([s w0] & rest & Hs & Hl & Hf). rewrite Hs.
  destruct rest as [|y rest']; [eauto|].
  cbn [List.length] in Hl. destruct d as [|d']; [lia|].
  destruct (wrap_last_total cfg a d' Hi) as (a' & E & Hi'). rewrite E. cbn [rbind].
  eapply IH; eauto. lia.
Qed.

Theorem gen_branch_step_total j b prev acts :
  Forall (fun x => act_okb x = true) acts -> balancedb 0 acts = true ->
  exists r, gen_branch_step j b prev acts = Ok r.
Proof.
  intros Hok Hb. unfold gen_branch_step.
  destruct (process_actions_total (j_cfg j) b acts 0 0
              {| a_defs := []; a_stk := [(wrap_into_block j (RVar prev), None)] |}) as (a' & d' & E & Hi); auto.
  { eexists _, _. cbn [a_stk]. split; [reflexivity|]. split; [reflexivity|constructor]. }
  rewrite E. cbn [rbind]. destruct Hi as (top & rest & Hs & Hl & Hf).
  eapply close_all_total.
  - eexists _, _. eauto.
  - rewrite Hs. cbn [List.length]. lia.
Qed.

(* ---------------------------------------------------------------------------------------------- *)
(** * Steps *)

Definition step_ok (acts : list action) : Prop :=
  Forall (fun x => act_okb x = true) acts /\ balancedb 0 acts = true.
Definition chains_ok (chains : list (list (list action))) : Prop :=
  Forall (fun ch => Forall step_ok ch) chains.

Lemma gen_branches_total j k vars chains : forall b,
  chains_ok chains -> exists r, gen_branches j k vars b chains = Ok r.
Proof.
  induction chains as [|ch rest IH]; intros b Hok; cbn [gen_branches]; [eauto|].
  inversion Hok as [|x l Hch Hrest]; subst.
  destruct (IH (S b) Hrest) as (tl & E). rewrite E. cbn [rbind].
  destruct (nth_error ch k) as [[|x acts]|] eqn:En; eauto.
  apply nth_error_In in En. rewrite Forall_forall in Hch. destruct (Hch _ En) as [H1 H2].
  destruct (gen_branch_step_total j b (nth b vars "") (x :: acts) H1 H2) as (r & Er).
  rewrite Er. cbn [rbind]. eauto.
Qed.

Lemma gen_step_total j k vars sr :
  chains_ok (j_chains j) -> exists r, gen_step j k vars sr = Ok r.
Proof.
  intros Hok. unfold gen_step. destruct (gen_branches_total j k vars (j_chains j) 0 Hok) as ([defs chains] & E).
  rewrite E. cbn [rbind]. destruct (is_async (j_cfg j)); [eauto|].
  destruct (thread_builders j k sr). eauto.
Qed.

Lemma transposer_some vars ret : vars <> [] -> exists t, transposer vars ret = Some t.
Proof.
  induction vars as [|x r IH]; [congruence|]. intros _. cbn [transposer].
  destruct r as [|y r']; [eauto|]. destruct IH as (t & E); [discriminate|]. rewrite E. eauto.
Qed.

Lemma join_steps_total j k step next pats vars sr :
  vars <> [] -> (Nat.ltb k (j_max j - 1) = true -> next <> None) ->
  exists r, join_steps j k step next pats vars sr = Ok r.
Proof.
  intros Hv Hn. unfold join_steps.
  destruct (is_try (j_cfg j)) eqn:Et; cbn [andb].
  - destruct (Nat.ltb k (j_max j - 1)) eqn:Ek.
    + destruct next as [[nss ne]|]; [|exfalso; apply Hn; auto].
      destruct (j_transpose j); eauto.
    + destruct (j_transpose j); cbn [andb].
      * destruct (transposer_some vars (tuple_of vars) Hv) as (t & E). rewrite E. eauto.
      * destruct (Nat.ltb 1 (j_branch_count j)); [|eauto].
        destruct (map snd (filter (fun iv => negb (is_active j k (fst iv))) (enum_from 0 vars))) as [|x l] eqn:Er; [eauto|].
        destruct (transposer_some (x :: l) (tuple_of vars)) as (t & E); [discriminate|]. rewrite E. eauto.
  - rewrite andb_false_r. destruct next as [[nss ne]|]; eauto.
Qed.

Lemma gen_steps_total j pats vars : forall n k,
  chains_ok (j_chains j) -> vars <> [] -> k + n = j_max j ->
  exists r, gen_steps j pats vars k n = Ok r /\ (0 < n -> r <> None).
Proof.
  induction n as [|n IH]; intros k Hok Hv Hkn; cbn [gen_steps].
  - eexists. split; [reflexivity|lia].
  - destruct (IH (S k) Hok Hv) as (next & E & Hnext); [lia|]. rewrite E. cbn [rbind].
    destruct (gen_step_total j k vars (n_sr k) Hok) as (step & Es). rewrite Es. cbn [rbind].
    destruct (join_steps_total j k step next pats vars (n_sr k) Hv) as (bd & Eb).
    { intros Hlt. apply Nat.ltb_lt in Hlt. apply Hnext. lia. }
    rewrite Eb. cbn [rbind]. eexists. split; [reflexivity|discriminate].
Qed.

Lemma gen_output_total j :
  chains_ok (j_chains j) -> 0 < j_branch_count j -> 0 < j_max j -> exists e, gen_output j = Ok e.
Proof.
  intros Hok Hb Hm. unfold gen_output.
  destruct (gen_steps_total j (map (branch_pat j) (seq 0 (j_branch_count j)))
              (map (branch_name j) (seq 0 (j_branch_count j))) (j_max j) 0 Hok) as (r & E & Hr); [|reflexivity|].
  { destruct (j_branch_count j); [lia|]. discriminate. }
  rewrite E. cbn [rbind]. destruct r as [[sss se]|]; [|exfalso; apply Hr; auto].
  destruct (is_async (j_cfg j)); eauto.
Qed.

(* ---------------------------------------------------------------------------------------------- *)
(** * From wf_parsed to the generator's invariants *)

Lemma wf_chains_ok cfg inp : wf_parsed inp -> chains_ok (j_chains (the_jout cfg inp)).
Proof.
  intros Hwf. unfold chains_ok. cbn [the_jout j_chains]. apply Forall_forall. intros ch Hch.
  apply in_map_iff in Hch as (b & <- & Hb). unfold wf_parsed in Hwf. rewrite Forall_forall in Hwf.
  destruct (Hwf b Hb) as (m0 & rest & Heq & _ & _ & _ & _ & Hok & Hnest).
  apply Forall_forall. intros s Hs. split.
  - apply Forall_forall. intros x Hx. apply act_okb_iff.
    rewrite Forall_forall in Hok. apply Hok. eapply split_steps_members; eauto.
  - apply nest_some_iff_balanced. rewrite Forall_forall in Hnest. auto.
Qed.

Lemma the_jout_max_pos cfg inp : i_branches inp <> [] -> 0 < j_max (the_jout cfg inp).
Proof.
  intros Hne. cbn [the_jout j_max]. destruct (i_branches inp) as [|b bs]; [congruence|].
  cbn [map]. unfold list_max. cbn [fold_right].
  pose proof (split_steps_nonempty (b_members b)) as H. destruct (split_steps (b_members b)); [congruence|].
  cbn [List.length]. lia.
Qed.

Lemma verdict_none_branches cfg inp : config_verdict cfg inp = None -> i_branches inp <> [].
Proof.
  unfold config_verdict. repeat (match goal with |- context [if ?c then _ else _] => destruct c end); try discriminate.
Qed.

(* ---------------------------------------------------------------------------------------------- *)
(** * The theorems *)

(* the generator is total on parser output: Ok unless the configuration is rejected *)
Theorem gen_total cfg inp :
  wf_parsed inp -> config_verdict cfg inp = None -> exists e, gen cfg inp = Ok e.
Proof.
  intros Hwf Hv. rewrite gen_unfold, Hv.
  pose proof (verdict_none_branches cfg inp Hv) as Hne.
  apply gen_output_total.
  - apply wf_chains_ok. exact Hwf.
  - cbn [the_jout j_branch_count]. destruct (i_branches inp); [congruence|]. cbn. lia.
  - apply the_jout_max_pos. exact Hne.
Qed.

Theorem no_internal_bug cfg inp :
  wf_parsed inp -> forall n, gen cfg inp <> InternalBug n.
Proof.
  intros Hwf n H. destruct (config_verdict cfg inp) as [k|] eqn:Ev.
  - rewrite gen_unfold, Ev in H. discriminate.
  - destruct (gen_total cfg inp Hwf Ev) as (e & E). congruence.
Qed.

Corollary no_internal_bug_b cfg inp :
  wf_parsedb inp = true -> forall n, gen cfg inp <> InternalBug n.
Proof. intros H. apply no_internal_bug, wf_parsedb_iff, H. Qed.

(* ---------------------------------------------------------------------------------------------- *)
(** * Converse: an unmatched `<<<` is an internal error *)

(* a failing branch-step makes everything above it fail *)
Lemma gen_branches_ok_steps j k vars chains : forall b r,
  gen_branches j k vars b chains = Ok r ->
  forall i ch acts, nth_error chains i = Some ch -> nth_error ch k = Some acts -> acts <> [] ->
  exists r', gen_branch_step j (b + i) (nth (b + i) vars "") acts = Ok r'.
Proof.
  induction chains as [|ch0 rest IH]; intros b r H i ch acts Hi Hk Hne.
  - destruct i; discriminate.
  - cbn [gen_branches] in H. inv_bind H.
    destruct i as [|i'].
    + cbn [nth_error] in Hi. inversion Hi; subst ch0. rewrite Hk in H.
      destruct acts as [|a acts']; [congruence|]. inv_bind H. rewrite Nat.add_0_r. eauto.
    + cbn [nth_error] in Hi. replace (b + S i') with (S b + i') by lia. eapply IH; eauto.
Qed.

Lemma gen_steps_ok_step j pats vars : forall n k r,
  gen_steps j pats vars k n = Ok r ->
  forall k', k <= k' < k + n -> exists s, gen_step j k' vars (n_sr k') = Ok s.
Proof.
  induction n as [|n IH]; intros k r H k' Hk'; [lia|].
  cbn [gen_steps] in H. inv_bind H. inv_bind H.
  destruct (Nat.eq_dec k' k) as [->|Hne]; [eauto|].
  eapply IH; eauto. lia.
Qed.

(* if the generator succeeds, every step of every branch has balanced wrappers *)
Theorem gen_ok_steps_balanced cfg inp e :
  gen cfg inp = Ok e ->
  forall b step, In b (i_branches inp) -> In step (split_steps (b_members b)) -> Spec.nest step <> None.
Proof.
  intros H b step Hb Hs. apply gen_ok_unfold in H as [_ H].
  destruct (In_nth_error _ _ Hb) as (i & Hi). destruct (In_nth_error _ _ Hs) as (k & Hk).
  unfold gen_output in H. inv_bind H.
  assert (Hkmax : k < j_max (the_jout cfg inp)).
  { cbn [the_jout j_max]. apply Nat.lt_le_trans with (List.length (split_steps (b_members b))).
    - apply nth_error_Some. congruence.
    - apply list_max_ge. apply (in_map (fun c : list (list action) => List.length c)).
      apply (in_map (fun b => split_steps (b_members b))). exact Hb. }
  destruct (gen_steps_ok_step _ _ _ _ _ _ E k) as (s & Es); [lia|].
  unfold gen_step in Es. inv_bind Es.
  destruct step as [|a step']; [discriminate|].
  destruct (gen_branches_ok_steps _ _ _ _ _ _ E0 i (split_steps (b_members b)) (a :: step')) as (r' & Er);
    [|exact Hk|discriminate|].
  { cbn [the_jout j_chains]. rewrite nth_error_map, Hi. reflexivity. }
  intros Hn. exact (Render.gen_branch_step_unbalanced _ _ _ _ Hn _ Er).
Qed.

(* C15, refutation direction: a step with a `<<<` that no `>>>` of the same step matches *)
Theorem unmatched_unwrap_is_internal_bug cfg inp b step :
  config_verdict cfg inp = None ->
  In b (i_branches inp) -> In step (split_steps (b_members b)) -> balancedb 0 step = false ->
  exists n, gen cfg inp = InternalBug n.
Proof.
  intros Hv Hb Hs Hbal.
  assert (Hnc : no_cfg (gen cfg inp)).
  { rewrite gen_unfold, Hv. apply no_cfg_gen_output. }
  destruct (no_cfg_cases _ Hnc) as [(e & E)|Hbug]; [|exact Hbug].
  exfalso. pose proof (gen_ok_steps_balanced cfg inp e E b step Hb Hs) as Hn.
  apply nest_some_iff_balanced in Hn. congruence.
Qed.

Print Assumptions wf_parsedb_iff.
Print Assumptions gen_total.
Print Assumptions no_internal_bug.
Print Assumptions unmatched_unwrap_is_internal_bug.

(* ---------------------------------------------------------------------------------------------- *)
(** * Non-vacuity *)

Definition T (s : string) : operand := [TI s].
Definition blk (s : string) : operand := [TG DBrace [TI s]].
Definition act (c : comb) (d : bool) (m : mv) (ops : list operand) : action := mkAction c d m ops.
Definition placeholder : operand := [TP "|" false; TI "__v"; TP "|" false; TI "__v"].

(* three branches, depths 3 / 1 / 2, wrappers (explicitly and implicitly closed, nested), block operands,
   a `let` name, fold with two operands, collect with and without a type, unzip with four types:
     let x = a |> >>> ?> >>> |> {g} <<< |> h ~=> {k} ~^@ {z}, f2 ,
     b => >>> .. len <<< =>[] <-> T1,T2,T3,T4 ,
     {c} ?|> >>> |n> ~=>[Vec<_>] ^^>                                   *)
Definition ex_b0 : branch :=
  mkBranch (Some (T "x", "x"))
    [ act Initial false NoMove [T "a"];
      act Map false Wrap [placeholder];
      act Filter false Wrap [placeholder];
      act Map false NoMove [blk "g"];
      act UNWRAP false Unwrap [];
      act Map false NoMove [T "h"];
      act AndThen true NoMove [blk "k"];
      act Fold true NoMove [blk "z"; T "f2"] ].
Definition ex_b1 : branch :=
  mkBranch None
    [ act Initial false NoMove [T "b"];
      act AndThen false Wrap [placeholder];
      act Dot false NoMove [T "len"];
      act UNWRAP false Unwrap [];
      act Collect false NoMove [];
      act Unzip false NoMove [T "T1"; T "T2"; T "T3"; T "T4"] ].
Definition ex_b2 : branch :=
  mkBranch None
    [ act Initial false NoMove [blk "c"];
      act FilterMap false Wrap [placeholder];
      act Enumerate false NoMove [];
      act Collect true NoMove [T "Vec"];
      act Flatten false NoMove [] ].
Definition ex_input : input :=
  mkInput [ex_b0; ex_b1; ex_b2] (Some (HMap, T "hd")) None (Some (T "my_joiner")) None None.

Example ex_input_wf : wf_parsedb ex_input = true.
Proof. vm_compute. reflexivity. Qed.
Example ex_input_wf' : wf_parsed ex_input.
Proof. apply wf_parsedb_iff. vm_compute. reflexivity. Qed.
Example ex_input_depths : map (fun b => List.length (split_steps (b_members b))) (i_branches ex_input) = [3; 1; 2].
Proof. vm_compute. reflexivity. Qed.
Example ex_input_ok : exists e, gen (mkConfig false true true) ex_input = Ok e.
Proof. vm_compute. eexists. reflexivity. Qed.
(* the hypothesis of no_internal_bug holds, and its conclusion is not due to a rejection *)
Example ex_input_all_try_kinds :
  forallb (fun cfg => match gen cfg ex_input with Ok _ => true | _ => false end)
          [mkConfig false true false; mkConfig false true true; mkConfig true true false; mkConfig true true true] = true.
Proof. vm_compute. reflexivity. Qed.

(* F2 of the pinned tree: `a |> >>> |> f ~|> g <<< |> h` *)
Definition ex_f2 : input :=
  mkInput [ mkBranch None [ act Initial false NoMove [T "a"]; act Map false Wrap [placeholder];
                            act Map false NoMove [T "f"]; act Map true NoMove [T "g"];
                            act UNWRAP false Unwrap []; act Map false NoMove [T "h"] ] ]
          None None None None None.
Example ex_f2_not_wf : wf_parsedb ex_f2 = false.
Proof. vm_compute. reflexivity. Qed.
Example ex_f2_bug : gen (mkConfig false true false) ex_f2 = InternalBug 2.
Proof. vm_compute. reflexivity. Qed.
Example ex_f2_by_theorem : exists n, gen (mkConfig false true false) ex_f2 = InternalBug n.
Proof.
  eapply unmatched_unwrap_is_internal_bug with (b := nth 0 (i_branches ex_f2) (mkBranch None []))
                                               (step := nth 1 (split_steps (b_members (nth 0 (i_branches ex_f2) (mkBranch None [])))) []).
  - vm_compute. reflexivity.
  - vm_compute. left. reflexivity.
  - vm_compute. right. left. reflexivity.
  - vm_compute. reflexivity.
Qed.
