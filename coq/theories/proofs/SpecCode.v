(* The Spec-level walk shared by SpecSpawn.v (events-only user code) and SpecSpawnNested.v (user
   code that may itself spawn threads): everything here is generic in a CLASS OF CODE `cls Q c`
   ("c is admissible code whose results satisfy Q") that contains `Ret`, `Panic`, events other
   than `EThreadName`, and is closed under `bind`.
     1. `dval_okC` / `user_codeC`: the hypothesis on `msem` / `dotsem` / `callsem` / `awaitsem`;
        every piece of a SYNC program of Spec.v outside the thread step is then in the class.
     2. `with_spawn`, `after_sync`, the shapes of `steps` / `step_result`.
     3. the walk: a relation `simr Q c1 c2` between thread code and plain code that is reflexive on
        the class, compatible with `bind`, and holds for the thread step, holds for the whole
        programs `spec (with_spawn true p)` / `spec (with_spawn false p)` (`walk_program`). *)
From Coq Require Import ZArith Lia List Sorted.
From Join Require Import Tok Names Ast Comp Std Denote Spec CompLaws Leaves SpecProps Threads ThreadsProps.
Import ListNotations.

Local Notation top := (fun _ => True).

Record code_class (cls : forall A : Type, (A -> Prop) -> comp A -> Prop) : Prop := {
  cc_ret : forall A (Q : A -> Prop) a, Q a -> cls A Q (Ret a);
  cc_panic : forall A (Q : A -> Prop) n, cls A Q (Panic n);
  cc_vis : forall A (Q : A -> Prop) e k, e <> EThreadName -> (forall v, cls A Q (k v)) -> cls A Q (Vis e k);
  cc_bind : forall A B (Q : A -> Prop) (R : B -> Prop) (c : comp A) (f : A -> comp B),
      cls A Q c -> (forall a, Q a -> cls B R (f a)) -> cls B R (bind c f)
}.

Lemma first_false_in bs : forall ds d, first_false bs ds = Some d -> In d ds.
Proof.
  induction bs as [|[|] bs IH]; intros [|d' ds] d H; cbn in H; try discriminate.
  - right. eauto.
  - injection H as <-. now left.
Qed.

Section NodeInd.
  Variable P : node -> Prop.
  Variable Q : list node -> Prop.
  Hypothesis HA : forall e a, P (NAct e a).
  Hypothesis HW : forall e a inner, Q inner -> P (NWrap e a inner).
  Hypothesis HN : Q [].
  Hypothesis HC : forall x r, P x -> Q r -> Q (x :: r).
  Fixpoint node_nodes_ind (n : node) : P n :=
    match n with
    | NAct e a => HA e a
    | NWrap e a inner =>
        HW e a inner ((fix go (l : list node) : Q l :=
                         match l with [] => HN | x :: r => HC x r (node_nodes_ind x) (go r) end) inner)
    end.
End NodeInd.

(* ================================================================== *)
(** * 1. User code of a class                                          *)
(* ================================================================== *)

Section Values.
  Variable cls : forall A : Type, (A -> Prop) -> comp A -> Prop.
  Notation C := (cls _).

  (* Denotable values whose closures / futures are code of the class.  `DTb` (the item `__tb`, which
     reads the thread name when applied) is not a value user code can hold. *)
  Definition carg_okC (c : carg) : Prop :=
    match c with CV _ => True | CF f => forall vs, C top (f vs) end.
  Definition dval_okC (d : dval) : Prop :=
    match d with
    | DV _ | DBuilder _ | DSpawnTokio => True
    | DF f => forall vs, C top (f vs)
    | DFn f => forall cs, Forall carg_okC cs -> C top (f cs)
    | DFut c => C top c
    | DTb => False
    end.

  (* THE HYPOTHESIS ON USER CODE: methods, field/method tokens, calls and awaits are code of the
     class and hand back such values - PROVIDED the closures they are given are.  (Unconditionally
     it would be unsatisfiable for any `msem` that calls its closure argument, e.g. `map`.) *)
  Record user_codeC (msem : string -> option (list operand) -> dval -> list dval -> comp dval)
                    (dotsem : operand -> list (string * option val) -> dval -> comp dval)
                    (callsem : val -> list dval -> comp dval)
                    (awaitsem : val -> comp val) : Prop := {
    uc_msem : forall m tys recv args, dval_okC recv -> Forall dval_okC args -> C dval_okC (msem m tys recv args);
    uc_dotsem : forall o sn recv, dval_okC recv -> C dval_okC (dotsem o sn recv);
    uc_callsem : forall f args, Forall dval_okC args -> C dval_okC (callsem f args);
    uc_awaitsem : forall v, C top (awaitsem v)
  }.

  Definition st_okC (st : list (option dval)) : Prop :=
    Forall (fun o => match o with Some d => dval_okC d | None => True end) st.

  Lemma set1_ok st b d : st_okC st -> dval_okC d -> st_okC (set1 st b d).
  Proof.
    intros Hst Hd. revert b. induction Hst as [|o st Ho Hst IH]; intros [|b]; cbn; constructor; auto.
    apply IH.
  Qed.

  Lemma set_all_ok st bs ds : st_okC st -> Forall dval_okC ds -> st_okC (set_all st bs ds).
  Proof.
    intros Hst Hds. revert st bs Hst. induction Hds as [|d ds Hd Hds IH]; intros st [|b bs] Hst; cbn; auto.
    apply IH. apply set1_ok; assumption.
  Qed.
End Values.

Section UserCode.
  Variable cls : forall A : Type, (A -> Prop) -> comp A -> Prop.
  Hypothesis CC : code_class cls.
  Notation C := (cls _).
  Notation dval_ok := (dval_okC cls).
  Notation carg_ok := (carg_okC cls).
  Notation st_ok := (st_okC cls).

  Variable msem : string -> option (list operand) -> dval -> list dval -> comp dval.
  Variable dotsem : operand -> list (string * option val) -> dval -> comp dval.
  Variable callsem : val -> list dval -> comp dval.
  Variable awaitsem : val -> comp val.
  Hypothesis HU : user_codeC cls msem dotsem callsem awaitsem.

  Lemma c_ret {A} (Q : A -> Prop) a : Q a -> C Q (Ret a).
  Proof. apply (cc_ret _ CC). Qed.
  Lemma c_panic {A} (Q : A -> Prop) n : C Q (Panic n).
  Proof. apply (cc_panic _ CC). Qed.
  Lemma c_vis {A} (Q : A -> Prop) e k : e <> EThreadName -> (forall v, C Q (k v)) -> C Q (Vis e k).
  Proof. apply (cc_vis _ CC). Qed.
  Lemma c_bind {A B} (Q : A -> Prop) (R : B -> Prop) (c : comp A) (f : A -> comp B) :
    C Q c -> (forall a, Q a -> C R (f a)) -> C R (bind c f).
  Proof. apply (cc_bind _ CC). Qed.
  Lemma c_mapM {A B} (Q : B -> Prop) (f : A -> comp B) (l : list A) :
    (forall x, In x l -> C Q (f x)) -> C (Forall Q) (mapM f l).
  Proof.
    induction l as [|x l IH]; intros H; cbn [mapM].
    - apply c_ret. constructor.
    - eapply c_bind; [apply H; now left|]. intros y Hy.
      eapply c_bind; [apply IH; intros; apply H; now right|]. intros ys Hys. apply c_ret. constructor; assumption.
  Qed.

  Ltac fin := first [ exact I | apply c_panic | apply c_ret; first [exact I | assumption] ].

  Notation snapshot := (list (string * option val)).

  Lemma cls_to_val d : C top (to_val d).
  Proof. destruct d; cbn; fin. Qed.

  Lemma all_cargs_ok ds cs : all_cargs ds = Some cs -> Forall dval_ok ds -> Forall carg_ok cs.
  Proof.
    revert cs. induction ds as [|d ds IH]; intros cs E Hds; cbn in E.
    - injection E as <-. constructor.
    - inversion Hds as [|? ? Hd Hds']; subst.
      destruct d; try discriminate; destruct (all_cargs ds) as [cs'|]; try discriminate;
        injection E as <-; constructor; auto.
  Qed.

  Lemma cls_apply f ds : dval_ok f -> Forall dval_ok ds -> C dval_ok (apply callsem f ds).
  Proof.
    intros Hf Hds. destruct f as [fv|g|g|c|name| |]; cbn [apply]; try fin.
    - destruct (all_vals ds) as [vs|]; [|apply (uc_callsem _ _ _ _ _ HU); assumption].
      apply c_vis; [discriminate|]. intros v. fin.
    - destruct (all_vals ds) as [vs|]; [|fin].
      eapply c_bind; [apply Hf|]. intros v _. fin.
    - destruct (all_cargs ds) as [cs|] eqn:E; [|fin].
      eapply c_bind; [apply Hf; eapply all_cargs_ok; eauto|]. intros v _. fin.
    - contradiction.
    - destruct ds as [|[v|g|g|c|name| |] [|]]; try fin.
      apply c_ret. inversion Hds; subst. assumption.
  Qed.

  Lemma cls_inspect_sem f r : dval_ok f -> dval_ok r -> C dval_ok (inspect_sem callsem f r).
  Proof.
    intros Hf Hr. unfold inspect_sem.
    destruct f as [fv|g|g|c|name| |]; try fin; destruct r as [v|g'|g'|c'|name'| |]; try fin;
      (eapply c_bind; [apply cls_apply; [assumption|constructor; [assumption|constructor]]|]; intros; fin).
  Qed.

  Lemma cls_eval_args (sn : snapshot) cp b e c ops : forall i,
    C (Forall dval_ok) (eval_args sn cp b e i c ops).
  Proof.
    induction ops as [|o r IH]; intros i; cbn [eval_args]; [apply c_ret; constructor|].
    eapply c_bind with (Q := dval_ok).
    - destruct (hoistable c o).
      + destruct (lookup_cap cp (b, e, i)); fin.
      + apply c_vis; [discriminate|]. intros v. fin.
    - intros d Hd. eapply c_bind; [apply IH|]. intros ds Hds. apply c_ret. constructor; assumption.
  Qed.

  Definition wrap_clo async (sn : snapshot) cp b inner : dval :=
    DF (fun vs => match vs with
                  | [v] => let! d := sem_nodes msem dotsem callsem async sn cp b inner (Ret (DV v)) in to_val d
                  | _ => Panic P_ILLTYPED end).

  Lemma sem_node_wrap async (sn : snapshot) cp b e a inner recv :
    sem_node msem dotsem callsem async sn cp b (NWrap e a inner) recv =
    match a_comb a with
    | Inspect => if async then let! r := recv in msem "inspect" None r [wrap_clo async sn cp b inner]
                 else let! r := recv in inspect_sem callsem (wrap_clo async sn cp b inner) r
    | c => let! r := recv in msem (doc_method c) None r [wrap_clo async sn cp b inner]
    end.
  Proof. reflexivity. Qed.

  Ltac one_arg ds := destruct ds as [|?d [|]]; try fin.

  Lemma cls_sem_node async (sn : snapshot) cp b :
    forall n recv, C dval_ok recv -> C dval_ok (sem_node msem dotsem callsem async sn cp b n recv).
  Proof.
    intros n.
    induction n as [e a|e a inner IHinner| |x t IHx IHt] using node_nodes_ind
      with (Q := fun l => forall recv, C dval_ok recv ->
                   C dval_ok (sem_nodes msem dotsem callsem async sn cp b l recv));
      intros recv Hrecv.
    - cbn [sem_node].
      pose proof (cls_eval_args sn cp b e (a_comb a) (exprs_of a) 0) as Hargs.
      set (xs := exprs_of a) in *. clearbody xs. set (ty := types_of a). clearbody ty.
      set (aops := a_ops a). clearbody aops.
      destruct (a_comb a);
        try (eapply c_bind; [exact Hrecv|]; intros r Hr; eapply c_bind; [exact Hargs|];
             intros ds Hds; apply (uc_msem _ _ _ _ _ HU); assumption).
      + (* Dot *) destruct aops as [|o [|]]; try fin.
        eapply c_bind; [exact Hrecv|]. intros r Hr. apply (uc_dotsem _ _ _ _ _ HU), Hr.
      + (* Inspect *) destruct async.
        * eapply c_bind; [exact Hrecv|]; intros r Hr; eapply c_bind; [exact Hargs|].
          intros ds Hds. one_arg ds. apply (uc_msem _ _ _ _ _ HU); assumption.
        * eapply c_bind; [exact Hargs|]. intros ds Hds. one_arg ds.
          eapply c_bind; [exact Hrecv|]; intros r Hr. apply cls_inspect_sem; [|assumption].
          inversion Hds; assumption.
      + (* Then *) eapply c_bind; [exact Hargs|]. intros ds Hds. one_arg ds.
        eapply c_bind; [exact Hrecv|]; intros r Hr. apply cls_apply; [inversion Hds; assumption|].
        constructor; [assumption|constructor].
      + (* Initial *) eapply c_bind; [exact Hargs|]. intros ds Hds. one_arg ds. apply c_ret. inversion Hds; assumption.
      + (* UNWRAP *) fin.
    - rewrite sem_node_wrap.
      assert (Hclo : dval_ok (wrap_clo async sn cp b inner)).
      { intros [|v [|]]; try fin.
        eapply c_bind; [apply IHinner; fin|]. intros d _. apply cls_to_val. }
      destruct (a_comb a); try destruct async;
        (eapply c_bind; [exact Hrecv|]; intros r Hr;
         first [apply (uc_msem _ _ _ _ _ HU); [exact Hr|constructor; [exact Hclo|constructor]]
               | apply cls_inspect_sem; assumption]).
    - exact Hrecv.
    - cbn [sem_nodes]. apply IHt. apply IHx, Hrecv.
  Qed.

  Lemma cls_sem_nodes async (sn : snapshot) cp b l :
    forall recv, C dval_ok recv -> C dval_ok (sem_nodes msem dotsem callsem async sn cp b l recv).
  Proof.
    induction l as [|x t IH]; intros recv H; [exact H|].
    cbn [sem_nodes]. apply IH. apply cls_sem_node, H.
  Qed.

  (* the captures *)
  Lemma cls_capture_ops (sn : snapshot) b e c ops : forall i, C top (capture_ops sn b e i c ops).
  Proof.
    induction ops as [|o r IH]; intros i; cbn [capture_ops]; [fin|].
    destruct (hoistable c o); [|apply IH].
    apply c_vis; [discriminate|]. intros v. eapply c_bind; [apply IH|]. intros; fin.
  Qed.

  Lemma capture_node_wrap (sn : snapshot) b e a inner :
    capture_node sn b (NWrap e a inner) = capture_nodes sn b inner.
  Proof.
    cbn [capture_node]. induction inner as [|x r IH]; [reflexivity|].
    cbn [capture_nodes]. rewrite <- IH. reflexivity.
  Qed.

  Lemma cls_capture_node (sn : snapshot) b n : C top (capture_node sn b n).
  Proof.
    induction n as [e a|e a inner IHinner| |x t IHx IHt] using node_nodes_ind
      with (Q := fun l => C top (capture_nodes sn b l)).
    - apply cls_capture_ops.
    - rewrite capture_node_wrap. exact IHinner.
    - fin.
    - cbn [capture_nodes]. eapply c_bind; [exact IHx|]. intros c1 _.
      eapply c_bind; [exact IHt|]. intros c2 _. fin.
  Qed.

  Lemma cls_capture_nodes (sn : snapshot) b l : C top (capture_nodes sn b l).
  Proof.
    induction l as [|x t IH]; [fin|]. cbn [capture_nodes].
    eapply c_bind; [apply cls_capture_node|]. intros c1 _.
    eapply c_bind; [exact IH|]. intros c2 _. fin.
  Qed.

  Lemma cls_std_map d f : dval_ok d -> (forall vs, C top (f vs)) -> C dval_ok (std_map d f).
  Proof.
    intros Hd Hf. destruct d as [v|g|g|c|name| |]; try fin.
    - destruct v; try fin; cbn; (eapply c_bind; [apply Hf|]; intros; fin).
    - apply c_ret. cbn. eapply c_bind; [exact Hd|]. intros v _. apply Hf.
  Qed.

  Lemma cls_std_and_then d f : dval_ok d -> (forall vs, C top (f vs)) -> C dval_ok (std_and_then awaitsem d f).
  Proof.
    intros Hd Hf. destruct d as [v|g|g|c|name| |]; try fin.
    - destruct v; try fin; cbn; (eapply c_bind; [apply Hf|]; intros; fin).
    - apply c_ret. cbn. eapply c_bind; [exact Hd|]. intros r _. destruct r; try fin.
      eapply c_bind; [apply Hf|]. intros fut _. apply (uc_awaitsem _ _ _ _ _ HU).
  Qed.

  Lemma cls_vals_tuple ds : C dval_ok (Spec.vals_tuple ds).
  Proof. unfold Spec.vals_tuple. destruct (all_vals ds); fin. Qed.

  Lemma cls_extract acts sr : dval_ok sr -> C (Forall dval_ok) (extract acts sr).
  Proof.
    intros Hsr. unfold extract.
    assert (Hm : C (Forall dval_ok)
                   (match sr with
                    | DV (VTuple vs) => if Nat.eqb (List.length vs) (List.length acts) then Ret (map DV vs) else Panic P_ILLTYPED
                    | _ => Panic P_ILLTYPED end)).
    { destruct sr as [v|g|g|c|name| |]; try fin. destruct v; try fin.
      destruct (Nat.eqb _ _); [|fin]. apply c_ret. apply Forall_forall. intros d Hd.
      apply in_map_iff in Hd. destruct Hd as (v & <- & _). fin. }
    destruct acts as [|a [|a' acts']]; try exact Hm. apply c_ret. constructor; [assumption|constructor].
  Qed.

  Lemma cls_classify d : C top (classify d).
  Proof. destruct d as [v|g|g|c|name| |]; try fin. destruct v; fin. Qed.

  (* ---- one program ---- *)
  Section Prog.
    Variable p : sprog.
    Hypothesis Hsync : is_async (sp_cfg p) = false.

    Lemma cls_get st b : st_ok st -> C dval_ok (get st b).
    Proof.
      intros Hst. unfold get.
      assert (H : match nth b st None with Some d => dval_ok d | None => True end).
      { revert b. induction Hst as [|o st Ho Hst IH]; intros [|b]; cbn; auto. apply IH. }
      destruct (nth b st None); [apply c_ret, H|fin].
    Qed.

    Lemma cls_chain sn cp k st b : st_ok st -> C dval_ok (chain msem dotsem callsem p sn cp k st b).
    Proof.
      intros Hst. unfold chain. apply cls_sem_nodes. unfold start. rewrite Hsync. apply cls_get, Hst.
    Qed.

    Lemma cls_captures sn k acts : C top (captures p sn k acts).
    Proof.
      induction acts as [|b r IH]; [fin|]. cbn [captures].
      eapply c_bind; [apply cls_capture_nodes|]. intros c1 _.
      eapply c_bind; [exact IH|]. intros c2 _. fin.
    Qed.

    Lemma cls_final_tuple st : st_ok st -> C dval_ok (final_tuple p st).
    Proof.
      intros Hst. unfold final_tuple.
      eapply c_bind; [apply c_mapM; intros b _; apply cls_get, Hst|].
      intros ds Hds. destruct ds as [|d [|d' ds']]; try apply cls_vals_tuple.
      apply c_ret. inversion Hds; assumption.
    Qed.

    Lemma cls_transpose bs : forall st, st_ok st -> C dval_ok (transpose awaitsem p bs st).
    Proof.
      induction bs as [|b r IH]; intros st Hst; [fin|].
      cbn [transpose]. destruct r as [|b' r'].
      - eapply c_bind; [apply cls_get, Hst|]. intros d Hd.
        apply cls_std_map; [exact Hd|]. intros [|v [|]]; try fin.
        eapply c_bind; [apply cls_final_tuple, set1_ok; [exact Hst|fin]|]. intros t _. apply cls_to_val.
      - eapply c_bind; [apply cls_get, Hst|]. intros d Hd.
        apply cls_std_and_then; [exact Hd|]. intros [|v [|]]; try fin.
        eapply c_bind; [apply IH, set1_ok; [exact Hst|fin]|]. intros t _. apply cls_to_val.
    Qed.

    Lemma cls_call_handler hv rs : dval_ok hv -> dval_ok rs -> C dval_ok (call_handler callsem p hv rs).
    Proof.
      intros Hh Hrs. unfold call_handler.
      eapply c_bind with (Q := Forall dval_ok).
      - assert (Hm : C (Forall dval_ok)
                       (match rs with
                        | DV (VTuple vs) => if Nat.eqb (List.length vs) (List.length (sp_trees p)) then Ret (map DV vs) else Panic P_ILLTYPED
                        | _ => Panic P_ILLTYPED end)).
        { destruct rs as [v|g|g|c|name| |]; try fin. destruct v; try fin.
          destruct (Nat.eqb _ _); [|fin]. apply c_ret. apply Forall_forall. intros d Hd.
          apply in_map_iff in Hd. destruct Hd as (v & <- & _). fin. }
        destruct (List.length (sp_trees p)) as [|[|m]]; try exact Hm.
        apply c_ret. constructor; [assumption|constructor].
      - intros args Hargs. apply cls_apply; assumption.
    Qed.

    Lemma cls_handle_results ho rs :
      match ho with Some (_, hv) => dval_ok hv | None => True end -> dval_ok rs ->
      C dval_ok (handle_results callsem awaitsem p ho rs).
    Proof.
      intros Hh Hrs. unfold handle_results. rewrite Hsync.
      assert (Hclo : forall hv, dval_ok hv ->
                forall vs : list val, C top (match vs with
                                                 | [v] => let! d := call_handler callsem p hv (DV v) in to_val d
                                                 | _ => Panic P_ILLTYPED end)).
      { intros hv Hhv [|v [|]]; try fin.
        eapply c_bind; [apply cls_call_handler; [exact Hhv|fin]|]. intros d _. apply cls_to_val. }
      destruct ho as [[[| |] hv]|]; [| | |apply c_ret, Hrs].
      - apply cls_std_map; auto.
      - eapply c_bind; [apply cls_call_handler; assumption|]. intros d Hd. apply c_ret, Hd.
      - apply cls_std_and_then; auto.
    Qed.
  End Prog.
End UserCode.

(* ================================================================== *)
(** * 2. The shape of the sync kinds                                   *)
(* ================================================================== *)

(* p with the flag `is_spawn` set to s: `join_spawn!` <-> `join!`, `try_join_spawn!` <-> `try_join!` *)
Definition with_spawn (s : bool) (p : sprog) : sprog :=
  mkSprog (mkConfig (is_async (sp_cfg p)) (is_try (sp_cfg p)) s) (sp_names p) (sp_trees p) (sp_handler p).

(* what a sync kind does with the result of step k (`rec` = the steps from k+1 on) *)
Definition after_sync (awaitsem : val -> comp val) (p : sprog) (rec : list (option dval) -> comp dval)
           (last : bool) (k : nat) (st : list (option dval)) (sr : dval) : comp dval :=
  let acts := actives p k in
  let! ds := extract acts sr in
  let st' := set_all st acts ds in
  if negb (is_try (sp_cfg p)) then (if last then final_tuple p st' else rec st')
  else if last then transpose awaitsem p (seq 0 (List.length (sp_trees p))) st'
       else let! oks := mapM classify ds in
            match first_false oks ds with
            | Some d => std_map d (fun _ => Panic P_UNREACHABLE)
            | None => rec st'
            end.

Lemma steps_sync msem dotsem callsem awaitsem (p : sprog) fuel k st :
  is_async (sp_cfg p) = false ->
  steps msem dotsem callsem awaitsem p (S fuel) k st =
  (let! sr := step_result msem dotsem callsem awaitsem p k st in
   after_sync awaitsem p (steps msem dotsem callsem awaitsem p fuel (S k)) (Nat.eqb fuel 0) k st sr).
Proof.
  intros Ha. cbn [steps]. rewrite Ha. unfold after_sync.
  destruct (is_try (sp_cfg p)); cbn [negb]; reflexivity.
Qed.

Lemma step_result_single msem dotsem callsem awaitsem (p : sprog) k st :
  is_async (sp_cfg p) = false -> Nat.ltb 1 (List.length (actives p k)) = false ->
  step_result msem dotsem callsem awaitsem p k st =
  (let! cp := captures p (snap_of p st) k (actives p k) in
   match actives p k with
   | [b] => chain msem dotsem callsem p (snap_of p st) cp k st b
   | _ => Panic P_STUCK
   end).
Proof. intros Ha Hm. unfold step_result. rewrite Ha, Hm, Bool.andb_false_r. reflexivity. Qed.

(* `SpecThreads.spec_spawn_step_is_thread_step`, by conversion (no extensionality) *)
Lemma step_result_spawn_multi msem dotsem callsem awaitsem (p : sprog) k st :
  is_async (sp_cfg p) = false -> is_spawn (sp_cfg p) = true -> Nat.ltb 1 (List.length (actives p k)) = true ->
  step_result msem dotsem callsem awaitsem p k st =
  std_thread_step (actives p k) (captures p (snap_of p st) k (actives p k))
                  (fun cp b => let! d := chain msem dotsem callsem p (snap_of p st) cp k st b in to_val d).
Proof. intros Ha Hs Hm. unfold step_result. rewrite Ha, Hs, Hm. reflexivity. Qed.

Lemma step_result_plain_multi msem dotsem callsem awaitsem (p : sprog) k st :
  is_async (sp_cfg p) = false -> is_spawn (sp_cfg p) = false -> Nat.ltb 1 (List.length (actives p k)) = true ->
  step_result msem dotsem callsem awaitsem p k st =
  (let! cp := captures p (snap_of p st) k (actives p k) in
   let! ds := mapM (chain msem dotsem callsem p (snap_of p st) cp k st) (actives p k) in
   Spec.vals_tuple ds).
Proof. intros Ha Hs Hm. unfold step_result. rewrite Ha, Hs, Hm. reflexivity. Qed.
(* ================================================================== *)
(** * 3. The walk through `step_result`, `steps`, `run_body`, `spec`    *)
(* ================================================================== *)

Section Walk.
  Variable cls : forall A : Type, (A -> Prop) -> comp A -> Prop.
  Hypothesis CC : code_class cls.
  Notation dval_ok := (dval_okC cls).
  Notation st_ok := (st_okC cls).

  (* thread code (left) against plain code (right) *)
  Variable simr : forall A : Type, (A -> Prop) -> comp A -> comp A -> Prop.
  Hypothesis simr_refl : forall A (Q : A -> Prop) c, cls A Q c -> simr A Q c c.
  Hypothesis simr_bind : forall A B (Q : A -> Prop) (R : B -> Prop) c1 c2 f1 f2,
      simr A Q c1 c2 -> (forall a, Q a -> simr B R (f1 a) (f2 a)) -> simr B R (bind c1 f1) (bind c2 f2).
  (* THE STEP: spawn one named thread per branch and join them in order / run the chains in place *)
  Hypothesis simr_thread_step : forall (C : Type) acts (caps : comp C) (child : C -> nat -> comp dval),
      cls C top caps -> (forall cp b, cls dval dval_ok (child cp b)) ->
      simr dval dval_ok
           (std_thread_step acts caps (fun cp b => let! d := child cp b in to_val d))
           (let! cp := caps in let! ds := mapM (child cp) acts in Spec.vals_tuple ds).

  Variable msem : string -> option (list operand) -> dval -> list dval -> comp dval.
  Variable dotsem : operand -> list (string * option val) -> dval -> comp dval.
  Variable callsem : val -> list dval -> comp dval.
  Variable awaitsem : val -> comp val.
  Hypothesis HU : user_codeC cls msem dotsem callsem awaitsem.
  Variable p : sprog.
  Hypothesis Hsync : is_async (sp_cfg p) = false.

  Notation ps := (with_spawn true p).
  Notation pp := (with_spawn false p).
  Notation Steps := (steps msem dotsem callsem awaitsem).
  Notation Step_result := (step_result msem dotsem callsem awaitsem).
  Notation Chain := (chain msem dotsem callsem).

  Lemma simr_eq {A} (Q : A -> Prop) (c1 c2 : comp A) : c1 = c2 -> cls A Q c2 -> simr A Q c1 c2.
  Proof. intros ->. apply simr_refl. Qed.

  Lemma walk_step_result k st : st_ok st -> simr _ dval_ok (Step_result ps k st) (Step_result pp k st).
  Proof.
    intros Hst. destruct (Nat.ltb 1 (List.length (actives pp k))) eqn:Hm.
    - rewrite (step_result_spawn_multi msem dotsem callsem awaitsem ps k st Hsync eq_refl Hm).
      rewrite (step_result_plain_multi msem dotsem callsem awaitsem pp k st Hsync eq_refl Hm).
      refine (simr_thread_step _ (actives pp k) (captures pp (snap_of pp st) k (actives pp k))
                               (fun cp b => Chain pp (snap_of pp st) cp k st b) _ _).
      + apply (cls_captures cls CC).
      + intros cp b. eapply cls_chain; eauto.
    - rewrite (step_result_single msem dotsem callsem awaitsem ps k st Hsync Hm).
      rewrite (step_result_single msem dotsem callsem awaitsem pp k st Hsync Hm).
      apply simr_eq; [reflexivity|].
      eapply (cc_bind _ CC); [apply (cls_captures cls CC)|]. intros cp _.
      destruct (actives pp k) as [|b [|]]; try apply (cc_panic _ CC). eapply cls_chain; eauto.
  Qed.

  Lemma walk_after (rec1 rec2 : list (option dval) -> comp dval) last k st sr :
    st_ok st -> dval_ok sr -> (forall st', st_ok st' -> simr _ dval_ok (rec1 st') (rec2 st')) ->
    simr _ dval_ok (after_sync awaitsem pp rec1 last k st sr) (after_sync awaitsem pp rec2 last k st sr).
  Proof.
    intros Hst Hsr Hrec. unfold after_sync.
    eapply simr_bind with (Q := Forall dval_ok); [apply simr_refl; eapply cls_extract; eauto|]. intros ds Hds.
    assert (Hst' : st_ok (set_all st (actives pp k) ds)) by (apply set_all_ok; assumption).
    destruct (negb (is_try (sp_cfg pp))).
    - destruct last; [apply simr_refl; eapply cls_final_tuple; eauto|apply Hrec, Hst'].
    - destruct last; [apply simr_refl; eapply cls_transpose; eauto|].
      eapply simr_bind; [apply simr_refl, (c_mapM cls CC) with (Q := top); intros; eapply cls_classify; eauto|]. intros oks _.
      destruct (first_false oks ds) as [d|] eqn:E; [|apply Hrec, Hst'].
      apply simr_refl. eapply cls_std_map; eauto; [|intros; apply (cc_panic _ CC)].
      apply first_false_in in E. rewrite Forall_forall in Hds. auto.
  Qed.

  Lemma walk_steps fuel : forall k st, st_ok st -> simr _ dval_ok (Steps ps fuel k st) (Steps pp fuel k st).
  Proof.
    induction fuel as [|fuel IH]; intros k st Hst; [apply simr_refl, (cc_panic _ CC)|].
    rewrite (steps_sync msem dotsem callsem awaitsem ps fuel k st Hsync).
    rewrite (steps_sync msem dotsem callsem awaitsem pp fuel k st Hsync).
    eapply simr_bind; [apply walk_step_result, Hst|]. intros sr Hsr.
    exact (walk_after _ _ _ k st sr Hst Hsr (fun st' H => IH (S k) st' H)).
  Qed.

  Lemma spec_sync s : spec msem dotsem callsem awaitsem (with_spawn s p) = run_body msem dotsem callsem awaitsem (with_spawn s p).
  Proof. unfold spec. cbn [with_spawn sp_cfg is_async]. rewrite Hsync. reflexivity. Qed.

  Lemma walk_spec :
    simr _ dval_ok (spec msem dotsem callsem awaitsem ps) (spec msem dotsem callsem awaitsem pp).
  Proof.
    rewrite !spec_sync. unfold run_body.
    eapply simr_bind with (Q := fun ho : option (hkind * dval) => match ho with Some (_, hv) => dval_ok hv | None => True end).
    - apply simr_eq; [reflexivity|]. cbn [with_spawn sp_handler].
      destruct (sp_handler p) as [[hk o]|]; [|apply (cc_ret _ CC); exact I].
      apply (cc_vis _ CC); [discriminate|]. intros v. apply (cc_ret _ CC). exact I.
    - intros ho Hho. eapply simr_bind.
      + apply walk_steps. apply Forall_forall. intros o Ho. apply in_map_iff in Ho.
        destruct Ho as (x & <- & _). exact I.
      + intros rs Hrs. apply simr_eq; [reflexivity|]. eapply cls_handle_results; eauto.
  Qed.

  (* the caller's whole program: the macro invocation, delivered as a value *)
  Lemma walk_program :
    simr _ top (let! d := spec msem dotsem callsem awaitsem ps in to_val d)
               (let! d := spec msem dotsem callsem awaitsem pp in to_val d).
  Proof. eapply simr_bind; [apply walk_spec|]. intros d _. apply simr_refl. eapply cls_to_val; eauto. Qed.
End Walk.

(* ================================================================== *)
(** * 4. The same walk, knowing WHICH branches a thread step runs       *)
(* ================================================================== *)

(* the active branches of a step: branch indices below the number of branches, strictly increasing *)
Lemma actives_lt (p : sprog) k : Forall (fun b => b < List.length (sp_trees p)) (actives p k).
Proof.
  unfold actives. apply Forall_forall. intros b Hb. apply filter_In in Hb. destruct Hb as [Hb _].
  apply in_seq in Hb. lia.
Qed.

Lemma filter_seq_sorted (f : nat -> bool) len : forall start, Sorted.StronglySorted lt (filter f (seq start len)).
Proof.
  induction len as [|len IH]; intros start; cbn [seq filter]; [constructor|].
  destruct (f start); [|apply IH]. constructor; [apply IH|].
  apply Forall_forall. intros b Hb. apply filter_In in Hb. destruct Hb as [Hb _]. apply in_seq in Hb. lia.
Qed.

Lemma actives_sorted (p : sprog) k : Sorted.StronglySorted lt (actives p k).
Proof. unfold actives. apply filter_seq_sorted. Qed.

(* `walk_program` where the hypothesis on the thread step may use a property `okacts` of the list of
   branches that holds of every `actives p k` (e.g. `actives_lt`, `actives_sorted`) *)
Section WalkActs.
  Variable cls : forall A : Type, (A -> Prop) -> comp A -> Prop.
  Hypothesis CC : code_class cls.
  Notation dval_ok := (dval_okC cls).
  Notation st_ok := (st_okC cls).

  Variable simr : forall A : Type, (A -> Prop) -> comp A -> comp A -> Prop.
  Hypothesis simr_refl : forall A (Q : A -> Prop) c, cls A Q c -> simr A Q c c.
  Hypothesis simr_bind : forall A B (Q : A -> Prop) (R : B -> Prop) c1 c2 f1 f2,
      simr A Q c1 c2 -> (forall a, Q a -> simr B R (f1 a) (f2 a)) -> simr B R (bind c1 f1) (bind c2 f2).
  Variable okacts : list nat -> Prop.
  Hypothesis simr_thread_step : forall (C : Type) acts (caps : comp C) (child : C -> nat -> comp dval),
      okacts acts -> cls C top caps -> (forall cp b, cls dval dval_ok (child cp b)) ->
      simr dval dval_ok
           (std_thread_step acts caps (fun cp b => let! d := child cp b in to_val d))
           (let! cp := caps in let! ds := mapM (child cp) acts in Spec.vals_tuple ds).

  Variable msem : string -> option (list operand) -> dval -> list dval -> comp dval.
  Variable dotsem : operand -> list (string * option val) -> dval -> comp dval.
  Variable callsem : val -> list dval -> comp dval.
  Variable awaitsem : val -> comp val.
  Hypothesis HU : user_codeC cls msem dotsem callsem awaitsem.
  Variable p : sprog.
  Hypothesis Hsync : is_async (sp_cfg p) = false.
  Hypothesis okacts_actives : forall k, okacts (actives p k).

  Notation ps := (with_spawn true p).
  Notation pp := (with_spawn false p).
  Notation Steps := (steps msem dotsem callsem awaitsem).
  Notation Step_result := (step_result msem dotsem callsem awaitsem).
  Notation Chain := (chain msem dotsem callsem).

  Lemma walkA_step_result k st : st_ok st -> simr _ dval_ok (Step_result ps k st) (Step_result pp k st).
  Proof.
    intros Hst. destruct (Nat.ltb 1 (List.length (actives pp k))) eqn:Hm.
    - rewrite (step_result_spawn_multi msem dotsem callsem awaitsem ps k st Hsync eq_refl Hm).
      rewrite (step_result_plain_multi msem dotsem callsem awaitsem pp k st Hsync eq_refl Hm).
      refine (simr_thread_step _ (actives pp k) (captures pp (snap_of pp st) k (actives pp k))
                               (fun cp b => Chain pp (snap_of pp st) cp k st b) _ _ _).
      + exact (okacts_actives k).
      + apply (cls_captures cls CC).
      + intros cp b. eapply cls_chain; eauto.
    - rewrite (step_result_single msem dotsem callsem awaitsem ps k st Hsync Hm).
      rewrite (step_result_single msem dotsem callsem awaitsem pp k st Hsync Hm).
      apply simr_refl.
      eapply (cc_bind _ CC); [apply (cls_captures cls CC)|]. intros cp _.
      destruct (actives pp k) as [|b [|]]; try apply (cc_panic _ CC). eapply cls_chain; eauto.
  Qed.

  Lemma walkA_steps fuel : forall k st, st_ok st -> simr _ dval_ok (Steps ps fuel k st) (Steps pp fuel k st).
  Proof.
    induction fuel as [|fuel IH]; intros k st Hst; [apply simr_refl, (cc_panic _ CC)|].
    rewrite (steps_sync msem dotsem callsem awaitsem ps fuel k st Hsync).
    rewrite (steps_sync msem dotsem callsem awaitsem pp fuel k st Hsync).
    eapply simr_bind; [apply walkA_step_result, Hst|]. intros sr Hsr.
    exact (walk_after cls CC simr simr_refl simr_bind msem dotsem callsem awaitsem HU p _ _ _ k st sr Hst Hsr
                      (fun st' H => IH (S k) st' H)).
  Qed.

  Lemma walkA_spec :
    simr _ dval_ok (spec msem dotsem callsem awaitsem ps) (spec msem dotsem callsem awaitsem pp).
  Proof.
    rewrite !(spec_sync msem dotsem callsem awaitsem p Hsync). unfold run_body.
    eapply simr_bind with (Q := fun ho : option (hkind * dval) => match ho with Some (_, hv) => dval_ok hv | None => True end).
    - apply simr_refl. cbn [with_spawn sp_handler].
      destruct (sp_handler p) as [[hk o]|]; [|apply (cc_ret _ CC); exact I].
      apply (cc_vis _ CC); [discriminate|]. intros v. apply (cc_ret _ CC). exact I.
    - intros ho Hho. eapply simr_bind.
      + apply walkA_steps. apply Forall_forall. intros o Ho. apply in_map_iff in Ho.
        destruct Ho as (x & <- & _). exact I.
      + intros rs Hrs. apply simr_refl. eapply cls_handle_results; eauto.
  Qed.

  Lemma walkA_program :
    simr _ top (let! d := spec msem dotsem callsem awaitsem ps in to_val d)
               (let! d := spec msem dotsem callsem awaitsem pp in to_val d).
  Proof. eapply simr_bind; [apply walkA_spec|]. intros d _. apply simr_refl. eapply cls_to_val; eauto. Qed.
End WalkActs.
