(* C16 on the GENERATED code: the facts proved on the reference semantics with options (SpecOptsProps.v)
   transported to `den (gen cfg inp)` through RefineOpts.gen_refines_spec_opts - for every option setting. *)
From Coq Require Import ZArith Lia.
From Join Require Import Tok Names Ast Ir Gen Comp Std Denote Spec SpecOpts NamesInj CompLaws Render.
From Join Require Leaves.
From Join Require Import SpecOptsProps.
From Join Require Import RefineBase RefineChain RefineProg RefineSteps RefineTop RefineCorollaries RefineOpts.

Section CorollariesOpts.
  Variable msem : string -> option (list operand) -> dval -> list dval -> comp dval.
  Variable dotsem : operand -> list (string * option val) -> dval -> comp dval.
  Variable callsem : val -> list dval -> comp dval.
  Variable awaitsem : val -> comp val.

  Notation steps_opts := (steps_opts msem dotsem callsem awaitsem).
  Notation step_result_opts := (step_result_opts msem dotsem callsem awaitsem).
  Notation after_step := (after_step msem dotsem callsem awaitsem).
  Notation joiner_input := (joiner_input msem dotsem callsem).
  Notation D inp := (den (user_names inp) msem dotsem callsem awaitsem).

  (* a sync macro without handler is its steps; an async one is the future of its steps *)
  Lemma spec_opts_no_handler so sp : sp_handler sp = None ->
    spec_opts msem dotsem callsem awaitsem so sp =
    if is_async (sp_cfg sp)
    then Ret (DFut (let! d := steps_opts so sp (max_depth sp) 0 (init_state sp) in to_val d))
    else steps_opts so sp (max_depth sp) 0 (init_state sp).
  Proof.
    intros Hh. unfold spec_opts, run_body_opts. rewrite Hh. cbn [bind]. unfold handle_results.
    fold (init_state sp). rewrite bind_ret_r. reflexivity.
  Qed.

  Lemma max_depth_pos cfg inp e sp : wf_opts inp -> gen cfg inp = Ok e -> prepare cfg inp = Some sp ->
    1 <= max_depth sp.
  Proof.
    intros Hwf Hg Hp.
    destruct (gen_inv cfg inp e Hg) as (fcp & j & Hj & _ & _).
    pose proof (rel_of_gen_opts cfg inp fcp j sp Hwf Hj Hp) as HR.
    pose proof (rel_n_pos _ _ _ HR) as Hpos. rewrite <- (rel_n_trees _ _ _ HR) in Hpos.
    pose proof (prepare_depth_pos cfg inp sp Hp 0 Hpos) as Hd.
    pose proof (SpecProps.depth_le_max sp 0 Hpos). lia.
  Qed.

  (* the generated code of a sync macro without handler denotes the steps of the reference semantics with the
     resolved options *)
  Theorem den_gen_is_steps_opts cfg inp e sp :
    is_async cfg = false -> i_handler inp = None ->
    wf_opts inp -> gen cfg inp = Ok e -> prepare cfg inp = Some sp ->
    D inp e empty_env = steps_opts (resolve cfg inp) sp (max_depth sp) 0 (init_state sp).
  Proof.
    intros Ha Hh Hwf Hg Hp. destruct (prepare_fields cfg inp sp Hp) as (Hc & Hhs & _).
    rewrite (gen_refines_spec_opts msem dotsem callsem awaitsem cfg inp e sp Hwf Hg Hp).
    rewrite spec_opts_no_handler by congruence. rewrite Hc, Ha. reflexivity.
  Qed.

  Theorem den_gen_is_steps_opts_async cfg inp e sp :
    is_async cfg = true -> i_handler inp = None ->
    wf_opts inp -> gen cfg inp = Ok e -> prepare cfg inp = Some sp ->
    D inp e empty_env =
    Ret (DFut (let! d := steps_opts (resolve cfg inp) sp (max_depth sp) 0 (init_state sp) in to_val d)).
  Proof.
    intros Ha Hh Hwf Hg Hp. destruct (prepare_fields cfg inp sp Hp) as (Hc & Hhs & _).
    rewrite (gen_refines_spec_opts msem dotsem callsem awaitsem cfg inp e sp Hwf Hg Hp).
    rewrite spec_opts_no_handler by congruence. rewrite Hc, Ha. reflexivity.
  Qed.

  (* .. hence: its first step, then everything else as a function of the step result only *)
  Theorem den_gen_first_step cfg inp e sp :
    is_async cfg = false -> i_handler inp = None ->
    wf_opts inp -> gen cfg inp = Ok e -> prepare cfg inp = Some sp ->
    D inp e empty_env =
    (let! sr := step_result_opts (resolve cfg inp) sp 0 (init_state sp) in
     after_step (resolve cfg inp) sp (max_depth sp - 1) 0 (init_state sp) sr).
  Proof.
    intros Ha Hh Hwf Hg Hp. rewrite (den_gen_is_steps_opts cfg inp e sp Ha Hh Hwf Hg Hp).
    pose proof (max_depth_pos cfg inp e sp Hwf Hg Hp) as Hmax.
    replace (max_depth sp) with (S (max_depth sp - 1)) at 1 by lia.
    apply steps_opts_step.
  Qed.

  (* C16 on the generated code: a custom joiner, first step with several active branches - the joiner is applied
     ONCE to one argument per active branch, in branch order; its output (thread kinds: after the joins) is the
     step result *)
  Theorem den_gen_joiner_once cfg inp e sp jt :
    is_async cfg = false -> i_handler inp = None ->
    wf_opts inp -> gen cfg inp = Ok e -> prepare cfg inp = Some sp ->
    i_joiner inp = Some jt -> 1 < List.length (actives sp 0) ->
    D inp e empty_env =
    (let! jd := joiner_input (resolve cfg inp) sp jt 0 (init_state sp) in
     let! r := apply callsem (fst jd) (snd jd) in
     let! sr := joiner_post sp 0 r in
     after_step (resolve cfg inp) sp (max_depth sp - 1) 0 (init_state sp) sr).
  Proof.
    intros Ha Hh Hwf Hg Hp Hj Hm. rewrite (den_gen_is_steps_opts cfg inp e sp Ha Hh Hwf Hg Hp).
    pose proof (max_depth_pos cfg inp e sp Hwf Hg Hp) as Hmax.
    replace (max_depth sp) with (S (max_depth sp - 1)) at 1 by lia.
    apply joiner_output_is_step_result; [exact Hj|exact Hm].
  Qed.

  Theorem den_gen_joiner_argument_count cfg inp sp jt :
    Leaves.leaves (joiner_input (resolve cfg inp) sp jt 0 (init_state sp))
                  (fun jd => List.length (snd jd) = List.length (actives sp 0)).
  Proof. apply joiner_receives_one_argument_per_active_branch. Qed.

  (* C16 on the generated code: a first step with one active branch is the step of the macro without options *)
  Theorem den_gen_single_branch_no_joiner cfg inp e sp :
    is_async cfg = false -> i_handler inp = None ->
    wf_opts inp -> gen cfg inp = Ok e -> prepare cfg inp = Some sp ->
    List.length (actives sp 0) <= 1 ->
    D inp e empty_env =
    (let! sr := step_result msem dotsem callsem awaitsem sp 0 (init_state sp) in
     after_step (resolve cfg inp) sp (max_depth sp - 1) 0 (init_state sp) sr).
  Proof.
    intros Ha Hh Hwf Hg Hp Hl. rewrite (den_gen_first_step cfg inp e sp Ha Hh Hwf Hg Hp).
    rewrite single_branch_step_ignores_joiner by exact Hl. reflexivity.
  Qed.

  (* C16 on the generated code: lazy_branches(true) - the chains of the first step occur only inside the closures
     handed to the joiner (sequential kinds) *)
  Theorem den_gen_lazy_thunks cfg inp e sp jt :
    is_async cfg = false -> is_spawn cfg = false -> i_handler inp = None ->
    wf_opts inp -> gen cfg inp = Ok e -> prepare cfg inp = Some sp ->
    i_joiner inp = Some jt -> i_lazy inp = Some true -> 1 < List.length (actives sp 0) ->
    D inp e empty_env =
    (let sn := snap_of sp (init_state sp) in
     let! cp := captures sp sn 0 (actives sp 0) in
     let! jv := Vis (EEval jt sn) (fun v => Ret (DV v)) in
     let! sr := apply callsem jv (map (fun b => thunk_of (chain msem dotsem callsem sp sn cp 0 (init_state sp) b))
                                      (actives sp 0)) in
     after_step (resolve cfg inp) sp (max_depth sp - 1) 0 (init_state sp) sr).
  Proof.
    intros Ha Hs Hh Hwf Hg Hp Hj Hl Hm. destruct (prepare_fields cfg inp sp Hp) as (Hc & _ & _).
    rewrite (den_gen_first_step cfg inp e sp Ha Hh Hwf Hg Hp).
    rewrite (lazy_branches_are_thunks msem dotsem callsem awaitsem (resolve cfg inp) sp 0 (init_state sp) jt);
      try assumption.
    - cbv zeta. rewrite !bind_assoc. apply bind_ext. intros cp. rewrite !bind_assoc. reflexivity.
    - unfold resolve. cbn [so_lazy]. rewrite Hl. reflexivity.
    - rewrite Hc. exact Hs.
  Qed.

  (* C16 on the generated code: transpose_results(false) in a try macro - the first step's result is matched as a
     whole (and, through SpecOptsProps.transpose_off_step_flow again, every later one) *)
  Theorem den_gen_transpose_off cfg inp e sp :
    is_async cfg = false -> is_try cfg = true -> i_handler inp = None ->
    wf_opts inp -> gen cfg inp = Ok e -> prepare cfg inp = Some sp ->
    i_transpose inp = Some false ->
    D inp e empty_env =
    (let! sr := step_result_opts (resolve cfg inp) sp 0 (init_state sp) in
     match sr with
     | DV (VErr err) => Ret (DV (VErr err))
     | DV (VOk w) =>
         if Nat.eqb (max_depth sp - 1) 0 then last_result_no_transpose awaitsem sp 0 (init_state sp) w
         else
           let! ds := extract (actives sp 0) (DV w) in
           steps_opts (resolve cfg inp) sp (max_depth sp - 1) 1 (set_all (init_state sp) (actives sp 0) ds)
     | _ => Panic P_ILLTYPED
     end).
  Proof.
    intros Ha Ht Hh Hwf Hg Hp HT. destruct (prepare_fields cfg inp sp Hp) as (Hc & _ & _).
    rewrite (den_gen_is_steps_opts cfg inp e sp Ha Hh Hwf Hg Hp).
    pose proof (max_depth_pos cfg inp e sp Hwf Hg Hp) as Hmax.
    replace (max_depth sp) with (S (max_depth sp - 1)) at 1 by lia.
    rewrite transpose_off_step_flow.
    - rewrite Hc, Ha. apply bind_ext. intros sr. destruct sr as [[]| | | | | |]; reflexivity.
    - rewrite Hc. exact Ht.
    - unfold resolve. cbn [so_transpose]. rewrite HT. reflexivity.
  Qed.
End CorollariesOpts.

Print Assumptions den_gen_is_steps_opts.
Print Assumptions den_gen_joiner_once.
Print Assumptions den_gen_single_branch_no_joiner.
Print Assumptions den_gen_lazy_thunks.
Print Assumptions den_gen_transpose_off.
