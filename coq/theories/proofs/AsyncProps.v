(** * AsyncProps.v -- theorems about the poll-level machine [Join.Async].

    Everything is for ARBITRARY scripts / program shapes and for EVERY action list (flips in
    any order and batch, spurious polls, task runs at any time).  No axioms.
    See ASYNC_NOTES.md for the list with one line each. *)

From Coq Require Import List NArith Bool Arith Lia.
Import ListNotations.
Require Import Join.Async.



(* ================================================================================== *)
(** * 0. Generic facts *)

Lemma memN_true_iff : forall g l, memN g l = true <-> In g l.
Proof.
  intros g l. unfold memN. rewrite existsb_exists. split.
  - intros [x [Hin Heq]]. apply N.eqb_eq in Heq. subst x. exact Hin.
  - intros Hin. exists g. split; [exact Hin | apply N.eqb_refl].
Qed.

Lemma memn_true_iff : forall t l, memn t l = true <-> In t l.
Proof.
  intros t l. unfold memn. rewrite existsb_exists. split.
  - intros [x [Hin Heq]]. apply Nat.eqb_eq in Heq. subst x. exact Hin.
  - intros Hin. exists t. split; [exact Hin | apply Nat.eqb_refl].
Qed.

Lemma memN_cons_true : forall g g' l, memN g l = true -> memN g (g' :: l) = true.
Proof. intros g g' l H. apply memN_true_iff. right. apply memN_true_iff. exact H. Qed.

Lemma memN_cons_same : forall g l, memN g (g :: l) = true.
Proof. intros g l. apply memN_true_iff. left. reflexivity. Qed.

Lemma memN_cons_other : forall g g' l, g <> g' -> memN g (g' :: l) = memN g l.
Proof.
  intros g g' l Hne. unfold memN. cbn [existsb].
  destruct (N.eqb g g') eqn:E; [apply N.eqb_eq in E; congruence | reflexivity].
Qed.

Lemma memn_app_l : forall t l l', memn t l = true -> memn t (l ++ l') = true.
Proof. intros t l l' H. apply memn_true_iff. apply in_or_app. left. apply memn_true_iff. exact H. Qed.

Lemma memn_app_last : forall t l, memn t (l ++ [t]) = true.
Proof. intros t l. apply memn_true_iff. apply in_or_app. right. left. reflexivity. Qed.

Lemma run_async_app : forall a1 a2 st,
  run_async (a1 ++ a2) st =
  let (st1, o1) := run_async a1 st in
  let (st2, o2) := run_async a2 st1 in (st2, o1 ++ o2).
Proof.
  induction a1 as [|a a1 IH]; intros a2 st; cbn [run_async app].
  - destruct (run_async a2 st) as [st2 o2]. reflexivity.
  - destruct (step a st) as [st1 o1]. rewrite IH.
    destruct (run_async a1 st1) as [st2 o2]. destruct (run_async a2 st2) as [st3 o3].
    rewrite app_assoc. reflexivity.
Qed.

(** Invariants over (state, trace so far) are preserved by runs if they are by single actions. *)
Lemma run_async_ind : forall (I : state -> list obs -> Prop),
  (forall st tr a st' o, I st tr -> step a st = (st', o) -> I st' (tr ++ o)) ->
  forall acts st tr st' o, I st tr -> run_async acts st = (st', o) -> I st' (tr ++ o).
Proof.
  intros I Hstep. induction acts as [|a acts IH]; intros st tr st' o HI Hrun; cbn [run_async] in Hrun.
  - inversion Hrun; subst. rewrite app_nil_r. exact HI.
  - destruct (step a st) as [st1 o1] eqn:E1. destruct (run_async acts st1) as [st2 o2] eqn:E2.
    inversion Hrun; subst. rewrite app_assoc. eapply IH; [| exact E2]. eapply Hstep; eassumption.
Qed.

Lemma run_async_ind0 : forall (I : state -> list obs -> Prop) st0,
  I st0 [] ->
  (forall st tr a st' o, I st tr -> step a st = (st', o) -> I st' (tr ++ o)) ->
  forall acts, I (fst (run_async acts st0)) (snd (run_async acts st0)).
Proof.
  intros I st0 H0 Hstep acts. destruct (run_async acts st0) as [st o] eqn:E.
  cbn [fst snd]. change o with ([] ++ o). eapply run_async_ind; eassumption.
Qed.

(** State-only invariants. *)
Lemma run_async_inv : forall (I : state -> Prop) st0,
  I st0 -> (forall st a, I st -> I (fst (step a st))) ->
  forall acts, I (fst (run_async acts st0)).
Proof.
  intros I st0 H0 Hstep acts.
  apply (run_async_ind0 (fun st _ => I st) st0 H0).
  intros st tr a st' o HI E. specialize (Hstep st a HI). rewrite E in Hstep. exact Hstep.
Qed.

(* ================================================================================== *)
(** * 1. (a) Lazy: nothing at all happens before the first [Poll] *)

Definition no_poll (acts : list action) : Prop := forall a, In a acts -> a <> Poll.

Definition untouched (t : tree) (st : state) : Prop :=
  s_regs st = [] /\ s_tasks st = [] /\ s_runq st = [] /\ s_root st = RRun 0 [] (tr_steps t) /\ s_try st = tr_try t.

Lemma untouched_step : forall t st a st' o,
  untouched t st -> a <> Poll -> step a st = (st', o) -> untouched t st' /\ o = [].
Proof.
  intros t st a st' o [Hr [Ht [Hq [Hroot Htry]]]] Ha E.
  destruct a as [g | | ]; [| congruence |]; cbn [step] in E.
  - unfold do_flip in E. destruct (memN g (s_ready st)).
    + inversion E; subst. unfold untouched. repeat split; assumption.
    + rewrite Hr, Hq in E. cbn in E. inversion E; subst. unfold untouched. cbn. repeat split; assumption.
  - unfold do_run_tasks in E. rewrite Hq, Hr, Ht in E. cbn in E. inversion E; subst.
    unfold untouched. cbn. repeat split; assumption.
Qed.

Lemma untouched_run : forall t acts st,
  untouched t st -> no_poll acts ->
  snd (run_async acts st) = [] /\ untouched t (fst (run_async acts st)).
Proof.
  intros t. induction acts as [|a acts IH]; intros st Hu Hnp; cbn [run_async].
  - cbn. auto.
  - destruct (step a st) as [st1 o1] eqn:E1.
    destruct (untouched_step _ _ _ _ _ Hu (Hnp a (or_introl eq_refl)) E1) as [Hu1 Ho1]. subst o1.
    assert (Hnp' : no_poll acts) by (intros a' Hin; apply Hnp; right; exact Hin).
    specialize (IH st1 Hu1 Hnp'). destruct (run_async acts st1) as [st2 o2]. cbn in *. exact IH.
Qed.

(** (a) For every action list without [Poll] (flips in any order, [RunTasks] at any time):
    no observation at all, no task, no waker slot, the root still unstarted. *)
Theorem lazy_until_polled : forall t acts,
  no_poll acts ->
  snd (run_async acts (init t)) = [] /\ untouched t (fst (run_async acts (init t))).
Proof.
  intros t acts Hnp. apply untouched_run; [| exact Hnp].
  unfold untouched, init; cbn. repeat split; reflexivity.
Qed.

Corollary lazy_shape : forall p acts, no_poll acts -> run_shape p acts = [].
Proof. intros p acts H. unfold run_shape. apply (lazy_until_polled (skeleton p) acts H). Qed.

(* ================================================================================== *)
(** * 2. Building blocks: what one poll of a script / leaf does *)

Definition ev_obs (k b : nat) (x : obs) : Prop :=
  (exists e, x = OEv k b e) \/ (exists g r, x = OChk k b g r).

Definition gates_ready (ready : list N) (s : list atom) : Prop :=
  forall g, In (AGate g) s -> memN g ready = true.

Lemma run_script_spec : forall ready k b s r o,
  run_script ready k b s = (r, o) ->
  Forall (ev_obs k b) o /\
  match r with
  | SFin => gates_ready ready s
  | SPark g s' => memN g ready = false /\
                  exists pre s'', s = pre ++ AGate g :: s'' /\ s' = AGate g :: s'' /\ gates_ready ready pre
  end.
Proof.
  intros ready k b. induction s as [|a s IH]; intros r o E; cbn [run_script] in E.
  - inversion E; subst. split; [constructor | intros g []].
  - destruct a as [e|g].
    + destruct (run_script ready k b s) as [r1 o1] eqn:E1. inversion E; subst.
      destruct (IH _ _ eq_refl) as [Hf Hr]. split.
      * constructor; [left; eauto | exact Hf].
      * destruct r as [|g' s'].
        -- intros g [Hg|Hg]; [discriminate | auto].
        -- destruct Hr as [Hm [pre [s'' [Hs [Hs' Hp]]]]]. split; [exact Hm|].
           exists (AEv e :: pre), s''. subst. split; [reflexivity|]. split; [reflexivity|].
           intros g0 [Hg|Hg]; [discriminate | auto].
    + destruct (memN g ready) eqn:Em.
      * destruct (run_script ready k b s) as [r1 o1] eqn:E1. inversion E; subst.
        destruct (IH _ _ eq_refl) as [Hf Hr]. split.
        -- constructor; [right; eauto | exact Hf].
        -- destruct r as [|g' s'].
           ++ intros g0 [Hg|Hg]; [inversion Hg; subst; exact Em | auto].
           ++ destruct Hr as [Hm [pre [s'' [Hs [Hs' Hp]]]]]. split; [exact Hm|].
              exists (AGate g :: pre), s''. subst. split; [reflexivity|]. split; [reflexivity|].
              intros g0 [Hg|Hg]; [inversion Hg; subst; exact Em | auto].
      * inversion E; subst. split.
        -- constructor; [right; eauto | constructor].
        -- split; [exact Em|]. exists [], s. split; [reflexivity|]. split; [reflexivity|].
           intros g0 [].
Qed.

(** One poll of a leaf: either it runs to completion (then every gate left in its script was
    ready) or it parks on the first unready gate of what is left of ITS OWN script. *)
Lemma poll_leaf_spec : forall ready l r o,
  poll_leaf ready l = (r, o) ->
  exists o', Forall (ev_obs (l_k l) (l_b l)) o' /\
  ((r = LFin (l_ok l) /\ o = OPoll (l_k l) (l_b l) :: o' ++ [ODone (l_k l) (l_b l) (l_ok l)] /\
    gates_ready ready (l_script l))
   \/
   (exists g pre s, r = LPark (set_script l (AGate g :: s)) g /\ o = OPoll (l_k l) (l_b l) :: o' /\
                    memN g ready = false /\ l_script l = pre ++ AGate g :: s /\ gates_ready ready pre)).
Proof.
  intros ready l r o E. unfold poll_leaf in E.
  destruct (run_script ready (l_k l) (l_b l) (l_script l)) as [r1 o1] eqn:E1.
  destruct (run_script_spec _ _ _ _ _ _ E1) as [Hf Hr]. exists o1. split; [exact Hf|].
  destruct r1 as [|g s'].
  - inversion E; subst. left. auto.
  - inversion E; subst. right. destruct Hr as [Hm [pre [s'' [Hs [Hs' Hp]]]]]. subst s'.
    exists g, pre, s''. auto.
Qed.

Lemma ev_obs_step : forall k b x, ev_obs k b x -> obs_step x = Some k.
Proof. intros k b x [[e H]|[g [r H]]]; subst; reflexivity. Qed.

Lemma ev_obs_not_done : forall k b x k' b' ok, ev_obs k b x -> x <> ODone k' b' ok.
Proof. intros k b x k' b' ok [[e H]|[g [r H]]]; subst; discriminate. Qed.

Lemma ev_obs_not_root : forall k b x r, ev_obs k b x -> x <> ORoot r.
Proof. intros k b x r [[e H]|[g [r' H]]]; subst; discriminate. Qed.

(** ** Lists: [upd] *)

Lemma length_upd : forall (A : Type) (l : list A) n x, length (upd l n x) = length l.
Proof. induction l as [|y l IH]; intros [|n] x; cbn; auto. Qed.

Lemma nth_error_upd_same : forall (A : Type) (l : list A) n x,
  n < length l -> nth_error (upd l n x) n = Some x.
Proof.
  induction l as [|y l IH]; intros [|n] x H; cbn in *; try lia; auto. apply IH. lia.
Qed.

Lemma nth_error_upd_other : forall (A : Type) (l : list A) n m x,
  n <> m -> nth_error (upd l n x) m = nth_error l m.
Proof.
  induction l as [|y l IH]; intros [|n] [|m] x H; cbn; auto; try congruence.
Qed.

Lemma nth_error_Some_lt : forall (A : Type) (l : list A) n x, nth_error l n = Some x -> n < length l.
Proof. intros A l n x H. apply nth_error_Some. congruence. Qed.

Lemma nth_error_upd_inv : forall (A : Type) (l : list A) n m x y,
  nth_error (upd l n x) m = Some y ->
  (m = n /\ y = x /\ n < length l) \/ (m <> n /\ nth_error l m = Some y).
Proof.
  intros A l n m x y H. destruct (Nat.eq_dec m n) as [->|Hne].
  - left. assert (Hlt : n < length l).
    { apply nth_error_Some_lt in H. rewrite length_upd in H. exact H. }
    rewrite nth_error_upd_same in H by exact Hlt. inversion H. auto.
  - right. rewrite nth_error_upd_other in H by congruence. auto.
Qed.

(** ** Waker slots: [add_reg] is set insertion *)

Lemma wk_eqb_eq : forall a b, wk_eqb a b = true -> a = b.
Proof.
  intros [|t] [|u]; cbn; intros H; try discriminate; auto. apply Nat.eqb_eq in H. congruence.
Qed.

Lemma same_slot_eq : forall a b, same_slot a b = true -> a = b.
Proof.
  intros [g k b w] [g' k' b' w']. unfold same_slot. cbn [r_g r_k r_b r_w]. intros H.
  apply andb_true_iff in H. destruct H as [H Hw]. apply andb_true_iff in H. destruct H as [H Hb].
  apply andb_true_iff in H. destruct H as [Hg Hk].
  apply N.eqb_eq in Hg. apply Nat.eqb_eq in Hk. apply Nat.eqb_eq in Hb. apply wk_eqb_eq in Hw.
  subst. reflexivity.
Qed.

Lemma In_add_reg_old : forall r regs x, In x regs -> In x (add_reg r regs).
Proof.
  intros r regs x H. unfold add_reg. destruct (existsb (same_slot r) regs); [exact H|].
  apply in_or_app. left. exact H.
Qed.

Lemma In_add_reg_new : forall r regs, In r (add_reg r regs).
Proof.
  intros r regs. unfold add_reg. destruct (existsb (same_slot r) regs) eqn:E.
  - apply existsb_exists in E. destruct E as [x [Hin Hs]]. apply same_slot_eq in Hs. subst. exact Hin.
  - apply in_or_app. right. left. reflexivity.
Qed.

Lemma In_add_reg_inv : forall r regs x, In x (add_reg r regs) -> x = r \/ In x regs.
Proof.
  intros r regs x H. unfold add_reg in H. destruct (existsb (same_slot r) regs); [auto|].
  apply in_app_or in H. destruct H as [H|[H|[]]]; auto.
Qed.

Lemma In_add_regs_old : forall rs regs x, In x regs -> In x (add_regs rs regs).
Proof.
  induction rs as [|r rs IH]; intros regs x H; cbn [add_regs]; [exact H|].
  apply IH. apply In_add_reg_old. exact H.
Qed.

Lemma In_add_regs_new : forall rs regs x, In x rs -> In x (add_regs rs regs).
Proof.
  induction rs as [|r rs IH]; intros regs x H; cbn [add_regs]; [destruct H|].
  destruct H as [->|H]; [apply In_add_regs_old; apply In_add_reg_new | apply IH; exact H].
Qed.

Lemma In_add_regs_inv : forall rs regs x, In x (add_regs rs regs) -> In x rs \/ In x regs.
Proof.
  induction rs as [|r rs IH]; intros regs x H; cbn [add_regs] in H; [auto|].
  apply IH in H. destruct H as [H|H]; [left; right; exact H|].
  apply In_add_reg_inv in H. destruct H as [->|H]; [left; left; reflexivity | right; exact H].
Qed.

(** ** Join-handle slots *)

Definition tcore (tk : task) : leaf * bool := (t_leaf tk, t_fin tk).

Lemma set_jw1_spec : forall t tasks u tk',
  nth_error (set_jw1 t tasks) u = Some tk' ->
  exists tk, nth_error tasks u = Some tk /\ tcore tk' = tcore tk /\
             (t_jw tk = true -> t_jw tk' = true) /\ (u = t -> t_jw tk' = true).
Proof.
  intros t tasks u tk' H. unfold set_jw1 in H.
  destruct (nth_error tasks t) as [tk0|] eqn:E0.
  - apply nth_error_upd_inv in H. destruct H as [[-> [-> Hlt]]|[Hne H]].
    + exists tk0. split; [exact E0|]. cbn. auto.
    + exists tk'. split; [exact H|]. split; [reflexivity|]. split; [auto|]. intros; congruence.
  - exists tk'. split; [exact H|]. split; [reflexivity|]. split; [auto|].
    intros ->. congruence.
Qed.

Lemma length_set_jw1 : forall t tasks, length (set_jw1 t tasks) = length tasks.
Proof. intros t tasks. unfold set_jw1. destruct (nth_error tasks t); [apply length_upd | reflexivity]. Qed.

Lemma length_set_jw : forall js tasks, length (set_jw js tasks) = length tasks.
Proof.
  induction js as [|j js IH]; intros tasks; cbn [set_jw]; [reflexivity|].
  rewrite IH. apply length_set_jw1.
Qed.

Lemma set_jw_spec : forall js tasks u tk',
  nth_error (set_jw js tasks) u = Some tk' ->
  exists tk, nth_error tasks u = Some tk /\ tcore tk' = tcore tk /\
             (t_jw tk = true -> t_jw tk' = true) /\ (In u js -> t_jw tk' = true).
Proof.
  induction js as [|j js IH]; intros tasks u tk' H; cbn [set_jw] in H.
  - exists tk'. split; [exact H|]. split; [reflexivity|]. split; [auto|]. intros [].
  - apply IH in H. destruct H as [tk1 [H1 [Hc1 [Hm1 Hi1]]]].
    apply set_jw1_spec in H1. destruct H1 as [tk [H0 [Hc0 [Hm0 Hi0]]]].
    exists tk. split; [exact H0|]. split; [congruence|]. split; [auto|].
    intros [->|Hin]; auto.
Qed.

Lemma set_jw_nth_fwd : forall js tasks u tk,
  nth_error tasks u = Some tk -> exists tk', nth_error (set_jw js tasks) u = Some tk'.
Proof.
  intros js tasks u tk H. apply nth_error_Some_lt in H. rewrite <- (length_set_jw js) in H.
  destruct (nth_error (set_jw js tasks) u) eqn:E; [eauto|]. apply nth_error_None in E. lia.
Qed.

Lemma drop_jw_spec : forall tasks u tk',
  nth_error (drop_jw tasks) u = Some tk' ->
  exists tk, nth_error tasks u = Some tk /\ tcore tk' = tcore tk.
Proof.
  intros tasks u tk' H. unfold drop_jw in H. rewrite nth_error_map in H.
  destruct (nth_error tasks u) as [tk|]; [|discriminate]. cbn in H. inversion H; subst.
  exists tk. split; reflexivity.
Qed.

Lemma length_drop_jw : forall tasks, length (drop_jw tasks) = length tasks.
Proof. intros. unfold drop_jw. apply map_length. Qed.

(** ** Waking *)

Lemma wake_all_spec : forall tasks ws runq rq o,
  wake_all tasks ws runq = (rq, o) ->
  (forall t, memn t runq = true -> memn t rq = true) /\
  (forall t, In (WTask t) ws -> task_fin tasks t = false -> memn t rq = true) /\
  (In WRoot ws -> In ONotify o) /\
  Forall (fun x => x = ONotify) o.
Proof.
  intros tasks. induction ws as [|w ws IH]; intros runq rq o E; cbn [wake_all] in E.
  - inversion E; subst. split; [auto|]. split; [intros t []|]. split; [intros []|constructor].
  - destruct (wake tasks w runq) as [rq1 o1] eqn:E1.
    destruct (wake_all tasks ws rq1) as [rq2 o2] eqn:E2. inversion E; subst.
    destruct (IH _ _ _ E2) as [Hm [Ht [Hr Hf]]].
    assert (Hw : (forall t, memn t runq = true -> memn t rq1 = true) /\
                 (forall t, w = WTask t -> task_fin tasks t = false -> memn t rq1 = true) /\
                 (w = WRoot -> In ONotify o1) /\ Forall (fun x => x = ONotify) o1).
    { destruct w as [|t0]; cbn [wake] in E1.
      - inversion E1; subst. split; [auto|]. split; [intros; discriminate|].
        split; [intros; left; reflexivity|]. constructor; [reflexivity|constructor].
      - destruct (task_fin tasks t0 || memn t0 runq) eqn:Eb; inversion E1; subst.
        + split; [auto|]. split.
          * intros t Heq Hfin. inversion Heq; subst. rewrite Hfin in Eb. cbn in Eb. exact Eb.
          * split; [intros; discriminate|constructor].
        + split; [intros t Hin; apply memn_app_l; exact Hin|]. split.
          * intros t Heq _. inversion Heq; subst. apply memn_app_last.
          * split; [intros; discriminate|constructor]. }
    destruct Hw as [Hm1 [Ht1 [Hr1 Hf1]]]. split; [|split; [|split]].
    + intros t Hin. apply Hm. apply Hm1. exact Hin.
    + intros t [->|Hin] Hfin; [apply Hm; apply Ht1; auto | apply Ht; auto].
    + intros [->|Hin]; apply in_or_app; [left; auto | right; auto].
    + apply Forall_app. auto.
Qed.

(* ================================================================================== *)
(** * 3. Wakers: the state invariant behind (c) and (d) *)

(** An inline child between two actions: it sits at a gate of its script, and either that
    gate has been flipped since (then the root was notified, see [flip_notifies_root]) or the
    ROOT's waker is in the child's slot on that gate. *)
Definition parked_root (ready : list N) (regs : list reg) (l : leaf) : Prop :=
  exists g s, l_script l = AGate g :: s /\
              (memN g ready = true \/ In (mkReg g (l_k l) (l_b l) WRoot) regs).

(** Just after a poll: parked on an UNREADY gate, slot registered. *)
Definition fresh_parked (ready : list N) (regs : list reg) (l : leaf) : Prop :=
  exists g s, l_script l = AGate g :: s /\ memN g ready = false /\
              In (mkReg g (l_k l) (l_b l) WRoot) regs.

(** An unfinished task is queued, or parked on an unready gate with ITS OWN waker in the slot. *)
Definition task_ok (ready : list N) (regs : list reg) (runq : list nat) (t : nat) (tk : task) : Prop :=
  t_fin tk = false ->
  memn t runq = true \/
  exists g s, l_script (t_leaf tk) = AGate g :: s /\ memN g ready = false /\
              In (mkReg g (l_k (t_leaf tk)) (l_b (t_leaf tk)) (WTask t)) regs.

Definition tasks_ok (ready : list N) (regs : list reg) (runq : list nat) (tasks : list task) : Prop :=
  forall t tk, nth_error tasks t = Some tk -> task_ok ready regs runq t tk.

(** The join handle of an unfinished task awaited by the root holds the root's waker. *)
Definition handle_ok (tasks : list task) (t : nat) : Prop :=
  exists tk, nth_error tasks t = Some tk /\ (t_fin tk = false -> t_jw tk = true).

Definition Winv (st : state) : Prop :=
  tasks_ok (s_ready st) (s_regs st) (s_runq st) (s_tasks st) /\
  match s_root st with
  | RRun _ cs _ => (forall l, In (CLeaf l) cs -> parked_root (s_ready st) (s_regs st) l) /\
                   (forall t, In (CHandle t) cs -> handle_ok (s_tasks st) t)
  | RFin _ => True
  end.

Lemma fresh_parked_root : forall ready regs l, fresh_parked ready regs l -> parked_root ready regs l.
Proof. intros ready regs l [g [s [H1 [H2 H3]]]]. exists g, s. auto. Qed.

Lemma poll_child_W : forall try ready tasks c c' o rs js st,
  poll_child try ready tasks c = (c', o, rs, js, st) ->
  (forall t, c = CHandle t -> t < length tasks) ->
  (forall t, c' = CHandle t -> c = CHandle t /\ js = [t]) /\
  (forall l, c' = CLeaf l ->
     exists g s, l_script l = AGate g :: s /\ memN g ready = false /\ rs = [mkReg g (l_k l) (l_b l) WRoot]).
Proof.
  intros try ready tasks c c' o rs js st E Hv. destruct c as [l|t|]; cbn [poll_child] in E.
  - destruct (poll_leaf ready l) as [r ol] eqn:El.
    destruct (poll_leaf_spec _ _ _ _ El) as [o' [Hf [[Hr [Ho Hg]]|[g [pre [s [Hr [Ho [Hm [Hs Hp]]]]]]]]]]; subst r.
    + inversion E; subst. split; intros; discriminate.
    + inversion E; subst. split; [intros; discriminate|]. intros l0 Hl0. inversion Hl0; subst.
      exists g, s. cbn. auto.
  - destruct (nth_error tasks t) as [tk|] eqn:En.
    + destruct (t_fin tk); inversion E; subst.
      * split; intros; discriminate.
      * split; [|intros; discriminate]. intros t0 Ht0. inversion Ht0; subst. auto.
    + exfalso. specialize (Hv t eq_refl). apply nth_error_None in En. lia.
  - inversion E; subst. split; intros; discriminate.
Qed.

Lemma poll_children_W : forall try ready tasks cs cs' o rs js st,
  poll_children try ready tasks cs = (cs', o, rs, js, st) ->
  (forall t, In (CHandle t) cs -> t < length tasks) ->
  (forall t, In (CHandle t) cs' -> In (CHandle t) cs) /\
  ((forall k b, st <> JFail k b) ->
     (forall l, In (CLeaf l) cs' ->
        exists g s, l_script l = AGate g :: s /\ memN g ready = false /\ In (mkReg g (l_k l) (l_b l) WRoot) rs) /\
     (forall t, In (CHandle t) cs' -> In t js)).
Proof.
  intros try ready tasks. induction cs as [|c cs IH]; intros cs' o rs js st E Hv; cbn [poll_children] in E.
  - inversion E; subst. split; [auto|]. intros _. split; intros ? [].
  - destruct (poll_child try ready tasks c) as [[[[c1 o1] rs1] js1] st1] eqn:Ec.
    assert (Hvc : forall t, c = CHandle t -> t < length tasks) by (intros t ->; apply Hv; left; reflexivity).
    assert (Hvs : forall t, In (CHandle t) cs -> t < length tasks) by (intros t Hin; apply Hv; right; exact Hin).
    destruct (poll_child_W _ _ _ _ _ _ _ _ _ Ec Hvc) as [Hh Hl].
    assert (Hrest : forall cs2 o2 rs2 js2 st2,
               poll_children try ready tasks cs = (cs2, o2, rs2, js2, st2) ->
               (forall t, In (CHandle t) (c1 :: cs2) -> In (CHandle t) (c :: cs)) /\
               ((forall k b, st2 <> JFail k b) ->
                (forall l, In (CLeaf l) (c1 :: cs2) ->
                   exists g s, l_script l = AGate g :: s /\ memN g ready = false /\
                               In (mkReg g (l_k l) (l_b l) WRoot) (rs1 ++ rs2)) /\
                (forall t, In (CHandle t) (c1 :: cs2) -> In t (js1 ++ js2)))).
    { intros cs2 o2 rs2 js2 st2 Ecs. destruct (IH _ _ _ _ _ Ecs Hvs) as [IH1 IH2]. split.
      - intros t [->|Hin]; [left; apply (Hh t eq_refl) | right; apply IH1; exact Hin].
      - intros Hnf. destruct (IH2 Hnf) as [IHl IHh]. split.
        + intros l [->|Hin].
          * destruct (Hl l eq_refl) as [g [s [H1 [H2 H3]]]]. exists g, s. subst rs1.
            split; [exact H1|]. split; [exact H2|]. left. reflexivity.
          * destruct (IHl l Hin) as [g [s [H1 [H2 H3]]]]. exists g, s.
            split; [exact H1|]. split; [exact H2|]. apply in_or_app. right. exact H3.
        + intros t [->|Hin]; apply in_or_app.
          * left. destruct (Hh t eq_refl) as [_ ->]. left. reflexivity.
          * right. apply IHh. exact Hin. }
    destruct st1 as [| |k1 b1].
    + destruct (poll_children try ready tasks cs) as [[[[cs2 o2] rs2] js2] st2] eqn:Ecs.
      inversion E; subst. destruct (Hrest _ _ _ _ _ eq_refl) as [R1 R2]. split; [exact R1|].
      intros Hnf. apply R2. intros k b ->. apply (Hnf k b). reflexivity.
    + destruct (poll_children try ready tasks cs) as [[[[cs2 o2] rs2] js2] st2] eqn:Ecs.
      inversion E; subst. destruct (Hrest _ _ _ _ _ eq_refl) as [R1 R2]. split; [exact R1|].
      intros Hnf. apply R2. intros k b ->. apply (Hnf k b). reflexivity.
    + inversion E; subst. split.
      * intros t [->|Hin]; [left; apply (Hh t eq_refl) | right; exact Hin].
      * intros Hnf. exfalso. apply (Hnf k1 b1). reflexivity.
Qed.

(** [tasks_ok] only improves when slots / queue entries are added and join slots change. *)
Lemma tasks_ok_mono : forall ready regs runq tasks regs' runq' tasks',
  tasks_ok ready regs runq tasks ->
  (forall x, In x regs -> is_root_reg x = false -> In x regs') ->
  (forall t, memn t runq = true -> memn t runq' = true) ->
  (forall t tk', nth_error tasks' t = Some tk' -> exists tk, nth_error tasks t = Some tk /\ tcore tk' = tcore tk) ->
  tasks_ok ready regs' runq' tasks'.
Proof.
  intros ready regs runq tasks regs' runq' tasks' H Hr Hq Ht t tk' Hn Hfin.
  destruct (Ht _ _ Hn) as [tk [Hn0 Hc]]. unfold tcore in Hc. inversion Hc as [[Hl Hf]].
  assert (Hfin0 : t_fin tk = false) by congruence.
  destruct (H _ _ Hn0 Hfin0) as [Hm|[g [s [H1 [H2 H3]]]]].
  - left. apply Hq. exact Hm.
  - right. exists g, s. rewrite Hl. split; [exact H1|]. split; [exact H2|]. apply Hr; [exact H3|reflexivity].
Qed.

Lemma inst_children_W : forall ready regs cs tasks runq ch tk rq o,
  inst_children cs tasks runq = (ch, tk, rq, o) ->
  tasks_ok ready regs runq tasks ->
  tasks_ok ready regs rq tk /\ length tasks <= length tk /\
  (forall t, In (CHandle t) ch -> t < length tk).
Proof.
  intros ready regs. induction cs as [|c cs IH]; intros tasks runq ch tk rq o E Hok; cbn [inst_children] in E.
  - inversion E; subst. split; [exact Hok|]. split; [lia|]. intros t [].
  - destruct c as [l|l].
    + destruct (inst_children cs tasks runq) as [[[ch1 tk1] rq1] o1] eqn:E1. inversion E; subst.
      destruct (IH _ _ _ _ _ _ E1 Hok) as [H1 [H2 H3]]. split; [exact H1|]. split; [exact H2|].
      intros t [Hd|Hin]; [discriminate | apply H3; exact Hin].
    + destruct (inst_children cs (tasks ++ [mkTask l false false]) (runq ++ [length tasks]))
        as [[[ch1 tk1] rq1] o1] eqn:E1. inversion E; subst.
      assert (Hok' : tasks_ok ready regs (runq ++ [length tasks]) (tasks ++ [mkTask l false false])).
      { intros t tk0 Hn Hfin. destruct (Nat.lt_ge_cases t (length tasks)) as [Hlt|Hge].
        - rewrite nth_error_app1 in Hn by exact Hlt.
          destruct (Hok _ _ Hn Hfin) as [Hm|Hp]; [left; apply memn_app_l; exact Hm | right; exact Hp].
        - rewrite nth_error_app2 in Hn by exact Hge.
          destruct (t - length tasks) as [|d] eqn:Ed; cbn in Hn.
          + left. assert (t = length tasks) by lia. subst t. apply memn_app_last.
          + destruct d; discriminate. }
      destruct (IH _ _ _ _ _ _ E1 Hok') as [H1 [H2 H3]]. rewrite app_length in H2. cbn in H2.
      split; [exact H1|]. split; [lia|].
      intros t [Hd|Hin]; [inversion Hd; subst; lia | apply H3; exact Hin].
Qed.

Lemma inst_step_W : forall ready regs s tasks runq ch tk rq o,
  inst_step s tasks runq = (ch, tk, rq, o) ->
  tasks_ok ready regs runq tasks ->
  tasks_ok ready regs rq tk /\ length tasks <= length tk /\
  (forall t, In (CHandle t) ch -> t < length tk).
Proof.
  intros ready regs s tasks runq ch tk rq o E Hok. destruct s as [l|cs]; cbn [inst_step] in E.
  - inversion E; subst. split; [exact Hok|]. split; [lia|]. intros t [Hd|[]]. discriminate.
  - eapply inst_children_W; eassumption.
Qed.

Definition root_W (ready : list N) (regs : list reg) (tasks : list task) (rt : root) : Prop :=
  match rt with
  | RRun _ cs _ => (forall l, In (CLeaf l) cs -> fresh_parked ready regs l) /\
                   (forall t, In (CHandle t) cs -> handle_ok tasks t)
  | RFin _ => True
  end.

Lemma In_drop_regs : forall regs x, In x regs -> is_root_reg x = false -> In x (drop_regs regs).
Proof. intros regs x H Hr. unfold drop_regs. apply filter_In. split; [exact H|]. rewrite Hr. reflexivity. Qed.

Lemma poll_steps_W : forall try ready rest n cs regs tasks runq rt regs' tasks' runq' o,
  poll_steps try ready n cs rest regs tasks runq = (rt, regs', tasks', runq', o) ->
  tasks_ok ready regs runq tasks ->
  (forall t, In (CHandle t) cs -> t < length tasks) ->
  tasks_ok ready regs' runq' tasks' /\ root_W ready regs' tasks' rt.
Proof.
  intros try ready. induction rest as [|s rest IH];
    intros n cs regs tasks runq rt regs' tasks' runq' o E Hok Hv; cbn [poll_steps] in E;
    destruct (poll_children try ready tasks cs) as [[[[cs1 o1] rs1] js1] st1] eqn:Ec;
    destruct (poll_children_W _ _ _ _ _ _ _ _ _ Ec Hv) as [Hh Hp].
  - assert (Hok1 : tasks_ok ready (add_regs rs1 regs) runq (set_jw js1 tasks)).
    { eapply tasks_ok_mono; [exact Hok | | auto |].
      - intros x Hx _. apply In_add_regs_old. exact Hx.
      - intros t tk' Hn. destruct (set_jw_spec _ _ _ _ Hn) as [tk [H1 [H2 _]]]. eauto. }
    assert (Hokd : tasks_ok ready (drop_regs (add_regs rs1 regs)) runq (drop_jw (set_jw js1 tasks))).
    { eapply tasks_ok_mono; [exact Hok1 | | auto |].
      - intros x Hx Hr. apply In_drop_regs; assumption.
      - intros t tk' Hn. apply drop_jw_spec. exact Hn. }
    destruct st1 as [| |k1 b1]; inversion E; subst.
    + split; [exact Hok1|]. cbn [root_W].
      destruct Hp as [Hpl Hph]; [intros; discriminate|]. split.
      * intros l Hl. destruct (Hpl l Hl) as [g [s [H1 [H2 H3]]]]. exists g, s.
        split; [exact H1|]. split; [exact H2|]. apply In_add_regs_new. exact H3.
      * intros t Ht. specialize (Hph t Ht). specialize (Hh t Ht). specialize (Hv t Hh).
        destruct (nth_error tasks t) as [tk|] eqn:En; [|apply nth_error_None in En; lia].
        destruct (set_jw_nth_fwd js1 _ _ _ En) as [tk' Hn']. exists tk'. split; [exact Hn'|].
        intros _. destruct (set_jw_spec _ _ _ _ Hn') as [tk0 [_ [_ [_ Hj]]]]. apply Hj. exact Hph.
    + split; [exact Hokd | exact I].
    + split; [exact Hokd | exact I].
  - assert (Hok1 : tasks_ok ready (add_regs rs1 regs) runq (set_jw js1 tasks)).
    { eapply tasks_ok_mono; [exact Hok | | auto |].
      - intros x Hx _. apply In_add_regs_old. exact Hx.
      - intros t tk' Hn. destruct (set_jw_spec _ _ _ _ Hn) as [tk [H1 [H2 _]]]. eauto. }
    assert (Hokd : tasks_ok ready (drop_regs (add_regs rs1 regs)) runq (drop_jw (set_jw js1 tasks))).
    { eapply tasks_ok_mono; [exact Hok1 | | auto |].
      - intros x Hx Hr. apply In_drop_regs; assumption.
      - intros t tk' Hn. apply drop_jw_spec. exact Hn. }
    destruct st1 as [| |k1 b1].
    + inversion E; subst. split; [exact Hok1|]. cbn [root_W].
      destruct Hp as [Hpl Hph]; [intros; discriminate|]. split.
      * intros l Hl. destruct (Hpl l Hl) as [g [s0 [H1 [H2 H3]]]]. exists g, s0.
        split; [exact H1|]. split; [exact H2|]. apply In_add_regs_new. exact H3.
      * intros t Ht. specialize (Hph t Ht). specialize (Hh t Ht). specialize (Hv t Hh).
        destruct (nth_error tasks t) as [tk|] eqn:En; [|apply nth_error_None in En; lia].
        destruct (set_jw_nth_fwd js1 _ _ _ En) as [tk' Hn']. exists tk'. split; [exact Hn'|].
        intros _. destruct (set_jw_spec _ _ _ _ Hn') as [tk0 [_ [_ [_ Hj]]]]. apply Hj. exact Hph.
    + destruct (inst_step s (set_jw js1 tasks) runq) as [[[cs2 tasks2] runq2] o2] eqn:Ei.
      destruct (poll_steps try ready (S n) cs2 rest (add_regs rs1 regs) tasks2 runq2)
        as [[[[rt3 regs3] tasks3] runq3] o3] eqn:Ep.
      inversion E; subst.
      destruct (inst_step_W _ _ _ _ _ _ _ _ _ Ei Hok1) as [Hok2 [_ Hv2]].
      exact (IH _ _ _ _ _ _ _ _ _ _ Ep Hok2 Hv2).
    + inversion E; subst. split; [exact Hokd | exact I].
Qed.

Lemma root_W_weaken : forall ready regs tasks rt,
  root_W ready regs tasks rt ->
  match rt with
  | RRun _ cs _ => (forall l, In (CLeaf l) cs -> parked_root ready regs l) /\
                   (forall t, In (CHandle t) cs -> handle_ok tasks t)
  | RFin _ => True
  end.
Proof.
  intros ready regs tasks [n cs rest|r] H; [|exact I]. destruct H as [H1 H2]. split; [|exact H2].
  intros l Hl. apply fresh_parked_root. apply H1. exact Hl.
Qed.

Lemma handle_ok_lt : forall tasks t, handle_ok tasks t -> t < length tasks.
Proof. intros tasks t [tk [H _]]. eapply nth_error_Some_lt. exact H. Qed.

Lemma do_poll_W : forall st st' o, Winv st -> do_poll st = (st', o) ->
  Winv st' /\ root_W (s_ready st') (s_regs st') (s_tasks st') (s_root st').
Proof.
  intros st st' o [Hok Hroot] E. unfold do_poll in E. destruct (s_root st) as [n cs rest|r] eqn:Er.
  - destruct (poll_steps (s_try st) (s_ready st) n cs rest (s_regs st) (s_tasks st) (s_runq st))
      as [[[[rt regs] tasks] runq] o1] eqn:Ep. inversion E; subst. clear E.
    destruct Hroot as [_ Hh].
    assert (Hv : forall t, In (CHandle t) cs -> t < length (s_tasks st))
      by (intros t Ht; apply handle_ok_lt; apply Hh; exact Ht).
    destruct (poll_steps_W _ _ _ _ _ _ _ _ _ _ _ _ _ Ep Hok Hv) as [Hok' Hr'].
    split; [|exact Hr']. split; [exact Hok'|]. cbn [s_root s_ready s_regs s_tasks].
    apply root_W_weaken. exact Hr'.
  - inversion E; subst. split; [split; [exact Hok|rewrite Er; exact I]|]. rewrite Er. exact I.
Qed.

(** ** [RunTasks] *)

Lemma poll_task_spec : forall ready t tk tk' o rs,
  poll_task ready t tk = (tk', o, rs) ->
  l_k (t_leaf tk') = l_k (t_leaf tk) /\ l_b (t_leaf tk') = l_b (t_leaf tk) /\ l_ok (t_leaf tk') = l_ok (t_leaf tk) /\
  ((t_fin tk' = true /\ rs = [] /\ gates_ready ready (l_script (t_leaf tk)) /\ l_script (t_leaf tk') = []) \/
   (t_fin tk' = false /\ t_jw tk' = t_jw tk /\
    exists g pre s, l_script (t_leaf tk) = pre ++ AGate g :: s /\ gates_ready ready pre /\
                l_script (t_leaf tk') = AGate g :: s /\ memN g ready = false /\
                rs = [mkReg g (l_k (t_leaf tk')) (l_b (t_leaf tk')) (WTask t)])).
Proof.
  intros ready t tk tk' o rs E. unfold poll_task in E.
  destruct (poll_leaf ready (t_leaf tk)) as [r ol] eqn:El.
  destruct (poll_leaf_spec _ _ _ _ El) as [o' [Hf [[Hr [Ho Hg]]|[g [pre [s [Hr [Ho [Hm [Hs Hp]]]]]]]]]]; subst r.
  - inversion E; subst. cbn. split; [reflexivity|]. split; [reflexivity|]. split; [reflexivity|].
    left. split; [reflexivity|]. split; [reflexivity|]. split; [exact Hg | reflexivity].
  - inversion E; subst. cbn. split; [reflexivity|]. split; [reflexivity|]. split; [reflexivity|].
    right. split; [reflexivity|]. split; [reflexivity|].
    exists g, pre, s. split; [exact Hs|]. split; [exact Hp|]. split; [reflexivity|]. split; [exact Hm | reflexivity].
Qed.

Lemma run_queue_W : forall ready q tasks regs tasks' regs' o,
  run_queue q ready tasks regs = (tasks', regs', o) ->
  tasks_ok ready regs q tasks ->
  tasks_ok ready regs' [] tasks' /\
  (forall x, In x regs -> In x regs') /\
  length tasks' = length tasks /\
  (forall t tk', nth_error tasks' t = Some tk' ->
     exists tk, nth_error tasks t = Some tk /\ (t_fin tk' = false -> t_fin tk = false /\ t_jw tk' = t_jw tk)).
Proof.
  intros ready. induction q as [|t0 q IH]; intros tasks regs tasks' regs' o E Hok; cbn [run_queue] in E.
  - inversion E; subst. split; [exact Hok|]. split; [auto|]. split; [reflexivity|].
    intros t tk' Hn. exists tk'. auto.
  - assert (Hskip : (forall tk0, nth_error tasks t0 = Some tk0 -> t_fin tk0 = true) ->
                    tasks_ok ready regs q tasks).
    { intros Hfin t tk Hn Hf. destruct (Hok _ _ Hn Hf) as [Hm|Hp]; [|right; exact Hp].
      left. unfold memn in Hm. cbn [existsb] in Hm. apply orb_true_iff in Hm. destruct Hm as [Hm|Hm]; [|exact Hm].
      apply Nat.eqb_eq in Hm. subst t0. rewrite (Hfin _ Hn) in Hf. discriminate. }
    destruct (nth_error tasks t0) as [tk0|] eqn:En.
    + destruct (t_fin tk0) eqn:Ef.
      * eapply IH; [exact E|]. apply Hskip. intros tk1 H1. inversion H1; subst. exact Ef.
      * destruct (poll_task ready t0 tk0) as [[tk1 o1] rs1] eqn:Ept.
        destruct (run_queue q ready (upd tasks t0 tk1) (add_regs rs1 regs)) as [[tasks2 regs2] o2] eqn:Er.
        inversion E; subst.
        destruct (poll_task_spec _ _ _ _ _ _ Ept) as [Hk [Hb [_ Hcase]]].
        assert (Hlt : t0 < length tasks) by (eapply nth_error_Some_lt; exact En).
        assert (Hok1 : tasks_ok ready (add_regs rs1 regs) q (upd tasks t0 tk1)).
        { intros t tk Hn Hf. apply nth_error_upd_inv in Hn. destruct Hn as [[-> [-> _]]|[Hne Hn]].
          - right. destruct Hcase as [[Hf1 _]|[_ [_ [g [pre [s [_ [_ [H1 [H2 H3]]]]]]]]]]; [congruence|].
            exists g, s. split; [exact H1|]. split; [exact H2|]. apply In_add_regs_new. subst rs1. left. reflexivity.
          - destruct (Hok _ _ Hn Hf) as [Hm|[g [s [H1 [H2 H3]]]]].
            + left. unfold memn in Hm. cbn [existsb] in Hm. apply orb_true_iff in Hm. destruct Hm as [Hm|Hm]; [|exact Hm].
              apply Nat.eqb_eq in Hm. congruence.
            + right. exists g, s. split; [exact H1|]. split; [exact H2|]. apply In_add_regs_old. exact H3. }
        destruct (IH _ _ _ _ _ Er Hok1) as [R1 [R2 [R3 R4]]].
        split; [exact R1|]. split; [intros x Hx; apply R2; apply In_add_regs_old; exact Hx|].
        split; [rewrite R3; apply length_upd|].
        intros t tk' Hn. destruct (R4 _ _ Hn) as [tk [Hn1 Hj]].
        apply nth_error_upd_inv in Hn1. destruct Hn1 as [[-> [-> _]]|[Hne Hn1]].
        -- exists tk0. split; [exact En|]. intros Hf. destruct (Hj Hf) as [Hf1 Hj1].
           destruct Hcase as [[Hf2 _]|[_ [Hj2 _]]]; [congruence|]. split; [exact Ef | congruence].
        -- exists tk. split; [exact Hn1 | exact Hj].
    + eapply IH; [exact E|]. apply Hskip. intros tk1 H1. discriminate.
Qed.

Lemma do_run_tasks_W : forall st st' o, Winv st -> do_run_tasks st = (st', o) -> Winv st'.
Proof.
  intros st st' o [Hok Hroot] E. unfold do_run_tasks in E.
  destruct (run_queue (s_runq st) (s_ready st) (s_tasks st) (s_regs st)) as [[tasks regs] o1] eqn:Er.
  inversion E; subst. clear E.
  destruct (run_queue_W _ _ _ _ _ _ _ Er Hok) as [R1 [R2 [R3 R4]]].
  split; [exact R1|]. cbn [s_root s_ready s_regs s_tasks].
  destruct (s_root st) as [n cs rest|r]; [|exact I]. destruct Hroot as [Hl Hh]. split.
  - intros l Hin. destruct (Hl l Hin) as [g [s [H1 [H2|H2]]]]; exists g, s; auto.
  - intros t Hin. destruct (Hh t Hin) as [tk [Hn Hj]].
    assert (Hlt : t < length tasks) by (rewrite R3; eapply nth_error_Some_lt; exact Hn).
    destruct (nth_error tasks t) as [tk'|] eqn:En'; [|apply nth_error_None in En'; lia].
    exists tk'. split; [exact En'|]. intros Hf. destruct (R4 _ _ En') as [tk0 [Hn0 Hj0]].
    rewrite Hn in Hn0. inversion Hn0; subst tk0. destruct (Hj0 Hf) as [Hf0 Hjw]. rewrite Hjw. apply Hj. exact Hf0.
Qed.

(** ** [Flip] *)

Lemma task_fin_nth : forall tasks t tk, nth_error tasks t = Some tk -> task_fin tasks t = t_fin tk.
Proof. intros tasks t tk H. unfold task_fin. rewrite H. reflexivity. Qed.

Lemma do_flip_W : forall g st st' o, Winv st -> do_flip g st = (st', o) -> Winv st'.
Proof.
  intros g st st' o [Hok Hroot] E. unfold do_flip in E. destruct (memN g (s_ready st)) eqn:Eg.
  - inversion E; subst. split; assumption.
  - destruct (wake_all (s_tasks st) (map r_w (filter (on_gate g) (s_regs st))) (s_runq st)) as [rq o1] eqn:Ew.
    inversion E; subst. clear E. destruct (wake_all_spec _ _ _ _ _ Ew) as [Hm [Ht _]].
    split; cbn [s_root s_ready s_regs s_tasks s_runq].
    + intros t tk Hn Hf. destruct (Hok _ _ Hn Hf) as [Hq|[g0 [s [H1 [H2 H3]]]]].
      * left. apply Hm. exact Hq.
      * destruct (N.eq_dec g0 g) as [->|Hne].
        -- left. apply Ht.
           ++ apply in_map_iff. exists (mkReg g (l_k (t_leaf tk)) (l_b (t_leaf tk)) (WTask t)). split; [reflexivity|].
              apply filter_In. split; [exact H3|]. unfold on_gate. cbn. apply N.eqb_refl.
           ++ rewrite (task_fin_nth _ _ _ Hn). exact Hf.
        -- right. exists g0, s. split; [exact H1|]. split.
           ++ rewrite memN_cons_other by exact Hne. exact H2.
           ++ apply filter_In. split; [exact H3|]. unfold on_gate. cbn.
              destruct (N.eqb g0 g) eqn:Eq; [apply N.eqb_eq in Eq; congruence | reflexivity].
    + destruct (s_root st) as [n cs rest|r]; [|exact I]. destruct Hroot as [Hl Hh]. split; [|exact Hh].
      intros l Hin. destruct (Hl l Hin) as [g0 [s [H1 [H2|H2]]]]; exists g0, s; split; try exact H1.
      * left. apply memN_cons_true. exact H2.
      * destruct (N.eq_dec g0 g) as [->|Hne].
        -- left. apply memN_cons_same.
        -- right. apply filter_In. split; [exact H2|]. unfold on_gate. cbn.
           destruct (N.eqb g0 g) eqn:Eq; [apply N.eqb_eq in Eq; congruence | reflexivity].
Qed.

Lemma Winv_step : forall st a, Winv st -> Winv (fst (step a st)).
Proof.
  intros st a H. destruct (step a st) as [st' o] eqn:E. cbn [fst]. destruct a as [g| |]; cbn [step] in E.
  - eapply do_flip_W; eassumption.
  - eapply do_poll_W; eassumption.
  - eapply do_run_tasks_W; eassumption.
Qed.

Lemma Winv_init : forall t, Winv (init t).
Proof.
  intros t. unfold Winv, init. cbn. split.
  - intros n tk Hn. destruct n; discriminate.
  - split; intros ? [].
Qed.

Theorem Winv_reach : forall t acts, Winv (fst (run_async acts (init t))).
Proof. intros t acts. apply run_async_inv; [apply Winv_init | apply Winv_step]. Qed.

(* ---------------------------------------------------------------------------------- *)
(** ** (d) No lost wake-up *)

(** (d), invariant form: in every reachable state
    - every unfinished inline child of the current step sits at a gate that is already ready
      or on which the ROOT's waker is registered for it;
    - every unfinished task is queued, or parked on an unready gate with its own waker registered;
    - the join handle of every unfinished task awaited by the current step holds the root's waker. *)
Theorem no_lost_wakeup_inv : forall t acts, Winv (fst (run_async acts (init t))).
Proof. exact Winv_reach. Qed.

(** ... hence flipping the gate an inline child is parked on notifies the root, *)
Theorem flip_notifies_root : forall t acts st n cs rest l g s,
  st = fst (run_async acts (init t)) ->
  s_root st = RRun n cs rest -> In (CLeaf l) cs ->
  l_script l = AGate g :: s -> memN g (s_ready st) = false ->
  In ONotify (snd (do_flip g st)).
Proof.
  intros t acts st n cs rest l g s -> Hr Hin Hs Hg.
  destruct (Winv_reach t acts) as [_ Hroot]. rewrite Hr in Hroot. destruct Hroot as [Hl _].
  destruct (Hl l Hin) as [g0 [s0 [H1 H2]]]. rewrite Hs in H1. inversion H1; subst g0 s0.
  destruct H2 as [H2|H2]; [congruence|].
  unfold do_flip. rewrite Hg.
  destruct (wake_all (s_tasks (fst (run_async acts (init t))))
                     (map r_w (filter (on_gate g) (s_regs (fst (run_async acts (init t))))))
                     (s_runq (fst (run_async acts (init t))))) as [rq o] eqn:Ew.
  cbn [snd]. destruct (wake_all_spec _ _ _ _ _ Ew) as [_ [_ [Hn _]]]. apply Hn.
  apply in_map_iff. exists (mkReg g (l_k l) (l_b l) WRoot). split; [reflexivity|].
  apply filter_In. split; [exact H2|]. unfold on_gate. cbn. apply N.eqb_refl.
Qed.

(** flipping the gate a task is parked on puts the task into the run queue, *)
Theorem flip_wakes_task : forall t acts st u tk,
  st = fst (run_async acts (init t)) ->
  nth_error (s_tasks st) u = Some tk -> t_fin tk = false -> memn u (s_runq st) = false ->
  exists g s, l_script (t_leaf tk) = AGate g :: s /\ memN g (s_ready st) = false /\
              memn u (s_runq (fst (do_flip g st))) = true.
Proof.
  intros t acts st u tk -> Hn Hf Hq.
  destruct (Winv_reach t acts) as [Hok _]. destruct (Hok _ _ Hn Hf) as [Hm|[g [s [H1 [H2 H3]]]]]; [congruence|].
  exists g, s. split; [exact H1|]. split; [exact H2|].
  unfold do_flip. rewrite H2.
  destruct (wake_all (s_tasks (fst (run_async acts (init t))))
                     (map r_w (filter (on_gate g) (s_regs (fst (run_async acts (init t))))))
                     (s_runq (fst (run_async acts (init t))))) as [rq o] eqn:Ew.
  cbn [fst s_runq]. destruct (wake_all_spec _ _ _ _ _ Ew) as [_ [Ht _]]. apply Ht.
  - apply in_map_iff. exists (mkReg g (l_k (t_leaf tk)) (l_b (t_leaf tk)) (WTask u)). split; [reflexivity|].
    apply filter_In. split; [exact H3|]. unfold on_gate. cbn. apply N.eqb_refl.
  - rewrite (task_fin_nth _ _ _ Hn). exact Hf.
Qed.

(** and the completion of an awaited task notifies the root through the join handle:
    the handle slot holds the root's waker, and a task poll that completes with the slot set
    emits the notification. *)
Theorem awaited_task_has_root_waker : forall t acts st n cs rest u tk,
  st = fst (run_async acts (init t)) ->
  s_root st = RRun n cs rest -> In (CHandle u) cs ->
  nth_error (s_tasks st) u = Some tk -> t_fin tk = false -> t_jw tk = true.
Proof.
  intros t acts st n cs rest u tk -> Hr Hin Hn Hf.
  destruct (Winv_reach t acts) as [_ Hroot]. rewrite Hr in Hroot. destruct Hroot as [_ Hh].
  destruct (Hh u Hin) as [tk0 [Hn0 Hj]]. rewrite Hn in Hn0. inversion Hn0; subst. auto.
Qed.

Lemma task_completion_notifies : forall ready u tk tk' o rs,
  poll_task ready u tk = (tk', o, rs) -> t_jw tk = true -> t_fin tk' = true -> In ONotify o.
Proof.
  intros ready u tk tk' o rs E Hj Hf. unfold poll_task in E.
  destruct (poll_leaf ready (t_leaf tk)) as [[ok|l' g] ol]; inversion E; subst.
  - rewrite Hj. apply in_or_app. right. left. reflexivity.
  - cbn in Hf. discriminate.
Qed.

Lemma run_queue_notifies : forall ready q tasks regs tasks' regs' o u tk,
  run_queue q ready tasks regs = (tasks', regs', o) ->
  In u q -> nth_error tasks u = Some tk -> t_fin tk = false -> t_jw tk = true ->
  gates_ready ready (l_script (t_leaf tk)) ->
  In ONotify o.
Proof.
  intros ready. induction q as [|t0 q IH]; intros tasks regs tasks' regs' o u tk E Hin Hn Hf Hj Hg; [destruct Hin|].
  cbn [run_queue] in E. destruct (Nat.eq_dec t0 u) as [->|Hne].
  - rewrite Hn, Hf in E. destruct (poll_task ready u tk) as [[tk1 o1] rs1] eqn:Ept.
    destruct (run_queue q ready (upd tasks u tk1) (add_regs rs1 regs)) as [[tasks2 regs2] o2] eqn:Er.
    inversion E; subst. apply in_or_app. left.
    destruct (poll_task_spec _ _ _ _ _ _ Ept) as [_ [_ [_ Hcase]]].
    destruct Hcase as [[Hfin _]|[_ [_ [g [pre [s [H1 [_ [_ [H2 _]]]]]]]]]].
    + eapply task_completion_notifies; eassumption.
    + exfalso. assert (memN g ready = true) by (apply Hg; rewrite H1; apply in_or_app; right; left; reflexivity). congruence.
  - destruct Hin as [Hin|Hin]; [congruence|].
    destruct (nth_error tasks t0) as [tk0|] eqn:En; [destruct (t_fin tk0)|].
    + eapply IH; eassumption.
    + destruct (poll_task ready t0 tk0) as [[tk1 o1] rs1] eqn:Ept.
      destruct (run_queue q ready (upd tasks t0 tk1) (add_regs rs1 regs)) as [[tasks2 regs2] o2] eqn:Er.
      inversion E; subst. apply in_or_app. right.
      eapply IH; [exact Er | exact Hin | | exact Hf | exact Hj | exact Hg].
      rewrite nth_error_upd_other by exact Hne. exact Hn.
    + eapply IH; eassumption.
Qed.

(** (d), task kinds, end to end: in every reachable state, a task awaited by the current step
    that has been woken (is queued) and whose remaining gates are all ready completes in the
    next [RunTasks], and that run NOTIFIES THE ROOT (gate -> task waker -> task completes ->
    join-handle waker -> root). *)
Theorem woken_task_completion_notifies_root : forall t acts st n cs rest u tk,
  st = fst (run_async acts (init t)) ->
  s_root st = RRun n cs rest -> In (CHandle u) cs ->
  nth_error (s_tasks st) u = Some tk -> t_fin tk = false ->
  memn u (s_runq st) = true -> gates_ready (s_ready st) (l_script (t_leaf tk)) ->
  In ONotify (snd (do_run_tasks st)).
Proof.
  intros t acts st n cs rest u tk Hst Hr Hin Hn Hf Hq Hg.
  pose proof (awaited_task_has_root_waker t acts st n cs rest u tk Hst Hr Hin Hn Hf) as Hj.
  unfold do_run_tasks.
  destruct (run_queue (s_runq st) (s_ready st) (s_tasks st) (s_regs st)) as [[tasks regs] o] eqn:Er. cbn [snd].
  eapply run_queue_notifies; [exact Er | apply memn_true_iff; exact Hq | exact Hn | exact Hf | exact Hj | exact Hg].
Qed.

(* ---------------------------------------------------------------------------------- *)
(** ** (c) A pending branch never blocks a ready sibling (state part) *)

(** After EVERY poll of the root, every unfinished inline child of the current step is parked
    on a gate that is NOT ready (and the root's waker is in its slot): no child whose next
    gate is ready is left unpolled. *)
Theorem after_poll_all_parked : forall t acts st n cs rest l,
  st = fst (run_async (acts ++ [Poll]) (init t)) ->
  s_root st = RRun n cs rest -> In (CLeaf l) cs ->
  fresh_parked (s_ready st) (s_regs st) l.
Proof.
  intros t acts st n cs rest l -> Hr Hin. rewrite run_async_app in Hr |- *.
  destruct (run_async acts (init t)) as [st1 o1] eqn:E1.
  assert (HW : Winv st1) by (pose proof (Winv_reach t acts) as H; rewrite E1 in H; exact H).
  cbn [run_async step] in Hr |- *. destruct (do_poll st1) as [st2 o2] eqn:E2. cbn [fst] in Hr |- *.
  destruct (do_poll_W _ _ _ HW E2) as [_ Hroot]. rewrite Hr in Hroot. destruct Hroot as [Hl _].
  apply Hl. exact Hin.
Qed.

(** After EVERY [RunTasks], every unfinished task is parked on an unready gate of its
    script (with its own waker registered): the runtime leaves no woken task unpolled. *)
Theorem after_run_tasks_all_parked : forall t acts st u tk,
  st = fst (run_async (acts ++ [RunTasks]) (init t)) ->
  nth_error (s_tasks st) u = Some tk -> t_fin tk = false ->
  exists g s, l_script (t_leaf tk) = AGate g :: s /\ memN g (s_ready st) = false /\
              In (mkReg g (l_k (t_leaf tk)) (l_b (t_leaf tk)) (WTask u)) (s_regs st).
Proof.
  intros t acts st u tk -> Hn Hf. rewrite run_async_app in Hn |- *.
  destruct (run_async acts (init t)) as [st1 o1] eqn:E1.
  assert (HW : Winv st1) by (pose proof (Winv_reach t acts) as H; rewrite E1 in H; exact H).
  cbn [run_async step] in Hn |- *. unfold do_run_tasks in Hn |- *.
  destruct (run_queue (s_runq st1) (s_ready st1) (s_tasks st1) (s_regs st1)) as [[tasks regs] o2] eqn:Er.
  cbn [fst s_tasks s_ready s_regs] in Hn |- *. destruct HW as [Hok _].
  destruct (run_queue_W _ _ _ _ _ _ _ Er Hok) as [R1 _].
  destruct (R1 _ _ Hn Hf) as [Hm|Hp]; [cbn in Hm; discriminate | exact Hp].
Qed.

(** In every reachable state: an unfinished task that is not in the run queue is parked. *)
Theorem unqueued_task_parked : forall t acts st u tk,
  st = fst (run_async acts (init t)) ->
  nth_error (s_tasks st) u = Some tk -> t_fin tk = false -> memn u (s_runq st) = false ->
  exists g s, l_script (t_leaf tk) = AGate g :: s /\ memN g (s_ready st) = false /\
              In (mkReg g (l_k (t_leaf tk)) (l_b (t_leaf tk)) (WTask u)) (s_regs st).
Proof.
  intros t acts st u tk -> Hn Hf Hq. destruct (Winv_reach t acts) as [Hok _].
  destruct (Hok _ _ Hn Hf) as [Hm|Hp]; [congruence | exact Hp].
Qed.

(* ================================================================================== *)
(** * 4. Scripts only shrink: every script in the state is a suffix of a program script *)

Definition leaf_suffix (l l' : leaf) : Prop :=
  l_k l' = l_k l /\ l_b l' = l_b l /\ l_ok l' = l_ok l /\ exists pre, l_script l = pre ++ l_script l'.

Lemma leaf_suffix_refl : forall l, leaf_suffix l l.
Proof. intros l. repeat split. exists []. reflexivity. Qed.

Lemma leaf_suffix_trans : forall a b c, leaf_suffix a b -> leaf_suffix b c -> leaf_suffix a c.
Proof.
  intros a b c [H1 [H2 [H3 [p1 H4]]]] [K1 [K2 [K3 [p2 K4]]]].
  split; [congruence|]. split; [congruence|]. split; [congruence|].
  exists (p1 ++ p2). rewrite H4, K4. apply app_assoc.
Qed.

Lemma poll_child_leaf : forall try ready tasks c c' o rs js st l',
  poll_child try ready tasks c = (c', o, rs, js, st) -> c' = CLeaf l' ->
  exists l, c = CLeaf l /\ leaf_suffix l l'.
Proof.
  intros try ready tasks c c' o rs js st l' E Hc. destruct c as [l|t|]; cbn [poll_child] in E.
  - destruct (poll_leaf ready l) as [r ol] eqn:El.
    destruct (poll_leaf_spec _ _ _ _ El) as [o' [Hf [[Hr [Ho Hg]]|[g [pre [s [Hr [Ho [Hm [Hs Hp]]]]]]]]]]; subst r.
    + inversion E; subst. discriminate.
    + inversion E; subst. inversion H0; subst. exists l. split; [reflexivity|].
      unfold leaf_suffix. cbn. repeat split. exists pre. exact Hs.
  - destruct (nth_error tasks t) as [tk|]; [destruct (t_fin tk)|]; inversion E; subst; discriminate.
  - inversion E; subst. discriminate.
Qed.

Lemma poll_children_leaves : forall try ready tasks cs cs' o rs js st l',
  poll_children try ready tasks cs = (cs', o, rs, js, st) -> In (CLeaf l') cs' ->
  exists l, In (CLeaf l) cs /\ leaf_suffix l l'.
Proof.
  intros try ready tasks. induction cs as [|c cs IH]; intros cs' o rs js st l' E Hin; cbn [poll_children] in E.
  - inversion E; subst. destruct Hin.
  - destruct (poll_child try ready tasks c) as [[[[c1 o1] rs1] js1] st1] eqn:Ec.
    assert (Hhead : c1 = CLeaf l' -> exists l, In (CLeaf l) (c :: cs) /\ leaf_suffix l l').
    { intros Hc. destruct (poll_child_leaf _ _ _ _ _ _ _ _ _ _ Ec Hc) as [l [-> Hs]]. exists l. split; [left; reflexivity | exact Hs]. }
    assert (Htail : forall cs2 o2 rs2 js2 st2, poll_children try ready tasks cs = (cs2, o2, rs2, js2, st2) ->
                    In (CLeaf l') (c1 :: cs2) -> exists l, In (CLeaf l) (c :: cs) /\ leaf_suffix l l').
    { intros cs2 o2 rs2 js2 st2 Ecs [Hc|Hc]; [apply Hhead; exact Hc|].
      destruct (IH _ _ _ _ _ _ Ecs Hc) as [l [H1 H2]]. exists l. split; [right; exact H1 | exact H2]. }
    destruct st1 as [| |k1 b1].
    + destruct (poll_children try ready tasks cs) as [[[[cs2 o2] rs2] js2] st2] eqn:Ecs.
      inversion E; subst. eapply Htail; [reflexivity | exact Hin].
    + destruct (poll_children try ready tasks cs) as [[[[cs2 o2] rs2] js2] st2] eqn:Ecs.
      inversion E; subst. eapply Htail; [reflexivity | exact Hin].
    + inversion E; subst. destruct Hin as [Hc|Hc]; [apply Hhead; exact Hc|].
      exists l'. split; [right; exact Hc | apply leaf_suffix_refl].
Qed.

Definition cexpr_leaf (c : cexpr) : leaf := match c with CInline l => l | CSpawn l => l end.
Definition sexpr_leaves (s : sexpr) : list leaf :=
  match s with SAwait l => [l] | SJoin cs => map cexpr_leaf cs end.

Lemma inst_children_spec : forall cs tasks runq ch tk rq o,
  inst_children cs tasks runq = (ch, tk, rq, o) ->
  (exists new, tk = tasks ++ new /\
               forall x, In x new -> In (t_leaf x) (map cexpr_leaf cs) /\ t_fin x = false) /\
  (forall l, In (CLeaf l) ch -> In l (map cexpr_leaf cs)) /\
  (forall t, memn t runq = true -> memn t rq = true).
Proof.
  induction cs as [|c cs IH]; intros tasks runq ch tk rq o E; cbn [inst_children] in E.
  - inversion E; subst. split; [exists []; split; [symmetry; apply app_nil_r | intros x []]|]. split; [intros l []|auto].
  - destruct c as [l|l].
    + destruct (inst_children cs tasks runq) as [[[ch1 tk1] rq1] o1] eqn:E1. inversion E; subst.
      destruct (IH _ _ _ _ _ _ E1) as [[new [Hn Hx]] [Hl Hq]]. split; [|split].
      * exists new. split; [exact Hn|]. intros x Hin. destruct (Hx x Hin) as [H1 H2]. split; [right; exact H1 | exact H2].
      * intros l0 [Hc|Hc]; [inversion Hc; subst; left; reflexivity | right; apply Hl; exact Hc].
      * exact Hq.
    + destruct (inst_children cs (tasks ++ [mkTask l false false]) (runq ++ [length tasks]))
        as [[[ch1 tk1] rq1] o1] eqn:E1. inversion E; subst.
      destruct (IH _ _ _ _ _ _ E1) as [[new [Hn Hx]] [Hl Hq]]. split; [|split].
      * exists (mkTask l false false :: new). split; [rewrite Hn, <- app_assoc; reflexivity|].
        intros x [<-|Hin]; [cbn; split; [left; reflexivity|reflexivity]|].
        destruct (Hx x Hin) as [H1 H2]. split; [right; exact H1 | exact H2].
      * intros l0 [Hc|Hc]; [discriminate | right; apply Hl; exact Hc].
      * intros t Hm. apply Hq. apply memn_app_l. exact Hm.
Qed.

Lemma inst_step_spec : forall s tasks runq ch tk rq o,
  inst_step s tasks runq = (ch, tk, rq, o) ->
  (exists new, tk = tasks ++ new /\
               forall x, In x new -> In (t_leaf x) (sexpr_leaves s) /\ t_fin x = false) /\
  (forall l, In (CLeaf l) ch -> In l (sexpr_leaves s)) /\
  (forall t, memn t runq = true -> memn t rq = true).
Proof.
  intros s tasks runq ch tk rq o E. destruct s as [l|cs]; cbn [inst_step] in E.
  - inversion E; subst. split; [exists []; split; [symmetry; apply app_nil_r | intros x []]|].
    split; [|auto]. intros l0 [Hc|[]]. inversion Hc; subst. left. reflexivity.
  - apply inst_children_spec in E. exact E.
Qed.

Lemma run_queue_leaves : forall ready q tasks regs tasks' regs' o t tk',
  run_queue q ready tasks regs = (tasks', regs', o) -> nth_error tasks' t = Some tk' ->
  exists tk, nth_error tasks t = Some tk /\ leaf_suffix (t_leaf tk) (t_leaf tk') /\
             (t_fin tk = true -> tk' = tk).
Proof.
  intros ready. induction q as [|t0 q IH]; intros tasks regs tasks' regs' o t tk' E Hn; cbn [run_queue] in E.
  - inversion E; subst. exists tk'. split; [exact Hn|]. split; [apply leaf_suffix_refl | auto].
  - destruct (nth_error tasks t0) as [tk0|] eqn:En; [destruct (t_fin tk0) eqn:Ef|].
    + eapply IH; eassumption.
    + destruct (poll_task ready t0 tk0) as [[tk1 o1] rs1] eqn:Ept.
      destruct (run_queue q ready (upd tasks t0 tk1) (add_regs rs1 regs)) as [[tasks2 regs2] o2] eqn:Er.
      inversion E; subst. destruct (IH _ _ _ _ _ _ _ Er Hn) as [tk [Hn1 [Hs Hfx]]].
      apply nth_error_upd_inv in Hn1. destruct Hn1 as [[-> [-> _]]|[Hne Hn1]].
      * exists tk0. split; [exact En|]. split; [|intros; congruence].
        eapply leaf_suffix_trans; [|exact Hs].
        destruct (poll_task_spec _ _ _ _ _ _ Ept) as [Hk [Hb [Hok Hcase]]].
        split; [exact Hk|]. split; [exact Hb|]. split; [exact Hok|].
        destruct Hcase as [[_ [_ [_ Hnil]]]|[_ [_ [g [pre [s [H1 [_ [H2 _]]]]]]]]].
        -- exists (l_script (t_leaf tk0)). rewrite Hnil. symmetry. apply app_nil_r.
        -- exists pre. rewrite H2. exact H1.
      * exists tk. split; [exact Hn1|]. split; [exact Hs | exact Hfx].
    + eapply IH; eassumption.
Qed.

(** ** Gates: a set G of gates containing every gate of the state keeps doing so *)

Definition script_in (G : N -> Prop) (s : list atom) : Prop := forall g, In (AGate g) s -> G g.

Lemma script_in_suffix : forall G l l', leaf_suffix l l' -> script_in G (l_script l) -> script_in G (l_script l').
Proof.
  intros G l l' [_ [_ [_ [pre H]]]] Hs g Hg. apply Hs. rewrite H. apply in_or_app. right. exact Hg.
Qed.

Definition tasks_in (G : N -> Prop) (tasks : list task) : Prop :=
  forall t tk, nth_error tasks t = Some tk -> script_in G (l_script (t_leaf tk)).
Definition children_in (G : N -> Prop) (cs : list child) : Prop :=
  forall l, In (CLeaf l) cs -> script_in G (l_script l).
Definition rest_in (G : N -> Prop) (rest : list sexpr) : Prop :=
  forall s l, In s rest -> In l (sexpr_leaves s) -> script_in G (l_script l).

Definition state_gates_in (G : N -> Prop) (st : state) : Prop :=
  tasks_in G (s_tasks st) /\
  match s_root st with
  | RRun _ cs rest => children_in G cs /\ rest_in G rest
  | RFin _ => True
  end.

Lemma tasks_in_core : forall G tasks tasks',
  tasks_in G tasks ->
  (forall t tk', nth_error tasks' t = Some tk' -> exists tk, nth_error tasks t = Some tk /\ tcore tk' = tcore tk) ->
  tasks_in G tasks'.
Proof.
  intros G tasks tasks' H Hc t tk' Hn. destruct (Hc _ _ Hn) as [tk [Hn0 Hcore]].
  unfold tcore in Hcore. inversion Hcore as [[Hl Hf]]. rewrite Hl. eapply H. exact Hn0.
Qed.

Lemma poll_steps_G : forall G try ready rest n cs regs tasks runq rt regs' tasks' runq' o,
  poll_steps try ready n cs rest regs tasks runq = (rt, regs', tasks', runq', o) ->
  tasks_in G tasks -> children_in G cs -> rest_in G rest ->
  tasks_in G tasks' /\
  match rt with RRun _ cs' rest' => children_in G cs' /\ rest_in G rest' | RFin _ => True end.
Proof.
  intros G try ready. induction rest as [|s rest IH];
    intros n cs regs tasks runq rt regs' tasks' runq' o E Ht Hc Hr; cbn [poll_steps] in E;
    destruct (poll_children try ready tasks cs) as [[[[cs1 o1] rs1] js1] st1] eqn:Ec;
    assert (Hc1 : children_in G cs1)
      by (intros l' Hin; destruct (poll_children_leaves _ _ _ _ _ _ _ _ _ _ Ec Hin) as [l [H1 H2]];
          eapply script_in_suffix; [exact H2 | apply Hc; exact H1]);
    assert (Ht1 : tasks_in G (set_jw js1 tasks))
      by (eapply tasks_in_core; [exact Ht|]; intros t tk' Hn;
          destruct (set_jw_spec _ _ _ _ Hn) as [tk [H1 [H2 _]]]; eauto);
    assert (Htd : tasks_in G (drop_jw (set_jw js1 tasks)))
      by (eapply tasks_in_core; [exact Ht1|]; intros t tk' Hn; apply drop_jw_spec; exact Hn).
  - destruct st1 as [| |k1 b1]; inversion E; subst.
    + split; [exact Ht1|]. split; [exact Hc1 | exact Hr].
    + split; [exact Htd | exact I].
    + split; [exact Htd | exact I].
  - destruct st1 as [| |k1 b1].
    + inversion E; subst. split; [exact Ht1|]. split; [exact Hc1 | exact Hr].
    + destruct (inst_step s (set_jw js1 tasks) runq) as [[[cs2 tasks2] runq2] o2] eqn:Ei.
      destruct (poll_steps try ready (S n) cs2 rest (add_regs rs1 regs) tasks2 runq2)
        as [[[[rt3 regs3] tasks3] runq3] o3] eqn:Ep.
      inversion E; subst.
      destruct (inst_step_spec _ _ _ _ _ _ _ Ei) as [[new [Hn Hx]] [Hl _]].
      assert (Hs : forall l, In l (sexpr_leaves s) -> script_in G (l_script l))
        by (intros l Hin; eapply Hr; [left; reflexivity | exact Hin]).
      eapply IH; [exact Ep | | |].
      * subst tasks2. intros t tk Hnth. destruct (Nat.lt_ge_cases t (length (set_jw js1 tasks))) as [Hlt|Hge].
        -- rewrite nth_error_app1 in Hnth by exact Hlt. eapply Ht1. exact Hnth.
        -- rewrite nth_error_app2 in Hnth by exact Hge. apply nth_error_In in Hnth.
           apply Hs. apply (Hx tk Hnth).
      * intros l Hin. apply Hs. apply Hl. exact Hin.
      * intros s0 l Hin. eapply Hr. right. exact Hin.
    + inversion E; subst. split; [exact Htd | exact I].
Qed.

Lemma Ginv_step : forall G st a, state_gates_in G st -> state_gates_in G (fst (step a st)).
Proof.
  intros G st a [Ht Hroot]. destruct a as [g| |]; cbn [step].
  - unfold do_flip. destruct (memN g (s_ready st)); [split; assumption|].
    destruct (wake_all (s_tasks st) (map r_w (filter (on_gate g) (s_regs st))) (s_runq st)) as [rq o].
    cbn [fst]. split; assumption.
  - unfold do_poll. destruct (s_root st) as [n cs rest|r] eqn:Er.
    + destruct (poll_steps (s_try st) (s_ready st) n cs rest (s_regs st) (s_tasks st) (s_runq st))
        as [[[[rt regs] tasks] runq] o1] eqn:Ep. cbn [fst]. destruct Hroot as [Hc Hr].
      destruct (poll_steps_G G _ _ _ _ _ _ _ _ _ _ _ _ _ Ep Ht Hc Hr) as [H1 H2].
      split; [exact H1 | exact H2].
    + cbn [fst]. split; [exact Ht|]. rewrite Er. exact I.
  - unfold do_run_tasks.
    destruct (run_queue (s_runq st) (s_ready st) (s_tasks st) (s_regs st)) as [[tasks regs] o1] eqn:Er.
    cbn [fst]. split; [|exact Hroot]. cbn [s_tasks]. intros t tk' Hn.
    destruct (run_queue_leaves _ _ _ _ _ _ _ _ _ Er Hn) as [tk [Hn0 [Hs _]]].
    eapply script_in_suffix; [exact Hs | eapply Ht; exact Hn0].
Qed.

(* ================================================================================== *)
(** * 5. (e) Completion *)

Definition Gr (ready : list N) : N -> Prop := fun g => memN g ready = true.

(** every gate that still occurs in the state (children, tasks, steps to come) is ready *)
Definition all_ready (st : state) : Prop := state_gates_in (Gr (s_ready st)) st.

Definition finished (st : state) : Prop := exists r, s_root st = RFin r.

Definition is_cspawn (c : cexpr) : bool := match c with CSpawn _ => true | CInline _ => false end.
Definition is_spawn_step (s : sexpr) : bool :=
  match s with SAwait _ => false | SJoin cs => existsb is_cspawn cs end.
(** number of task-spawning steps among the steps that do not exist yet *)
Definition nsp (rest : list sexpr) : nat := length (filter is_spawn_step rest).
Definition is_handle (c : child) : bool := match c with CHandle _ => true | _ => false end.
Definition hflag (cs : list child) : nat := if existsb is_handle cs then 1 else 0.

(** How many [RunTasks; Poll] rounds are still needed after a [Poll] once every gate is ready:
    one per task-spawning step to come, plus one if the current step awaits tasks. *)
Definition pend (st : state) : nat :=
  match s_root st with RRun _ cs rest => nsp rest + hflag cs | RFin _ => 0 end.

Definition rounds (k : nat) : list action := concat (repeat [RunTasks; Poll] k).

Definition no_leaf (cs : list child) : Prop := forall l, ~ In (CLeaf l) cs.
Definition handles_done (tasks : list task) (cs : list child) : Prop :=
  forall t, In (CHandle t) cs -> exists tk, nth_error tasks t = Some tk /\ t_fin tk = true.

Lemma nsp_cons : forall s rest, nsp (s :: rest) = (if is_spawn_step s then 1 else 0) + nsp rest.
Proof. intros s rest. unfold nsp. cbn [filter]. destruct (is_spawn_step s); reflexivity. Qed.

Lemma hflag_le1 : forall cs, hflag cs <= 1.
Proof. intros cs. unfold hflag. destruct (existsb is_handle cs); lia. Qed.

Lemma hflag_0 : forall cs, (forall t, ~ In (CHandle t) cs) -> hflag cs = 0.
Proof.
  intros cs H. unfold hflag. destruct (existsb is_handle cs) eqn:E; [|reflexivity].
  apply existsb_exists in E. destruct E as [c [Hin Hc]]. destruct c; try discriminate. exfalso. eapply H. exact Hin.
Qed.

Lemma hflag_0_inv : forall cs t, hflag cs = 0 -> ~ In (CHandle t) cs.
Proof.
  intros cs t H Hin. unfold hflag in H. destruct (existsb is_handle cs) eqn:E; [discriminate|].
  assert (existsb is_handle cs = true) by (apply existsb_exists; exists (CHandle t); split; [exact Hin | reflexivity]).
  congruence.
Qed.

Lemma poll_child_E : forall try ready tasks c c' o rs js st,
  poll_child try ready tasks c = (c', o, rs, js, st) ->
  (forall l, c = CLeaf l -> gates_ready ready (l_script l)) ->
  (forall l, c' <> CLeaf l) /\
  (st = CPend -> exists t, c = CHandle t /\ ~ (exists tk, nth_error tasks t = Some tk /\ t_fin tk = true)).
Proof.
  intros try ready tasks c c' o rs js st E Hg. destruct c as [l|t|]; cbn [poll_child] in E.
  - destruct (poll_leaf ready l) as [r ol] eqn:El.
    destruct (poll_leaf_spec _ _ _ _ El) as [o' [Hf [[Hr [Ho Hgr]]|[g [pre [s [Hr [Ho [Hm [Hs Hp]]]]]]]]]]; subst r.
    + inversion E; subst. split; [intros; discriminate|]. unfold fin_stat. destruct (try && negb (l_ok l)); intros; discriminate.
    + exfalso. specialize (Hg l eq_refl). rewrite Hs in Hg.
      assert (memN g ready = true) by (apply Hg; apply in_or_app; right; left; reflexivity). congruence.
  - destruct (nth_error tasks t) as [tk|] eqn:En.
    + destruct (t_fin tk) eqn:Ef; inversion E; subst.
      * split; [intros; discriminate|]. unfold fin_stat. destruct (try && negb _); intros; discriminate.
      * split; [intros; discriminate|]. intros _. exists t. split; [reflexivity|].
        intros [tk0 [H1 H2]]. inversion H1; subst. congruence.
    + inversion E; subst. split; [intros; discriminate|]. intros _. exists t. split; [reflexivity|].
      intros [tk0 [H1 H2]]. congruence.
  - inversion E; subst. split; intros; discriminate.
Qed.

Lemma poll_children_E : forall try ready tasks cs cs' o rs js st,
  poll_children try ready tasks cs = (cs', o, rs, js, st) ->
  children_in (Gr ready) cs ->
  ((forall k b, st <> JFail k b) -> no_leaf cs') /\
  (handles_done tasks cs -> st <> JPend).
Proof.
  intros try ready tasks. induction cs as [|c cs IH]; intros cs' o rs js st E Hg; cbn [poll_children] in E.
  - inversion E; subst. split; [intros _ l []|intros; discriminate].
  - destruct (poll_child try ready tasks c) as [[[[c1 o1] rs1] js1] st1] eqn:Ec.
    assert (Hgc : forall l, c = CLeaf l -> gates_ready ready (l_script l))
      by (intros l ->; apply Hg; left; reflexivity).
    assert (Hgs : children_in (Gr ready) cs) by (intros l Hin; apply Hg; right; exact Hin).
    destruct (poll_child_E _ _ _ _ _ _ _ _ _ Ec Hgc) as [Hnl Hpend].
    assert (Hcomb : forall cs2 o2 rs2 js2 st2 stx,
               poll_children try ready tasks cs = (cs2, o2, rs2, js2, st2) ->
               st1 <> CPend \/ st1 = CPend ->
               stx = match st2 with JFail k b => JFail k b | JPend => JPend
                                 | JAll => match st1 with CPend => JPend | _ => JAll end end ->
               ((forall k b, stx <> JFail k b) -> no_leaf (c1 :: cs2)) /\
               (handles_done tasks (c :: cs) -> stx <> JPend)).
    { intros cs2 o2 rs2 js2 st2 stx Ecs _ Hstx. destruct (IH _ _ _ _ _ Ecs Hgs) as [IH1 IH2]. split.
      - intros Hnf l [Hc|Hc]; [exact (Hnl l Hc)|]. apply (IH1) with (l := l); [|exact Hc].
        intros k b ->. apply (Hnf k b). exact Hstx.
      - intros Hd. assert (Hd' : handles_done tasks cs) by (intros t Hin; apply Hd; right; exact Hin).
        specialize (IH2 Hd'). subst stx. destruct st2 as [| |k b]; [congruence | | discriminate].
        destruct st1 as [| |k b]; try discriminate.
        destruct (Hpend eq_refl) as [t [-> Hnd]]. exfalso. apply Hnd. apply Hd. left. reflexivity. }
    destruct st1 as [| |k1 b1].
    + destruct (poll_children try ready tasks cs) as [[[[cs2 o2] rs2] js2] st2] eqn:Ecs.
      inversion E; subst. eapply Hcomb; [reflexivity | right; reflexivity | reflexivity].
    + destruct (poll_children try ready tasks cs) as [[[[cs2 o2] rs2] js2] st2] eqn:Ecs.
      inversion E; subst. eapply Hcomb; [reflexivity | left; discriminate | reflexivity].
    + inversion E; subst. split; [intros Hnf; exfalso; apply (Hnf k1 b1); reflexivity | intros; discriminate].
Qed.

Lemma poll_child_handles : forall try ready tasks c c' o rs js st t,
  poll_child try ready tasks c = (c', o, rs, js, st) -> c' = CHandle t -> c = CHandle t.
Proof.
  intros try ready tasks c c' o rs js st t E Hc. destruct c as [l|u|]; cbn [poll_child] in E.
  - destruct (poll_leaf ready l) as [[ok|l' g] ol]; inversion E; subst; discriminate.
  - destruct (nth_error tasks u) as [tk|]; [destruct (t_fin tk)|]; inversion E; subst; try discriminate; exact H0.
  - inversion E; subst. discriminate.
Qed.

Lemma poll_children_handles : forall try ready tasks cs cs' o rs js st t,
  poll_children try ready tasks cs = (cs', o, rs, js, st) -> In (CHandle t) cs' -> In (CHandle t) cs.
Proof.
  intros try ready tasks. induction cs as [|c cs IH]; intros cs' o rs js st t E Hin; cbn [poll_children] in E.
  - inversion E; subst. exact Hin.
  - destruct (poll_child try ready tasks c) as [[[[c1 o1] rs1] js1] st1] eqn:Ec.
    assert (Hhead : c1 = CHandle t -> In (CHandle t) (c :: cs))
      by (intros Hc; left; eapply poll_child_handles; eassumption).
    destruct st1 as [| |k1 b1].
    + destruct (poll_children try ready tasks cs) as [[[[cs2 o2] rs2] js2] st2] eqn:Ecs.
      inversion E; subst. destruct Hin as [Hc|Hc]; [apply Hhead; exact Hc | right; eapply IH; [reflexivity | exact Hc]].
    + destruct (poll_children try ready tasks cs) as [[[[cs2 o2] rs2] js2] st2] eqn:Ecs.
      inversion E; subst. destruct Hin as [Hc|Hc]; [apply Hhead; exact Hc | right; eapply IH; [reflexivity | exact Hc]].
    + inversion E; subst. destruct Hin as [Hc|Hc]; [apply Hhead; exact Hc | right; exact Hc].
Qed.

Lemma inst_children_nohandle : forall cs tasks runq ch tk rq o,
  inst_children cs tasks runq = (ch, tk, rq, o) -> existsb is_cspawn cs = false ->
  forall t, ~ In (CHandle t) ch.
Proof.
  induction cs as [|c cs IH]; intros tasks runq ch tk rq o E Hns t Hin; cbn [inst_children] in E.
  - inversion E; subst. destruct Hin.
  - cbn [existsb] in Hns. apply orb_false_iff in Hns. destruct Hns as [Hc Hns]. destruct c as [l|l]; [|discriminate].
    destruct (inst_children cs tasks runq) as [[[ch1 tk1] rq1] o1] eqn:E1. inversion E; subst.
    destruct Hin as [Hd|Hin]; [discriminate|]. eapply IH; eassumption.
Qed.

Lemma inst_step_hflag : forall s tasks runq ch tk rq o,
  inst_step s tasks runq = (ch, tk, rq, o) -> hflag ch <= (if is_spawn_step s then 1 else 0).
Proof.
  intros s tasks runq ch tk rq o E. destruct (is_spawn_step s) eqn:Es; [apply hflag_le1|].
  rewrite hflag_0; [lia|]. destruct s as [l|cs]; cbn [inst_step] in E.
  - inversion E; subst. intros t [Hd|[]]. discriminate.
  - cbn [is_spawn_step] in Es. eapply inst_children_nohandle; eassumption.
Qed.

Lemma poll_steps_E : forall try ready rest n cs regs tasks runq rt regs' tasks' runq' o,
  poll_steps try ready n cs rest regs tasks runq = (rt, regs', tasks', runq', o) ->
  children_in (Gr ready) cs -> rest_in (Gr ready) rest ->
  match rt with
  | RFin _ => True
  | RRun _ cs' rest' => no_leaf cs' /\ nsp rest' <= nsp rest /\ (handles_done tasks cs -> nsp rest' + 1 <= nsp rest)
  end.
Proof.
  intros try ready. induction rest as [|s rest IH];
    intros n cs regs tasks runq rt regs' tasks' runq' o E Hc Hr; cbn [poll_steps] in E;
    destruct (poll_children try ready tasks cs) as [[[[cs1 o1] rs1] js1] st1] eqn:Ec;
    destruct (poll_children_E _ _ _ _ _ _ _ _ _ Ec Hc) as [Hnl Hnp].
  - destruct st1 as [| |k1 b1]; inversion E; subst; try exact I.
    split; [apply Hnl; intros; discriminate|]. split; [lia|]. intros Hd. exfalso. apply (Hnp Hd). reflexivity.
  - destruct st1 as [| |k1 b1].
    + inversion E; subst. split; [apply Hnl; intros; discriminate|]. split; [lia|].
      intros Hd. exfalso. apply (Hnp Hd). reflexivity.
    + destruct (inst_step s (set_jw js1 tasks) runq) as [[[cs2 tasks2] runq2] o2] eqn:Ei.
      destruct (poll_steps try ready (S n) cs2 rest (add_regs rs1 regs) tasks2 runq2)
        as [[[[rt3 regs3] tasks3] runq3] o3] eqn:Ep.
      inversion E; subst.
      destruct (inst_step_spec _ _ _ _ _ _ _ Ei) as [_ [Hl _]].
      assert (Hc2 : children_in (Gr ready) cs2)
        by (intros l Hin; eapply Hr; [left; reflexivity | apply Hl; exact Hin]).
      assert (Hr2 : rest_in (Gr ready) rest) by (intros s0 l Hin; eapply Hr; right; exact Hin).
      specialize (IH _ _ _ _ _ _ _ _ _ _ Ep Hc2 Hr2). destruct rt as [n' cs' rest'|r]; [|exact I].
      destruct IH as [I1 [I2 I3]]. rewrite nsp_cons. split; [exact I1|].
      pose proof (inst_step_hflag _ _ _ _ _ _ _ Ei) as Hh.
      destruct (is_spawn_step s).
      * split; [lia|]. intros _. lia.
      * assert (Hd2 : handles_done tasks2 cs2).
        { intros t Hin. exfalso. eapply hflag_0_inv; [|exact Hin]. lia. }
        specialize (I3 Hd2). split; [lia|]. intros _. lia.
    + inversion E; subst. exact I.
Qed.

Lemma poll_steps_pend : forall try ready rest n cs regs tasks runq rt regs' tasks' runq' o,
  poll_steps try ready n cs rest regs tasks runq = (rt, regs', tasks', runq', o) ->
  match rt with
  | RFin _ => True
  | RRun _ cs' rest' => nsp rest' + hflag cs' <= nsp rest + hflag cs
  end.
Proof.
  intros try ready. induction rest as [|s rest IH];
    intros n cs regs tasks runq rt regs' tasks' runq' o E; cbn [poll_steps] in E;
    destruct (poll_children try ready tasks cs) as [[[[cs1 o1] rs1] js1] st1] eqn:Ec;
    assert (Hh1 : hflag cs1 <= hflag cs)
      by (destruct (hflag cs) eqn:Eh; [|pose proof (hflag_le1 cs1); pose proof (hflag_le1 cs); lia];
          rewrite hflag_0; [lia|]; intros t Hin; eapply hflag_0_inv; [exact Eh|];
          eapply poll_children_handles; eassumption).
  - destruct st1 as [| |k1 b1]; inversion E; subst; try exact I. lia.
  - destruct st1 as [| |k1 b1].
    + inversion E; subst. lia.
    + destruct (inst_step s (set_jw js1 tasks) runq) as [[[cs2 tasks2] runq2] o2] eqn:Ei.
      destruct (poll_steps try ready (S n) cs2 rest (add_regs rs1 regs) tasks2 runq2)
        as [[[[rt3 regs3] tasks3] runq3] o3] eqn:Ep.
      inversion E; subst. specialize (IH _ _ _ _ _ _ _ _ _ _ Ep). destruct rt as [n' cs' rest'|r]; [|exact I].
      pose proof (inst_step_hflag _ _ _ _ _ _ _ Ei) as Hh. rewrite nsp_cons. lia.
    + inversion E; subst. exact I.
Qed.

(** [Poll] and [RunTasks] do not touch the gates. *)
Lemma ready_do_poll : forall st, s_ready (fst (do_poll st)) = s_ready st.
Proof.
  intros st. unfold do_poll. destruct (s_root st); [|reflexivity].
  destruct (poll_steps _ _ _ _ _ _ _ _) as [[[[rt regs] tasks] runq] o]. reflexivity.
Qed.

Lemma ready_do_run_tasks : forall st, s_ready (fst (do_run_tasks st)) = s_ready st.
Proof. intros st. unfold do_run_tasks. destruct (run_queue _ _ _ _) as [[tasks regs] o]. reflexivity. Qed.

Lemma all_ready_poll : forall st, all_ready st -> all_ready (fst (do_poll st)).
Proof.
  intros st H. unfold all_ready. rewrite ready_do_poll. exact (Ginv_step (Gr (s_ready st)) st Poll H).
Qed.

Lemma all_ready_run_tasks : forall st, all_ready st -> all_ready (fst (do_run_tasks st)).
Proof.
  intros st H. unfold all_ready. rewrite ready_do_run_tasks. exact (Ginv_step (Gr (s_ready st)) st RunTasks H).
Qed.

Lemma finished_step : forall st a, finished st -> finished (fst (step a st)).
Proof.
  intros st a [r Hr]. exists r. destruct a as [g| |]; cbn [step].
  - unfold do_flip. destruct (memN g (s_ready st)); [exact Hr|].
    destruct (wake_all _ _ _) as [rq o]. exact Hr.
  - unfold do_poll. rewrite Hr. exact Hr.
  - unfold do_run_tasks. destruct (run_queue _ _ _ _) as [[tasks regs] o]. exact Hr.
Qed.

Lemma finished_run : forall acts st, finished st -> finished (fst (run_async acts st)).
Proof. intros acts st H. apply (run_async_inv finished st H finished_step). Qed.

(** One poll with every gate ready: the root completes, or stops at a step that awaits
    tasks (no inline child is left), having consumed at least one task-spawning step unless
    it was already waiting for unfinished tasks. *)
Lemma poll_all_ready : forall st, all_ready st ->
  finished (fst (do_poll st)) \/
  exists n cs rest n' cs' rest',
    s_root st = RRun n cs rest /\ s_root (fst (do_poll st)) = RRun n' cs' rest' /\
    no_leaf cs' /\ nsp rest' <= nsp rest /\ (handles_done (s_tasks st) cs -> nsp rest' + 1 <= nsp rest).
Proof.
  intros st [Ht Hroot]. unfold do_poll. destruct (s_root st) as [n cs rest|r] eqn:Er.
  - destruct (poll_steps (s_try st) (s_ready st) n cs rest (s_regs st) (s_tasks st) (s_runq st))
      as [[[[rt regs] tasks] runq] o1] eqn:Ep. cbn [fst s_root]. destruct Hroot as [Hc Hr].
    pose proof (poll_steps_E _ _ _ _ _ _ _ _ _ _ _ _ _ Ep Hc Hr) as H.
    destruct rt as [n' cs' rest'|r]; [|left; exists r; reflexivity].
    right. exists n, cs, rest, n', cs', rest'. split; [reflexivity|]. split; [reflexivity | exact H].
  - left. exists r. cbn [fst]. exact Er.
Qed.

(** [RunTasks] with every gate ready finishes every task. *)
Lemma run_tasks_all_finish : forall st, Winv st -> all_ready st ->
  forall t tk, nth_error (s_tasks (fst (do_run_tasks st))) t = Some tk -> t_fin tk = true.
Proof.
  intros st [Hok _] [Ht _] t tk Hn. unfold do_run_tasks in Hn.
  destruct (run_queue (s_runq st) (s_ready st) (s_tasks st) (s_regs st)) as [[tasks regs] o1] eqn:Er.
  cbn [fst s_tasks] in Hn. destruct (run_queue_W _ _ _ _ _ _ _ Er Hok) as [R1 _].
  destruct (t_fin tk) eqn:Ef; [reflexivity|]. exfalso.
  destruct (R1 _ _ Hn Ef) as [Hm|[g [s [H1 [H2 H3]]]]]; [cbn in Hm; discriminate|].
  destruct (run_queue_leaves _ _ _ _ _ _ _ _ _ Er Hn) as [tk0 [Hn0 [Hs _]]].
  assert (Hg : script_in (Gr (s_ready st)) (l_script (t_leaf tk)))
    by (eapply script_in_suffix; [exact Hs | eapply Ht; exact Hn0]).
  assert (memN g (s_ready st) = true) by (apply Hg; rewrite H1; left; reflexivity). congruence.
Qed.

Definition Bstate (st : state) (m : nat) : Prop :=
  finished st \/ exists n cs rest, s_root st = RRun n cs rest /\ no_leaf cs /\ nsp rest <= m.

Lemma root_do_run_tasks : forall st, s_root (fst (do_run_tasks st)) = s_root st.
Proof. intros st. unfold do_run_tasks. destruct (run_queue _ _ _ _) as [[tasks regs] o]. reflexivity. Qed.

Lemma round_lemma : forall st m, Winv st -> all_ready st -> Bstate st m ->
  let st2 := fst (run_async [RunTasks; Poll] st) in
  Winv st2 /\ all_ready st2 /\ match m with 0 => finished st2 | S m' => Bstate st2 m' end.
Proof.
  intros st m HW HA HB. cbn [run_async step].
  destruct (do_run_tasks st) as [st1 o1] eqn:E1. destruct (do_poll st1) as [st2 o2] eqn:E2. cbn [fst].
  assert (HW1 : Winv st1) by (eapply do_run_tasks_W; eassumption).
  assert (HA1 : all_ready st1) by (pose proof (all_ready_run_tasks st HA) as H; rewrite E1 in H; exact H).
  assert (HW2 : Winv st2) by (eapply do_poll_W; eassumption).
  assert (HA2 : all_ready st2) by (pose proof (all_ready_poll st1 HA1) as H; rewrite E2 in H; exact H).
  split; [exact HW2|]. split; [exact HA2|].
  assert (Hr1 : s_root st1 = s_root st) by (pose proof (root_do_run_tasks st) as H; rewrite E1 in H; exact H).
  destruct HB as [Hfin|[n [cs [rest [Hr [Hnl Hle]]]]]].
  - assert (Hf2 : finished st2).
    { pose proof (finished_run [RunTasks; Poll] st Hfin) as H. cbn [run_async step] in H.
      rewrite E1, E2 in H. exact H. }
    destruct m; [exact Hf2 | left; exact Hf2].
  - assert (Hd : handles_done (s_tasks st1) cs).
    { intros t Hin. destruct HW1 as [_ Hroot1]. rewrite Hr1, Hr in Hroot1. destruct Hroot1 as [_ Hh].
      destruct (Hh t Hin) as [tk [Hn _]]. exists tk. split; [exact Hn|].
      pose proof (run_tasks_all_finish st HW HA t tk) as H. rewrite E1 in H. apply H. exact Hn. }
    destruct (poll_all_ready st1 HA1) as [Hf|[n0 [cs0 [rest0 [n' [cs' [rest' [Hr0 [Hr' [Hnl' [_ Hdec]]]]]]]]]]];
      rewrite E2 in *; cbn [fst] in *.
    + destruct m; [exact Hf | left; exact Hf].
    + rewrite Hr1, Hr in Hr0. inversion Hr0; subst n0 cs0 rest0. specialize (Hdec Hd).
      destruct m as [|m']; [lia|]. right. exists n', cs', rest'. split; [exact Hr'|]. split; [exact Hnl' | lia].
Qed.

Lemma rounds_S : forall k, rounds (S k) = [RunTasks; Poll] ++ rounds k.
Proof. intros k. reflexivity. Qed.

Lemma rounds_finish : forall m st, Winv st -> all_ready st -> Bstate st m ->
  finished (fst (run_async (rounds (S m)) st)).
Proof.
  induction m as [|m IH]; intros st HW HA HB; rewrite rounds_S, run_async_app;
    destruct (round_lemma st _ HW HA HB) as [HW2 [HA2 H2]];
    destruct (run_async [RunTasks; Poll] st) as [st2 o2]; cbn [fst] in *.
  - destruct (run_async (rounds 0) st2) as [st3 o3] eqn:E3. cbn in E3. inversion E3; subst. exact H2.
  - specialize (IH st2 HW2 HA2 H2). destruct (run_async (rounds (S m)) st2) as [st3 o3]. exact IH.
Qed.

Lemma rounds_plus : forall a b, rounds (a + b) = rounds a ++ rounds b.
Proof. intros a b. unfold rounds. rewrite repeat_app, concat_app. reflexivity. Qed.

(** (e), state form.  In a state in which every remaining gate is ready, [Poll] followed by
    [pend st] rounds of [RunTasks; Poll] completes the root ([pend st = 0] for the plain
    kinds: the FIRST poll completes).  More rounds do not hurt. *)
Theorem completes_state : forall st m, Winv st -> all_ready st -> pend st <= m ->
  finished (fst (run_async (Poll :: rounds m) st)).
Proof.
  intros st m HW HA Hm. replace m with (pend st + (m - pend st)) by lia.
  change (Poll :: rounds (pend st + (m - pend st))) with ([Poll] ++ rounds (pend st + (m - pend st))).
  rewrite rounds_plus, app_assoc, run_async_app.
  assert (Hfin : finished (fst (run_async ([Poll] ++ rounds (pend st)) st))).
  { rewrite run_async_app.
    assert (Hp : run_async [Poll] st = (fst (do_poll st), snd (do_poll st) ++ []))
      by (cbn [run_async step]; destruct (do_poll st); reflexivity).
    rewrite Hp. remember (fst (do_poll st)) as st1 eqn:E1.
    assert (HW1 : Winv st1).
    { subst st1. destruct (do_poll st) as [sx ox] eqn:E. destruct (do_poll_W _ _ _ HW E) as [H _]. exact H. }
    assert (HA1 : all_ready st1) by (subst st1; apply all_ready_poll; exact HA).
    assert (Hgoal : finished (fst (run_async (rounds (pend st)) st1))).
    { destruct (poll_all_ready st HA) as [Hf|[n [cs [rest [n' [cs' [rest' [Hr [Hr' [Hnl' [Hle Hdec]]]]]]]]]]];
        rewrite <- E1 in *.
      - apply finished_run. exact Hf.
      - unfold pend. rewrite Hr. unfold hflag. destruct (existsb is_handle cs) eqn:Eh.
        + replace (nsp rest + 1) with (S (nsp rest)) by lia. apply rounds_finish; [exact HW1 | exact HA1 |].
          right. exists n', cs', rest'. split; [exact Hr'|]. split; [exact Hnl' | exact Hle].
        + assert (Hd : handles_done (s_tasks st) cs).
          { intros t Hin. exfalso. eapply (hflag_0_inv cs t); [unfold hflag; rewrite Eh; reflexivity | exact Hin]. }
          specialize (Hdec Hd). destruct (nsp rest) as [|k] eqn:Ek; [lia|].
          replace (S k + 0) with (S k) by lia. apply rounds_finish; [exact HW1 | exact HA1 |].
          right. exists n', cs', rest'. split; [exact Hr'|]. split; [exact Hnl' | lia]. }
    destruct (run_async (rounds (pend st)) st1) as [st2 o2]. exact Hgoal. }
  destruct (run_async ([Poll] ++ rounds (pend st)) st) as [stf of]. cbn [fst] in Hfin.
  pose proof (finished_run (rounds (m - pend st)) stf Hfin) as H.
  destruct (run_async (rounds (m - pend st)) stf) as [st3 o3]. exact H.
Qed.

(** ** From programs to states *)

Lemma root_do_flip : forall g st, s_root (fst (do_flip g st)) = s_root st.
Proof.
  intros g st. unfold do_flip. destruct (memN g (s_ready st)); [reflexivity|].
  destruct (wake_all _ _ _) as [rq o]. reflexivity.
Qed.

(** The number of rounds still needed never grows. *)
Lemma pend_step : forall st a, pend (fst (step a st)) <= pend st.
Proof.
  intros st a. destruct a as [g| |]; cbn [step].
  - unfold pend. rewrite root_do_flip. lia.
  - unfold do_poll, pend. destruct (s_root st) as [n cs rest|r] eqn:Er.
    + destruct (poll_steps (s_try st) (s_ready st) n cs rest (s_regs st) (s_tasks st) (s_runq st))
        as [[[[rt regs] tasks] runq] o1] eqn:Ep. cbn [fst s_root].
      pose proof (poll_steps_pend _ _ _ _ _ _ _ _ _ _ _ _ _ Ep) as H. destruct rt; [exact H | lia].
    + cbn [fst]. rewrite Er. lia.
  - unfold pend. rewrite root_do_run_tasks. lia.
Qed.

Lemma pend_run : forall acts st, pend (fst (run_async acts st)) <= pend st.
Proof.
  intros acts st. apply (run_async_inv (fun s => pend s <= pend st) st (le_n _)).
  intros s a H. pose proof (pend_step s a). lia.
Qed.

Definition spawn_steps (p : shape) : nat := nsp (tr_steps (skeleton p)).

Lemma nsp_steps_from_plain : forall sts k, nsp (steps_from false k sts) = 0.
Proof.
  induction sts as [|stp sts IH]; intros k; cbn [steps_from]; [reflexivity|].
  rewrite nsp_cons, IH. destruct stp as [|b1 [|b2 r]]; cbn [step_expr is_spawn_step map existsb is_cspawn]; try reflexivity.
  assert (H : existsb is_cspawn (map (fun bs : bstep => CInline (leaf_of k bs)) r) = false).
  { induction r as [|x r IHr]; cbn; auto. }
  rewrite H. reflexivity.
Qed.

Lemma spawn_steps_plain : forall p, sh_spawn p = false -> spawn_steps p = 0.
Proof. intros p H. unfold spawn_steps, skeleton. cbn [tr_steps]. rewrite H. apply nsp_steps_from_plain. Qed.

Lemma nsp_steps_from_spawn : forall sts k,
  nsp (steps_from true k sts) = length (filter (fun stp => 2 <=? length stp) sts).
Proof.
  induction sts as [|stp sts IH]; intros k; cbn [steps_from filter]; [reflexivity|].
  rewrite nsp_cons, IH. destruct stp as [|b1 [|b2 r]]; reflexivity.
Qed.

(** For the task-spawning kinds the number of rounds is the number of steps with at least
    two active branches. *)
Lemma spawn_steps_spawn : forall p, sh_spawn p = true ->
  spawn_steps p = length (filter (fun stp => 2 <=? length stp) (sh_steps p)).
Proof. intros p H. unfold spawn_steps, skeleton. cbn [tr_steps]. rewrite H. apply nsp_steps_from_spawn. Qed.

Definition shape_gates (p : shape) (g : N) : Prop :=
  exists stp bs, In stp (sh_steps p) /\ In bs stp /\ In (AGate g) (bs_script bs).

Lemma step_expr_leaves : forall spawn k stp l,
  In l (sexpr_leaves (step_expr spawn k stp)) -> exists bs, In bs stp /\ l = leaf_of k bs.
Proof.
  intros spawn k stp l H.
  assert (Hj : In l (map cexpr_leaf (map (fun bs => if spawn then CSpawn (leaf_of k bs) else CInline (leaf_of k bs)) stp)) ->
               exists bs, In bs stp /\ l = leaf_of k bs).
  { intros Hin. apply in_map_iff in Hin. destruct Hin as [c [Hc Hin]]. apply in_map_iff in Hin.
    destruct Hin as [bs [Hbs Hin]]. exists bs. split; [exact Hin|]. subst c l. destruct spawn; reflexivity. }
  destruct stp as [|b1 [|b2 r]].
  - cbn in H. destruct H.
  - cbn in H. destruct H as [<-|[]]. exists b1. split; [left; reflexivity | reflexivity].
  - apply Hj. exact H.
Qed.

Lemma steps_from_leaves : forall spawn sts k s l,
  In s (steps_from spawn k sts) -> In l (sexpr_leaves s) ->
  exists stp bs j, In stp sts /\ In bs stp /\ l = leaf_of j bs.
Proof.
  intros spawn. induction sts as [|stp sts IH]; intros k s l Hs Hl; cbn [steps_from] in Hs; [destruct Hs|].
  destruct Hs as [<-|Hs].
  - destruct (step_expr_leaves _ _ _ _ Hl) as [bs [H1 H2]]. exists stp, bs, k. split; [left; reflexivity | auto].
  - destruct (IH _ _ _ Hs Hl) as [stp' [bs [j [H1 [H2 H3]]]]]. exists stp', bs, j. split; [right; exact H1 | auto].
Qed.

Lemma init_gates : forall p, state_gates_in (shape_gates p) (init (skeleton p)).
Proof.
  intros p. unfold state_gates_in, init. cbn [s_tasks s_root skeleton tr_steps tr_try]. split.
  - intros t tk Hn. destruct t; discriminate.
  - split; [intros l []|]. intros s l Hs Hl g Hg.
    destruct (steps_from_leaves _ _ _ _ _ Hs Hl) as [stp [bs [j [H1 [H2 H3]]]]]. subst l. cbn in Hg.
    exists stp, bs. auto.
Qed.

Lemma gates_reach : forall p acts, state_gates_in (shape_gates p) (fst (run_async acts (init (skeleton p)))).
Proof. intros p acts. apply run_async_inv; [apply init_gates | apply Ginv_step]. Qed.

Lemma state_gates_in_weaken : forall (G G' : N -> Prop) st,
  (forall g, G g -> G' g) -> state_gates_in G st -> state_gates_in G' st.
Proof.
  intros G G' st Himp [Ht Hroot]. split.
  - intros t tk Hn g Hg. apply Himp. eapply Ht; eassumption.
  - destruct (s_root st) as [n cs rest|r]; [|exact I]. destruct Hroot as [Hc Hr]. split.
    + intros l Hin g Hg. apply Himp. eapply Hc; eassumption.
    + intros s l Hs Hl g Hg. apply Himp. eapply Hr; eassumption.
Qed.

Lemma ready_mono_step : forall g st a, memN g (s_ready st) = true -> memN g (s_ready (fst (step a st))) = true.
Proof.
  intros g st a H. destruct a as [g'| |]; cbn [step].
  - unfold do_flip. destruct (memN g' (s_ready st)); [exact H|].
    destruct (wake_all _ _ _) as [rq o]. cbn [fst s_ready]. apply memN_cons_true. exact H.
  - rewrite ready_do_poll. exact H.
  - rewrite ready_do_run_tasks. exact H.
Qed.

Lemma flip_sets_ready : forall g acts st, In (Flip g) acts -> memN g (s_ready (fst (run_async acts st))) = true.
Proof.
  intros g. induction acts as [|a acts IH]; intros st Hin; [destruct Hin|].
  cbn [run_async]. destruct (step a st) as [st1 o1] eqn:E1.
  destruct (run_async acts st1) as [st2 o2] eqn:E2. cbn [fst].
  destruct Hin as [->|Hin].
  - assert (H1 : memN g (s_ready st1) = true).
    { cbn [step] in E1. unfold do_flip in E1. destruct (memN g (s_ready st)) eqn:Em.
      - inversion E1; subst. exact Em.
      - destruct (wake_all _ _ _) as [rq o]. inversion E1; subst. cbn [s_ready]. apply memN_cons_same. }
    pose proof (run_async_inv (fun s => memN g (s_ready s) = true) st1 H1 (ready_mono_step g) acts) as H.
    rewrite E2 in H. exact H.
  - specialize (IH st1 Hin). rewrite E2 in IH. exact IH.
Qed.

(** (e) Completion.  For EVERY action list [acts] after which every gate occurring in the
    program has been flipped (any order, any batching, any polls / task runs in between):
    - plain kinds: [pend = 0] -- the very next [Poll] completes the root;
    - task-spawning kinds: [Poll] followed by [pend] rounds of [RunTasks; Poll] completes it,
      where [pend <= spawn_steps p] = the number of steps with >= 2 active branches
      (each such step needs one [RunTasks] for its tasks to run and one [Poll] for the
      root to collect them);
    more rounds than needed do no harm. *)
Theorem completes_under_every_order : forall p acts,
  (forall g, shape_gates p g -> In (Flip g) acts) ->
  let st := fst (run_async acts (init (skeleton p))) in
  pend st <= spawn_steps p /\
  (sh_spawn p = false -> pend st = 0) /\
  forall m, pend st <= m -> finished (fst (run_async (Poll :: rounds m) st)).
Proof.
  intros p acts Hflips st.
  assert (Hp : pend st <= spawn_steps p).
  { pose proof (pend_run acts (init (skeleton p))) as H. unfold pend at 2 in H. cbn in H.
    unfold spawn_steps, nsp, skeleton. cbn [tr_steps]. unfold st. lia. }
  split; [exact Hp|]. split; [intros Hs; rewrite (spawn_steps_plain p Hs) in Hp; lia|].
  intros m Hm. apply completes_state; [apply Winv_reach | | exact Hm].
  unfold all_ready. eapply state_gates_in_weaken; [|apply gates_reach].
  intros g Hg. unfold Gr. apply flip_sets_ready. apply Hflips. exact Hg.
Qed.

(** What the completing poll returns. *)
Lemma poll_steps_last : forall try ready rest n cs regs tasks runq rt regs' tasks' runq' o,
  poll_steps try ready n cs rest regs tasks runq = (rt, regs', tasks', runq', o) ->
  (exists o', o = o' ++ [ORoot (match rt with RFin r => r | RRun _ _ _ => RPending end)]) /\
  (forall r, rt = RFin r -> r <> RPending).
Proof.
  intros try ready. induction rest as [|s rest IH];
    intros n cs regs tasks runq rt regs' tasks' runq' o E; cbn [poll_steps] in E;
    destruct (poll_children try ready tasks cs) as [[[[cs1 o1] rs1] js1] st1] eqn:Ec.
  - destruct st1 as [| |k1 b1]; inversion E; subst; (split; [exists o1; reflexivity|]);
      intros r Hr; inversion Hr; subst; discriminate.
  - destruct st1 as [| |k1 b1].
    + inversion E; subst. split; [exists o1; reflexivity|]. intros r Hr. discriminate.
    + destruct (inst_step s (set_jw js1 tasks) runq) as [[[cs2 tasks2] runq2] o2] eqn:Ei.
      destruct (poll_steps try ready (S n) cs2 rest (add_regs rs1 regs) tasks2 runq2)
        as [[[[rt3 regs3] tasks3] runq3] o3] eqn:Ep.
      inversion E; subst. destruct (IH _ _ _ _ _ _ _ _ _ _ Ep) as [[o' Ho] Hr]. split; [|exact Hr].
      exists (o1 ++ o2 ++ o'). rewrite Ho. rewrite <- !app_assoc. reflexivity.
    + inversion E; subst. split; [exists o1; reflexivity|]. intros r Hr. inversion Hr; subst. discriminate.
Qed.

(** (e) "as soon as possible", plain kinds, on observations: the FIRST [Poll] after the last
    needed [Flip] returns Ready (its last observation is [ORoot r] with [r <> RPending]),
    unless the root had already completed. *)
Theorem completes_as_soon_as_possible : forall p acts,
  sh_spawn p = false ->
  (forall g, shape_gates p g -> In (Flip g) acts) ->
  let st := fst (run_async acts (init (skeleton p))) in
  finished (fst (do_poll st)) /\
  (finished st \/ exists o' r, snd (do_poll st) = o' ++ [ORoot r] /\ r <> RPending).
Proof.
  intros p acts Hs Hflips st.
  destruct (completes_under_every_order p acts Hflips) as [_ [H0 Hfin]]. fold st in H0, Hfin.
  specialize (Hfin 0). rewrite (H0 Hs) in Hfin. specialize (Hfin (le_n 0)).
  assert (Hf : finished (fst (do_poll st))).
  { cbn [rounds repeat concat run_async step] in Hfin. destruct (do_poll st) as [s1 o1]. exact Hfin. }
  split; [exact Hf|]. unfold do_poll in Hf |- *. destruct (s_root st) as [n cs rest|r] eqn:Er.
  - right. destruct (poll_steps (s_try st) (s_ready st) n cs rest (s_regs st) (s_tasks st) (s_runq st))
      as [[[[rt regs] tasks] runq] o1] eqn:Ep. cbn [fst snd] in Hf |- *.
    destruct (poll_steps_last _ _ _ _ _ _ _ _ _ _ _ _ _ Ep) as [[o' Ho] Hr].
    destruct Hf as [r Hfr]. cbn [s_root] in Hfr. subst rt. exists o', r. split; [exact Ho | apply Hr; reflexivity].
  - left. exists r. exact Er.
Qed.

(* ================================================================================== *)
(** * 6. Structure + trace invariant: (b) step barrier, (f) try abort, "own script" for (c) *)

Section Structure.

Variable p : shape.

Definition in_step (k : nat) (bs : bstep) : Prop :=
  exists stp, nth_error (sh_steps p) k = Some stp /\ In bs stp.

Definition done_of (k : nat) (bs : bstep) : obs := ODone k (bs_b bs) (bs_ok bs).

(** what a root result claims *)
Definition root_sound (tr : list obs) (r : rres) : Prop :=
  match r with
  | RPending => True
  | ROk => forall k bs, in_step k bs -> In (done_of k bs) tr /\ (sh_try p = true -> bs_ok bs = true)
  | RErr k b =>
      sh_try p = true /\
      (exists bs, in_step k bs /\ bs_b bs = b /\ bs_ok bs = false) /\
      In (ODone k b false) tr /\
      (forall k' bs', k' < k -> in_step k' bs' -> bs_ok bs' = true)
  end.

(** the barrier, as a property of a trace: an observation of step k' is preceded by the
    completion of every branch active in every earlier step *)
Definition barrier_ok (tr : list obs) : Prop :=
  forall o1 x o2 k' k bs, tr = o1 ++ x :: o2 -> obs_step x = Some k' -> k < k' -> in_step k bs ->
                          In (done_of k bs) o1.

Record Sobs (n : nat) (tr : list obs) : Prop := mkSobs {
  so_lt : forall x k, In x tr -> obs_step x = Some k -> k < n;
  so_sound : forall k b ok, In (ODone k b ok) tr -> exists bs, in_step k bs /\ bs_b bs = b /\ bs_ok bs = ok;
  so_barrier : barrier_ok tr;
  so_before : forall k bs, S k < n -> in_step k bs -> In (done_of k bs) tr;
  so_try : sh_try p = true -> forall k bs, S k < n -> in_step k bs -> bs_ok bs = true;
  so_root : forall r, In (ORoot r) tr -> root_sound tr r
}.

Definition xok (n : nat) (x : obs) : Prop :=
  (forall k, obs_step x = Some k -> k < n) /\
  (forall k b ok, x = ODone k b ok -> exists bs, in_step k bs /\ bs_b bs = b /\ bs_ok bs = ok) /\
  (forall r, x <> ORoot r).

Definition chunk_ok (n : nat) (o : list obs) : Prop := Forall (xok n) o.

Lemma root_sound_mono : forall tr tr' r, root_sound tr r -> (forall x, In x tr -> In x tr') -> root_sound tr' r.
Proof.
  intros tr tr' [| |k b] H Hsub; cbn [root_sound] in *.
  - exact I.
  - intros k bs Hin. destruct (H k bs Hin) as [H1 H2]. split; [apply Hsub; exact H1 | exact H2].
  - destruct H as [H1 [H2 [H3 H4]]]. split; [exact H1|]. split; [exact H2|]. split; [apply Hsub; exact H3 | exact H4].
Qed.

Lemma barrier_app : forall tr o,
  barrier_ok tr ->
  (forall x k' k bs, In x o -> obs_step x = Some k' -> k < k' -> in_step k bs -> In (done_of k bs) tr) ->
  barrier_ok (tr ++ o).
Proof.
  intros tr o Hb Hnew o1 x o2 k' k bs Heq Hx Hlt Hin.
  apply app_eq_app in Heq. destruct Heq as [l [[H1 H2]|[H1 H2]]].
  - (* tr = o1 ++ l, x :: o2 = l ++ o *)
    destruct l as [|y l].
    + cbn in H2. rewrite app_nil_r in H1. subst o1. apply (Hnew x k' k bs); [rewrite <- H2; left; reflexivity | auto ..].
    + cbn in H2. inversion H2; subst y. apply (Hb o1 x l k' k bs); auto.
  - (* o1 = tr ++ l, o = l ++ x :: o2 *)
    subst o1. apply in_or_app. left. apply (Hnew x k' k bs); auto. rewrite H2. apply in_or_app. right. left. reflexivity.
Qed.

Lemma Sobs_app : forall n tr o, Sobs n tr -> chunk_ok n o -> Sobs n (tr ++ o).
Proof.
  intros n tr o [H1 H2 H3 H4 H5 H6] Hc. unfold chunk_ok in Hc. rewrite Forall_forall in Hc. constructor.
  - intros x k Hin Hx. apply in_app_or in Hin. destruct Hin as [Hin|Hin]; [eapply H1; eassumption|].
    destruct (Hc x Hin) as [Hk _]. apply Hk. exact Hx.
  - intros k b ok Hin. apply in_app_or in Hin. destruct Hin as [Hin|Hin]; [apply H2; exact Hin|].
    destruct (Hc _ Hin) as [_ [Hd _]]. eapply Hd. reflexivity.
  - apply barrier_app; [exact H3|]. intros x k' k bs Hin Hx Hlt Hs.
    destruct (Hc x Hin) as [Hk _]. specialize (Hk k' Hx). apply H4; [lia | exact Hs].
  - intros k bs Hlt Hs. apply in_or_app. left. apply H4; assumption.
  - exact H5.
  - intros r Hin. apply in_app_or in Hin. destruct Hin as [Hin|Hin].
    + eapply root_sound_mono; [apply H6; exact Hin|]. intros x Hx. apply in_or_app. left. exact Hx.
    + exfalso. destruct (Hc _ Hin) as [_ [_ Hr]]. apply (Hr r). reflexivity.
Qed.

Lemma Sobs_root : forall n tr r, Sobs n tr -> root_sound tr r -> Sobs n (tr ++ [ORoot r]).
Proof.
  intros n tr r [H1 H2 H3 H4 H5 H6] Hr. constructor.
  - intros x k Hin Hx. apply in_app_or in Hin. destruct Hin as [Hin|[<-|[]]]; [eapply H1; eassumption | discriminate].
  - intros k b ok Hin. apply in_app_or in Hin. destruct Hin as [Hin|[Hd|[]]]; [apply H2; exact Hin | discriminate].
  - apply barrier_app; [exact H3|]. intros x k' k bs [<-|[]] Hx. discriminate.
  - intros k bs Hlt Hs. apply in_or_app. left. apply H4; assumption.
  - exact H5.
  - intros r0 Hin. apply in_app_or in Hin.
    assert (Hsub : forall x, In x tr -> In x (tr ++ [ORoot r])) by (intros x Hx; apply in_or_app; left; exact Hx).
    destruct Hin as [Hin|[Heq|[]]].
    + eapply root_sound_mono; [apply H6; exact Hin | exact Hsub].
    + inversion Heq; subst r0. eapply root_sound_mono; [exact Hr | exact Hsub].
Qed.

(** moving on to the next step *)
Lemma Sobs_next : forall n tr,
  Sobs n tr ->
  (forall m bs, n = S m -> in_step m bs -> In (done_of m bs) tr /\ (sh_try p = true -> bs_ok bs = true)) ->
  Sobs (S n) tr.
Proof.
  intros n tr [H1 H2 H3 H4 H5 H6] Hcur. constructor.
  - intros x k Hin Hx. specialize (H1 x k Hin Hx). lia.
  - exact H2.
  - exact H3.
  - intros k bs Hlt Hs. destruct (Nat.eq_dec (S k) n) as [He|Hne].
    + apply (Hcur k bs (eq_sym He) Hs).
    + apply (H4 k bs); [lia | exact Hs].
  - intros Ht k bs Hlt Hs. destruct (Nat.eq_dec (S k) n) as [He|Hne].
    + apply (Hcur k bs (eq_sym He) Hs). exact Ht.
    + apply (H5 Ht k bs); [lia | exact Hs].
  - exact H6.
Qed.

Lemma chunk_ok_app : forall n o1 o2, chunk_ok n o1 -> chunk_ok n o2 -> chunk_ok n (o1 ++ o2).
Proof. intros n o1 o2 H1 H2. apply Forall_app. split; assumption. Qed.

Lemma chunk_ok_mono : forall n n' o, n <= n' -> chunk_ok n o -> chunk_ok n' o.
Proof.
  intros n n' o Hle H. unfold chunk_ok in *. eapply Forall_impl; [|exact H].
  intros x [H1 [H2 H3]]. split; [|split; assumption]. intros k Hk. specialize (H1 k Hk). lia.
Qed.

Lemma xok_ev : forall n k b x, k < n -> ev_obs k b x -> xok n x.
Proof.
  intros n k b x Hlt He. split; [|split].
  - intros k0 Hk. rewrite (ev_obs_step _ _ _ He) in Hk. inversion Hk; subst. exact Hlt.
  - intros k0 b0 ok Hx. exfalso. eapply ev_obs_not_done; eassumption.
  - intros r Hx. eapply ev_obs_not_root; eassumption.
Qed.

Lemma xok_notify : forall n, xok n ONotify.
Proof. intros n. split; [|split]; intros; discriminate. Qed.

(** ** children, tasks *)

Definition child_rel (tasks : list task) (tr : list obs) (m : nat) (c : child) (bs : bstep) : Prop :=
  match c with
  | CLeaf l => leaf_suffix (leaf_of m bs) l
  | CHandle t => exists tk, nth_error tasks t = Some tk /\ l_k (t_leaf tk) = m /\
                            l_b (t_leaf tk) = bs_b bs /\ l_ok (t_leaf tk) = bs_ok bs
  | CDone => In (done_of m bs) tr /\ (sh_try p = true -> bs_ok bs = true)
  end.

Definition task_S (n : nat) (tr : list obs) (tk : task) : Prop :=
  l_k (t_leaf tk) < n /\
  (exists bs, in_step (l_k (t_leaf tk)) bs /\ leaf_suffix (leaf_of (l_k (t_leaf tk)) bs) (t_leaf tk)) /\
  (t_fin tk = true -> In (ODone (l_k (t_leaf tk)) (l_b (t_leaf tk)) (l_ok (t_leaf tk))) tr).

Definition Stasks (n : nat) (tasks : list task) (tr : list obs) : Prop :=
  forall t tk, nth_error tasks t = Some tk -> task_S n tr tk.

Definition Scur (n : nat) (cs : list child) (tasks : list task) (tr : list obs) : Prop :=
  match n with
  | 0 => cs = []
  | S m => exists stp, nth_error (sh_steps p) m = Some stp /\ Forall2 (child_rel tasks tr m) cs stp
  end.

Definition Sroot (n : nat) (rt : root) (tasks : list task) (tr : list obs) : Prop :=
  match rt with
  | RRun n0 cs rest => n0 = n /\ rest = steps_from (sh_spawn p) n (skipn n (sh_steps p)) /\ Scur n cs tasks tr
  | RFin _ => True
  end.

Definition Sinv (st : state) (tr : list obs) : Prop :=
  s_try st = sh_try p /\
  exists n, n <= length (sh_steps p) /\ Sobs n tr /\ Stasks n (s_tasks st) tr /\ Sroot n (s_root st) (s_tasks st) tr.

Lemma task_S_mono : forall n n' tr tr' tk,
  task_S n tr tk -> n <= n' -> (forall x, In x tr -> In x tr') -> task_S n' tr' tk.
Proof.
  intros n n' tr tr' tk [H1 [H2 H3]] Hle Hsub. split; [lia|]. split; [exact H2|]. intros Hf. apply Hsub. apply H3. exact Hf.
Qed.

Lemma Stasks_mono : forall n n' tasks tr tr',
  Stasks n tasks tr -> n <= n' -> (forall x, In x tr -> In x tr') -> Stasks n' tasks tr'.
Proof. intros n n' tasks tr tr' H Hle Hsub t tk Hn. eapply task_S_mono; [eapply H; exact Hn | exact Hle | exact Hsub]. Qed.

Lemma Stasks_core : forall n tasks tasks' tr,
  Stasks n tasks tr ->
  (forall t tk', nth_error tasks' t = Some tk' -> exists tk, nth_error tasks t = Some tk /\ tcore tk' = tcore tk) ->
  Stasks n tasks' tr.
Proof.
  intros n tasks tasks' tr H Hc t tk' Hn. destruct (Hc _ _ Hn) as [tk [Hn0 Hcore]].
  unfold tcore in Hcore. inversion Hcore as [[Hl Hf]]. specialize (H _ _ Hn0).
  unfold task_S in *. rewrite Hl, Hf. exact H.
Qed.

(** [child_rel] survives when tasks keep their (k, b, ok) and the trace grows *)
Definition tasks_keep (tasks tasks' : list task) : Prop :=
  forall t tk, nth_error tasks t = Some tk ->
    exists tk', nth_error tasks' t = Some tk' /\ l_k (t_leaf tk') = l_k (t_leaf tk) /\
                l_b (t_leaf tk') = l_b (t_leaf tk) /\ l_ok (t_leaf tk') = l_ok (t_leaf tk).

Lemma child_rel_mono : forall tasks tasks' tr tr' m c bs,
  child_rel tasks tr m c bs -> tasks_keep tasks tasks' -> (forall x, In x tr -> In x tr') ->
  child_rel tasks' tr' m c bs.
Proof.
  intros tasks tasks' tr tr' m c bs H Hk Hsub. destruct c as [l|t|]; cbn [child_rel] in *.
  - exact H.
  - destruct H as [tk [Hn [H1 [H2 H3]]]]. destruct (Hk _ _ Hn) as [tk' [Hn' [K1 [K2 K3]]]].
    exists tk'. split; [exact Hn'|]. split; [congruence|]. split; congruence.
  - destruct H as [H1 H2]. split; [apply Hsub; exact H1 | exact H2].
Qed.

Lemma Forall2_child_rel_mono : forall tasks tasks' tr tr' m cs stp,
  Forall2 (child_rel tasks tr m) cs stp -> tasks_keep tasks tasks' -> (forall x, In x tr -> In x tr') ->
  Forall2 (child_rel tasks' tr' m) cs stp.
Proof.
  intros tasks tasks' tr tr' m cs stp H Hk Hsub. induction H as [|c bs cs stp Hc H IH]; constructor.
  - eapply child_rel_mono; eassumption.
  - exact IH.
Qed.

Lemma tasks_keep_refl : forall tasks, tasks_keep tasks tasks.
Proof. intros tasks t tk Hn. exists tk. auto. Qed.

Lemma tasks_keep_trans : forall a b c, tasks_keep a b -> tasks_keep b c -> tasks_keep a c.
Proof.
  intros a b c H1 H2 t tk Hn. destruct (H1 _ _ Hn) as [tk1 [Hn1 [A1 [A2 A3]]]].
  destruct (H2 _ _ Hn1) as [tk2 [Hn2 [B1 [B2 B3]]]]. exists tk2. split; [exact Hn2|]. split; [congruence|]. split; congruence.
Qed.

Lemma tasks_keep_set_jw : forall js tasks, tasks_keep tasks (set_jw js tasks).
Proof.
  intros js tasks t tk Hn. destruct (set_jw_nth_fwd js _ _ _ Hn) as [tk' Hn'].
  destruct (set_jw_spec _ _ _ _ Hn') as [tk0 [Hn0 [Hc _]]]. rewrite Hn in Hn0. inversion Hn0; subst tk0.
  unfold tcore in Hc. inversion Hc as [[Hl Hf]]. exists tk'. rewrite Hl. auto.
Qed.

Lemma tasks_keep_app : forall tasks new, tasks_keep tasks (tasks ++ new).
Proof.
  intros tasks new t tk Hn. exists tk. split; [|auto].
  rewrite nth_error_app1; [exact Hn | eapply nth_error_Some_lt; exact Hn].
Qed.


Lemma fin_stat_cases : forall try ok k b,
  (fin_stat try ok k b = CFail k b /\ try = true /\ ok = false) \/
  (fin_stat try ok k b = CFinOk /\ (try = true -> ok = true)).
Proof.
  intros [|] [|] k b; cbn.
  - right. split; [reflexivity | reflexivity].
  - left. auto.
  - right. split; [reflexivity | discriminate].
  - right. split; [reflexivity | discriminate].
Qed.

(** every finished task has its completion in the trace *)
Definition fin_in (tasks : list task) (tr : list obs) : Prop :=
  forall t tk, nth_error tasks t = Some tk -> t_fin tk = true ->
               In (ODone (l_k (t_leaf tk)) (l_b (t_leaf tk)) (l_ok (t_leaf tk))) tr.

Lemma xok_leaf_obs : forall n l o',
  l_k l < n -> Forall (ev_obs (l_k l) (l_b l)) o' -> chunk_ok n (OPoll (l_k l) (l_b l) :: o').
Proof.
  intros n l o' Hlt Hf. constructor.
  - split; [|split]; try (intros; discriminate). intros k Hk. cbn in Hk. inversion Hk; subst. exact Hlt.
  - eapply Forall_impl; [|exact Hf]. intros x Hx. eapply xok_ev; eassumption.
Qed.

Lemma xok_done : forall n k bs, k < n -> in_step k bs -> xok n (done_of k bs).
Proof.
  intros n k bs Hlt Hs. split; [|split]; try (intros; discriminate).
  - intros k0 Hk. cbn in Hk. inversion Hk; subst. exact Hlt.
  - intros k0 b0 ok0 Hx. unfold done_of in Hx. inversion Hx; subst. exists bs. auto.
Qed.

Lemma poll_child_S : forall ready tasks tr m c bs c' o rs js st,
  poll_child (sh_try p) ready tasks c = (c', o, rs, js, st) ->
  child_rel tasks tr m c bs -> in_step m bs -> fin_in tasks tr ->
  chunk_ok (S m) o /\
  match st with
  | CPend => child_rel tasks (tr ++ o) m c' bs
  | CFinOk => c' = CDone /\ child_rel tasks (tr ++ o) m c' bs
  | CFail k b => sh_try p = true /\ k = m /\ b = bs_b bs /\ bs_ok bs = false /\ In (ODone m b false) (tr ++ o)
  end.
Proof.
  intros ready tasks tr m c bs c' o rs js st E Hrel Hs Hfin. destruct c as [l|t|]; cbn [poll_child] in E.
  - cbn [child_rel] in Hrel. destruct Hrel as [Hk [Hb [Hok [pre0 Hpre]]]]. cbn in Hk, Hb, Hok, Hpre.
    destruct (poll_leaf ready l) as [r ol] eqn:El.
    destruct (poll_leaf_spec _ _ _ _ El) as [o' [Hf [[Hr [Ho Hg]]|[g [pre [s [Hr [Ho [Hm [Hscr Hp]]]]]]]]]]; subst r.
    + inversion E; subst c' o rs js st. clear E.
      assert (Hdone : ODone (l_k l) (l_b l) (l_ok l) = done_of m bs) by (unfold done_of; congruence).
      assert (Hch : chunk_ok (S m) ol).
      { subst ol. change (OPoll (l_k l) (l_b l) :: o' ++ [ODone (l_k l) (l_b l) (l_ok l)])
          with ((OPoll (l_k l) (l_b l) :: o') ++ [ODone (l_k l) (l_b l) (l_ok l)]).
        apply chunk_ok_app; [apply xok_leaf_obs; [lia | exact Hf]|].
        constructor; [|constructor]. rewrite Hdone. apply xok_done; [lia | exact Hs]. }
      assert (Hin : In (done_of m bs) (tr ++ ol)).
      { apply in_or_app. right. subst ol. right. apply in_or_app. right. left. exact Hdone. }
      split; [exact Hch|].
      destruct (fin_stat_cases (sh_try p) (l_ok l) (l_k l) (l_b l)) as [[Hfs [Ht Hf0]]|[Hfs Himp]]; rewrite Hfs.
      * split; [exact Ht|]. split; [exact Hk|]. split; [exact Hb|]. split; [congruence|].
        unfold done_of in Hin. rewrite <- Hok, Hf0, <- Hb in Hin. exact Hin.
      * split; [reflexivity|]. cbn [child_rel]. split; [exact Hin|]. intros Ht. rewrite <- Hok. apply Himp. exact Ht.
    + inversion E; subst c' o rs js st. clear E. split; [subst ol; apply xok_leaf_obs; [lia | exact Hf]|].
      cbn [child_rel]. unfold leaf_suffix. cbn. split; [exact Hk|]. split; [exact Hb|]. split; [exact Hok|].
      exists (pre0 ++ pre). rewrite Hpre, Hscr. rewrite <- app_assoc. reflexivity.
  - cbn [child_rel] in Hrel. destruct Hrel as [tk [Hn [Hk [Hb Hok]]]]. rewrite Hn in E.
    destruct (t_fin tk) eqn:Ef.
    + inversion E; subst c' o rs js st. clear E. split; [constructor|].
      assert (Hin : In (done_of m bs) (tr ++ [])).
      { rewrite app_nil_r. unfold done_of. rewrite <- Hk, <- Hb, <- Hok. apply (Hfin _ _ Hn Ef). }
      destruct (fin_stat_cases (sh_try p) (l_ok (t_leaf tk)) (l_k (t_leaf tk)) (l_b (t_leaf tk)))
        as [[Hfs [Ht Hf0]]|[Hfs Himp]]; rewrite Hfs.
      * split; [exact Ht|]. split; [exact Hk|]. split; [exact Hb|]. split; [congruence|].
        unfold done_of in Hin. rewrite <- Hok, Hf0, <- Hb in Hin. exact Hin.
      * split; [reflexivity|]. cbn [child_rel]. split; [exact Hin|]. intros Ht. rewrite <- Hok. apply Himp. exact Ht.
    + inversion E; subst c' o rs js st. clear E. split; [constructor|]. cbn [child_rel].
      exists tk. auto.
  - inversion E; subst c' o rs js st. clear E. split; [constructor|]. split; [reflexivity|].
    rewrite app_nil_r. exact Hrel.
Qed.

Lemma fin_in_mono : forall tasks tr tr', fin_in tasks tr -> (forall x, In x tr -> In x tr') -> fin_in tasks tr'.
Proof. intros tasks tr tr' H Hsub t tk Hn Hf. apply Hsub. eapply H; eassumption. Qed.

Lemma poll_children_S : forall ready tasks m cs stp,
  Forall2 (fun _ _ => True) cs stp ->
  forall tr cs' o rs js st,
  poll_children (sh_try p) ready tasks cs = (cs', o, rs, js, st) ->
  Forall2 (child_rel tasks tr m) cs stp ->
  (forall bs, In bs stp -> in_step m bs) -> fin_in tasks tr ->
  chunk_ok (S m) o /\
  match st with
  | JPend => Forall2 (child_rel tasks (tr ++ o) m) cs' stp
  | JAll => Forall2 (child_rel tasks (tr ++ o) m) cs' stp /\ (forall c, In c cs' -> c = CDone)
  | JFail k b => sh_try p = true /\ k = m /\
                 (exists bs, In bs stp /\ bs_b bs = b /\ bs_ok bs = false) /\ In (ODone m b false) (tr ++ o)
  end.
Proof.
  intros ready tasks m cs stp Hshape. induction Hshape as [|c bs cs stp _ _ IH];
    intros tr cs' o rs js st E Hrel Hs Hfin; cbn [poll_children] in E.
  - inversion E; subst. split; [constructor|]. split; [constructor | intros c []].
  - inversion Hrel as [|? ? ? ? Hc Hrest]; subst.
    destruct (poll_child (sh_try p) ready tasks c) as [[[[c1 o1] rs1] js1] st1] eqn:Ec.
    assert (Hsb : in_step m bs) by (apply Hs; left; reflexivity).
    destruct (poll_child_S _ _ _ _ _ _ _ _ _ _ _ Ec Hc Hsb Hfin) as [Hch1 Hst1].
    assert (Hsub1 : forall x, In x tr -> In x (tr ++ o1)) by (intros x Hx; apply in_or_app; left; exact Hx).
    assert (Hrest1 : Forall2 (child_rel tasks (tr ++ o1) m) cs stp)
      by (eapply Forall2_child_rel_mono; [exact Hrest | apply tasks_keep_refl | exact Hsub1]).
    assert (Hs' : forall bs0, In bs0 stp -> in_step m bs0) by (intros bs0 Hin; apply Hs; right; exact Hin).
    assert (Hfin1 : fin_in tasks (tr ++ o1)) by (eapply fin_in_mono; eassumption).
    assert (Hcomb : forall cs2 o2 rs2 js2 st2,
              poll_children (sh_try p) ready tasks cs = (cs2, o2, rs2, js2, st2) ->
              child_rel tasks (tr ++ o1) m c1 bs ->
              chunk_ok (S m) (o1 ++ o2) /\
              match st2 with
              | JPend => Forall2 (child_rel tasks (tr ++ o1 ++ o2) m) (c1 :: cs2) (bs :: stp)
              | JAll => Forall2 (child_rel tasks (tr ++ o1 ++ o2) m) (c1 :: cs2) (bs :: stp) /\
                        (forall c0, In c0 cs2 -> c0 = CDone)
              | JFail k b => sh_try p = true /\ k = m /\
                             (exists bs0, In bs0 (bs :: stp) /\ bs_b bs0 = b /\ bs_ok bs0 = false) /\
                             In (ODone m b false) (tr ++ o1 ++ o2)
              end).
    { intros cs2 o2 rs2 js2 st2 Ecs Hc1. destruct (IH _ _ _ _ _ _ Ecs Hrest1 Hs' Hfin1) as [Hch2 Hst2].
      split; [apply chunk_ok_app; assumption|]. rewrite app_assoc.
      assert (Hsub2 : forall x, In x (tr ++ o1) -> In x ((tr ++ o1) ++ o2)) by (intros x Hx; apply in_or_app; left; exact Hx).
      assert (Hc1' : child_rel tasks ((tr ++ o1) ++ o2) m c1 bs)
        by (eapply child_rel_mono; [exact Hc1 | apply tasks_keep_refl | exact Hsub2]).
      destruct st2 as [| |k b].
      - constructor; assumption.
      - destruct Hst2 as [H1 H2]. split; [constructor; assumption | exact H2].
      - destruct Hst2 as [H1 [H2 [[bs0 [H3 [H4 H5]]] H6]]]. split; [exact H1|]. split; [exact H2|].
        split; [exists bs0; split; [right; exact H3 | auto] | exact H6]. }
    destruct st1 as [| |k1 b1].
    + destruct (poll_children (sh_try p) ready tasks cs) as [[[[cs2 o2] rs2] js2] st2] eqn:Ecs.
      inversion E; subst cs' o rs js st. clear E.
      destruct (Hcomb _ _ _ _ _ eq_refl Hst1) as [Hch Hres]. split; [exact Hch|].
      destruct st2 as [| |k b]; [exact Hres | destruct Hres as [Hres _]; exact Hres | exact Hres].
    + destruct (poll_children (sh_try p) ready tasks cs) as [[[[cs2 o2] rs2] js2] st2] eqn:Ecs.
      inversion E; subst cs' o rs js st. clear E. destruct Hst1 as [Hd1 Hc1].
      destruct (Hcomb _ _ _ _ _ eq_refl Hc1) as [Hch Hres]. split; [exact Hch|].
      destruct st2 as [| |k b]; [exact Hres | | exact Hres].
      destruct Hres as [Hres Hall]. split; [exact Hres|]. intros c0 [<-|Hin]; [exact Hd1 | apply Hall; exact Hin].
    + inversion E; subst cs' o rs js st. clear E. split; [exact Hch1|].
      destruct Hst1 as [H1 [H2 [H3 [H4 H5]]]]. split; [exact H1|]. split; [exact H2|].
      split; [exists bs; split; [left; reflexivity | auto] | exact H5].
Qed.

Lemma Forall2_In_r : forall (A B : Type) (R : A -> B -> Prop) l l' y,
  Forall2 R l l' -> In y l' -> exists x, In x l /\ R x y.
Proof.
  intros A B R l l' y H. induction H as [|a b l l' Hab H IH]; intros Hin; [destruct Hin|].
  destruct Hin as [<-|Hin]; [exists a; split; [left; reflexivity | exact Hab]|].
  destruct (IH Hin) as [x [H1 H2]]. exists x. split; [right; exact H1 | exact H2].
Qed.

Lemma Forall2_In_l : forall (A B : Type) (R : A -> B -> Prop) l l' x,
  Forall2 R l l' -> In x l -> exists y, In y l' /\ R x y.
Proof.
  intros A B R l l' x H. induction H as [|a b l l' Hab H IH]; intros Hin; [destruct Hin|].
  destruct Hin as [<-|Hin]; [exists b; split; [left; reflexivity | exact Hab]|].
  destruct (IH Hin) as [y [H1 H2]]. exists y. split; [right; exact H1 | exact H2].
Qed.

Lemma Forall2_shape : forall (A B : Type) (R : A -> B -> Prop) l l',
  Forall2 R l l' -> Forall2 (fun _ _ => True) l l'.
Proof. intros A B R l l' H. induction H; constructor; auto. Qed.

Lemma Stasks_fin_in : forall n tasks tr, Stasks n tasks tr -> fin_in tasks tr.
Proof. intros n tasks tr H t tk Hn Hf. destruct (H _ _ Hn) as [_ [_ H3]]. apply H3. exact Hf. Qed.

Lemma Scur_mono : forall n cs tasks tasks' tr tr',
  Scur n cs tasks tr -> tasks_keep tasks tasks' -> (forall x, In x tr -> In x tr') -> Scur n cs tasks' tr'.
Proof.
  intros n cs tasks tasks' tr tr' H Hk Hsub. destruct n as [|m]; [exact H|].
  destruct H as [stp [H1 H2]]. exists stp. split; [exact H1|]. eapply Forall2_child_rel_mono; eassumption.
Qed.

(** one round of polling the current step's children, in terms of the invariant *)
Lemma poll_children_cur : forall ready tasks n cs tr cs' o rs js st,
  poll_children (sh_try p) ready tasks cs = (cs', o, rs, js, st) ->
  Sobs n tr -> Stasks n tasks tr -> Scur n cs tasks tr ->
  chunk_ok n o /\
  match st with
  | JPend => Scur n cs' tasks (tr ++ o)
  | JAll => Scur n cs' tasks (tr ++ o) /\
            (forall m bs, n = S m -> in_step m bs ->
                          In (done_of m bs) (tr ++ o) /\ (sh_try p = true -> bs_ok bs = true))
  | JFail k b => root_sound (tr ++ o) (RErr k b)
  end.
Proof.
  intros ready tasks n cs tr cs' o rs js st E Hobs Htasks Hcur. destruct n as [|m].
  - cbn [Scur] in Hcur. subst cs. cbn [poll_children] in E. inversion E; subst.
    split; [constructor|]. split; [reflexivity|]. intros m bs Hm. discriminate.
  - destruct Hcur as [stp [Hnth Hrel]].
    assert (Hs : forall bs, In bs stp -> in_step m bs) by (intros bs Hin; exists stp; auto).
    destruct (poll_children_S ready tasks m cs stp (Forall2_shape _ _ _ _ _ Hrel) _ _ _ _ _ _ E Hrel Hs
                              (Stasks_fin_in _ _ _ Htasks)) as [Hch Hst].
    split; [exact Hch|]. destruct st as [| |k b].
    + exists stp. auto.
    + destruct Hst as [H1 H2]. split; [exists stp; auto|].
      intros m0 bs Hm [stp0 [Hn0 Hin]]. inversion Hm; subst m0. rewrite Hnth in Hn0. inversion Hn0; subst stp0.
      destruct (Forall2_In_r _ _ _ _ _ _ H1 Hin) as [c [Hc Hr]]. rewrite (H2 c Hc) in Hr. exact Hr.
    + destruct Hst as [H1 [H2 [[bs [H3 [H4 H5]]] H6]]]. subst k. cbn [root_sound].
      split; [exact H1|]. split; [exists bs; split; [apply Hs; exact H3 | auto]|]. split; [exact H6|].
      intros k' bs' Hlt Hin. apply (so_try _ _ Hobs H1 k' bs'); [lia | exact Hin].
Qed.

(** starting step k *)
Lemma inst_children_S : forall (spawn : bool) (k : nat) (stp : list bstep) (tr : list obs),
  (forall bs, In bs stp -> in_step k bs) ->
  forall tasks runq ch tk rq o,
  inst_children (map (fun bs => if spawn then CSpawn (leaf_of k bs) else CInline (leaf_of k bs)) stp) tasks runq
    = (ch, tk, rq, o) ->
  Forall2 (child_rel tk tr k) ch stp /\ chunk_ok (S k) o.
Proof.
  intros spawn k stp tr. induction stp as [|bs stp IH]; intros Hs tasks runq ch tk rq o E; cbn [map inst_children] in E.
  - inversion E; subst. split; constructor.
  - assert (Hs' : forall bs0, In bs0 stp -> in_step k bs0) by (intros bs0 Hin; apply Hs; right; exact Hin).
    assert (Hnew : xok (S k) (ONew k (bs_b bs))).
    { split; [|split]; try (intros; discriminate). intros k0 Hk. cbn in Hk. inversion Hk; subst. lia. }
    destruct spawn.
    + destruct (inst_children (map (fun bs0 => CSpawn (leaf_of k bs0)) stp)
                              (tasks ++ [mkTask (leaf_of k bs) false false]) (runq ++ [length tasks]))
        as [[[ch1 tk1] rq1] o1] eqn:E1. inversion E; subst ch tk rq o. clear E.
      destruct (IH Hs' _ _ _ _ _ _ E1) as [H1 H2]. split; [|constructor; [exact Hnew | exact H2]].
      constructor; [|exact H1]. cbn [child_rel].
      destruct (inst_children_spec _ _ _ _ _ _ _ E1) as [[new [Hn _]] _].
      exists (mkTask (leaf_of k bs) false false). split; [|cbn; auto].
      rewrite Hn. rewrite nth_error_app1 by (rewrite app_length; cbn; lia).
      rewrite nth_error_app2 by lia. rewrite Nat.sub_diag. reflexivity.
    + destruct (inst_children (map (fun bs0 => CInline (leaf_of k bs0)) stp) tasks runq)
        as [[[ch1 tk1] rq1] o1] eqn:E1. inversion E; subst ch tk rq o. clear E.
      destruct (IH Hs' _ _ _ _ _ _ E1) as [H1 H2]. split; [|constructor; [exact Hnew | exact H2]].
      constructor; [|exact H1]. cbn [child_rel]. apply leaf_suffix_refl.
Qed.

Lemma inst_step_S : forall k stp tr tasks runq ch tk rq o,
  (forall bs, In bs stp -> in_step k bs) ->
  inst_step (step_expr (sh_spawn p) k stp) tasks runq = (ch, tk, rq, o) ->
  Forall2 (child_rel tk tr k) ch stp /\ chunk_ok (S k) o /\
  exists new, tk = tasks ++ new /\ forall x, In x new -> task_S (S k) tr x.
Proof.
  intros k stp tr tasks runq ch tk rq o Hs E.
  assert (Hnewtasks : exists new, tk = tasks ++ new /\ forall x, In x new -> task_S (S k) tr x).
  { destruct (inst_step_spec _ _ _ _ _ _ _ E) as [[new [Hn Hx]] _]. exists new. split; [exact Hn|].
    intros x Hin. destruct (Hx x Hin) as [Hl Hf]. destruct (step_expr_leaves _ _ _ _ Hl) as [bs [Hb Heq]].
    unfold task_S. rewrite Heq. cbn [l_k leaf_of]. split; [lia|]. split.
    - exists bs. split; [apply Hs; exact Hb | apply leaf_suffix_refl].
    - intros Hf'. congruence. }
  assert (Hjoin : inst_children (map (fun bs => if sh_spawn p then CSpawn (leaf_of k bs) else CInline (leaf_of k bs)) stp)
                                tasks runq = (ch, tk, rq, o) ->
                  Forall2 (child_rel tk tr k) ch stp /\ chunk_ok (S k) o)
    by (apply inst_children_S; exact Hs).
  destruct stp as [|b1 [|b2 r]].
  - cbn [step_expr inst_step] in E. destruct (Hjoin E) as [H1 H2]. auto.
  - cbn [step_expr inst_step] in E. inversion E; subst ch tk rq o. split; [|split; [|exact Hnewtasks]].
    + constructor; [|constructor]. cbn [child_rel]. apply leaf_suffix_refl.
    + constructor; [|constructor]. split; [|split]; try (intros; discriminate).
      intros k0 Hk. cbn in Hk. inversion Hk; subst. lia.
  - cbn [step_expr inst_step] in E. destruct (Hjoin E) as [H1 H2]. auto.
Qed.

Lemma steps_from_cons_inv : forall spawn n l s rest,
  steps_from spawn n l = s :: rest ->
  exists stp tl, l = stp :: tl /\ s = step_expr spawn n stp /\ rest = steps_from spawn (S n) tl.
Proof.
  intros spawn n l s rest H. destruct l as [|stp tl]; cbn [steps_from] in H; [discriminate|].
  inversion H; subst. exists stp, tl. auto.
Qed.

Lemma steps_from_nil_inv : forall spawn n l, steps_from spawn n l = [] -> l = [].
Proof. intros spawn n l H. destruct l; [reflexivity | discriminate]. Qed.

Lemma skipn_cons_inv : forall (A : Type) n (l : list A) x tl,
  skipn n l = x :: tl -> nth_error l n = Some x /\ skipn (S n) l = tl /\ n < length l.
Proof.
  intros A. induction n as [|n IH]; intros l x tl H.
  - destruct l as [|y l]; cbn in H; [discriminate|]. inversion H; subst. cbn. split; [reflexivity|]. split; [reflexivity | lia].
  - destruct l as [|y l]; [cbn in H; discriminate|]. cbn [skipn] in H. destruct (IH _ _ _ H) as [H1 [H2 H3]].
    cbn [nth_error length]. split; [exact H1|]. split; [exact H2 | lia].
Qed.

Lemma skipn_nil_inv : forall (A : Type) n (l : list A), skipn n l = [] -> length l <= n.
Proof.
  intros A. induction n as [|n IH]; intros l H.
  - cbn in H. subst. cbn. lia.
  - destruct l as [|y l]; [cbn; lia|]. cbn [skipn] in H. specialize (IH _ H). cbn. lia.
Qed.

Lemma in_step_lt : forall k bs, in_step k bs -> k < length (sh_steps p).
Proof. intros k bs [stp [H _]]. eapply nth_error_Some_lt. exact H. Qed.

Lemma poll_steps_S : forall ready rest n cs regs tasks runq rt regs' tasks' runq' o tr,
  poll_steps (sh_try p) ready n cs rest regs tasks runq = (rt, regs', tasks', runq', o) ->
  n <= length (sh_steps p) ->
  rest = steps_from (sh_spawn p) n (skipn n (sh_steps p)) ->
  Sobs n tr -> Stasks n tasks tr -> Scur n cs tasks tr ->
  exists n', n' <= length (sh_steps p) /\ Sobs n' (tr ++ o) /\ Stasks n' tasks' (tr ++ o) /\
             Sroot n' rt tasks' (tr ++ o).
Proof.
  intros ready. induction rest as [|s rest IH];
    intros n cs regs tasks runq rt regs' tasks' runq' o tr E Hn Hrest Hobs Htasks Hcur; cbn [poll_steps] in E;
    destruct (poll_children (sh_try p) ready tasks cs) as [[[[cs1 o1] rs1] js1] st1] eqn:Ec;
    destruct (poll_children_cur _ _ _ _ _ _ _ _ _ _ Ec Hobs Htasks Hcur) as [Hch Hst];
    pose proof (Sobs_app _ _ _ Hobs Hch) as Hobs1;
    assert (Hsub1 : forall x, In x tr -> In x (tr ++ o1)) by (intros x Hx; apply in_or_app; left; exact Hx);
    assert (Hkeep1 : tasks_keep tasks (set_jw js1 tasks)) by apply tasks_keep_set_jw;
    assert (Htasks1 : Stasks n (set_jw js1 tasks) (tr ++ o1))
      by (eapply Stasks_core; [eapply Stasks_mono; [exact Htasks | lia | exact Hsub1]|];
          intros t tk' Hnth; destruct (set_jw_spec _ _ _ _ Hnth) as [tk [H1 [H2 _]]]; eauto);
    assert (Htasksd : Stasks n (drop_jw (set_jw js1 tasks)) (tr ++ o1))
      by (eapply Stasks_core; [exact Htasks1|]; intros t tk' Hnth; apply drop_jw_spec; exact Hnth);
    assert (Hpend : st1 = JPend ->
              exists n', n' <= length (sh_steps p) /\ Sobs n' (tr ++ o1 ++ [ORoot RPending]) /\
                         Stasks n' (set_jw js1 tasks) (tr ++ o1 ++ [ORoot RPending]) /\
                         Sroot n' (RRun n cs1 (steps_from (sh_spawn p) n (skipn n (sh_steps p))))
                               (set_jw js1 tasks) (tr ++ o1 ++ [ORoot RPending]))
      by (intros ->; exists n; rewrite app_assoc;
          assert (Hsub2 : forall x, In x (tr ++ o1) -> In x ((tr ++ o1) ++ [ORoot RPending]))
            by (intros x Hx; apply in_or_app; left; exact Hx);
          split; [exact Hn|]; split; [apply Sobs_root; [exact Hobs1 | exact I]|];
          split; [eapply Stasks_mono; [exact Htasks1 | lia | exact Hsub2]|];
          cbn [Sroot]; split; [reflexivity|]; split; [reflexivity|];
          eapply Scur_mono; [exact Hst | exact Hkeep1 | exact Hsub2]);
    assert (Hfail : forall k b, st1 = JFail k b ->
              exists n', n' <= length (sh_steps p) /\ Sobs n' (tr ++ o1 ++ [ORoot (RErr k b)]) /\
                         Stasks n' (drop_jw (set_jw js1 tasks)) (tr ++ o1 ++ [ORoot (RErr k b)]) /\
                         Sroot n' (RFin (RErr k b)) (drop_jw (set_jw js1 tasks)) (tr ++ o1 ++ [ORoot (RErr k b)]))
      by (intros k b ->; exists n; rewrite app_assoc;
          assert (Hsub2 : forall x, In x (tr ++ o1) -> In x ((tr ++ o1) ++ [ORoot (RErr k b)]))
            by (intros x Hx; apply in_or_app; left; exact Hx);
          split; [exact Hn|]; split; [apply Sobs_root; [exact Hobs1 | exact Hst]|];
          split; [eapply Stasks_mono; [exact Htasksd | lia | exact Hsub2] | exact I]).
  - destruct st1 as [| |k1 b1].
    + inversion E; subst rt regs' tasks' runq' o. rewrite Hrest. apply Hpend. reflexivity.
    + inversion E; subst rt regs' tasks' runq' o. clear E. destruct Hst as [Hcur1 Hdone].
      exists n. rewrite app_assoc.
      assert (Hsub2 : forall x, In x (tr ++ o1) -> In x ((tr ++ o1) ++ [ORoot ROk]))
        by (intros x Hx; apply in_or_app; left; exact Hx).
      split; [exact Hn|]. split; [|split; [eapply Stasks_mono; [exact Htasksd | lia | exact Hsub2] | exact I]].
      apply Sobs_root; [exact Hobs1|]. cbn [root_sound]. intros k bs Hin.
      assert (Hlen : length (sh_steps p) <= n).
      { apply skipn_nil_inv. eapply steps_from_nil_inv. symmetry. exact Hrest. }
      pose proof (in_step_lt _ _ Hin) as Hk.
      destruct (Nat.eq_dec (S k) n) as [He|Hne].
      * apply (Hdone k bs (eq_sym He) Hin).
      * split; [apply (so_before _ _ Hobs1 k bs); [lia | exact Hin]|].
        intros Ht. apply (so_try _ _ Hobs1 Ht k bs); [lia | exact Hin].
    + inversion E; subst rt regs' tasks' runq' o. apply Hfail. reflexivity.
  - destruct st1 as [| |k1 b1].
    + inversion E; subst rt regs' tasks' runq' o. rewrite Hrest. apply Hpend. reflexivity.
    + destruct (inst_step s (set_jw js1 tasks) runq) as [[[cs2 tasks2] runq2] o2] eqn:Ei.
      destruct (poll_steps (sh_try p) ready (S n) cs2 rest (add_regs rs1 regs) tasks2 runq2)
        as [[[[rt3 regs3] tasks3] runq3] o3] eqn:Ep.
      inversion E; subst rt regs' tasks' runq' o. clear E. destruct Hst as [Hcur1 Hdone].
      symmetry in Hrest. destruct (steps_from_cons_inv _ _ _ _ _ Hrest) as [stp [tl [Hskip [Hs Hrest']]]].
      destruct (skipn_cons_inv _ _ _ _ _ Hskip) as [Hnth [Hskip' Hlt]].
      assert (Hsin : forall bs, In bs stp -> in_step n bs) by (intros bs Hin; exists stp; auto).
      rewrite Hs in Ei.
      destruct (inst_step_S n stp ((tr ++ o1) ++ o2) _ _ _ _ _ _ Hsin Ei) as [Hrel2 [Hch2 [new [Hnew Hnewok]]]].
      pose proof (Sobs_next _ _ Hobs1 Hdone) as HobsS.
      pose proof (Sobs_app _ _ _ HobsS Hch2) as Hobs2.
      assert (Hsub2 : forall x, In x (tr ++ o1) -> In x ((tr ++ o1) ++ o2)) by (intros x Hx; apply in_or_app; left; exact Hx).
      assert (Htasks2 : Stasks (S n) tasks2 ((tr ++ o1) ++ o2)).
      { intros t tk Hnt. rewrite Hnew in Hnt. destruct (Nat.lt_ge_cases t (length (set_jw js1 tasks))) as [Hl|Hg].
        - rewrite nth_error_app1 in Hnt by exact Hl. eapply task_S_mono; [eapply Htasks1; exact Hnt | lia | exact Hsub2].
        - rewrite nth_error_app2 in Hnt by exact Hg. apply nth_error_In in Hnt. apply Hnewok. exact Hnt. }
      assert (Hcur2 : Scur (S n) cs2 tasks2 ((tr ++ o1) ++ o2)) by (exists stp; split; [exact Hnth | exact Hrel2]).
      assert (Hrest2 : rest = steps_from (sh_spawn p) (S n) (skipn (S n) (sh_steps p))) by (rewrite Hskip'; exact Hrest').
      destruct (IH _ _ _ _ _ _ _ _ _ _ _ Ep Hlt Hrest2 Hobs2 Htasks2 Hcur2) as [n' [H1 [H2 [H3 H4]]]].
      exists n'. rewrite !app_assoc. auto.
    + inversion E; subst rt regs' tasks' runq' o. apply Hfail. reflexivity.
Qed.

(** ** [RunTasks] and [Flip] keep the invariant *)

Lemma poll_task_S : forall ready n t tk tk' o rs tr,
  poll_task ready t tk = (tk', o, rs) -> task_S n tr tk ->
  chunk_ok n o /\ task_S n (tr ++ o) tk'.
Proof.
  intros ready n t tk tk' o rs tr E [Hlt [[bs [Hin [Hk [Hb [Hok [pre0 Hpre]]]]]] Hfin]].
  cbn [l_k l_b l_ok l_script leaf_of] in Hk, Hb, Hok, Hpre.
  unfold poll_task in E. destruct (poll_leaf ready (t_leaf tk)) as [r ol] eqn:El.
  destruct (poll_leaf_spec _ _ _ _ El) as [o' [Hf [[Hr [Ho Hg]]|[g [pre [s [Hr [Ho [Hm [Hscr Hp]]]]]]]]]]; subst r.
  - inversion E; subst tk' o rs. clear E.
    assert (Hdone : ODone (l_k (t_leaf tk)) (l_b (t_leaf tk)) (l_ok (t_leaf tk)) = done_of (l_k (t_leaf tk)) bs)
      by (unfold done_of; congruence).
    assert (Hch : chunk_ok n ol).
    { subst ol. change (OPoll (l_k (t_leaf tk)) (l_b (t_leaf tk)) :: o' ++ [ODone (l_k (t_leaf tk)) (l_b (t_leaf tk)) (l_ok (t_leaf tk))])
        with ((OPoll (l_k (t_leaf tk)) (l_b (t_leaf tk)) :: o') ++ [ODone (l_k (t_leaf tk)) (l_b (t_leaf tk)) (l_ok (t_leaf tk))]).
      apply chunk_ok_app; [apply xok_leaf_obs; [exact Hlt | exact Hf]|].
      constructor; [|constructor]. rewrite Hdone. apply xok_done; [exact Hlt | exact Hin]. }
    split.
    + apply chunk_ok_app; [exact Hch|]. destruct (t_jw tk); [constructor; [apply xok_notify | constructor] | constructor].
    + unfold task_S. cbn [t_leaf t_fin set_script l_k l_b l_ok l_script]. split; [exact Hlt|]. split.
      * exists bs. split; [exact Hin|]. unfold leaf_suffix. cbn. split; [exact Hk|]. split; [exact Hb|]. split; [exact Hok|].
        exists (bs_script bs). symmetry. apply app_nil_r.
      * intros _. apply in_or_app. right. apply in_or_app. left. subst ol. right. apply in_or_app. right. left. reflexivity.
  - inversion E; subst tk' o rs. clear E. split; [subst ol; apply xok_leaf_obs; [exact Hlt | exact Hf]|].
    unfold task_S. cbn [t_leaf t_fin set_script l_k l_b l_ok l_script]. split; [exact Hlt|]. split.
    + exists bs. split; [exact Hin|]. unfold leaf_suffix. cbn. split; [exact Hk|]. split; [exact Hb|]. split; [exact Hok|].
      exists (pre0 ++ pre). rewrite Hpre, Hscr, <- app_assoc. reflexivity.
    + intros Hd. discriminate.
Qed.

Lemma run_queue_S : forall ready n q tasks regs tasks' regs' o tr,
  run_queue q ready tasks regs = (tasks', regs', o) ->
  Sobs n tr -> Stasks n tasks tr ->
  Sobs n (tr ++ o) /\ Stasks n tasks' (tr ++ o) /\ tasks_keep tasks tasks'.
Proof.
  intros ready n. induction q as [|t0 q IH]; intros tasks regs tasks' regs' o tr E Hobs Htasks; cbn [run_queue] in E.
  - inversion E; subst. rewrite app_nil_r. split; [exact Hobs|]. split; [exact Htasks | apply tasks_keep_refl].
  - destruct (nth_error tasks t0) as [tk0|] eqn:En; [destruct (t_fin tk0) eqn:Ef|].
    + eapply IH; eassumption.
    + destruct (poll_task ready t0 tk0) as [[tk1 o1] rs1] eqn:Ept.
      destruct (run_queue q ready (upd tasks t0 tk1) (add_regs rs1 regs)) as [[tasks2 regs2] o2] eqn:Er.
      inversion E; subst tasks' regs' o. clear E.
      destruct (poll_task_S _ _ _ _ _ _ _ _ Ept (Htasks _ _ En)) as [Hch Htk1].
      pose proof (Sobs_app _ _ _ Hobs Hch) as Hobs1.
      assert (Hsub1 : forall x, In x tr -> In x (tr ++ o1)) by (intros x Hx; apply in_or_app; left; exact Hx).
      assert (Htasks1 : Stasks n (upd tasks t0 tk1) (tr ++ o1)).
      { intros t tk Hn. apply nth_error_upd_inv in Hn. destruct Hn as [[-> [-> _]]|[Hne Hn]]; [exact Htk1|].
        eapply task_S_mono; [eapply Htasks; exact Hn | lia | exact Hsub1]. }
      assert (Hkeep1 : tasks_keep tasks (upd tasks t0 tk1)).
      { intros t tk Hn. destruct (Nat.eq_dec t t0) as [->|Hne].
        - exists tk1. split; [apply nth_error_upd_same; eapply nth_error_Some_lt; exact Hn|].
          rewrite En in Hn. inversion Hn; subst tk. destruct (poll_task_spec _ _ _ _ _ _ Ept) as [H1 [H2 [H3 _]]]. auto.
        - exists tk. split; [rewrite nth_error_upd_other by congruence; exact Hn | auto]. }
      destruct (IH _ _ _ _ _ _ Er Hobs1 Htasks1) as [R1 [R2 R3]]. rewrite app_assoc.
      split; [exact R1|]. split; [exact R2|]. eapply tasks_keep_trans; eassumption.
    + eapply IH; eassumption.
Qed.

Lemma Sinv_step : forall st tr a st' o, Sinv st tr -> step a st = (st', o) -> Sinv st' (tr ++ o).
Proof.
  intros st tr a st' o [Htry [n [Hn [Hobs [Htasks Hroot]]]]] E.
  assert (Hsub : forall x, In x tr -> In x (tr ++ o)) by (intros x Hx; apply in_or_app; left; exact Hx).
  destruct a as [g| |]; cbn [step] in E.
  - (* Flip *)
    assert (Hsame : s_try st' = s_try st /\ s_tasks st' = s_tasks st /\ s_root st' = s_root st /\ Forall (fun x => x = ONotify) o).
    { unfold do_flip in E. destruct (memN g (s_ready st)).
      - inversion E; subst. repeat split; constructor.
      - destruct (wake_all (s_tasks st) (map r_w (filter (on_gate g) (s_regs st))) (s_runq st)) as [rq o1] eqn:Ew.
        inversion E; subst. cbn. repeat split. apply (wake_all_spec _ _ _ _ _ Ew). }
    destruct Hsame as [H1 [H2 [H3 H4]]]. split; [congruence|]. exists n. split; [exact Hn|].
    assert (Hch : chunk_ok n o) by (eapply Forall_impl; [|exact H4]; intros x ->; apply xok_notify).
    split; [apply Sobs_app; assumption|]. rewrite H2, H3.
    split; [eapply Stasks_mono; [exact Htasks | lia | exact Hsub]|].
    destruct (s_root st) as [n0 cs rest|r]; [|exact I]. destruct Hroot as [R1 [R2 R3]].
    split; [exact R1|]. split; [exact R2|]. eapply Scur_mono; [exact R3 | apply tasks_keep_refl | exact Hsub].
  - (* Poll *)
    unfold do_poll in E. destruct (s_root st) as [n0 cs rest|r] eqn:Er.
    + destruct (poll_steps (s_try st) (s_ready st) n0 cs rest (s_regs st) (s_tasks st) (s_runq st))
        as [[[[rt regs] tasks] runq] o1] eqn:Ep. inversion E; subst st' o. clear E.
      destruct Hroot as [R1 [R2 R3]]. subst n0. rewrite Htry in Ep.
      destruct (poll_steps_S _ _ _ _ _ _ _ _ _ _ _ _ _ Ep Hn R2 Hobs Htasks R3) as [n' [H1 [H2 [H3 H4]]]].
      split; [exact Htry|]. exists n'. cbn [s_tasks s_root]. auto.
    + inversion E; subst st' o. clear E. split; [exact Htry|]. exists n. split; [exact Hn|].
      assert (Hch : chunk_ok n [OGone]).
      { constructor; [|constructor]. split; [|split]; intros; discriminate. }
      split; [apply Sobs_app; assumption|]. split; [eapply Stasks_mono; [exact Htasks | lia | exact Hsub]|].
      rewrite Er. exact I.
  - (* RunTasks *)
    unfold do_run_tasks in E.
    destruct (run_queue (s_runq st) (s_ready st) (s_tasks st) (s_regs st)) as [[tasks regs] o1] eqn:Erq.
    inversion E; subst st' o. clear E.
    destruct (run_queue_S _ _ _ _ _ _ _ _ _ Erq Hobs Htasks) as [H1 [H2 H3]].
    split; [exact Htry|]. exists n. cbn [s_tasks s_root]. split; [exact Hn|]. split; [exact H1|]. split; [exact H2|].
    destruct (s_root st) as [n0 cs rest|r]; [|exact I]. destruct Hroot as [R1 [R2 R3]].
    split; [exact R1|]. split; [exact R2|]. eapply Scur_mono; [exact R3 | exact H3 | exact Hsub].
Qed.

Lemma Sinv_init : Sinv (init (skeleton p)) [].
Proof.
  split; [reflexivity|]. exists 0. split; [lia|]. split; [|split].
  - constructor.
    + intros x k [].
    + intros k b ok [].
    + intros o1 x o2 k' k bs Heq. destruct o1; discriminate.
    + intros k bs Hlt. lia.
    + intros _ k bs Hlt. lia.
    + intros r [].
  - intros t tk Hn. destruct t; discriminate.
  - cbn. split; [reflexivity|]. split; reflexivity.
Qed.

Theorem Sinv_reach : forall acts,
  Sinv (fst (run_async acts (init (skeleton p)))) (run_shape p acts).
Proof.
  intros acts. unfold run_shape.
  apply (run_async_ind0 Sinv (init (skeleton p)) Sinv_init Sinv_step).
Qed.

(* ---------------------------------------------------------------------------------- *)
(** ** (b) Step barrier *)

(** For EVERY action list: whenever an observation that belongs to step k' occurs in the
    trace (a chain of step k' is created, polled, emits an event, polls a gate or completes --
    inline or inside a task), the completion [ODone k b ok] of EVERY branch active in EVERY
    earlier step k < k' occurs strictly before it. *)
Theorem step_barrier : forall acts o1 x o2 k' k bs,
  run_shape p acts = o1 ++ x :: o2 ->
  obs_step x = Some k' -> k < k' -> in_step k bs ->
  In (ODone k (bs_b bs) (bs_ok bs)) o1.
Proof.
  intros acts o1 x o2 k' k bs Heq Hx Hlt Hin.
  destruct (Sinv_reach acts) as [_ [n [_ [Hobs _]]]].
  exact (so_barrier _ _ Hobs o1 x o2 k' k bs Heq Hx Hlt Hin).
Qed.

(** ... and for the try kinds every one of those earlier branches completed with [ok = true]. *)
Theorem step_barrier_try : forall acts x k' k bs,
  sh_try p = true -> In x (run_shape p acts) -> obs_step x = Some k' -> k < k' -> in_step k bs ->
  bs_ok bs = true.
Proof.
  intros acts x k' k bs Ht Hin Hx Hlt Hs.
  destruct (Sinv_reach acts) as [_ [n [_ [Hobs _]]]].
  pose proof (so_lt _ _ Hobs x k' Hin Hx) as Hk'. apply (so_try _ _ Hobs Ht k bs); [lia | exact Hs].
Qed.

(** every completion in the trace is the completion of a branch-step of the program, with
    the outcome the program gives it *)
Theorem done_sound : forall acts k b ok,
  In (ODone k b ok) (run_shape p acts) -> exists bs, in_step k bs /\ bs_b bs = b /\ bs_ok bs = ok.
Proof.
  intros acts k b ok Hin. destruct (Sinv_reach acts) as [_ [n [_ [Hobs _]]]]. exact (so_sound _ _ Hobs k b ok Hin).
Qed.

(* ---------------------------------------------------------------------------------- *)
(** ** (f) Try abort *)

(** With [try_join!]: once a child of step k has completed with [ok = false], whatever
    happens afterwards (for EVERY action list) no observation of any later step exists in
    the trace, the root never returns Ok, and every error the root returns is from step k. *)
Theorem try_abort : forall acts k b,
  sh_try p = true -> In (ODone k b false) (run_shape p acts) ->
  (forall x k', In x (run_shape p acts) -> obs_step x = Some k' -> k' <= k) /\
  ~ In (ORoot ROk) (run_shape p acts) /\
  (forall k2 b2, In (ORoot (RErr k2 b2)) (run_shape p acts) -> k2 = k).
Proof.
  intros acts k b Ht Hin. destruct (Sinv_reach acts) as [_ [n [_ [Hobs _]]]].
  assert (Hlast : forall k0 b0, In (ODone k0 b0 false) (run_shape p acts) -> S k0 = n).
  { intros k0 b0 Hd. destruct (so_sound _ _ Hobs _ _ _ Hd) as [bs [Hs [Hb Hok]]].
    pose proof (so_lt _ _ Hobs _ k0 Hd eq_refl) as Hlt.
    destruct (Nat.eq_dec (S k0) n) as [He|Hne]; [exact He|]. exfalso.
    assert (bs_ok bs = true) by (apply (so_try _ _ Hobs Ht k0 bs); [lia | exact Hs]). congruence. }
  pose proof (Hlast k b Hin) as Hn. split; [|split].
  - intros x k' Hx Hk'. pose proof (so_lt _ _ Hobs x k' Hx Hk'). lia.
  - intros Hr. pose proof (so_root _ _ Hobs _ Hr) as Hs. cbn [root_sound] in Hs.
    destruct (so_sound _ _ Hobs _ _ _ Hin) as [bs [Hbs [Hb Hok]]]. destruct (Hs k bs Hbs) as [_ Hall].
    specialize (Hall Ht). congruence.
  - intros k2 b2 Hr. pose proof (so_root _ _ Hobs _ Hr) as Hs. cbn [root_sound] in Hs.
    destruct Hs as [_ [_ [Hd _]]]. pose proof (Hlast k2 b2 Hd). lia.
Qed.

(** The error the root returns: it is the error of a branch b that fails in step k, that
    branch's completion is in the trace, and k is the EARLIEST step of the program that
    contains a failing branch (every branch of every earlier step succeeds). *)
Theorem try_error_result : forall acts k b,
  In (ORoot (RErr k b)) (run_shape p acts) ->
  sh_try p = true /\
  (exists bs, in_step k bs /\ bs_b bs = b /\ bs_ok bs = false) /\
  In (ODone k b false) (run_shape p acts) /\
  (forall k' bs', k' < k -> in_step k' bs' -> bs_ok bs' = true).
Proof.
  intros acts k b Hr. destruct (Sinv_reach acts) as [_ [n [_ [Hobs _]]]].
  exact (so_root _ _ Hobs _ Hr).
Qed.

(** The root returns Ok only after every branch-step of the program has completed (and, for
    the try kinds, only if none of them fails). *)
Theorem ok_result : forall acts,
  In (ORoot ROk) (run_shape p acts) ->
  forall k bs, in_step k bs ->
    In (ODone k (bs_b bs) (bs_ok bs)) (run_shape p acts) /\ (sh_try p = true -> bs_ok bs = true).
Proof.
  intros acts Hr. destruct (Sinv_reach acts) as [_ [n [_ [Hobs _]]]].
  exact (so_root _ _ Hobs _ Hr).
Qed.

(** Without [try], failures abort nothing: the root never returns an error. *)
Theorem plain_never_errs : forall acts k b, sh_try p = false -> ~ In (ORoot (RErr k b)) (run_shape p acts).
Proof.
  intros acts k b Ht Hr. destruct (try_error_result acts k b Hr) as [H _]. congruence.
Qed.

(* ---------------------------------------------------------------------------------- *)
(** ** (c) A pending branch never blocks a ready sibling (full statement) *)

(** After EVERY [Poll] of the root (for every action list before it), every unfinished inline
    child l of the current step (step n-1) is a branch-step bs of the program that sits at a
    gate g OF ITS OWN script (bs_script bs = pre ++ AGate g :: s, everything in [pre] done),
    g is NOT ready, and the root's waker is registered for it on g. *)
Theorem pending_never_blocks_sibling : forall acts st n cs rest l,
  st = fst (run_async (acts ++ [Poll]) (init (skeleton p))) ->
  s_root st = RRun n cs rest -> In (CLeaf l) cs ->
  exists m bs pre g s,
    n = S m /\ in_step m bs /\ l_k l = m /\ l_b l = bs_b bs /\
    bs_script bs = pre ++ AGate g :: s /\ l_script l = AGate g :: s /\
    memN g (s_ready st) = false /\ In (mkReg g m (bs_b bs) WRoot) (s_regs st).
Proof.
  intros acts st n cs rest l Hst Hr Hin.
  destruct (after_poll_all_parked (skeleton p) acts st n cs rest l Hst Hr Hin) as [g [s [H1 [H2 H3]]]].
  destruct (Sinv_reach (acts ++ [Poll])) as [_ [n0 [_ [_ [_ Hroot]]]]]. rewrite <- Hst, Hr in Hroot.
  destruct Hroot as [-> [_ Hcur]]. destruct n0 as [|m]; [cbn in Hcur; subst cs; destruct Hin|].
  destruct Hcur as [stp [Hnth Hrel]]. destruct (Forall2_In_l _ _ _ _ _ _ Hrel Hin) as [bs [Hbs Hc]].
  cbn [child_rel] in Hc. destruct Hc as [Hk [Hb [_ [pre Hpre]]]]. cbn in Hk, Hb, Hpre.
  exists m, bs, pre, g, s. split; [reflexivity|]. split; [exists stp; auto|]. split; [exact Hk|]. split; [exact Hb|].
  split; [rewrite Hpre, H1; reflexivity|]. split; [exact H1|]. split; [exact H2|]. rewrite <- Hk, <- Hb. exact H3.
Qed.

(** Same for tasks after EVERY [RunTasks]: an unfinished task is a branch-step of the program
    parked on a gate of its own script that is not ready, its own waker registered. *)
Theorem pending_task_parked_own_gate : forall acts st u tk,
  st = fst (run_async (acts ++ [RunTasks]) (init (skeleton p))) ->
  nth_error (s_tasks st) u = Some tk -> t_fin tk = false ->
  exists bs pre g s,
    in_step (l_k (t_leaf tk)) bs /\ l_b (t_leaf tk) = bs_b bs /\
    bs_script bs = pre ++ AGate g :: s /\ l_script (t_leaf tk) = AGate g :: s /\
    memN g (s_ready st) = false /\
    In (mkReg g (l_k (t_leaf tk)) (l_b (t_leaf tk)) (WTask u)) (s_regs st).
Proof.
  intros acts st u tk Hst Hn Hf.
  destruct (after_run_tasks_all_parked (skeleton p) acts st u tk Hst Hn Hf) as [g [s [H1 [H2 H3]]]].
  destruct (Sinv_reach (acts ++ [RunTasks])) as [_ [n0 [_ [_ [Htasks _]]]]]. rewrite <- Hst in Htasks.
  destruct (Htasks _ _ Hn) as [_ [[bs [Hbs [_ [Hb [_ [pre Hpre]]]]]] _]]. cbn in Hb, Hpre.
  exists bs, pre, g, s. split; [exact Hbs|]. split; [exact Hb|]. split; [rewrite Hpre, H1; reflexivity|]. auto.
Qed.

End Structure.

(* ================================================================================== *)
(** * 7. Which failure [try_join!] returns (exactly what the model gives) *)

(** One poll round of [try_join!] that ends in an error: the children are [pre ++ c :: post];
    c is the FIRST child IN CHILD (= branch) ORDER that this round finds completed with an
    error (an inline child completing with [ok = false] during this very poll, or a task found
    finished with [ok = false]); no child of [pre] is in that situation; the children in
    [post] are NOT polled in this round (they are returned unchanged, then dropped). *)
Definition child_status (try : bool) (ready : list N) (tasks : list task) (c : child) : cstat :=
  snd (poll_child try ready tasks c).

Theorem try_join_first_failure_in_child_order : forall try ready tasks cs cs' o rs js k b,
  poll_children try ready tasks cs = (cs', o, rs, js, JFail k b) ->
  exists pre c post pre' c',
    cs = pre ++ c :: post /\ cs' = pre' ++ c' :: post /\ length pre' = length pre /\
    child_status try ready tasks c = CFail k b /\
    (forall c0 k0 b0, In c0 pre -> child_status try ready tasks c0 <> CFail k0 b0).
Proof.
  intros try ready tasks. induction cs as [|c cs IH]; intros cs' o rs js k b E; cbn [poll_children] in E.
  - inversion E.
  - destruct (poll_child try ready tasks c) as [[[[c1 o1] rs1] js1] st1] eqn:Ec.
    assert (Hst : child_status try ready tasks c = st1) by (unfold child_status; rewrite Ec; reflexivity).
    assert (Hrec : forall cs2 o2 rs2 js2 st2,
               poll_children try ready tasks cs = (cs2, o2, rs2, js2, st2) ->
               (forall k0 b0, st1 <> CFail k0 b0) ->
               st2 = JFail k b ->
               exists pre c0 post pre' c',
                 c :: cs = pre ++ c0 :: post /\ c1 :: cs2 = pre' ++ c' :: post /\ length pre' = length pre /\
                 child_status try ready tasks c0 = CFail k b /\
                 (forall c2 k0 b0, In c2 pre -> child_status try ready tasks c2 <> CFail k0 b0)).
    { intros cs2 o2 rs2 js2 st2 Ecs Hnf ->. destruct (IH _ _ _ _ _ _ Ecs) as [pre [c0 [post [pre' [c' [H1 [H2 [H3 [H4 H5]]]]]]]]].
      exists (c :: pre), c0, post, (c1 :: pre'), c'. split; [rewrite H1; reflexivity|]. split; [rewrite H2; reflexivity|].
      split; [cbn; lia|]. split; [exact H4|]. intros c2 k0 b0 [<-|Hin]; [rewrite Hst; apply Hnf | apply H5; exact Hin]. }
    destruct st1 as [| |k1 b1].
    + destruct (poll_children try ready tasks cs) as [[[[cs2 o2] rs2] js2] st2] eqn:Ecs.
      inversion E; subst. eapply Hrec; [reflexivity | intros; discriminate |].
      destruct st2; try discriminate. exact H4.
    + destruct (poll_children try ready tasks cs) as [[[[cs2 o2] rs2] js2] st2] eqn:Ecs.
      inversion E; subst. eapply Hrec; [reflexivity | intros; discriminate |].
      destruct st2; try discriminate. exact H4.
    + inversion E; subst. exists [], c, cs, [], c1. split; [reflexivity|]. split; [reflexivity|].
      split; [reflexivity|]. split; [exact Hst|]. intros c2 k0 b0 [].
Qed.

(** [join!] never returns early. *)
Theorem join_never_fails : forall ready tasks cs cs' o rs js k b,
  poll_children false ready tasks cs <> (cs', o, rs, js, JFail k b).
Proof.
  intros ready tasks. induction cs as [|c cs IH]; intros cs' o rs js k b E; cbn [poll_children] in E.
  - inversion E.
  - destruct (poll_child false ready tasks c) as [[[[c1 o1] rs1] js1] st1] eqn:Ec.
    assert (Hnf : forall k0 b0, st1 <> CFail k0 b0).
    { intros k0 b0 ->. destruct c as [l|t|]; cbn [poll_child] in Ec.
      - destruct (poll_leaf ready l) as [[ok|l' g] ol]; inversion Ec.
      - destruct (nth_error tasks t) as [tk|]; [destruct (t_fin tk)|]; inversion Ec.
      - inversion Ec. }
    destruct st1 as [| |k1 b1]; [| | exfalso; eapply Hnf; reflexivity];
      destruct (poll_children false ready tasks cs) as [[[[cs2 o2] rs2] js2] st2] eqn:Ecs;
      inversion E; subst; destruct st2; try discriminate; eapply IH; inversion H4; subst; reflexivity.
Qed.

(* ================================================================================== *)
(** * 7a. Plain [try] kinds: the error returned is the FIRST failure of the trace *)

Definition notfail (x : obs) : Prop :=
  (forall k b, x <> ODone k b false) /\ (forall k b, x <> ORoot (RErr k b)).
Local Ltac nf := split; intros ? ?; discriminate.
Definition nofail (tr : list obs) : Prop := Forall notfail tr.
Definition nospawn (rest : list sexpr) : Prop := Forall (fun s => is_spawn_step s = false) rest.
Definition nohandle (cs : list child) : Prop := forall t, ~ In (CHandle t) cs.
Definition rootregs (regs : list reg) : Prop := forall r, In r regs -> is_root_reg r = true.

Lemma ev_obs_notfail : forall k b x, ev_obs k b x -> notfail x.
Proof. intros k b x H. split; intros k0 b0; [eapply ev_obs_not_done | eapply ev_obs_not_root]; exact H. Qed.

Lemma poll_child_PT : forall ready tasks c c' o rs js st,
  poll_child true ready tasks c = (c', o, rs, js, st) -> (forall t, c <> CHandle t) ->
  (forall t, c' <> CHandle t) /\ js = [] /\ rootregs rs /\
  match st with
  | CFail k b => exists o', o = o' ++ [ODone k b false] /\ nofail o'
  | _ => nofail o
  end.
Proof.
  intros ready tasks c c' o rs js st E Hnh. destruct c as [l|t|]; cbn [poll_child] in E.
  - destruct (poll_leaf ready l) as [r ol] eqn:El.
    destruct (poll_leaf_spec _ _ _ _ El) as [o' [Hf [[Hr [Ho Hg]]|[g [pre [s [Hr [Ho [Hm [Hs Hp]]]]]]]]]]; subst r.
    + inversion E; subst c' o rs js st. clear E. split; [intros; discriminate|]. split; [reflexivity|].
      split; [intros r []|].
      assert (Hnf : nofail (OPoll (l_k l) (l_b l) :: o')).
      { constructor; [nf|]. eapply Forall_impl; [|exact Hf]. intros x Hx. eapply ev_obs_notfail. exact Hx. }
      unfold fin_stat. destruct (l_ok l) eqn:Eok; cbn.
      * subst ol. change (OPoll (l_k l) (l_b l) :: o' ++ [ODone (l_k l) (l_b l) true])
          with ((OPoll (l_k l) (l_b l) :: o') ++ [ODone (l_k l) (l_b l) true]).
        apply Forall_app. split; [exact Hnf|]. constructor; [nf | constructor].
      * exists (OPoll (l_k l) (l_b l) :: o'). split; [subst ol; reflexivity | exact Hnf].
    + inversion E; subst c' o rs js st. clear E. split; [intros; discriminate|]. split; [reflexivity|].
      split; [intros r [<-|[]]; reflexivity|].
      subst ol. constructor; [nf|]. eapply Forall_impl; [|exact Hf]. intros x Hx. eapply ev_obs_notfail. exact Hx.
  - exfalso. apply (Hnh t). reflexivity.
  - inversion E; subst. split; [intros; discriminate|]. split; [reflexivity|]. split; [intros r []|constructor].
Qed.

Lemma poll_children_PT : forall ready tasks cs cs' o rs js st,
  poll_children true ready tasks cs = (cs', o, rs, js, st) -> nohandle cs ->
  nohandle cs' /\ js = [] /\ rootregs rs /\
  match st with
  | JFail k b => exists o', o = o' ++ [ODone k b false] /\ nofail o'
  | _ => nofail o
  end.
Proof.
  intros ready tasks. induction cs as [|c cs IH]; intros cs' o rs js st E Hnh; cbn [poll_children] in E.
  - inversion E; subst. split; [intros t []|]. split; [reflexivity|]. split; [intros r []|constructor].
  - destruct (poll_child true ready tasks c) as [[[[c1 o1] rs1] js1] st1] eqn:Ec.
    assert (Hc : forall t, c <> CHandle t) by (intros t ->; apply (Hnh t); left; reflexivity).
    assert (Hcs : nohandle cs) by (intros t Hin; apply (Hnh t); right; exact Hin).
    destruct (poll_child_PT _ _ _ _ _ _ _ _ Ec Hc) as [Hc1 [Hj1 [Hr1 Hs1]]].
    assert (Hcomb : forall cs2 o2 rs2 js2 st2 stx,
               poll_children true ready tasks cs = (cs2, o2, rs2, js2, st2) -> nofail o1 ->
               stx = match st2 with JFail k b => JFail k b | JPend => JPend
                                 | JAll => match st1 with CPend => JPend | _ => JAll end end ->
               nohandle (c1 :: cs2) /\ js1 ++ js2 = [] /\ rootregs (rs1 ++ rs2) /\
               match stx with
               | JFail k b => exists o', o1 ++ o2 = o' ++ [ODone k b false] /\ nofail o'
               | _ => nofail (o1 ++ o2)
               end).
    { intros cs2 o2 rs2 js2 st2 stx Ecs Hn1 Hstx. destruct (IH _ _ _ _ _ Ecs Hcs) as [H1 [H2 [H3 H4]]].
      split; [intros t [Hd|Hin]; [exact (Hc1 t Hd) | exact (H1 t Hin)]|].
      split; [rewrite Hj1, H2; reflexivity|].
      split; [intros r Hin; apply in_app_or in Hin; destruct Hin as [Hin|Hin]; [apply Hr1 | apply H3]; exact Hin|].
      subst stx. destruct st2 as [| |k b].
      - apply Forall_app. split; assumption.
      - destruct st1; apply Forall_app; split; assumption.
      - destruct H4 as [o' [Ho' Hn']]. exists (o1 ++ o'). split; [rewrite Ho', app_assoc; reflexivity|].
        apply Forall_app. split; assumption. }
    destruct st1 as [| |k1 b1].
    + destruct (poll_children true ready tasks cs) as [[[[cs2 o2] rs2] js2] st2] eqn:Ecs.
      inversion E; subst. eapply Hcomb; [reflexivity | exact Hs1 | reflexivity].
    + destruct (poll_children true ready tasks cs) as [[[[cs2 o2] rs2] js2] st2] eqn:Ecs.
      inversion E; subst. eapply Hcomb; [reflexivity | exact Hs1 | reflexivity].
    + inversion E; subst. split; [intros t [Hd|Hin]; [exact (Hc1 t Hd) | exact (Hcs t Hin)]|].
      split; [reflexivity|]. split; [exact Hr1 | exact Hs1].
Qed.

Lemma inst_children_plain : forall cs tasks runq ch tk rq o,
  inst_children cs tasks runq = (ch, tk, rq, o) -> existsb is_cspawn cs = false ->
  tk = tasks /\ rq = runq /\ nofail o.
Proof.
  induction cs as [|c cs IH]; intros tasks runq ch tk rq o E Hns; cbn [inst_children] in E.
  - inversion E; subst. split; [reflexivity|]. split; [reflexivity | constructor].
  - cbn [existsb] in Hns. apply orb_false_iff in Hns. destruct Hns as [Hc Hns]. destruct c as [l|l]; [|discriminate].
    destruct (inst_children cs tasks runq) as [[[ch1 tk1] rq1] o1] eqn:E1. inversion E; subst.
    destruct (IH _ _ _ _ _ _ E1 Hns) as [H1 [H2 H3]]. split; [exact H1|]. split; [exact H2|].
    constructor; [nf | exact H3].
Qed.

Lemma inst_step_plain : forall s tasks runq ch tk rq o,
  inst_step s tasks runq = (ch, tk, rq, o) -> is_spawn_step s = false ->
  tk = tasks /\ rq = runq /\ nofail o /\ nohandle ch.
Proof.
  intros s tasks runq ch tk rq o E Hns. destruct s as [l|cs]; cbn [inst_step] in E.
  - inversion E; subst. split; [reflexivity|]. split; [reflexivity|].
    split; [constructor; [nf | constructor]|]. intros t [Hd|[]]. discriminate.
  - cbn [is_spawn_step] in Hns. destruct (inst_children_plain _ _ _ _ _ _ _ E Hns) as [H1 [H2 H3]].
    split; [exact H1|]. split; [exact H2|]. split; [exact H3|]. intros t. eapply inst_children_nohandle; eassumption.
Qed.

Lemma rootregs_add : forall rs regs, rootregs rs -> rootregs regs -> rootregs (add_regs rs regs).
Proof.
  intros rs regs H1 H2 r Hin. apply In_add_regs_inv in Hin. destruct Hin as [Hin|Hin]; [apply H1 | apply H2]; exact Hin.
Qed.

Lemma drop_regs_rootregs : forall regs, rootregs regs -> drop_regs regs = [].
Proof.
  intros regs H. unfold drop_regs. induction regs as [|r regs IH]; [reflexivity|]. cbn [filter].
  rewrite (H r (or_introl eq_refl)). cbn. apply IH. intros r0 Hin. apply H. right. exact Hin.
Qed.

(** result of one poll of the root, plain try kind *)
Definition PT_result (rt : root) (regs' : list reg) (tr' : list obs) : Prop :=
  match rt with
  | RRun _ cs' rest' => nohandle cs' /\ nospawn rest' /\ nofail tr' /\ rootregs regs'
  | RFin (RErr k b) => regs' = [] /\ exists o1, tr' = o1 ++ [ODone k b false; ORoot (RErr k b)] /\ nofail o1
  | RFin _ => regs' = [] /\ nofail tr'
  end.

Lemma poll_steps_PT : forall ready rest n cs regs runq rt regs' tasks' runq' o tr,
  poll_steps true ready n cs rest regs [] runq = (rt, regs', tasks', runq', o) ->
  nohandle cs -> nospawn rest -> rootregs regs -> nofail tr ->
  tasks' = [] /\ runq' = runq /\ PT_result rt regs' (tr ++ o).
Proof.
  intros ready. induction rest as [|s rest IH];
    intros n cs regs runq rt regs' tasks' runq' o tr E Hnh Hns Hrr Hnf; cbn [poll_steps] in E;
    destruct (poll_children true ready [] cs) as [[[[cs1 o1] rs1] js1] st1] eqn:Ec;
    destruct (poll_children_PT _ _ _ _ _ _ _ _ Ec Hnh) as [Hnh1 [Hj1 [Hr1 Hs1]]]; subst js1; cbn [set_jw drop_jw map] in E;
    pose proof (rootregs_add _ _ Hr1 Hrr) as Hrr1;
    assert (Hnfp : nofail [ORoot RPending]) by (constructor; [nf | constructor]);
    assert (Hnfo : nofail [ORoot ROk]) by (constructor; [nf | constructor]).
  - destruct st1 as [| |k1 b1]; inversion E; subst; (split; [reflexivity|]); (split; [reflexivity|]); cbn [PT_result].
    + split; [exact Hnh1|]. split; [constructor|]. split; [|exact Hrr1]. repeat (apply Forall_app; split); auto.
    + split; [apply drop_regs_rootregs; exact Hrr1|]. repeat (apply Forall_app; split); auto.
    + split; [apply drop_regs_rootregs; exact Hrr1|]. destruct Hs1 as [o' [Ho' Hn']]. exists (tr ++ o').
      split; [rewrite Ho'; rewrite <- !app_assoc; reflexivity | apply Forall_app; split; assumption].
  - destruct st1 as [| |k1 b1].
    + inversion E; subst. split; [reflexivity|]. split; [reflexivity|]. cbn [PT_result].
      split; [exact Hnh1|]. split; [exact Hns|]. split; [|exact Hrr1]. repeat (apply Forall_app; split); auto.
    + inversion Hns as [|? ? Hs Hns']; subst.
      destruct (inst_step s [] runq) as [[[cs2 tasks2] runq2] o2] eqn:Ei.
      destruct (inst_step_plain _ _ _ _ _ _ _ Ei Hs) as [-> [-> [Hn2 Hnh2]]].
      destruct (poll_steps true ready (S n) cs2 rest (add_regs rs1 regs) [] runq)
        as [[[[rt3 regs3] tasks3] runq3] o3] eqn:Ep.
      inversion E; subst.
      assert (Hnf2 : nofail ((tr ++ o1) ++ o2)) by (repeat (apply Forall_app; split); auto).
      destruct (IH _ _ _ _ _ _ _ _ _ _ Ep Hnh2 Hns' Hrr1 Hnf2) as [H1 [H2 H3]].
      split; [exact H1|]. split; [exact H2|]. rewrite !app_assoc. exact H3.
    + inversion E; subst. split; [reflexivity|]. split; [reflexivity|]. cbn [PT_result].
      split; [apply drop_regs_rootregs; exact Hrr1|]. destruct Hs1 as [o' [Ho' Hn']]. exists (tr ++ o').
      split; [rewrite Ho'; rewrite <- !app_assoc; reflexivity | apply Forall_app; split; assumption].
Qed.

Definition PTinv (st : state) (tr : list obs) : Prop :=
  s_try st = true /\ s_tasks st = [] /\ s_runq st = [] /\
  match s_root st with
  | RRun _ cs rest => nohandle cs /\ nospawn rest /\ nofail tr /\ rootregs (s_regs st)
  | RFin (RErr k b) =>
      s_regs st = [] /\
      exists o1 g, tr = o1 ++ ODone k b false :: ORoot (RErr k b) :: g /\ nofail o1 /\ Forall (fun x => x = OGone) g
  | RFin _ => s_regs st = [] /\ nofail tr
  end.

Lemma wake_all_rootregs : forall tasks ws runq rq o,
  wake_all tasks ws runq = (rq, o) -> (forall w, In w ws -> w = WRoot) -> rq = runq.
Proof.
  intros tasks. induction ws as [|w ws IH]; intros runq rq o E Hw; cbn [wake_all] in E.
  - inversion E; reflexivity.
  - rewrite (Hw w (or_introl eq_refl)) in E. cbn [wake] in E.
    destruct (wake_all tasks ws runq) as [rq2 o2] eqn:E2. inversion E; subst.
    eapply IH; [exact E2|]. intros w0 Hin. apply Hw. right. exact Hin.
Qed.

Lemma PTinv_step : forall st tr a st' o, PTinv st tr -> step a st = (st', o) -> PTinv st' (tr ++ o).
Proof.
  intros st tr a st' o [Htry [Htasks [Hrunq Hroot]]] E. destruct a as [g| |]; cbn [step] in E.
  - unfold do_flip in E. destruct (memN g (s_ready st)).
    + inversion E; subst. rewrite app_nil_r. split; [exact Htry|]. split; [exact Htasks|]. split; [exact Hrunq | exact Hroot].
    + destruct (wake_all (s_tasks st) (map r_w (filter (on_gate g) (s_regs st))) (s_runq st)) as [rq o1] eqn:Ew.
      inversion E; subst st' o. clear E. destruct (wake_all_spec _ _ _ _ _ Ew) as [_ [_ [_ Hall]]].
      assert (Hnfo : nofail o1) by (eapply Forall_impl; [|exact Hall]; intros x ->; nf).
      destruct (s_root st) as [n cs rest|r] eqn:Er.
      * destruct Hroot as [H1 [H2 [H3 H4]]].
        assert (Hrq : rq = s_runq st).
        { eapply wake_all_rootregs; [exact Ew|]. intros w Hin. apply in_map_iff in Hin. destruct Hin as [r [<- Hin]].
          apply filter_In in Hin. destruct Hin as [Hin _]. specialize (H4 r Hin). unfold is_root_reg in H4.
          destruct (r_w r); [reflexivity | discriminate]. }
        split; [exact Htry|]. split; [exact Htasks|]. split; [cbn; congruence|]. cbn [s_root s_regs].
        split; [exact H1|]. split; [exact H2|]. split; [apply Forall_app; split; assumption|].
        intros r Hin. apply filter_In in Hin. apply H4. apply Hin.
      * assert (Hregs : s_regs st = []) by (destruct r; destruct Hroot as [H _]; exact H).
        rewrite Hregs in Ew. cbn in Ew. inversion Ew; subst rq o1. rewrite app_nil_r.
        split; [exact Htry|]. split; [exact Htasks|]. split; [exact Hrunq|]. cbn [s_root s_regs]. rewrite Hregs. cbn [filter].
        rewrite Hregs in Hroot. exact Hroot.
  - unfold do_poll in E. destruct (s_root st) as [n cs rest|r] eqn:Er.
    + destruct Hroot as [H1 [H2 [H3 H4]]]. rewrite Htry, Htasks in E.
      destruct (poll_steps true (s_ready st) n cs rest (s_regs st) [] (s_runq st)) as [[[[rt regs] tasks] runq] o1] eqn:Ep.
      inversion E; subst st' o. clear E.
      destruct (poll_steps_PT _ _ _ _ _ _ _ _ _ _ _ tr Ep H1 H2 H4 H3) as [Ht [Hq Hres]]. subst tasks runq.
      split; [reflexivity|]. split; [reflexivity|]. split; [exact Hrunq|]. cbn [s_root s_regs].
      destruct rt as [n' cs' rest'|[| |k b]]; cbn [PT_result] in Hres; try exact Hres.
      destruct Hres as [Hr [o1' [Ho1 Hn1]]]. split; [exact Hr|]. exists o1', []. split; [exact Ho1|]. split; [exact Hn1 | constructor].
    + inversion E; subst st' o. clear E. split; [exact Htry|]. split; [exact Htasks|]. split; [exact Hrunq|]. rewrite Er.
      destruct r as [| |k b].
      * destruct Hroot as [Hr Hn]. split; [exact Hr|]. apply Forall_app. split; [exact Hn|]. constructor; [nf | constructor].
      * destruct Hroot as [Hr Hn]. split; [exact Hr|]. apply Forall_app. split; [exact Hn|]. constructor; [nf | constructor].
      * destruct Hroot as [Hr [o1 [g [Ho [Hn Hg]]]]]. split; [exact Hr|]. exists o1, (g ++ [OGone]).
        split; [rewrite Ho, <- app_assoc; reflexivity|]. split; [exact Hn|]. apply Forall_app. split; [exact Hg | constructor; [reflexivity | constructor]].
  - unfold do_run_tasks in E. rewrite Hrunq in E. cbn [run_queue] in E. inversion E; subst st' o. clear E.
    rewrite app_nil_r. split; [exact Htry|]. split; [exact Htasks|]. split; [reflexivity|]. cbn [s_root s_regs]. exact Hroot.
Qed.

Lemma nospawn_steps_from_plain : forall sts k, nospawn (steps_from false k sts).
Proof.
  induction sts as [|stp sts IH]; intros k; cbn [steps_from]; constructor; [|apply IH].
  destruct stp as [|b1 [|b2 r]]; cbn [step_expr is_spawn_step map existsb is_cspawn]; try reflexivity.
  induction r as [|x r IHr]; cbn; auto.
Qed.

(** (f) "which one when several fail", plain [try_join_async!]: if the root returns
    [Err(k,b)] then the trace is [o1 ++ ODone k b false :: ORoot (RErr k b) :: g] where [o1]
    contains NO failing completion and [g] consists of ignored polls only: the root returns,
    in the very same poll and immediately after it is observed, the FIRST failure in poll
    order; nothing at all is executed afterwards. *)
Theorem plain_try_returns_first_failure : forall p acts k b,
  sh_try p = true -> sh_spawn p = false ->
  In (ORoot (RErr k b)) (run_shape p acts) ->
  exists o1 g, run_shape p acts = o1 ++ ODone k b false :: ORoot (RErr k b) :: g /\
               nofail o1 /\ Forall (fun x => x = OGone) g.
Proof.
  intros p acts k b Ht Hs Hin.
  assert (Hinit : PTinv (init (skeleton p)) []).
  { unfold PTinv, init, skeleton. cbn. rewrite Ht, Hs. split; [reflexivity|]. split; [reflexivity|]. split; [reflexivity|].
    split; [intros t []|]. split; [apply nospawn_steps_from_plain|]. split; [constructor | intros r []]. }
  pose proof (run_async_ind0 PTinv (init (skeleton p)) Hinit PTinv_step acts) as H. fold (run_shape p acts) in H.
  destruct H as [_ [_ [_ Hroot]]].
  assert (Habs : nofail (run_shape p acts) -> False).
  { intros Hnf. unfold nofail in Hnf. rewrite Forall_forall in Hnf. destruct (Hnf _ Hin) as [_ Hr]. exact (Hr k b eq_refl). }
  destruct (s_root (fst (run_async acts (init (skeleton p))))) as [n cs rest|[| |k0 b0]].
  - exfalso. apply Habs. apply Hroot.
  - exfalso. apply Habs. apply Hroot.
  - exfalso. apply Habs. apply Hroot.
  - destruct Hroot as [_ [o1 [g [Ho [Hn Hg]]]]]. rewrite Ho in Hin |- *.
    assert (Heq : k0 = k /\ b0 = b).
    { apply in_app_or in Hin. destruct Hin as [Hin|[Hin|[Hin|Hin]]].
      - exfalso. unfold nofail in Hn. rewrite Forall_forall in Hn. destruct (Hn _ Hin) as [_ Hr]. exact (Hr k b eq_refl).
      - discriminate.
      - inversion Hin; subst. auto.
      - rewrite Forall_forall in Hg. specialize (Hg _ Hin). discriminate. }
    destruct Heq as [-> ->]. exists o1, g. auto.
Qed.
(* ================================================================================== *)
(** * 7b. The termination measure: remaining atoms *)

Definition task_len (tk : task) : nat := length (l_script (t_leaf tk)).
Definition child_len (c : child) : nat := match c with CLeaf l => length (l_script l) | _ => 0 end.
Definition sexpr_len (s : sexpr) : nat := list_sum (map (fun l => length (l_script l)) (sexpr_leaves s)).
Definition tasks_len (tasks : list task) : nat := list_sum (map task_len tasks).
Definition children_len (cs : list child) : nat := list_sum (map child_len cs).
Definition rest_len (rest : list sexpr) : nat := list_sum (map sexpr_len rest).
Definition root_len (rt : root) : nat :=
  match rt with RRun _ cs rest => children_len cs + rest_len rest | RFin _ => 0 end.

(** number of atoms (events and gates) not yet executed anywhere in the state *)
Definition remaining (st : state) : nat := tasks_len (s_tasks st) + root_len (s_root st).

Lemma map_upd_same : forall (A B : Type) (f : A -> B) l n x y,
  nth_error l n = Some y -> f x = f y -> map f (upd l n x) = map f l.
Proof.
  intros A B f. induction l as [|z l IH]; intros [|n] x y Hn Hf; cbn in *; try discriminate.
  - inversion Hn; subst. rewrite Hf. reflexivity.
  - rewrite (IH _ _ _ Hn Hf). reflexivity.
Qed.

Lemma tasks_len_set_jw : forall js tasks, tasks_len (set_jw js tasks) = tasks_len tasks.
Proof.
  unfold tasks_len. induction js as [|j js IH]; intros tasks; cbn [set_jw]; [reflexivity|].
  rewrite IH. unfold set_jw1. destruct (nth_error tasks j) as [tk|] eqn:E; [|reflexivity].
  rewrite (map_upd_same _ _ task_len tasks j _ tk E); reflexivity.
Qed.

Lemma tasks_len_drop_jw : forall tasks, tasks_len (drop_jw tasks) = tasks_len tasks.
Proof. intros tasks. unfold tasks_len, drop_jw. rewrite map_map. reflexivity. Qed.

Lemma list_sum_upd_le : forall (A : Type) (f : A -> nat) l n x y,
  nth_error l n = Some y -> f x <= f y -> list_sum (map f (upd l n x)) <= list_sum (map f l).
Proof.
  intros A f. induction l as [|z l IH]; intros [|n] x y Hn Hf; cbn in *; try discriminate.
  - inversion Hn; subst. lia.
  - specialize (IH _ _ _ Hn Hf). unfold list_sum in IH. lia.
Qed.

Lemma leaf_suffix_len : forall l l', leaf_suffix l l' -> length (l_script l') <= length (l_script l).
Proof. intros l l' [_ [_ [_ [pre H]]]]. rewrite H, app_length. lia. Qed.

Lemma poll_child_len : forall try ready tasks c c' o rs js st,
  poll_child try ready tasks c = (c', o, rs, js, st) -> child_len c' <= child_len c.
Proof.
  intros try ready tasks c c' o rs js st E. destruct c' as [l'|t|]; cbn [child_len]; try lia.
  destruct (poll_child_leaf _ _ _ _ _ _ _ _ _ _ E eq_refl) as [l [-> Hs]]. cbn [child_len]. apply leaf_suffix_len. exact Hs.
Qed.

Lemma children_len_cons : forall c cs, children_len (c :: cs) = child_len c + children_len cs.
Proof. reflexivity. Qed.
Lemma rest_len_cons : forall s r, rest_len (s :: r) = sexpr_len s + rest_len r.
Proof. reflexivity. Qed.
Lemma tasks_len_one : forall tk, tasks_len [tk] = task_len tk.
Proof. intros tk. unfold tasks_len. cbn. lia. Qed.

Lemma poll_children_len : forall try ready tasks cs cs' o rs js st,
  poll_children try ready tasks cs = (cs', o, rs, js, st) -> children_len cs' <= children_len cs.
Proof.
  intros try ready tasks.
  induction cs as [|c cs IH]; intros cs' o rs js st E; cbn [poll_children] in E.
  - inversion E; subst. lia.
  - destruct (poll_child try ready tasks c) as [[[[c1 o1] rs1] js1] st1] eqn:Ec.
    pose proof (poll_child_len _ _ _ _ _ _ _ _ _ Ec) as Hc.
    destruct st1 as [| |k1 b1].
    + destruct (poll_children try ready tasks cs) as [[[[cs2 o2] rs2] js2] st2] eqn:Ecs.
      inversion E; subst. specialize (IH _ _ _ _ _ eq_refl). rewrite !children_len_cons. lia.
    + destruct (poll_children try ready tasks cs) as [[[[cs2 o2] rs2] js2] st2] eqn:Ecs.
      inversion E; subst. specialize (IH _ _ _ _ _ eq_refl). rewrite !children_len_cons. lia.
    + inversion E; subst. rewrite !children_len_cons. lia.
Qed.

Lemma tasks_len_app : forall a b, tasks_len (a ++ b) = tasks_len a + tasks_len b.
Proof. intros a b. unfold tasks_len. rewrite map_app, list_sum_app. reflexivity. Qed.

Definition cexprs_len (cs : list cexpr) : nat := list_sum (map (fun l => length (l_script l)) (map cexpr_leaf cs)).
Lemma cexprs_len_cons : forall c cs, cexprs_len (c :: cs) = length (l_script (cexpr_leaf c)) + cexprs_len cs.
Proof. reflexivity. Qed.

Lemma inst_children_len : forall cs tasks runq ch tk rq o,
  inst_children cs tasks runq = (ch, tk, rq, o) ->
  children_len ch + tasks_len tk = tasks_len tasks + cexprs_len cs.
Proof.
  induction cs as [|c cs IH]; intros tasks runq ch tk rq o E; cbn [inst_children] in E.
  - inversion E; subst. unfold children_len, cexprs_len. cbn. lia.
  - destruct c as [l|l].
    + destruct (inst_children cs tasks runq) as [[[ch1 tk1] rq1] o1] eqn:E1. inversion E; subst.
      specialize (IH _ _ _ _ _ _ E1). rewrite children_len_cons, cexprs_len_cons. cbn [child_len cexpr_leaf]. lia.
    + destruct (inst_children cs (tasks ++ [mkTask l false false]) (runq ++ [length tasks]))
        as [[[ch1 tk1] rq1] o1] eqn:E1. inversion E; subst.
      specialize (IH _ _ _ _ _ _ E1). rewrite tasks_len_app, tasks_len_one in IH. unfold task_len in IH. cbn [t_leaf] in IH.
      rewrite children_len_cons, cexprs_len_cons. cbn [child_len cexpr_leaf]. lia.
Qed.

Lemma inst_step_len : forall s tasks runq ch tk rq o,
  inst_step s tasks runq = (ch, tk, rq, o) ->
  children_len ch + tasks_len tk = tasks_len tasks + sexpr_len s.
Proof.
  intros s tasks runq ch tk rq o E. destruct s as [l|cs]; cbn [inst_step] in E.
  - inversion E; subst. unfold children_len, sexpr_len. cbn. lia.
  - apply inst_children_len in E. exact E.
Qed.

Lemma poll_steps_len : forall try ready rest n cs regs tasks runq rt regs' tasks' runq' o,
  poll_steps try ready n cs rest regs tasks runq = (rt, regs', tasks', runq', o) ->
  tasks_len tasks' + root_len rt <= tasks_len tasks + children_len cs + rest_len rest.
Proof.
  intros try ready. induction rest as [|s rest IH];
    intros n cs regs tasks runq rt regs' tasks' runq' o E; cbn [poll_steps] in E;
    destruct (poll_children try ready tasks cs) as [[[[cs1 o1] rs1] js1] st1] eqn:Ec;
    pose proof (poll_children_len _ _ _ _ _ _ _ _ _ Ec) as Hc;
    pose proof (tasks_len_set_jw js1 tasks) as Hj;
    pose proof (tasks_len_drop_jw (set_jw js1 tasks)) as Hd.
  - destruct st1 as [| |k1 b1]; inversion E; subst; cbn [root_len]; lia.
  - rewrite rest_len_cons. destruct st1 as [| |k1 b1].
    + inversion E; subst. cbn [root_len]. rewrite rest_len_cons. lia.
    + destruct (inst_step s (set_jw js1 tasks) runq) as [[[cs2 tasks2] runq2] o2] eqn:Ei.
      destruct (poll_steps try ready (S n) cs2 rest (add_regs rs1 regs) tasks2 runq2)
        as [[[[rt3 regs3] tasks3] runq3] o3] eqn:Ep.
      inversion E; subst. specialize (IH _ _ _ _ _ _ _ _ _ _ Ep).
      pose proof (inst_step_len _ _ _ _ _ _ _ Ei) as Hi. lia.
    + inversion E; subst. cbn [root_len]. lia.
Qed.

Lemma poll_task_len : forall ready t tk tk' o rs,
  poll_task ready t tk = (tk', o, rs) -> task_len tk' <= task_len tk.
Proof.
  intros ready t tk tk' o rs E. destruct (poll_task_spec _ _ _ _ _ _ E) as [_ [_ [_ Hcase]]]. unfold task_len.
  destruct Hcase as [[_ [_ [_ Hnil]]]|[_ [_ [g [pre [s [H1 [_ [H2 _]]]]]]]]].
  - rewrite Hnil. cbn. lia.
  - rewrite H1, H2, app_length. lia.
Qed.

Lemma run_queue_len : forall ready q tasks regs tasks' regs' o,
  run_queue q ready tasks regs = (tasks', regs', o) -> tasks_len tasks' <= tasks_len tasks.
Proof.
  intros ready. induction q as [|t0 q IH]; intros tasks regs tasks' regs' o E; cbn [run_queue] in E.
  - inversion E; subst. lia.
  - destruct (nth_error tasks t0) as [tk0|] eqn:En; [destruct (t_fin tk0)|].
    + eapply IH; eassumption.
    + destruct (poll_task ready t0 tk0) as [[tk1 o1] rs1] eqn:Ept.
      destruct (run_queue q ready (upd tasks t0 tk1) (add_regs rs1 regs)) as [[tasks2 regs2] o2] eqn:Er.
      inversion E; subst. specialize (IH _ _ _ _ _ Er).
      pose proof (list_sum_upd_le _ task_len tasks t0 tk1 tk0 En (poll_task_len _ _ _ _ _ _ Ept)) as Hu.
      unfold tasks_len in *. lia.
    + eapply IH; eassumption.
Qed.

(** No action ever increases the number of remaining atoms ... *)
Theorem remaining_nonincreasing : forall st a, remaining (fst (step a st)) <= remaining st.
Proof.
  intros st a. unfold remaining. destruct a as [g| |]; cbn [step].
  - unfold do_flip. destruct (memN g (s_ready st)); [cbn [fst]; lia|].
    destruct (wake_all _ _ _) as [rq o]. cbn [fst s_tasks s_root]. lia.
  - unfold do_poll. destruct (s_root st) as [n cs rest|r] eqn:Er.
    + destruct (poll_steps (s_try st) (s_ready st) n cs rest (s_regs st) (s_tasks st) (s_runq st))
        as [[[[rt regs] tasks] runq] o1] eqn:Ep. cbn [fst s_tasks s_root root_len].
      pose proof (poll_steps_len _ _ _ _ _ _ _ _ _ _ _ _ _ Ep). lia.
    + cbn [fst]. rewrite Er. lia.
  - unfold do_run_tasks.
    destruct (run_queue (s_runq st) (s_ready st) (s_tasks st) (s_regs st)) as [[tasks regs] o1] eqn:Erq.
    cbn [fst s_tasks s_root]. pose proof (run_queue_len _ _ _ _ _ _ _ Erq). lia.
Qed.

Theorem remaining_nonincreasing_run : forall acts st, remaining (fst (run_async acts st)) <= remaining st.
Proof.
  intros acts st. apply (run_async_inv (fun s => remaining s <= remaining st) st (le_n _)).
  intros s a H. pose proof (remaining_nonincreasing s a). lia.
Qed.

(** ... and a poll of a leaf whose next atom is an event or a READY gate strictly consumes
    atoms (or completes the leaf): polls of enabled children make progress. *)
Theorem poll_leaf_progress : forall ready l a s r o,
  l_script l = a :: s ->
  (match a with AEv _ => True | AGate g => memN g ready = true end) ->
  poll_leaf ready l = (r, o) ->
  match r with LFin _ => True | LPark l' _ => length (l_script l') < length (l_script l) end.
Proof.
  intros ready l a s r o Hs Ha E.
  destruct (poll_leaf_spec _ _ _ _ E) as [o' [Hf [[Hr _]|[g [pre [s' [Hr [_ [Hm [Hscr _]]]]]]]]]]; subst r; [exact I|].
  cbn [l_script set_script]. rewrite Hscr, app_length. destruct pre as [|x pre]; [|cbn; lia].
  exfalso. cbn in Hscr. rewrite Hs in Hscr. inversion Hscr; subst a. congruence.
Qed.

(* ================================================================================== *)
(** * 8. Examples (non-vacuity), by [vm_compute] *)

(** three branches, depths 2 / 1 / 3; gates 1..5 *)
Definition ex_shape (try spawn : bool) (ok01 : bool) : shape :=
  mkShape try spawn
    [ [mkBstep 0 [AGate 1%N; AEv 10%N] true; mkBstep 1 [AEv 20%N; AGate 2%N] ok01; mkBstep 2 [AGate 3%N] true];
      [mkBstep 0 [AEv 11%N; AGate 4%N] true; mkBstep 2 [AEv 31%N] true];
      [mkBstep 2 [AGate 5%N; AEv 32%N] true] ].

Definition ex_plain := ex_shape false false true.
Definition ex_try_fail := ex_shape true false false.
Definition ex_spawn := ex_shape false true true.
Definition ex_try_spawn_fail := ex_shape true true false.

(** (a) nothing without a poll *)
Example ex_lazy : run_shape ex_plain [Flip 3%N; RunTasks; Flip 1%N; Flip 2%N; RunTasks] = [].
Proof. vm_compute. reflexivity. Qed.

(** the complete trace of one run: flips in the order 3,1,2 then 5,4, a poll after each batch *)
Example ex_trace :
  run_shape ex_plain [Poll; Flip 3%N; Poll; Flip 1%N; Flip 2%N; Poll; Flip 5%N; Flip 4%N; Poll; Poll] =
  [ ONew 0 0; ONew 0 1; ONew 0 2;
    OPoll 0 0; OChk 0 0 1%N false; OPoll 0 1; OEv 0 1 20%N; OChk 0 1 2%N false; OPoll 0 2; OChk 0 2 3%N false;
    ORoot RPending;
    ONotify;
    OPoll 0 0; OChk 0 0 1%N false; OPoll 0 1; OChk 0 1 2%N false; OPoll 0 2; OChk 0 2 3%N true; ODone 0 2 true;
    ORoot RPending;
    ONotify; ONotify;
    OPoll 0 0; OChk 0 0 1%N true; OEv 0 0 10%N; ODone 0 0 true; OPoll 0 1; OChk 0 1 2%N true; ODone 0 1 true;
    ONew 1 0; ONew 1 2;
    OPoll 1 0; OEv 1 0 11%N; OChk 1 0 4%N false; OPoll 1 2; OEv 1 2 31%N; ODone 1 2 true;
    ORoot RPending;
    ONotify;
    OPoll 1 0; OChk 1 0 4%N true; ODone 1 0 true;
    ONew 2 2; OPoll 2 2; OChk 2 2 5%N true; OEv 2 2 32%N; ODone 2 2 true;
    ORoot ROk;
    OGone ].
Proof. vm_compute. reflexivity. Qed.

(** (e) every flip order completes at the first poll after the last flip (plain kinds) *)
Example ex_complete_12345 :
  last (run_shape ex_plain [Poll; Flip 1%N; Flip 2%N; Flip 3%N; Flip 4%N; Flip 5%N; Poll]) OGone = ORoot ROk.
Proof. vm_compute. reflexivity. Qed.
Example ex_complete_54321 :
  last (run_shape ex_plain [Flip 5%N; Poll; Flip 4%N; Poll; Poll; Flip 3%N; Flip 2%N; Poll; Flip 1%N; Poll]) OGone = ORoot ROk.
Proof. vm_compute. reflexivity. Qed.
Example ex_complete_before_first_poll :
  last (run_shape ex_plain [Flip 2%N; Flip 4%N; Flip 1%N; Flip 5%N; Flip 3%N; Poll]) OGone = ORoot ROk.
Proof. vm_compute. reflexivity. Qed.
Definition atom_gates (a : atom) : list N := match a with AGate g => [g] | AEv _ => [] end.
Definition shape_gate_list (p : shape) : list N :=
  flat_map (fun stp => flat_map (fun bs => flat_map atom_gates (bs_script bs)) stp) (sh_steps p).

Lemma shape_gates_list : forall p g, shape_gates p g -> In g (shape_gate_list p).
Proof.
  intros p g [stp [bs [Hs [Hb Hg]]]]. unfold shape_gate_list.
  apply in_flat_map. exists stp. split; [exact Hs|]. apply in_flat_map. exists bs. split; [exact Hb|].
  apply in_flat_map. exists (AGate g). split; [exact Hg | left; reflexivity].
Qed.

Example ex_gate_list : shape_gate_list ex_plain = [1%N; 2%N; 3%N; 4%N; 5%N].
Proof. vm_compute. reflexivity. Qed.

(** the completion theorem applied (its hypothesis is satisfiable): any list that flips the
    five gates, here in the order 2,4,1,5,3 with a stray poll, is completed by one more poll *)
Example ex_completion_theorem_applies :
  finished (fst (run_async [Poll]
             (fst (run_async [Flip 2%N; Flip 4%N; Poll; Flip 1%N; Flip 5%N; Flip 3%N] (init (skeleton ex_plain)))))).
Proof.
  assert (Hfl : forall g, shape_gates ex_plain g ->
                          In (Flip g) [Flip 2%N; Flip 4%N; Poll; Flip 1%N; Flip 5%N; Flip 3%N]).
  { intros g Hg. apply shape_gates_list in Hg. rewrite ex_gate_list in Hg.
    cbn in Hg. destruct Hg as [<-|[<-|[<-|[<-|[<-|[]]]]]]; cbn; auto 10. }
  destruct (completes_under_every_order ex_plain _ Hfl) as [_ [H0 Hfin]].
  specialize (H0 eq_refl). specialize (Hfin 0). rewrite H0 in Hfin. exact (Hfin (le_n 0)).
Qed.

(** (e) task kinds: two steps have >= 2 branches, so [Poll; (RunTasks; Poll) x 2] are needed *)
Example ex_spawn_steps : spawn_steps ex_spawn = 2.
Proof. vm_compute. reflexivity. Qed.
Example ex_spawn_complete :
  last (run_shape ex_spawn ([Flip 4%N; Flip 1%N; Flip 5%N; Flip 3%N; Flip 2%N] ++ Poll :: rounds 2)) OGone = ORoot ROk.
Proof. vm_compute. reflexivity. Qed.
Example ex_spawn_one_round_is_not_enough :
  last (run_shape ex_spawn ([Flip 4%N; Flip 1%N; Flip 5%N; Flip 3%N; Flip 2%N] ++ Poll :: rounds 1)) OGone = ORoot RPending.
Proof. vm_compute. reflexivity. Qed.
(** tasks run in WAKE order: gate 3 (branch 2) flipped before gate 1 (branch 0) *)
Example ex_spawn_wake_order :
  run_shape ex_spawn [Poll; RunTasks; Flip 3%N; Flip 1%N; RunTasks] =
  [ ONew 0 0; ONew 0 1; ONew 0 2; ORoot RPending;
    OPoll 0 0; OChk 0 0 1%N false; OPoll 0 1; OEv 0 1 20%N; OChk 0 1 2%N false; OPoll 0 2; OChk 0 2 3%N false;
    OPoll 0 2; OChk 0 2 3%N true; ODone 0 2 true; ONotify;
    OPoll 0 0; OChk 0 0 1%N true; OEv 0 0 10%N; ODone 0 0 true; ONotify ].
Proof. vm_compute. reflexivity. Qed.

(** (b) the premise of the barrier theorem is met: an event of step 1 occurs, preceded by the
    completions of all three branches of step 0 *)
Example ex_barrier :
  exists o1 o2, run_shape ex_plain [Poll; Flip 3%N; Flip 2%N; Flip 1%N; Poll] = o1 ++ OEv 1 0 11%N :: o2 /\
                In (ODone 0 0 true) o1 /\ In (ODone 0 1 true) o1 /\ In (ODone 0 2 true) o1.
Proof.
  eexists. eexists. split.
  - vm_compute. 
    match goal with |- ?l = _ => 
      let rec go pre l := lazymatch l with
        | OEv 1 0 11%N :: ?t => instantiate (1 := t); instantiate (1 := rev pre)
        | ?x :: ?t => go (x :: pre) t end in go (@nil obs) l end.
    vm_compute. reflexivity.
  - vm_compute. intuition.
Qed.

(** (f) try abort: branch 1 fails in step 0 -- no observation of step 1, result Err(0,1) *)
Example ex_try_abort :
  let tr := run_shape ex_try_fail [Poll; Flip 3%N; Flip 2%N; Flip 1%N; Poll; Flip 4%N; Flip 5%N; Poll] in
  In (ODone 0 1 false) tr /\ In (ORoot (RErr 0 1)) tr /\
  forallb (fun x => match obs_step x with Some k => Nat.eqb k 0 | None => true end) tr = true.
Proof. vm_compute. intuition. Qed.
(** [try_join!] returns in the round in which it sees the failure: the later sibling (branch 2)
    is not polled in that round although its gate is ready *)
Example ex_try_abort_skips_later_sibling :
  run_shape ex_try_fail [Poll; Flip 3%N; Flip 2%N; Poll] =
  [ ONew 0 0; ONew 0 1; ONew 0 2;
    OPoll 0 0; OChk 0 0 1%N false; OPoll 0 1; OEv 0 1 20%N; OChk 0 1 2%N false; OPoll 0 2; OChk 0 2 3%N false;
    ORoot RPending; ONotify; ONotify;
    OPoll 0 0; OChk 0 0 1%N false; OPoll 0 1; OChk 0 1 2%N true; ODone 0 1 false;
    ORoot (RErr 0 1) ].
Proof. vm_compute. reflexivity. Qed.
(** task kind: the other tasks of the failing step keep running after the root returned the error *)
Example ex_try_spawn_abort :
  run_shape ex_try_spawn_fail [Poll; RunTasks; Flip 2%N; RunTasks; Poll; Flip 1%N; RunTasks; Poll] =
  [ ONew 0 0; ONew 0 1; ONew 0 2; ORoot RPending;
    OPoll 0 0; OChk 0 0 1%N false; OPoll 0 1; OEv 0 1 20%N; OChk 0 1 2%N false; OPoll 0 2; OChk 0 2 3%N false;
    OPoll 0 1; OChk 0 1 2%N true; ODone 0 1 false; ONotify;
    ORoot (RErr 0 1);
    OPoll 0 0; OChk 0 0 1%N true; OEv 0 0 10%N; ODone 0 0 true;
    OGone ].
Proof. vm_compute. reflexivity. Qed.

(** (c), (d): after a poll the unfinished children are parked on unready gates with the root's
    waker registered, and flipping such a gate notifies the root *)
Example ex_parked :
  let st := fst (run_async [Poll; Flip 3%N; Poll] (init (skeleton ex_plain))) in
  s_root st = RRun 1 [CLeaf (mkLeaf 0 0 [AGate 1%N; AEv 10%N] true); CLeaf (mkLeaf 0 1 [AGate 2%N] true); CDone] 
                   (tl (tr_steps (skeleton ex_plain))) /\
  s_regs st = [mkReg 1%N 0 0 WRoot; mkReg 2%N 0 1 WRoot] /\
  snd (do_flip 2%N st) = [ONotify].
Proof. vm_compute. intuition. Qed.

(* ================================================================================== *)
(** * 9. Assumptions (all closed) *)

(* (a) *) Print Assumptions lazy_until_polled.
(* (b) *) Print Assumptions step_barrier.
          Print Assumptions step_barrier_try.
(* (c) *) Print Assumptions pending_never_blocks_sibling.
          Print Assumptions pending_task_parked_own_gate.
          Print Assumptions after_poll_all_parked.
          Print Assumptions after_run_tasks_all_parked.
(* (d) *) Print Assumptions no_lost_wakeup_inv.
          Print Assumptions flip_notifies_root.
          Print Assumptions flip_wakes_task.
          Print Assumptions awaited_task_has_root_waker.
          Print Assumptions task_completion_notifies.
          Print Assumptions woken_task_completion_notifies_root.
(* (e) *) Print Assumptions completes_under_every_order.
          Print Assumptions completes_as_soon_as_possible.
          Print Assumptions completes_state.
          Print Assumptions remaining_nonincreasing.
          Print Assumptions poll_leaf_progress.
(* (f) *) Print Assumptions try_abort.
          Print Assumptions try_error_result.
          Print Assumptions ok_result.
          Print Assumptions plain_never_errs.
          Print Assumptions try_join_first_failure_in_child_order.
          Print Assumptions plain_try_returns_first_failure.
          Print Assumptions done_sound.
