(* Refinement, stages 2-4 (step skeleton): tuples of chains, extraction patterns with the
   active-branch filter, `let` shadowing, the per-step failure check of the try kinds, the
   transposer, thread builders / spawn / join, handlers.
   All statements are for ALL branch counts and depth profiles (induction on the number of
   remaining steps). *)
From Coq Require Import ZArith Lia FunctionalExtensionality.
From Join Require Import Tok Names Ast Ir Gen Comp Std Denote Spec NamesInj CompLaws Render
     RefineBase RefineChain RefineProg.

(* ------------------------------------------------------------------------------------------ *)
(* small list facts                                                                           *)
(* ------------------------------------------------------------------------------------------ *)

Lemma nodup_flat_opt {A} (l : list (option A)) : NoDup (flat_map opt_list l) ->
  forall i i' x, nth_error l i = Some (Some x) -> nth_error l i' = Some (Some x) -> i = i'.
Proof.
  induction l as [|o r IH]; intros Hnd i i' x Hi Hi'; [destruct i; discriminate|].
  cbn [flat_map] in Hnd. apply NoDup_app_inv in Hnd. destruct Hnd as (N1 & N2 & Hd).
  assert (Hin : forall k, nth_error r k = Some (Some x) -> In x (flat_map opt_list r)).
  { intros k Hk. apply in_flat_map. exists (Some x). split; [eapply nth_error_In; eauto|left; reflexivity]. }
  destruct i as [|i], i' as [|i']; cbn [nth_error] in *.
  - reflexivity.
  - inversion Hi; subst o. exfalso. apply (Hd x); [left; reflexivity|eauto].
  - inversion Hi'; subst o. exfalso. apply (Hd x); [left; reflexivity|eauto].
  - f_equal. eapply IH; eauto.
Qed.

Lemma Forall2_impl_in {A B} (R R' : A -> B -> Prop) l l' :
  Forall2 R l l' -> (forall x y, In y l' -> R x y -> R' x y) -> Forall2 R' l l'.
Proof.
  induction 1; intros HRR; constructor.
  - apply HRR; [left; reflexivity|assumption].
  - apply IHForall2. intros a b Hb. apply HRR. right. exact Hb.
Qed.

Lemma Forall2_impl_in_l {A B} (R R' : A -> B -> Prop) l l' :
  Forall2 R l l' -> (forall x y, In x l -> R x y -> R' x y) -> Forall2 R' l l'.
Proof.
  induction 1; intros HRR; constructor.
  - apply HRR; [left; reflexivity|assumption].
  - apply IHForall2. intros a b Hb. apply HRR. right. exact Hb.
Qed.

Lemma NoDup_map_inj {A B} (f : A -> B) l : (forall a b, f a = f b -> a = b) -> NoDup l -> NoDup (map f l).
Proof.
  intros Hinj. induction 1; cbn [map]; constructor; auto.
  intro Hin. apply in_map_iff in Hin. destruct Hin as (y & E & Hy). apply Hinj in E. subst. contradiction.
Qed.

Lemma mapM_Forall2 {A A' B} (f : A -> comp B) (g : A' -> comp B) l l' :
  Forall2 (fun x y => f x = g y) l l' -> mapM f l = mapM g l'.
Proof. induction 1; cbn [mapM]; [reflexivity|]. rewrite H, IHForall2. reflexivity. Qed.

Lemma mapM_ext_in {A B} (f g : A -> comp B) l : (forall x, In x l -> f x = g x) -> mapM f l = mapM g l.
Proof.
  induction l as [|x r IH]; intros H; cbn [mapM]; [reflexivity|].
  rewrite H by (left; reflexivity). rewrite IH; [reflexivity|]. intros y Hy. apply H. right. exact Hy.
Qed.

Lemma mapM_map {A B C} (f : B -> comp C) (g : A -> B) l : mapM f (map g l) = mapM (fun x => f (g x)) l.
Proof. induction l as [|x r IH]; cbn [map mapM]; [reflexivity|]. rewrite IH. reflexivity. Qed.

(* ------------------------------------------------------------------------------------------ *)
(* patterns                                                                                   *)
(* ------------------------------------------------------------------------------------------ *)

(* a pattern that binds one name *)
Definition pat_var (p : rpat) : option string :=
  match p with PIdent x => Some x | PUser _ x => Some x | PTuple _ => None end.

Fixpoint upd_list (ρ : env) (xs : list string) (ds : list dval) : env :=
  match xs, ds with
  | x :: xs', d :: ds' => upd_list (upd ρ x d) xs' ds'
  | _, _ => ρ
  end.

Fixpoint bind_pats (ps : list rpat) (vs : list val) (ρ : env) {struct ps} : option env :=
  match ps, vs with
  | [], [] => Some ρ
  | q :: ps', v :: vs' => match bind_pat q (DV v) ρ with Some ρ' => bind_pats ps' vs' ρ' | None => None end
  | _, _ => None
  end.

Lemma bind_pat_tuple ps d ρ :
  bind_pat (PTuple ps) d ρ =
  match ps with
  | [q] => bind_pat q d ρ
  | _ => match d with DV (VTuple vs) => bind_pats ps vs ρ | _ => None end
  end.
Proof.
  destruct ps as [|p [|q r]]; reflexivity.
Qed.

Lemma bind_pats_vars : forall ps xs vs ρ, map pat_var ps = map Some xs ->
  bind_pats ps vs ρ = if Nat.eqb (List.length vs) (List.length xs) then Some (upd_list ρ xs (map DV vs)) else None.
Proof.
  induction ps as [|p ps IH]; intros xs vs ρ H; destruct xs as [|x xs]; try discriminate.
  - destruct vs; reflexivity.
  - cbn [map] in H. inversion H as [[Hp Hps]].
    destruct vs as [|v vs]; cbn [bind_pats List.length Nat.eqb]; [reflexivity|].
    assert (E : bind_pat p (DV v) ρ = Some (upd ρ x (DV v))).
    { destruct p; cbn [pat_var] in Hp; inversion Hp; subst; reflexivity. }
    rewrite E, (IH xs vs _ Hps). cbn [map upd_list]. reflexivity.
Qed.

(* ------------------------------------------------------------------------------------------ *)
(* the step skeleton                                                                          *)
(* ------------------------------------------------------------------------------------------ *)

Section Steps.
  Variable unames : list string.
  Variable msem : string -> option (list operand) -> dval -> list dval -> comp dval.
  Variable dotsem : operand -> list (string * option val) -> dval -> comp dval.
  Variable callsem : val -> list dval -> comp dval.
  Variable awaitsem : val -> comp val.

  Notation D := (den unames msem dotsem callsem awaitsem).
  Notation X := (exec unames msem dotsem callsem awaitsem).
  Notation execs := (execs unames msem dotsem callsem awaitsem).
  Notation dens := (dens unames msem dotsem callsem awaitsem).
  Notation snapρ := (snap unames).
  Notation app_d := (apply callsem).
  Notation Sem_nodes := (sem_nodes msem dotsem callsem).
  Notation inspect_clo := (inspect_clo unames msem dotsem callsem awaitsem).

  Variable cfg : config.
  Variable j : jout.
  Variable sp : sprog.
  (* Only the option-independent part of the relation is a section hypothesis: everything in this section
     holds for every setting of custom_joiner / lazy_branches / transpose_results and is re-used by
     RefineOpts.v - except the lemmas inside the nested sections `Default..`, which are about the default
     options (Spec.v) and assume them explicitly. *)
  Hypothesis HR : Rel_opts cfg j sp.
  Hypothesis Hun : unames = flat_map opt_list (map pat_name (j_pats j)).

  Notation n := (j_branch_count j).
  Definition bname (b : nat) : string := branch_name j b.
  Definition vars : list string := map bname (seq 0 n).
  Definition pats : list rpat := map (branch_pat j) (seq 0 n).

  Lemma unames_user : Forall user_ident unames.
  Proof. rewrite Hun. apply (r_unames_user _ _ _ HR). Qed.

  (* ---- names ---- *)
  Lemma bname_cases b :
    (exists toks x, nth b (j_pats j) None = Some (toks, x) /\ bname b = x /\ user_ident x /\ In x unames
                    /\ nth_error (map pat_name (j_pats j)) b = Some (Some x))
    \/ (nth b (j_pats j) None = None /\ bname b = n_r b).
  Proof.
    unfold bname, branch_name.
    destruct (nth b (j_pats j) None) as [[toks x]|] eqn:E; [left|right; auto].
    exists toks, x.
    assert (Hb : b < List.length (j_pats j)).
    { destruct (Nat.lt_ge_cases b (List.length (j_pats j))) as [H|H]; [exact H|].
      rewrite nth_overflow in E by exact H. discriminate. }
    assert (Hne : nth_error (map pat_name (j_pats j)) b = Some (Some x)).
    { rewrite nth_error_map. rewrite (nth_error_nth' _ None Hb), E. reflexivity. }
    assert (Hin : In x unames).
    { rewrite Hun. apply in_flat_map. exists (Some x). split; [eapply nth_error_In; eauto|left; reflexivity]. }
    repeat split; auto.
    pose proof unames_user as Hu. rewrite Forall_forall in Hu. apply Hu. exact Hin.
  Qed.

  Lemma bname_pat_var b : pat_var (branch_pat j b) = Some (bname b).
  Proof. unfold branch_pat, bname, branch_name. destruct (nth b (j_pats j) None) as [[toks x]|]; reflexivity. Qed.

  Lemma bname_inj b b' : bname b = bname b' -> b = b'.
  Proof.
    intros E.
    destruct (bname_cases b) as [(t & x & _ & Ex & Hu & _ & Hn)|[_ Ex]];
      destruct (bname_cases b') as [(t' & x' & _ & Ex' & Hu' & _ & Hn')|[_ Ex']].
    - rewrite Ex, Ex' in E. subst x'.
      eapply nodup_flat_opt; eauto. rewrite <- Hun. rewrite Hun. apply (r_unames_nodup _ _ _ HR).
    - rewrite Ex, Ex' in E. subst x. exfalso. eapply (user_ident_neq_gname _ (GR b')); eauto.
    - rewrite Ex, Ex' in E. subst x'. exfalso. eapply (user_ident_neq_gname _ (GR b)); eauto.
    - rewrite Ex, Ex' in E. apply n_r_inj. exact E.
  Qed.

  (* a generated name other than __r<i> is not a branch name *)
  Lemma bname_not_gname b g : (forall i, g <> GR i) -> bname b <> gname_str g.
  Proof.
    intros Hg. destruct (bname_cases b) as [(t & x & _ & Ex & Hu & _)|[_ Ex]]; rewrite Ex.
    - apply user_ident_neq_gname. exact Hu.
    - rewrite n_r_g. apply gname_neq. apply not_eq_sym. apply Hg.
  Qed.

  Lemma gname_not_uname' g : ~ In (gname_str g) unames.
  Proof. apply gname_not_uname. apply unames_user. Qed.

  (* ---- the invariant between the environment of the generated code and the Spec's state ---- *)
  Record Inv (ρ : env) (st : state) : Prop := {
    inv_len : List.length st = n;
    inv_names : forall b, b < n -> ρ (bname b) = nth b st None;
    inv_inspect : is_async cfg = false -> ρ n_inspect = Some (DFn inspect_clo);
    inv_tb : is_spawn cfg = true -> is_async cfg = false -> ρ n_tb = Some DTb;
    inv_tokio : is_spawn cfg = true -> is_async cfg = true -> ρ n_spawn_tokio = Some DSpawnTokio
  }.

  (* binding a generated temporary keeps the invariant *)
  Definition temp_name (x : string) : Prop :=
    exists g, x = gname_str g /\ (forall i, g <> GR i) /\ g <> GInspect /\ g <> GTb /\ g <> GSpawnTokio.

  Lemma Inv_upd_temp ρ st x d : Inv ρ st -> temp_name x -> Inv (upd ρ x d) st.
  Proof.
    intros [H1 H2 H3 H4 H5] (g & -> & Hg & Hi & Ht & Hk). split; auto.
    - intros b Hb. rewrite upd_other; auto. apply bname_not_gname. exact Hg.
    - intros Ha. rewrite upd_other; auto. rewrite n_inspect_g. apply gname_neq. congruence.
    - intros Hs Ha. rewrite upd_other; auto. rewrite n_tb_g. apply gname_neq. congruence.
    - intros Hs Ha. rewrite upd_other; auto. rewrite n_spawn_tokio_g. apply gname_neq. congruence.
  Qed.

  Lemma temp_sr k : temp_name (n_sr k).
  Proof. exists (GSR k). repeat split; try discriminate. Qed.
  Lemma temp_ew b e i : temp_name (n_ew b e i).
  Proof. exists (GEW b e i). repeat split; try discriminate. Qed.
  Lemma temp_j b : temp_name (n_j b).
  Proof. exists (GJ b). repeat split; try discriminate. Qed.
  Lemma temp_fail : temp_name n_fail_index.
  Proof. exists GFailIndex. repeat split; try discriminate. Qed.
  Lemma temp_v : temp_name n_v.
  Proof. exists GV. repeat split; try discriminate. Qed.

  Lemma Inv_ext_env ρ st cp : Inv ρ st -> Inv (ext_env ρ cp) st.
  Proof.
    revert ρ. induction cp as [|[[[b e] i] v] r IH]; intros ρ H; [exact H|].
    rewrite ext_env_cons. apply IH. apply Inv_upd_temp; [exact H|apply temp_ew].
  Qed.

  (* updating one branch *)
  Lemma nth_set1_same : forall (st : state) b d, b < List.length st -> nth b (set1 st b d) None = Some d.
  Proof.
    induction st as [|x r IH]; intros b d Hb; cbn [List.length] in Hb; [lia|].
    destruct b as [|b]; cbn [set1 nth]; [reflexivity|]. apply IH. lia.
  Qed.
  Lemma nth_set1_other : forall (st : state) b b' d, b' <> b -> nth b' (set1 st b d) None = nth b' st None.
  Proof.
    induction st as [|x r IH]; intros b b' d Hb; [reflexivity|].
    destruct b as [|b], b' as [|b']; cbn [set1 nth]; try reflexivity; try congruence.
    apply IH. congruence.
  Qed.
  Lemma set1_length : forall (st : state) b d, List.length (set1 st b d) = List.length st.
  Proof.
    induction st as [|x r IH]; intros b d; [reflexivity|].
    destruct b; cbn [set1 List.length]; [reflexivity|]. rewrite IH. reflexivity.
  Qed.

  Lemma Inv_set1 ρ st b d : Inv ρ st -> b < n -> Inv (upd ρ (bname b) d) (set1 st b d).
  Proof.
    intros [H1 H2 H3 H4 H5] Hb. split.
    - rewrite set1_length. exact H1.
    - intros b' Hb'. destruct (Nat.eq_dec b' b) as [->|Hne].
      + rewrite upd_same, nth_set1_same; [reflexivity|lia].
      + rewrite upd_other, nth_set1_other; auto. intro E. apply Hne. apply bname_inj. exact E.
    - intros Ha. rewrite upd_other; auto. apply not_eq_sym. rewrite n_inspect_g. apply bname_not_gname. discriminate.
    - intros Hs Ha. rewrite upd_other; auto. apply not_eq_sym. rewrite n_tb_g. apply bname_not_gname. discriminate.
    - intros Hs Ha. rewrite upd_other; auto. apply not_eq_sym. rewrite n_spawn_tokio_g. apply bname_not_gname. discriminate.
  Qed.

  Lemma Inv_set_all : forall acts ds ρ st,
    Inv ρ st -> (forall b, In b acts -> b < n) ->
    Inv (upd_list ρ (map bname acts) ds) (set_all st acts ds).
  Proof.
    induction acts as [|b r IH]; intros ds ρ st HI Hlt; [exact HI|].
    destruct ds as [|d ds]; [exact HI|]. cbn [map upd_list set_all].
    apply IH.
    - apply Inv_set1; auto. apply Hlt. left. reflexivity.
    - intros b' Hb'. apply Hlt. right. exact Hb'.
  Qed.

  (* ---- snapshots ---- *)
  Definition vo (o : option dval) : option val := match o with Some (DV v) => Some v | _ => None end.

  Lemma snap_combine ρ : forall (ps : list (option (operand * string))) (st : state),
    List.length st = List.length ps ->
    (forall i toks x, nth_error ps i = Some (Some (toks, x)) -> ρ x = nth i st None) ->
    map (fun x => (x, vo (ρ x))) (flat_map opt_list (map pat_name ps)) =
    flat_map (fun nv => match fst nv with Some x => [(x, vo (snd nv))] | None => [] end)
             (combine (map pat_name ps) st).
  Proof.
    induction ps as [|p ps IH]; intros st Hl H; [reflexivity|].
    destruct st as [|o st]; [discriminate|]. cbn [map flat_map combine fst snd].
    rewrite map_app. f_equal.
    - destruct p as [[toks x]|]; cbn [pat_name opt_list map]; [|reflexivity].
      rewrite (H 0 toks x eq_refl). reflexivity.
    - apply IH. { cbn in Hl. lia. } intros i toks x Hi. apply (H (S i) toks x Hi).
  Qed.

  Lemma snap_inv ρ st : Inv ρ st -> snapρ ρ = snap_of sp st.
  Proof.
    intros HI. unfold snap, snap_of. rewrite (r_names _ _ _ HR), Hun.
    apply (snap_combine ρ (j_pats j) st).
    - rewrite (inv_len _ _ HI). symmetry. apply (rel_n_pats _ _ _ HR).
    - intros i toks x Hi.
      assert (Hb : i < n).
      { rewrite <- (rel_n_pats _ _ _ HR). apply nth_error_Some. congruence. }
      rewrite <- (inv_names _ _ HI i Hb). unfold bname, branch_name.
      rewrite (nth_error_nth _ _ None Hi). reflexivity.
  Qed.

  Lemma nth_vars b : b < n -> nth b vars "" = bname b.
  Proof.
    intros Hb. unfold vars. apply nth_error_nth. rewrite nth_error_map.
    rewrite (nth_error_nth' (seq 0 n) 0) by (rewrite seq_length; exact Hb).
    rewrite seq_nth by exact Hb. reflexivity.
  Qed.

  (* ---- what gen_branches produced: the definitions and one chain per active branch ---- *)
  Definition chain_ok (k : nat) (c : rexpr) (bt : nat * list node) : Prop :=
    exists c0, c = wrap_branch j k (fst bt) c0 /\
      render_nodes (j_cfg j) (fst bt) (snd bt) ([], wrap_into_block j (RVar (nth (fst bt) vars "")))
      = Ok (nodes_defs (fst bt) (snd bt), c0).

  Lemma gen_branches_spec k : forall chs trs b defs cs,
    Forall2 (Forall2 step_rel) chs trs -> gen_branches j k vars b chs = Ok (defs, cs) ->
    defs = flat_map (fun bt => nodes_defs (fst bt) (snd bt)) (spec_branches k b trs) /\
    Forall2 (chain_ok k) cs (spec_branches k b trs).
  Proof.
    intros chs trs b defs cs H. revert b defs cs.
    induction H as [|ch tr rest trest Hct Hrest IH]; intros b defs cs Hg.
    - cbn in Hg. inversion Hg; subst. split; [reflexivity|constructor].
    - cbn [gen_branches spec_branches] in *.
      destruct (gen_branches j k vars (S b) rest) as [[dtl ctl]| |] eqn:Etl; cbn [rbind] in Hg; try discriminate.
      destruct (IH _ _ _ Etl) as [IHd IHc].
      destruct (nth_error ch k) as [acts|] eqn:Ek.
      + destruct (Forall2_nth_error _ _ _ Hct _ _ Ek) as (t & Et & Hne & Hn & Hok). rewrite Et.
        destruct acts as [|a0 acts']; [congruence|].
        rewrite (gen_branch_step_is_render j b (nth b vars "") (a0 :: acts') t Hn) in Hg.
        destruct (render_nodes (j_cfg j) b t ([], wrap_into_block j (RVar (nth b vars "")))) as [[ds c0]| |] eqn:Er;
          cbn [rbind] in Hg; try discriminate.
        inversion Hg; subst defs cs. cbn [fst snd flat_map].
        pose proof (render_nodes_defs (j_cfg j) b t _ _ _ _ Er Hok) as Hd. cbn [app] in Hd. subst ds.
        split; [rewrite IHd; reflexivity|]. constructor; [|exact IHc].
        exists c0. cbn [fst snd]. split; [reflexivity|exact Er].
      + assert (Et : nth_error tr k = None).
        { apply nth_error_None. rewrite <- (Forall2_length' _ _ _ Hct). apply nth_error_None. exact Ek. }
        rewrite Et. inversion Hg; subst defs cs. split; assumption.
  Qed.

  (* ---- the definitions of a step are the step's captures ---- *)
  Lemma execs_step_defs k : forall acts ρ,
    execs (flat_map (fun b => nodes_defs b (tree sp b k)) acts) ρ =
    let! cp := captures sp (snapρ ρ) k acts in Ret (ext_env ρ cp).
  Proof.
    induction acts as [|b r IH]; intros ρ; cbn [flat_map captures]; [reflexivity|].
    rewrite execs_app, (execs_nodes_defs _ _ _ _ _ unames_user). nb.
    apply bind_ext. intros c1. nb. rewrite IH, (snap_ext_env _ unames_user). nb.
    apply bind_ext. intros c2. nb. rewrite ext_env_app. reflexivity.
  Qed.

  Definition step_keys (k : nat) (acts : list nat) : list key :=
    flat_map (fun b => nodes_keys b (tree sp b k)) acts.

  Lemma captures_keys sn k : forall acts,
    leaves (fun cp => map fst cp = step_keys k acts) (captures sp sn k acts).
  Proof.
    induction acts as [|b r IH]; cbn [captures step_keys flat_map]. { constructor. reflexivity. }
    eapply leaves_bind; [apply capture_nodes_keys|]. intros c1 H1.
    eapply leaves_bind; [apply IH|]. intros c2 H2. constructor. rewrite map_app, H1, H2. reflexivity.
  Qed.

  Lemma step_keys_nodup k : forall acts, NoDup acts ->
    (forall b, In b acts -> NoDup (nodes_pos (tree sp b k))) -> NoDup (step_keys k acts).
  Proof.
    induction acts as [|b r IH]; intros Hnd Hp; cbn [step_keys flat_map]; [constructor|].
    inversion Hnd as [|? ? Hnin Hnd']; subst. apply NoDup_app_intro.
    - apply nodes_keys_nodup. apply Hp. left. reflexivity.
    - apply IH; auto. intros b' Hb'. apply Hp. right. exact Hb'.
    - intros key H1 H2. apply nodes_keys_in in H1. destruct H1 as (e & i & -> & _).
      apply in_flat_map in H2. destruct H2 as (b' & Hb' & H2).
      apply nodes_keys_in in H2. destruct H2 as (e' & i' & E & _). inversion E; subst. contradiction.
  Qed.

  Lemma actives_keys_nodup k : NoDup (step_keys k (actives sp k)).
  Proof.
    apply step_keys_nodup. { apply rel_actives_nodup. }
    intros b Hb. destruct (rel_tree_ok _ _ _ HR k b Hb) as (acts & _ & Hn & _).
    eapply nest_pos_nodup; eauto.
  Qed.

  (* ---- one chain of a step, in the environment where the step's captures are bound ---- *)
  Lemma start_sem ρ st b : Inv ρ st -> b < n -> (forall b' e i, bname b <> n_ew b' e i) ->
    forall cp, D (wrap_into_block j (RVar (nth b vars ""))) (ext_env ρ cp) = start sp st b.
  Proof.
    intros HI Hb Hne cp. rewrite (nth_vars b Hb). unfold wrap_into_block, start.
    rewrite (r_cfg_j _ _ _ HR), (r_cfg_sp _ _ _ HR).
    assert (E : D (RVar (bname b)) (ext_env ρ cp) = get st b).
    { rewrite den_RVar, ext_env_not_ew by exact Hne. rewrite (inv_names _ _ HI b Hb). reflexivity. }
    destruct (is_async cfg).
    - rewrite den_RAsyncMove. cbn [execs]. nb. rewrite E. reflexivity.
    - rewrite den_RBlock. cbn [execs]. nb. exact E.
  Qed.

  Lemma bname_not_ew b b' e i : bname b <> n_ew b' e i.
  Proof. rewrite n_ew_g. apply bname_not_gname. discriminate. Qed.

  Lemma chain_in_step k ρ st cp b ds c0 :
    Inv ρ st -> In b (actives sp k) -> map fst cp = step_keys k (actives sp k) ->
    render_nodes (j_cfg j) b (tree sp b k) ([], wrap_into_block j (RVar (nth b vars ""))) = Ok (ds, c0) ->
    D c0 (ext_env ρ cp) = chain msem dotsem callsem sp (snap_of sp st) cp k st b.
  Proof.
    intros HI Hb Hk Hr. unfold chain.
    pose proof (rel_actives_lt _ _ _ HR k b Hb) as Hbn.
    destruct (rel_tree_ok _ _ _ HR k b Hb) as (acts & _ & Hn & Hok).
    rewrite <- (start_sem ρ st b HI Hbn (bname_not_ew b) cp).
    rewrite <- (snap_inv ρ st HI).
    rewrite (r_cfg_sp _ _ _ HR), <- (r_cfg_j _ _ _ HR).
    eapply (render_nodes_sem unames msem dotsem callsem awaitsem unames_user); eauto.
    - apply chain_env_ext; [exact unames_user| |].
      + rewrite (r_cfg_j _ _ _ HR). apply (inv_inspect _ _ HI).
      + rewrite Hk. apply actives_keys_nodup.
    - intros key Hin. apply lookup_cap_in. rewrite Hk. unfold step_keys. apply in_flat_map. eauto.
  Qed.

  (* ---- the step statement list ---- *)
  Lemma Forall2_map_r {A B C} (R : A -> C -> Prop) (g : B -> C) l l' :
    Forall2 R l (map g l') -> Forall2 (fun x y => R x (g y)) l l'.
  Proof.
    revert l. induction l' as [|y r IH]; intros l H; inversion H; subst; constructor; auto.
  Qed.

  Lemma flat_map_map {A B C} (f : B -> list C) (g : A -> B) l : flat_map f (map g l) = flat_map (fun x => f (g x)) l.
  Proof. induction l as [|x r IH]; cbn [map flat_map]; [reflexivity|]. rewrite IH. reflexivity. Qed.

  Definition chain_of (k : nat) (c : rexpr) (b : nat) : Prop :=
    exists c0 ds, c = wrap_branch j k b c0 /\
      render_nodes (j_cfg j) b (tree sp b k) ([], wrap_into_block j (RVar (nth b vars ""))) = Ok (ds, c0).

  Lemma plain_builders k sr : is_async cfg = false -> is_spawn cfg && Nat.ltb 1 (active_count j k) = false ->
    thread_builders j k sr = ([], []).
  Proof.
    intros Ha Hs. unfold thread_builders. rewrite (r_cfg_j _ _ _ HR), Ha. cbn [orb].
    destruct (is_spawn cfg); cbn [negb orb]; [|reflexivity].
    cbn [andb] in Hs. destruct (active_count j k) as [|[|c]]; try reflexivity. discriminate.
  Qed.

  Section DefaultPlain.
    Hypothesis Hopt_joiner : j_joiner j = None.
    Hypothesis Hopt_lazy : j_lazy j = is_spawn cfg && negb (is_async cfg).

  Lemma gen_step_sync_inv k sr step :
    is_async cfg = false -> gen_step j k vars sr = Ok step ->
    exists cs, Forall2 (chain_of k) cs (actives sp k) /\
      step = fst (thread_builders j k sr) ++ flat_map (fun b => nodes_defs b (tree sp b k)) (actives sp k)
             ++ [SLet (PIdent sr) (RTuple cs)] ++ snd (thread_builders j k sr).
  Proof.
    intros Ha Hg. unfold gen_step in Hg.
    destruct (gen_branches j k vars 0 (j_chains j)) as [[defs cs]| |] eqn:Eb; cbn [rbind] in Hg; try discriminate.
    rewrite (r_cfg_j _ _ _ HR), Ha, Hopt_joiner in Hg.
    destruct (thread_builders j k sr) as [tbs sjs].
    assert (Hg' : step = tbs ++ defs ++ [SLet (PIdent sr) (RTuple cs)] ++ sjs).
    { destruct (Nat.ltb 1 (active_count j k)); inversion Hg; reflexivity. }
    destruct (gen_branches_spec k _ _ _ _ _ (r_chains _ _ _ HR) Eb) as [Hd Hc].
    rewrite (rel_spec_branches sp k) in Hd, Hc. rewrite flat_map_map in Hd. cbn [fst snd] in Hd.
    apply Forall2_map_r in Hc.
    exists cs. split.
    - eapply Forall2_impl; [|exact Hc]. cbn beta. intros c b (c0 & E & Hr). cbn [fst snd] in *. exists c0, (nodes_defs b (tree sp b k)). split; assumption.
    - cbn [fst snd]. rewrite Hg', Hd. reflexivity.
  Qed.

  (* ---- step, sequential form: not (spawn and several active branches) ---- *)
  Lemma plain_wrap k b c : is_async cfg = false -> is_spawn cfg && Nat.ltb 1 (active_count j k) = false ->
    wrap_branch j k b c = c.
  Proof.
    intros Ha Hs. unfold wrap_branch. rewrite Hopt_lazy, (r_cfg_j _ _ _ HR), Ha.
    destruct (Nat.ltb 1 (active_count j k)); [|reflexivity].
    rewrite andb_true_r in Hs. rewrite Hs. reflexivity.
  Qed.
  Lemma step_refines_plain k ρ st step :
    is_async cfg = false -> is_spawn cfg && Nat.ltb 1 (active_count j k) = false ->
    Inv ρ st -> k < j_max j -> gen_step j k vars (n_sr k) = Ok step ->
    forall A (K : env -> comp A) (K' : dval -> comp A),
      (forall ρ' srv, Inv ρ' st -> ρ' (n_sr k) = Some srv -> K ρ' = K' srv) ->
      bind (execs step ρ) K = bind (step_result msem dotsem callsem awaitsem sp k st) K'.
  Proof.
    intros Ha Hs HI Hk Hg A K K' HK.
    destruct (gen_step_sync_inv k (n_sr k) step Ha Hg) as (cs & Hcs & ->).
    rewrite (plain_builders k _ Ha Hs). cbn [fst snd app].
    rewrite execs_app, execs_step_defs. nb.
    unfold step_result. rewrite (r_cfg_sp _ _ _ HR), Ha.
    rewrite <- (rel_active_count _ _ _ HR), Hs. rewrite <- (snap_inv ρ st HI). nb.
    eapply bind_ext_leaves; [apply captures_keys|]. intros cp Hkeys. nb.
    cbn [execs]. rewrite exec_SLet_ident. nb.
    pose proof (rel_actives_nonempty _ _ _ HR k Hk) as Hne.
    assert (HI' : Inv (ext_env ρ cp) st) by (apply Inv_ext_env; exact HI).
    assert (Hchain : Forall2 (fun c b => D c (ext_env ρ cp) = chain msem dotsem callsem sp (snapρ ρ) cp k st b) cs (actives sp k)).
    { eapply Forall2_impl_in; [exact Hcs|]. intros c b Hb (c0 & ds & Ec & Hr).
      rewrite Ec, (plain_wrap k b c0 Ha Hs). rewrite (snap_inv ρ st HI).
      eapply chain_in_step; eauto. }
    rewrite (rel_active_count _ _ _ HR).
    destruct (actives sp k) as [|b1 [|b2 r]] eqn:Eacts; [congruence| |].
    - (* one active branch *)
      inversion Hchain as [|c ? cs' ? Hc Hrest]; subst. inversion Hrest; subst.
      rewrite den_RTuple, Hc. cbn [List.length Nat.ltb Nat.leb].
      apply bind_ext. intros d.
      apply HK; [apply Inv_upd_temp; [exact HI'|apply temp_sr]|apply upd_same].
    - (* several *)
      inversion Hchain as [|c1 ? cs' ? Hc1 Hrest]; subst. inversion Hrest as [|c2 ? cs'' ? Hc2 Hrest']; subst.
      rewrite den_RTuple. cbn [List.length Nat.ltb Nat.leb].
      rewrite dens_mapM. rewrite (mapM_Forall2 _ _ _ _ Hchain). nb.
      apply bind_ext. intros ds. unfold vals_tuple. destruct (all_vals ds) as [vs|]; nb; [|reflexivity].
      apply HK; [apply Inv_upd_temp; [exact HI'|apply temp_sr]|apply upd_same].
  Qed.
  End DefaultPlain.

  (* ---- destructuring the step result over the active branches ---- *)
  Lemma bind_pat_var p x d ρ : pat_var p = Some x -> bind_pat p d ρ = Some (upd ρ x d).
  Proof. destruct p; cbn [pat_var]; intros H; inversion H; subst; reflexivity. Qed.

  Lemma extract_pats k : extract_step j (n_sr k) pats k
                         = SLet (PTuple (map (branch_pat j) (actives sp k))) (RVar (n_sr k)).
  Proof.
    unfold extract_step, pats. rewrite enum_filter_map, (rel_actives _ _ _ HR). reflexivity.
  Qed.

  Lemma extract_refines k ρ st srv :
    Inv ρ st -> ρ (n_sr k) = Some srv -> k < j_max j ->
    forall A (K : env -> comp A) (K' : list dval -> comp A),
      (forall ρ' ds, Inv ρ' (set_all st (actives sp k) ds) -> List.length ds = List.length (actives sp k) ->
                     K ρ' = K' ds) ->
      bind (X (extract_step j (n_sr k) pats k) ρ) K = bind (extract (actives sp k) srv) K'.
  Proof.
    intros HI Hsr Hk A K K' HK.
    rewrite extract_pats, exec_SLet, den_RVar, Hsr. nb. rewrite bind_pat_tuple.
    pose proof (rel_actives_nonempty _ _ _ HR k Hk) as Hne.
    pose proof (rel_actives_lt _ _ _ HR k) as Hlt.
    assert (Hvars : map pat_var (map (branch_pat j) (actives sp k)) = map Some (map bname (actives sp k))).
    { rewrite !map_map. apply map_ext. intros b. apply bname_pat_var. }
    destruct (actives sp k) as [|b1 [|b2 r]] eqn:Eacts; [congruence| |].
    - cbn [map extract]. rewrite (bind_pat_var _ _ _ _ (bname_pat_var b1)). nb.
      apply HK; [|reflexivity].
      apply (Inv_set_all [b1] [srv] ρ st HI). rewrite <- Eacts in *; exact Hlt.
    - unfold extract.
      remember (b1 :: b2 :: r) as acts.
      assert (Hshape : forall (T : Type) (x : rpat -> T) (y : T),
                 match map (branch_pat j) acts with [q] => x q | _ => y end = y)
        by (intros; subst acts; reflexivity).
      rewrite Hshape.
      destruct srv as [[]| | | | | |]; nb; try reflexivity.
      rewrite (bind_pats_vars _ _ vs ρ Hvars). rewrite map_length.
      destruct (Nat.eqb (List.length vs) (List.length acts)) eqn:El; nb; [|reflexivity].
      apply HK.
      + apply Inv_set_all; [exact HI|exact Hlt].
      + rewrite map_length. apply Nat.eqb_eq. exact El.
  Qed.

  (* ---- the final tuple ---- *)
  Lemma den_bname ρ st b : Inv ρ st -> b < n -> D (RVar (bname b)) ρ = get st b.
  Proof. intros HI Hb. rewrite den_RVar, (inv_names _ _ HI b Hb). reflexivity. Qed.

  Lemma dens_vars ρ st : Inv ρ st -> dens ρ (map RVar vars) = mapM (get st) (seq 0 n).
  Proof.
    intros HI. rewrite dens_mapM. unfold vars. rewrite !mapM_map. apply mapM_ext_in.
    intros b Hb. apply in_seq in Hb. apply (den_bname ρ st b HI). lia.
  Qed.

  Lemma final_tuple_sem ρ st : Inv ρ st -> D (tuple_of vars) ρ = final_tuple sp st.
  Proof.
    intros HI. unfold tuple_of, final_tuple. rewrite (rel_n_trees _ _ _ HR).
    rewrite den_RTuple.
    pose proof (dens_vars ρ st HI) as Hd. pose proof (den_bname ρ st 0 HI) as H0.
    unfold vars in *.
    destruct (j_branch_count j) as [|[|m]] eqn:En.
    - reflexivity.
    - cbn [seq map mapM]. nb. rewrite H0 by lia. nb. symmetry. apply bind_ret_r.
    - assert (Hshape : forall (T : Type) (x : rexpr -> T) (y : T),
                 match map RVar (map bname (seq 0 (S (S m)))) with [e] => x e | _ => y end = y).
      { intros. reflexivity. }
      rewrite Hshape. rewrite Hd.
      eapply bind_ext_leaves; [apply leaves_mapM_length|]. intros ds Hl. rewrite seq_length in Hl.
      destruct ds as [|d1 [|d2 r]]; try (cbn in Hl; lia). reflexivity.
  Qed.

  (* ---- the interface of one step: whatever the kind, the statements of step k run the
          reference step and leave its result in __sr<k>, in an environment that still satisfies
          the invariant for the same state ---- *)
  Definition step_hyp : Prop :=
    forall k ρ st step, Inv ρ st -> k < j_max j -> gen_step j k vars (n_sr k) = Ok step ->
    forall A (K : env -> comp A) (K' : dval -> comp A),
      (forall ρ' srv, Inv ρ' st -> ρ' (n_sr k) = Some srv -> K ρ' = K' srv) ->
      bind (execs step ρ) K = bind (step_result msem dotsem callsem awaitsem sp k st) K'.

  Lemma gen_steps_some k fuel r : gen_steps j pats vars k (S fuel) = Ok r -> exists b, r = Some b.
  Proof.
    cbn [gen_steps]. destruct (gen_steps j pats vars (S k) fuel); cbn [rbind]; try discriminate.
    destruct (gen_step j k vars (n_sr k)); cbn [rbind]; try discriminate.
    destruct (join_steps _ _ _ _ _ _ _); cbn [rbind]; try discriminate.
    intros H; inversion H. eauto.
  Qed.

  (* ---- STAGE 2: the non-try kinds ---- *)
  Lemma join_steps_nontry k step next body :
    is_try cfg = false -> join_steps j k step next pats vars (n_sr k) = Ok body ->
    body = match next with
           | Some (nss, ne) => (step ++ [extract_step j (n_sr k) pats k] ++ nss, ne)
           | None => (step ++ [extract_step j (n_sr k) pats k], tuple_of vars)
           end.
  Proof.
    intros Ht. unfold join_steps. rewrite (r_cfg_j _ _ _ HR), Ht. cbn [andb]. rewrite andb_false_r.
    destruct next as [[nss ne]|]; intros H; inversion H; reflexivity.
  Qed.

  Theorem steps_nontry : step_hyp -> is_try cfg = false ->
    forall fuel k ss e, gen_steps j pats vars k fuel = Ok (Some (ss, e)) -> k + fuel = j_max j ->
    forall ρ st, Inv ρ st -> D (RBlock ss e) ρ = steps msem dotsem callsem awaitsem sp fuel k st.
  Proof.
    intros Hstep Ht. induction fuel as [|f IH]; intros k ss e Hg Hk ρ st HI; [discriminate|].
    cbn [gen_steps] in Hg.
    destruct (gen_steps j pats vars (S k) f) as [next| |] eqn:En; cbn [rbind] in Hg; try discriminate.
    destruct (gen_step j k vars (n_sr k)) as [step| |] eqn:Es; cbn [rbind] in Hg; try discriminate.
    destruct (join_steps j k step next pats vars (n_sr k)) as [body| |] eqn:Ej; cbn [rbind] in Hg; try discriminate.
    inversion Hg; subst body; clear Hg.
    apply (join_steps_nontry _ _ _ _ Ht) in Ej.
    cbn [steps]. rewrite (r_cfg_sp _ _ _ HR), Ht. cbn [negb].
    assert (Hkm : k < j_max j) by lia.
    destruct f as [|f'].
    - (* last step *)
      cbn in En. inversion En; subst next. inversion Ej; subst ss e.
      rewrite den_RBlock, execs_app. nb. cbn [Nat.eqb].
      apply (Hstep k ρ st step HI Hkm Es). intros ρ1 srv HI1 Hsr.
      cbn [execs]. nb.
      apply (extract_refines k ρ1 st srv HI1 Hsr Hkm). intros ρ2 ds HI2 _.
      apply final_tuple_sem. exact HI2.
    - destruct (gen_steps_some _ _ _ En) as ([nss ne] & ->). inversion Ej; subst ss e.
      rewrite den_RBlock, !execs_app. nb. cbn [Nat.eqb].
      apply (Hstep k ρ st step HI Hkm Es). intros ρ1 srv HI1 Hsr.
      cbn [execs]. nb.
      apply (extract_refines k ρ1 st srv HI1 Hsr Hkm). intros ρ2 ds HI2 _.
      rewrite <- den_RBlock. apply (IH (S k) nss ne En); [lia|exact HI2].
  Qed.

  (* ---- glue ---- *)
  Notation glue_d := (glue awaitsem).
  Lemma glue_map r f : glue_d "map" r [DF f] = std_map r f. Proof. reflexivity. Qed.
  Lemma glue_and_then r f : glue_d "and_then" r [DF f] = std_and_then awaitsem r f. Proof. reflexivity. Qed.
  Lemma glue_as_ref v : glue_d "as_ref" (DV v) [] = Ret (DV v). Proof. reflexivity. Qed.
  Lemma glue_unwrap_or r d : glue_d "unwrap_or" r [DV d] = std_unwrap_or r d. Proof. reflexivity. Qed.
  Lemma glue_unwrap r : glue_d "unwrap" r [] = std_unwrap r. Proof. reflexivity. Qed.
  Lemma glue_spawn name f : glue_d "spawn" (DBuilder name) [DF f] = std_spawn name f. Proof. reflexivity. Qed.
  Lemma glue_join h : glue_d "join" (DV (VHandle h)) [] = std_join h. Proof. reflexivity. Qed.

  (* ---- the handler ---- *)
  Lemma upd_list_other : forall xs ds ρ y, ~ In y xs -> upd_list ρ xs ds y = ρ y.
  Proof.
    induction xs as [|x xs IH]; intros ds ρ y Hy; [reflexivity|].
    destruct ds as [|d ds]; [reflexivity|]. cbn [upd_list]. rewrite IH.
    - apply upd_other. intro E. apply Hy. left. congruence.
    - intro Hin. apply Hy. right. exact Hin.
  Qed.

  Lemma dens_upd_list : forall xs ds ρ, NoDup xs -> List.length ds = List.length xs ->
    dens (upd_list ρ xs ds) (map RVar xs) = Ret ds.
  Proof.
    intros xs ds ρ Hnd Hl. rewrite dens_mapM, mapM_map.
    assert (H : forall (l : list string) (es : list dval) ρ', NoDup l -> List.length es = List.length l ->
              forall ρ2, (forall y, In y l -> ρ2 y = upd_list ρ' l es y) -> mapM (fun x => D (RVar x) ρ2) l = Ret es).
    { induction l as [|x l IH]; intros es ρ' Hn Hlen ρ2 H2; destruct es as [|d es]; try discriminate; [reflexivity|].
      inversion Hn; subst. cbn [mapM]. rewrite den_RVar, (H2 x) by (left; reflexivity).
      cbn [upd_list]. rewrite upd_list_other by assumption. rewrite upd_same. nb.
      rewrite (IH es (upd ρ' x d)); auto. intros y Hy. apply H2. right. exact Hy. }
    apply (H xs ds ρ Hnd Hl). reflexivity.
  Qed.

  Definition rvars : list string := map n_r (seq 0 n).
  Definition call_handler_block : rexpr :=
    RBlock [SLet (PTuple (map PIdent rvars)) (RVar n_rs)] (RCall (RVar n_h) (map RVar rvars)).

  Lemma rvars_nodup : NoDup rvars.
  Proof.
    unfold rvars.
    apply NoDup_map_inj; [intros a b; apply n_r_inj|apply seq_NoDup].
  Qed.
  Lemma rvars_not_h : ~ In n_h rvars.
  Proof.
    unfold rvars. intro H. apply in_map_iff in H. destruct H as (i & E & _).
    revert E. rewrite n_r_g, n_h_g. apply gname_neq. discriminate.
  Qed.

  Lemma call_handler_sem ρ rs hd : ρ n_rs = Some rs -> ρ n_h = Some hd ->
    D call_handler_block ρ = call_handler callsem sp hd rs.
  Proof.
    intros Hrs Hh. unfold call_handler_block, call_handler. rewrite (rel_n_trees _ _ _ HR).
    rewrite den_RBlock. cbn [execs]. rewrite exec_SLet, den_RVar, Hrs. nb. rewrite bind_pat_tuple.
    pose proof rvars_nodup as Hnd. pose proof rvars_not_h as Hnh.
    assert (Hlen : List.length rvars = n) by (unfold rvars; rewrite map_length, seq_length; reflexivity).
    assert (Hvars : map pat_var (map PIdent rvars) = map Some rvars) by (rewrite map_map; reflexivity).
    pose proof (rel_n_pos _ _ _ HR) as Hpos.
    assert (Hcall : forall ds, List.length ds = n ->
              D (RCall (RVar n_h) (map RVar rvars)) (upd_list ρ rvars ds) = app_d hd ds).
    { intros ds Hl. rewrite den_RCall_var, den_RVar, upd_list_other, Hh by exact Hnh. nb.
      rewrite dens_upd_list by (auto; congruence). nb. reflexivity. }
    unfold rvars in *. destruct n as [|[|m]] eqn:En; [lia| |].
    - cbn [seq map] in *. cbn [bind_pat]. nb. apply (Hcall [rs]). reflexivity.
    - assert (Hshape : forall (T : Type) (x : rpat -> T) (y : T),
                 match map PIdent (map n_r (seq 0 (S (S m)))) with [q] => x q | _ => y end = y)
        by (intros; reflexivity).
      rewrite Hshape.
      destruct rs as [[]| | | | | |]; nb; try reflexivity.
      rewrite (bind_pats_vars _ _ vs ρ Hvars). rewrite Hlen.
      destruct (Nat.eqb (List.length vs) (S (S m))) eqn:El; nb; [|reflexivity].
      apply Hcall. rewrite map_length. apply Nat.eqb_eq. exact El.
  Qed.

  Lemma gen_handle_sync ρ rs : is_async cfg = false -> ρ n_rs = Some rs ->
    forall hd, (j_handler j <> None -> ρ n_h = Some hd) ->
    D (gen_handle j) ρ =
    handle_results callsem awaitsem sp
      (match j_handler j with Some (k, _) => Some (k, hd) | None => None end) rs.
  Proof.
    intros Ha Hrs hd Hh. unfold gen_handle, handle_results.
    rewrite (r_cfg_sp _ _ _ HR), (r_cfg_j _ _ _ HR), Ha.
    fold rvars. fold call_handler_block.
    destruct (j_handler j) as [[[| |] o]|].
    - (* map *)
      unfold wrap_into_block. rewrite (r_cfg_j _ _ _ HR), Ha.
      rewrite den_RGlue, den_RBlock. cbn [execs]. nb. rewrite den_RVar, Hrs. nb.
      rewrite dens_cons, den_RClosure, dens_nil. nb. rewrite glue_map. f_equal.
      extensionality vs. destruct vs as [|v [|]]; try reflexivity.
      rewrite den_RBlock. cbn [execs]. nb.
      rewrite (call_handler_sem _ (DV v) hd); [reflexivity|apply upd_same|].
      rewrite upd_other; [apply Hh; discriminate|]. rewrite n_h_g, n_rs_g. apply gname_neq. discriminate.
    - (* then *)
      rewrite (call_handler_sem ρ rs hd Hrs); [|apply Hh; discriminate]. symmetry. apply bind_ret_r.
    - (* and_then *)
      unfold wrap_into_block. rewrite (r_cfg_j _ _ _ HR), Ha.
      rewrite den_RGlue, den_RBlock. cbn [execs]. nb. rewrite den_RVar, Hrs. nb.
      rewrite dens_cons, den_RClosure, dens_nil. nb. rewrite glue_and_then. f_equal.
      extensionality vs. destruct vs as [|v [|]]; try reflexivity.
      rewrite den_RBlock. cbn [execs]. nb.
      rewrite (call_handler_sem _ (DV v) hd); [reflexivity|apply upd_same|].
      rewrite upd_other; [apply Hh; discriminate|]. rewrite n_h_g, n_rs_g. apply gname_neq. discriminate.
    - rewrite den_RVar, Hrs. reflexivity.
  Qed.

  (* ---- the whole macro, sync kinds ---- *)
  Definition st0 : state := map (fun _ => None) (sp_trees sp).

  Lemma st0_nth b : nth b st0 None = None.
  Proof. exact (map_nth (fun _ : list (list node) => @None dval) (sp_trees sp) [] b). Qed.

  Lemma temp_h : temp_name n_h.
  Proof. exists GH. repeat split; try discriminate. Qed.
  Lemma temp_rs : temp_name n_rs.
  Proof. exists GRS. repeat split; try discriminate. Qed.

  Lemma Inv_init_sync : is_async cfg = false ->
    Inv (let ρ0 := upd empty_env n_inspect (DFn inspect_clo) in if is_spawn cfg then upd ρ0 n_tb DTb else ρ0) st0.
  Proof.
    intros Ha. split.
    - unfold st0. rewrite map_length. apply (rel_n_trees _ _ _ HR).
    - intros b Hb. rewrite st0_nth. cbv zeta.
      assert (E : upd empty_env n_inspect (DFn inspect_clo) (bname b) = None).
      { rewrite upd_other; [reflexivity|]. rewrite n_inspect_g. apply bname_not_gname. discriminate. }
      destruct (is_spawn cfg); [|exact E]. rewrite upd_other; [exact E|].
      rewrite n_tb_g. apply bname_not_gname. discriminate.
    - intros _. cbv zeta. destruct (is_spawn cfg); [rewrite upd_other|]; try apply upd_same.
      rewrite n_inspect_g, n_tb_g. apply gname_neq. discriminate.
    - intros Hs _. rewrite Hs. cbv zeta. apply upd_same.
    - intros _ Ha'. congruence.
  Qed.

  (* the whole macro around an ARBITRARY meaning S of the steps (Spec.run_body / Spec.spec with the steps
     abstracted: the options only change the steps) *)
  Definition run_with (S : state -> comp dval) : comp dval :=
    let! h := (match sp_handler sp with
               | Some (k, o) => Vis (EEval o (snap_of sp st0)) (fun v => Ret (Some (k, DV v)))
               | None => Ret None end) in
    let! rs := S st0 in
    handle_results callsem awaitsem sp h rs.
  Definition spec_with (S : state -> comp dval) : comp dval :=
    if is_async (sp_cfg sp) then Ret (DFut (let! d := run_with S in to_val d)) else run_with S.

  Theorem gen_output_sync_gen (S : state -> comp dval) e :
    is_async cfg = false ->
    (forall ss se, gen_steps j pats vars 0 (j_max j) = Ok (Some (ss, se)) ->
                   forall ρ st, Inv ρ st -> D (RBlock ss se) ρ = S st) ->
    gen_output j = Ok e ->
    D e empty_env = spec_with S.
  Proof.
    intros Ha Hsteps Hg. unfold gen_output in Hg. cbv zeta in Hg.
    change (map (branch_pat j) (seq 0 n)) with pats in Hg.
    change (map (branch_name j) (seq 0 n)) with vars in Hg.
    destruct (gen_steps j pats vars 0 (j_max j)) as [[[sss se]|]| |] eqn:Egs; cbn [rbind] in Hg; try discriminate.
    rewrite (r_cfg_j _ _ _ HR), Ha in Hg. inversion Hg; clear Hg.
    specialize (Hsteps sss se eq_refl).
    unfold spec_with, run_with. rewrite (r_cfg_sp _ _ _ HR), Ha, (r_handler _ _ _ HR).
    rewrite den_RBlock, execs_cons, exec_inspect_fn. nb. rewrite !execs_app. nb.
    pose proof (Inv_init_sync Ha) as HI0. cbv zeta in HI0.
    set (ρ0 := upd empty_env n_inspect (DFn inspect_clo)) in *.
    assert (E1 : forall A (K : env -> comp A),
               bind (execs (if is_spawn cfg then [STbFn] else []) ρ0) K
               = K (if is_spawn cfg then upd ρ0 n_tb DTb else ρ0)).
    { intros A K. destruct (is_spawn cfg); cbn [execs]; [rewrite exec_STbFn|]; nb; reflexivity. }
    rewrite E1. set (ρ1 := if is_spawn cfg then upd ρ0 n_tb DTb else ρ0) in *.
    assert (Hfin : forall ρ2 hd, Inv ρ2 st0 -> (j_handler j <> None -> ρ2 n_h = Some hd) ->
              (let! ρ' := execs [SLet (PIdent n_rs) (RBlock sss se)] ρ2 in D (gen_handle j) ρ') =
              (let! rs := S st0 in
               handle_results callsem awaitsem sp
                 (match j_handler j with Some (k, _) => Some (k, hd) | None => None end) rs)).
    { intros ρ2 hd HI2 Hh. cbn [execs]. rewrite exec_SLet_ident, (Hsteps ρ2 st0 HI2). nb. apply bind_ext. intros rs. nb.
      apply gen_handle_sync; [exact Ha|apply upd_same|].
      intros Hn. rewrite upd_other; [apply Hh; exact Hn|]. rewrite n_h_g, n_rs_g. apply gname_neq. discriminate. }
    destruct (j_handler j) as [[hk ho]|] eqn:Eh.
    - cbn [app]. rewrite execs_cons, exec_SLet_ident, den_RUser. nb. cbn [bind].
      rewrite (snap_inv ρ1 st0 HI0). apply Vis_ext. intros v. nb.
      apply (Hfin (upd ρ1 n_h (DV v)) (DV v)).
      + apply Inv_upd_temp; [exact HI0|apply temp_h].
      + intros _. apply upd_same.
    - cbn [app]. nb.
      apply (Hfin ρ1 (DV VUnit) HI0). congruence.
  Qed.

  Theorem gen_output_sync e :
    is_async cfg = false ->
    (forall ss se, gen_steps j pats vars 0 (j_max j) = Ok (Some (ss, se)) ->
                   forall ρ st, Inv ρ st -> D (RBlock ss se) ρ = steps msem dotsem callsem awaitsem sp (j_max j) 0 st) ->
    gen_output j = Ok e ->
    D e empty_env = spec msem dotsem callsem awaitsem sp.
  Proof.
    intros Ha Hsteps Hg.
    change (spec msem dotsem callsem awaitsem sp)
      with (spec_with (steps msem dotsem callsem awaitsem sp (max_depth sp) 0)).
    rewrite (rel_max _ _ _ HR). apply gen_output_sync_gen; assumption.
  Qed.

  (* ------------------------------------------------------------------------------------------ *)
  (* STAGE 3: the try kinds (sync): per-step failure check, transposer                          *)
  (* ------------------------------------------------------------------------------------------ *)

  Lemma glue_iter vs : glue_d "iter" (DV (VList vs)) [] = Ret (DV (VList vs)). Proof. reflexivity. Qed.
  Lemma glue_position vs f : glue_d "position" (DV (VList vs)) [DF f] = let! r := position f vs 0 in Ret (DV r).
  Proof. reflexivity. Qed.
  Lemma glue_as_ref_d d : glue_d "as_ref" d [] = match d with DV _ => Ret d | _ => Panic P_ILLTYPED end.
  Proof. destruct d; reflexivity. Qed.

  (* `x.as_ref().map(|_| true).unwrap_or(false)` classifies the value of x *)
  Lemma is_succ_sem ρ x d : ρ x = Some d ->
    D (is_succ x) ρ = let! b := classify d in Ret (DV (VBool b)).
  Proof.
    intros Hx. unfold is_succ.
    rewrite !den_RGlue, den_RVar, Hx. nb. rewrite !dens_nil. nb. rewrite glue_as_ref_d.
    rewrite !dens_cons, den_RClosureIgn, den_RBool, !dens_nil. nb.
    destruct d as [v| | | | | |]; nb; try reflexivity.
    rewrite glue_map.
    destruct v; cbn [std_map classify]; nb; try reflexivity;
      rewrite ?den_RBool; nb; cbn [to_val]; nb; rewrite glue_unwrap_or; reflexivity.
  Qed.

  Fixpoint find_false (bs : list bool) : option nat :=
    match bs with
    | [] => None
    | false :: _ => Some 0
    | true :: r => match find_false r with Some m => Some (S m) | None => None end
    end.

  Lemma position_not ρ : forall (bs : list bool) (i : Z),
    position (fun vs => match vs with
                        | [v] => let! d := D (RNot (RVar n_v)) (upd ρ n_v (DV v)) in to_val d
                        | _ => Panic P_ILLTYPED end) (map VBool bs) i
    = Ret (match find_false bs with Some m => VSome (VInt (i + Z.of_nat m)) | None => VNone end).
  Proof.
    induction bs as [|b r IH]; intros i; cbn [map position find_false]; [reflexivity|].
    rewrite den_RNot, den_RVar, upd_same. nb. cbn [to_val]. nb.
    destruct b; cbn [negb].
    - rewrite IH. destruct (find_false r) as [m|]; [|reflexivity].
      f_equal. f_equal. f_equal. lia.
    - f_equal. f_equal. f_equal. lia.
  Qed.

  Lemma checks_sem ρ : forall xs ds, Forall2 (fun x d => ρ x = Some d) xs ds ->
    dens ρ (map is_succ xs) = let! oks := mapM classify ds in Ret (map (fun b => DV (VBool b)) oks).
  Proof.
    induction 1 as [|x d xs ds Hx Hr IH]; cbn [map mapM]; [reflexivity|].
    rewrite dens_cons, (is_succ_sem ρ x d Hx), IH. nb. apply bind_ext. intros b. nb.
    apply bind_ext. intros bs. nb. reflexivity.
  Qed.

  Lemma all_vals_bools bs : all_vals (map (fun b => DV (VBool b)) bs) = Some (map VBool bs).
  Proof. induction bs as [|b r IH]; cbn [map all_vals]; [reflexivity|]. rewrite IH. reflexivity. Qed.

  Lemma first_false_find : forall (oks : list bool) (ds : list dval), List.length oks = List.length ds ->
    first_false oks ds = match find_false oks with Some m => nth_error ds m | None => None end.
  Proof.
    induction oks as [|b r IH]; intros ds Hl; destruct ds as [|d ds]; try discriminate; cbn [first_false find_false].
    - reflexivity.
    - destruct b; [|reflexivity]. rewrite IH by (cbn in Hl; lia).
      destruct (find_false r); reflexivity.
  Qed.

  Lemma find_false_lt : forall (oks : list bool) m, find_false oks = Some m -> m < List.length oks /\ nth_error oks m = Some false.
  Proof.
    induction oks as [|b r IH]; intros m H; cbn [find_false] in H; [discriminate|].
    destruct b.
    - destruct (find_false r) as [m'|] eqn:E; [|discriminate]. inversion H; subst.
      destruct (IH m' eq_refl) as [H1 H2]. split; [cbn; lia|exact H2].
    - inversion H; subst. split; [cbn; lia|reflexivity].
  Qed.

  (* arms numbered by the rank among the active branches *)
  Lemma match_arms_rank ρ (A : nat * string -> rexpr) : forall (act : list (nat * string)) o m x,
    nth_error act m = Some x ->
    match_arms unames msem dotsem callsem awaitsem ρ (Z.of_nat (o + m))
      (map (fun nv => (fst nv, A (snd nv))) (enum_from o act)) = D (A x) ρ.
  Proof.
    induction act as [|a r IH]; intros o m x Hm; [destruct m; discriminate|].
    cbn [enum_from map fst snd]. rewrite match_arms_cons.
    destruct m as [|m]; cbn [nth_error] in Hm.
    - inversion Hm; subst. rewrite Nat.add_0_r, Z.eqb_refl. reflexivity.
    - destruct (Z.eqb_spec (Z.of_nat o) (Z.of_nat (o + S m))) as [E|_]; [lia|].
      replace (o + S m) with (S o + m) by lia. apply IH. exact Hm.
  Qed.

  Lemma classify_false_map d (f : list val -> comp val) :
    (exists b, classify d = Ret b /\ b = false) -> std_map d f = Ret d.
  Proof.
    intros (b & Hc & ->). destruct d as [[]| | | | | |]; cbn [classify] in Hc; try discriminate; reflexivity.
  Qed.

  Lemma mapM_classify_nth : forall ds, leaves (fun oks : list bool => List.length oks = List.length ds /\
      forall m, nth_error oks m = Some false -> exists d, nth_error ds m = Some d /\ classify d = Ret false)
    (mapM classify ds).
  Proof.
    induction ds as [|d ds IH]; cbn [mapM].
    - constructor. split; [reflexivity|]. intros [|m]; discriminate.
    - assert (Hc : leaves (fun b => classify d = Ret b) (classify d)).
      { destruct d as [[]| | | | | |]; cbn [classify]; constructor; reflexivity. }
      eapply leaves_bind; [exact Hc|]. intros b Hb.
      eapply leaves_bind; [apply IH|]. intros bs [Hl Hn]. constructor. split; [cbn; lia|].
      intros [|m] Hm; cbn [nth_error] in *.
      + inversion Hm; subst. eauto.
      + apply Hn. exact Hm.
  Qed.

  (* the per-step failure check of try kinds *)
  Lemma fail_check_sem ρ (acts : list nat) (ds : list dval) (els : rexpr) :
    Forall2 (fun b d => ρ (bname b) = Some d) acts ds ->
    D (RIfLetSome n_fail_index
         (RGlue (RGlue (RArray (map (fun iv : nat * string => is_succ (snd iv)) (map (fun b => (b, bname b)) acts))) "iter" [])
                "position" [RClosure n_v (RNot (RVar n_v))])
         (RBlock [] (RMatchIdx (RVar n_fail_index)
                       (map (fun nv : nat * (nat * string) =>
                               (fst nv, RGlue (RVar (snd (snd nv))) "map" [RClosureIgn RUnreachable]))
                            (enum_from 0 (map (fun b => (b, bname b)) acts)))))
         els) ρ
    = let! oks := mapM classify ds in
      match first_false oks ds with
      | Some d => std_map d (fun _ => Panic P_UNREACHABLE)
      | None => D els ρ
      end.
  Proof.
    intros HF.
    rewrite den_RIfLetSome, !den_RGlue, den_RArray. nb.
    rewrite !map_map. cbn [snd].
    assert (HF' : Forall2 (fun x d => ρ x = Some d) (map bname acts) ds).
    { clear -HF. induction HF; cbn [map]; constructor; auto. }
    rewrite <- (map_map bname is_succ), (checks_sem ρ _ _ HF'). nb.
    eapply bind_ext_leaves; [apply (mapM_classify_nth ds)|]. intros oks [Hlen Hnth]. nb.
    rewrite all_vals_bools. nb. rewrite dens_nil. nb. rewrite glue_iter. nb.
    rewrite dens_cons, den_RClosure, dens_nil. nb. rewrite glue_position, position_not. nb.
    rewrite (first_false_find oks ds Hlen).
    destruct (find_false oks) as [m|] eqn:Ef; [|reflexivity].
    destruct (find_false_lt oks m Ef) as [Hm Hf].
    destruct (Hnth m Hf) as (d & Hd & Hc). rewrite Hd.
    rewrite den_RBlock. cbn [execs]. nb. rewrite den_RMatchIdx, den_RVar, upd_same. nb.
    assert (Hb : exists b, nth_error acts m = Some b /\ ρ (bname b) = Some d).
    { clear -HF Hd. revert m Hd. induction HF as [|b0 d0 acts ds H0 Hr IH]; intros m Hd; destruct m; cbn [nth_error] in *; try discriminate.
      - inversion Hd; subst. eauto.
      - eauto. }
    destruct Hb as (b & Hb & Hρ).
    replace (Z.of_nat 0 + Z.of_nat m)%Z with (Z.of_nat (0 + m)) by lia.
    rewrite (match_arms_rank _ (fun x : nat * string => RGlue (RVar (snd x)) "map" [RClosureIgn RUnreachable])
                             (map (fun b => (b, bname b)) acts) 0 m (b, bname b)).
    2:{ rewrite nth_error_map, Hb. reflexivity. }
    cbn [snd]. rewrite den_RGlue, den_RVar.
    rewrite upd_other by (rewrite n_fail_index_g; apply bname_not_gname; discriminate).
    rewrite Hρ. nb. rewrite dens_cons, den_RClosureIgn, dens_nil. nb. rewrite glue_map.
    rewrite !classify_false_map; eauto.
  Qed.

  (* ---- the transposer ---- *)
  Lemma transposer_cons2 x y l ret :
    transposer (x :: y :: l) ret =
    match transposer (y :: l) ret with
    | Some acc => Some (RGlue (RVar x) "and_then" [RClosure x acc])
    | None => None
    end.
  Proof. reflexivity. Qed.

  Lemma transposer_sem ret :
    (forall ρ st, Inv ρ st -> D ret ρ = final_tuple sp st) ->
    forall bs t, transposer (map bname bs) ret = Some t -> (forall b, In b bs -> b < n) ->
    forall ρ st, Inv ρ st -> D t ρ = transpose awaitsem sp bs st.
  Proof.
    intros Hret. induction bs as [|b r IH]; intros t Ht Hlt ρ st HI; [discriminate Ht|].
    assert (Hb : b < n) by (apply Hlt; left; reflexivity).
    destruct r as [|b2 r'].
    - cbn [map transposer] in Ht. inversion Ht; subst t. cbn [transpose].
      rewrite den_RGlue, (den_bname ρ st b HI Hb). apply bind_ext. intros d.
      rewrite dens_cons, den_RClosure, dens_nil. nb. rewrite glue_map. f_equal.
      extensionality vs. destruct vs as [|v [|]]; try reflexivity.
      rewrite Hret with (st := set1 st b (DV v)); [reflexivity|]. apply Inv_set1; auto.
    - cbn [map] in Ht, IH. rewrite transposer_cons2 in Ht.
      destruct (transposer (bname b2 :: map bname r') ret) as [acc|] eqn:Eacc; [|discriminate Ht].
      inversion Ht; subst t. cbn [transpose].
      rewrite den_RGlue, (den_bname ρ st b HI Hb). apply bind_ext. intros d.
      rewrite dens_cons, den_RClosure, dens_nil. nb. rewrite glue_and_then. f_equal.
      extensionality vs. destruct vs as [|v [|]]; try reflexivity.
      rewrite (IH acc eq_refl) with (st := set1 st b (DV v)); [reflexivity| |].
      + intros b' Hb'. apply Hlt. right. exact Hb'.
      + apply Inv_set1; auto.
  Qed.

  (* ---- reading the extracted values back from the environment ---- *)
  Lemma set_all_other : forall acts ds (st : state) b, ~ In b acts -> nth b (set_all st acts ds) None = nth b st None.
  Proof.
    induction acts as [|a r IH]; intros ds st b Hb; [reflexivity|].
    destruct ds as [|d ds]; [reflexivity|]. cbn [set_all]. rewrite IH.
    - apply nth_set1_other. intro E. apply Hb. left. congruence.
    - intro Hin. apply Hb. right. exact Hin.
  Qed.

  Lemma set_all_nth : forall acts ds (st : state), NoDup acts -> List.length ds = List.length acts ->
    (forall b, In b acts -> b < List.length st) ->
    Forall2 (fun b d => nth b (set_all st acts ds) None = Some d) acts ds.
  Proof.
    induction acts as [|a r IH]; intros ds st Hnd Hl Hlt; destruct ds as [|d ds]; try discriminate; [constructor|].
    inversion Hnd; subst. cbn [set_all]. constructor.
    - rewrite set_all_other by assumption. apply nth_set1_same. apply Hlt. left. reflexivity.
    - apply IH; auto. intros b Hb. rewrite set1_length. apply Hlt. right. exact Hb.
  Qed.

  Section DefaultTry.
    Hypothesis Hopt_transpose : j_transpose j = is_try cfg && negb (is_async cfg).

  (* ---- join_steps for the try kinds (sync, default transposition) ---- *)
  Lemma join_steps_try k step next body :
    is_try cfg = true -> is_async cfg = false -> join_steps j k step next pats vars (n_sr k) = Ok body ->
    if Nat.ltb k (j_max j - 1) then
      exists nss ne, next = Some (nss, ne) /\
        body = (step ++ [extract_step j (n_sr k) pats k],
                RIfLetSome n_fail_index
                  (RGlue (RGlue (RArray (map (fun iv : nat * string => is_succ (snd iv))
                                             (map (fun b => (b, bname b)) (actives sp k)))) "iter" [])
                         "position" [RClosure n_v (RNot (RVar n_v))])
                  (RBlock [] (RMatchIdx (RVar n_fail_index)
                     (map (fun nv : nat * (nat * string) =>
                             (fst nv, RGlue (RVar (snd (snd nv))) "map" [RClosureIgn RUnreachable]))
                          (enum_from 0 (map (fun b => (b, bname b)) (actives sp k))))))
                  (RBlock nss ne))
    else exists t, transposer vars (tuple_of vars) = Some t /\
                   body = (step ++ [extract_step j (n_sr k) pats k], t).
  Proof.
    intros Ht Ha. unfold join_steps. rewrite (r_cfg_j _ _ _ HR), Ht, Hopt_transpose, Ht, Ha. cbn [andb negb].
    destruct (Nat.ltb k (j_max j - 1)).
    - destruct next as [[nss ne]|]; [|discriminate]. intros H; inversion H; subst body. exists nss, ne.
      split; [reflexivity|]. unfold vars. rewrite enum_filter_pairs, (rel_actives _ _ _ HR). reflexivity.
    - destruct (transposer vars (tuple_of vars)) as [t|]; [|discriminate]. intros H; inversion H. eauto.
  Qed.

  Theorem steps_try : step_hyp -> is_try cfg = true -> is_async cfg = false ->
    forall fuel k ss e, gen_steps j pats vars k fuel = Ok (Some (ss, e)) -> k + fuel = j_max j ->
    forall ρ st, Inv ρ st -> D (RBlock ss e) ρ = steps msem dotsem callsem awaitsem sp fuel k st.
  Proof.
    intros Hstep Ht Ha. induction fuel as [|f IH]; intros k ss e Hg Hk ρ st HI; [discriminate|].
    cbn [gen_steps] in Hg.
    destruct (gen_steps j pats vars (S k) f) as [next| |] eqn:En; cbn [rbind] in Hg; try discriminate.
    destruct (gen_step j k vars (n_sr k)) as [step| |] eqn:Es; cbn [rbind] in Hg; try discriminate.
    destruct (join_steps j k step next pats vars (n_sr k)) as [body| |] eqn:Ej; cbn [rbind] in Hg; try discriminate.
    inversion Hg; subst body; clear Hg.
    apply (join_steps_try _ _ _ _ Ht Ha) in Ej.
    cbn [steps]. rewrite (r_cfg_sp _ _ _ HR), Ht, Ha. cbn [negb].
    assert (Hkm : k < j_max j) by lia.
    destruct f as [|f'].
    - (* last step: the transposer *)
      replace (Nat.ltb k (j_max j - 1)) with false in Ej by (symmetry; apply Nat.ltb_ge; lia).
      destruct Ej as (t & Etr & Eb). inversion Eb; subst ss e.
      rewrite den_RBlock, execs_app. nb. cbn [Nat.eqb].
      apply (Hstep k ρ st step HI Hkm Es). intros ρ1 srv HI1 Hsr.
      cbn [execs]. nb.
      apply (extract_refines k ρ1 st srv HI1 Hsr Hkm). intros ρ2 ds HI2 _.
      rewrite (rel_n_trees _ _ _ HR).
      apply (transposer_sem (tuple_of vars) final_tuple_sem (seq 0 n) t Etr); [|exact HI2].
      intros b Hb. apply in_seq in Hb. lia.
    - replace (Nat.ltb k (j_max j - 1)) with true in Ej by (symmetry; apply Nat.ltb_lt; lia).
      destruct Ej as (nss & ne & -> & Eb). inversion Eb; subst ss e.
      rewrite den_RBlock, execs_app. nb. cbn [Nat.eqb].
      apply (Hstep k ρ st step HI Hkm Es). intros ρ1 srv HI1 Hsr.
      cbn [execs]. nb.
      apply (extract_refines k ρ1 st srv HI1 Hsr Hkm). intros ρ2 ds HI2 Hlen.
      nb. rewrite fail_check_sem with (ds := ds).
      + apply bind_ext. intros oks. destruct (first_false oks ds); [reflexivity|].
        apply (IH (S k) nss ne En); [lia|exact HI2].
      + pose proof (set_all_nth (actives sp k) ds st (rel_actives_nodup sp k) Hlen) as HF.
        eapply Forall2_impl_in_l; [apply HF|].
        * intros b Hb. rewrite (inv_len _ _ HI). apply (rel_actives_lt _ _ _ HR k b Hb).
        * cbn beta. intros b d Hb Hn. rewrite <- Hn. apply (inv_names _ _ HI2).
          apply (rel_actives_lt _ _ _ HR k b Hb).
  Qed.
  End DefaultTry.

  (* ------------------------------------------------------------------------------------------ *)
  (* STAGE 4: the thread kinds (sync): builders, spawn, join                                    *)
  (* ------------------------------------------------------------------------------------------ *)

  Lemma count_active_filter k : forall m b, count_active j k b m = filter (is_active j k) (seq b m).
  Proof.
    induction m as [|m IH]; intros b; cbn [count_active seq filter]; [reflexivity|].
    rewrite IH. reflexivity.
  Qed.
  Lemma active_branches_eq k : active_branches j k = actives sp k.
  Proof. unfold active_branches. rewrite count_active_filter, (rel_actives _ _ _ HR). reflexivity. Qed.

  Definition is_builder (d : dval) : Prop := match d with DBuilder _ => True | _ => False end.

  Lemma thread_builder_leaves i : leaves is_builder (thread_builder i).
  Proof.
    unfold thread_builder. constructor. intros cur. destruct (tb_name cur i); constructor. exact I.
  Qed.

  Lemma Inv_upd_list_temp : forall xs ds ρ st, Inv ρ st -> (forall x, In x xs -> temp_name x) ->
    Inv (upd_list ρ xs ds) st.
  Proof.
    induction xs as [|x xs IH]; intros ds ρ st HI Ht; [exact HI|].
    destruct ds as [|d ds]; [exact HI|]. cbn [upd_list]. apply IH.
    - apply Inv_upd_temp; [exact HI|]. apply Ht. left. reflexivity.
    - intros y Hy. apply Ht. right. exact Hy.
  Qed.

  Lemma execs_tbs : forall acts ρ, ρ n_tb = Some DTb ->
    execs (map (fun b => SLet (PIdent (n_j b)) (RCall (RVar n_tb) [RUsize b])) acts) ρ =
    let! bs := mapM (fun b => thread_builder (Z.of_nat b)) acts in Ret (upd_list ρ (map n_j acts) bs).
  Proof.
    induction acts as [|b r IH]; intros ρ Htb; cbn [map execs mapM]; [reflexivity|].
    rewrite exec_SLet_ident, den_RCall_var, den_RVar, Htb. nb.
    rewrite dens_cons, den_RUsize, dens_nil. nb. cbn [apply]. nb.
    apply bind_ext. intros d. nb. rewrite IH.
    - nb. apply bind_ext. intros ds. nb. reflexivity.
    - rewrite upd_other; [exact Htb|]. rewrite n_tb_g, n_j_g. apply gname_neq. discriminate.
  Qed.

  Lemma upd_list_Forall2 : forall xs ds ρ, NoDup xs -> List.length ds = List.length xs ->
    Forall2 (fun x d => upd_list ρ xs ds x = Some d) xs ds.
  Proof.
    induction xs as [|x xs IH]; intros ds ρ Hnd Hl; destruct ds as [|d ds]; try discriminate; [constructor|].
    inversion Hnd; subst. cbn [upd_list]. constructor.
    - rewrite upd_list_other by assumption. apply upd_same.
    - apply IH; auto.
  Qed.

  Lemma Forall2_combine {A B C} (P : A -> B -> Prop) (Q : B -> C -> Prop) :
    forall la lb lc, Forall2 P la lb -> Forall2 Q lb lc ->
    Forall2 (fun a (cb : C * B) => P a (snd cb) /\ Q (snd cb) (fst cb)) la (combine lc lb).
  Proof.
    intros la lb lc H. revert lc. induction H; intros lc HQ; inversion HQ; subst; cbn [combine]; constructor; auto.
  Qed.

  Lemma Forall2_map_l' {A B C} (R : C -> B -> Prop) (f : A -> C) l l' :
    Forall2 R (map f l) l' -> Forall2 (fun x y => R (f x) y) l l'.
  Proof.
    revert l'. induction l as [|x r IH]; intros l' H; inversion H; subst; constructor; auto.
  Qed.

  (* reading a tuple by index = walking through it *)
  Lemma mapM_enum_nth {A B} (F : option val -> comp B) : forall (hs : list val) (acts : list A) o pre,
    List.length pre = o -> List.length hs = List.length acts ->
    mapM (fun ib : nat * A => F (nth_error (pre ++ hs) (fst ib))) (enum_from o acts) = mapM (fun v => F (Some v)) hs.
  Proof.
    induction hs as [|v hs IH]; intros acts o pre Hp Hl; destruct acts as [|a acts]; try discriminate; [reflexivity|].
    cbn [enum_from mapM fst]. rewrite nth_error_app2 by lia. rewrite Hp, Nat.sub_diag. cbn [nth_error].
    apply bind_ext. intros y.
    replace (pre ++ v :: hs) with ((pre ++ [v]) ++ hs) by (rewrite <- app_assoc; reflexivity).
    rewrite (IH acts (S o) (pre ++ [v])); [reflexivity| |].
    - rewrite app_length. cbn. lia.
    - cbn in Hl. lia.
  Qed.

  Lemma all_vals_length : forall ds vs, all_vals ds = Some vs -> List.length vs = List.length ds.
  Proof.
    induction ds as [|d ds IH]; intros vs H; cbn [all_vals] in H.
    - inversion H. reflexivity.
    - destruct d; try discriminate. destruct (all_vals ds) as [ws|]; [|discriminate].
      inversion H; subst. cbn. rewrite (IH ws eq_refl). reflexivity.
  Qed.

  (* a list of computations that all return plain values *)
  Lemma mapM_to_val {A B} (f : A -> comp dval) (K : list val -> comp B) : forall l,
    (forall x, leaves is_DV (f x)) ->
    bind (mapM f l) (fun ds => match all_vals ds with Some vs => K vs | None => Panic P_ILLTYPED end)
    = bind (mapM (fun x => bind (f x) to_val) l) K.
  Proof.
    intros l Hf. revert K. induction l as [|x r IH]; intros K; cbn [mapM]; [reflexivity|]. nb.
    eapply bind_ext_leaves; [apply Hf|]. intros d Hd. destruct d as [v| | | | | |]; try contradiction.
    cbn [to_val]. nb.
    transitivity (bind (mapM (fun x => bind (f x) to_val) r) (fun vs => K (v :: vs))).
    - rewrite <- (IH (fun vs => K (v :: vs))). apply bind_ext. intros ds. nb. cbn [all_vals].
      destruct (all_vals ds); reflexivity.
    - apply bind_ext. intros ys. reflexivity.
  Qed.

  Lemma mapM_to_val' {A B C} (f : A -> comp dval) (R : list val -> comp C) (K2 : C -> comp B) l :
    (forall x, leaves is_DV (f x)) ->
    bind (mapM f l) (fun ds => bind (match all_vals ds with Some vs => R vs | None => Panic P_ILLTYPED end) K2)
    = bind (mapM (fun x => bind (f x) to_val) l) (fun vs => bind (R vs) K2).
  Proof.
    intros Hf. rewrite <- (mapM_to_val f (fun vs => bind (R vs) K2) l Hf).
    apply bind_ext. intros ds. destruct (all_vals ds); reflexivity.
  Qed.

  Lemma spawn_builders k sr : is_async cfg = false -> is_spawn cfg && Nat.ltb 1 (active_count j k) = true ->
    thread_builders j k sr =
    (map (fun b => SLet (PIdent (n_j b)) (RCall (RVar n_tb) [RUsize b])) (actives sp k),
     [SLet (PIdent sr)
           (RTuple (map (fun ib : nat * nat => RGlue (RGlue (RField (RVar sr) (fst ib)) "join" []) "unwrap" [])
                        (enum_from 0 (actives sp k))))]).
  Proof.
    intros Ha Hs. apply andb_prop in Hs. destruct Hs as [Hs Hm].
    unfold thread_builders, indexed_sr. rewrite (r_cfg_j _ _ _ HR), Ha, Hs, Hm, active_branches_eq. cbn [orb negb].
    destruct (active_count j k) as [|[|c]]; try discriminate. reflexivity.
  Qed.

  Definition join_unwrap (v : val) : comp dval :=
    let! r := (match v with VHandle h => std_join h | _ => Panic P_ILLTYPED end) in std_unwrap r.

  Lemma join_unwrap_DV v : leaves is_DV (join_unwrap v).
  Proof.
    unfold join_unwrap. destruct v; try apply L_Panic. cbn [std_join bind]. apply L_Vis || apply L_Join. intros r.
    destruct r; cbn [std_unwrap bind]; constructor. exact I.
  Qed.

  Section DefaultSteps.
    Hypothesis Hopt_joiner : j_joiner j = None.
    Hypothesis Hopt_lazy : j_lazy j = is_spawn cfg && negb (is_async cfg).

  Lemma spawn_wrap k b c : is_async cfg = false -> is_spawn cfg && Nat.ltb 1 (active_count j k) = true ->
    wrap_branch j k b c = RBlock [] (RGlue (RGlue (RVar (n_j b)) "spawn" [RMoveThunk c]) "unwrap" []).
  Proof.
    intros Ha Hs. apply andb_prop in Hs. destruct Hs as [Hs Hm].
    unfold wrap_branch. rewrite Hm, Hopt_lazy, (r_cfg_j _ _ _ HR), Ha, Hs. reflexivity.
  Qed.
  Lemma step_refines_spawn k ρ st step :
    is_async cfg = false -> is_spawn cfg && Nat.ltb 1 (active_count j k) = true ->
    Inv ρ st -> k < j_max j -> gen_step j k vars (n_sr k) = Ok step ->
    forall A (K : env -> comp A) (K' : dval -> comp A),
      (forall ρ' srv, Inv ρ' st -> ρ' (n_sr k) = Some srv -> K ρ' = K' srv) ->
      bind (execs step ρ) K = bind (step_result msem dotsem callsem awaitsem sp k st) K'.
  Proof.
    intros Ha Hs HI Hk Hg A K K' HK.
    destruct (gen_step_sync_inv Hopt_joiner k (n_sr k) step Ha Hg) as (cs & Hcs & ->).
    rewrite (spawn_builders k _ Ha Hs). cbn [fst snd].
    apply andb_prop in Hs as Hs'. destruct Hs' as [Hsp Hmulti].
    unfold step_result. rewrite (r_cfg_sp _ _ _ HR), Ha.
    rewrite <- (rel_active_count _ _ _ HR), Hs.
    set (acts := actives sp k) in *.
    rewrite execs_app, (execs_tbs acts ρ (inv_tb _ _ HI Hsp Ha)). nb.
    eapply bind_ext_leaves.
    { apply leaves_and; [apply leaves_mapM_length|apply (leaves_mapM is_builder)].
      intros b _. apply thread_builder_leaves. }
    intros bs [Hbl Hbb]. nb.
    set (ρ1 := upd_list ρ (map n_j acts) bs).
    assert (HI1 : Inv ρ1 st).
    { apply Inv_upd_list_temp; [exact HI|]. intros x Hx. apply in_map_iff in Hx. destruct Hx as (b & <- & _). apply temp_j. }
    rewrite execs_app, execs_step_defs. nb. rewrite (snap_inv ρ1 st HI1).
    eapply bind_ext_leaves; [apply captures_keys|]. intros cp Hkeys. nb.
    set (ρ2 := ext_env ρ1 cp).
    assert (HI2 : Inv ρ2 st) by (apply Inv_ext_env; exact HI1).
    rewrite execs_app. cbn [execs]. rewrite exec_SLet_ident. nb.
    (* the tuple of spawned handles *)
    set (F := fun nb : dval * nat =>
                match fst nb with
                | DBuilder name =>
                    let! h := std_spawn name (fun _ => let! d := chain msem dotsem callsem sp (snap_of sp st) cp k st (snd nb) in to_val d) in
                    std_unwrap h
                | _ => Panic P_ILLTYPED
                end).
    assert (Hnd : NoDup (map n_j acts)).
    { apply NoDup_map_inj; [intros a b; apply n_j_inj|apply rel_actives_nodup]. }
    assert (Hspawn : Forall2 (fun c nb => D c ρ2 = F nb) cs (combine bs acts)).
    { pose proof (upd_list_Forall2 (map n_j acts) bs ρ Hnd) as Hb.
      rewrite map_length in Hb. specialize (Hb Hbl). apply Forall2_map_l' in Hb.
      pose proof (Forall2_combine _ _ _ _ _ Hcs Hb) as Hc.
      eapply Forall2_impl_in; [exact Hc|]. cbn beta. intros c [bd b] Hin [(c0 & ds & Ec & Hr) Hbd]. cbn [fst snd] in *.
      assert (Hb_in : In b acts) by (apply in_combine_r in Hin; exact Hin).
      assert (Hbd_b : is_builder bd).
      { apply in_combine_l in Hin. rewrite Forall_forall in Hbb. apply Hbb. exact Hin. }
      destruct bd as [| | | |name| |]; try contradiction.
      rewrite Ec, (spawn_wrap k b c0 Ha Hs).
      rewrite den_RBlock. cbn [execs]. nb. rewrite !den_RGlue, den_RVar.
      unfold ρ2. rewrite ext_env_not_ew by (intros b' e i; rewrite n_j_g, n_ew_g; apply gname_neq; discriminate).
      fold ρ1. unfold ρ1 at 1. rewrite Hbd. nb.
      rewrite dens_cons, den_RMoveThunk, !dens_nil. nb. rewrite glue_spawn. unfold F. cbn [fst snd].
      unfold std_spawn. cbn [bind].
      rewrite (chain_in_step k ρ1 st cp b ds c0 HI1 Hb_in Hkeys Hr).
      apply Spawn_ext. intros h. nb. rewrite glue_unwrap. reflexivity. }
    rewrite den_RTuple.
    assert (Hlen_cs : List.length cs = List.length acts) by (apply (Forall2_length' _ _ _ Hcs)).
    assert (Hacts2 : 2 <= List.length acts).
    { unfold acts. rewrite <- (rel_active_count _ _ _ HR). apply Nat.ltb_lt in Hmulti. lia. }
    assert (Hshape : forall (T : Type) (x : rexpr -> T) (y : T), match cs with [e] => x e | _ => y end = y).
    { intros. destruct cs as [|c1 [|c2 r]]; cbn in Hlen_cs; try lia; reflexivity. }
    rewrite Hshape. rewrite dens_mapM, (mapM_Forall2 _ _ _ _ Hspawn). nb.
    eapply bind_ext_leaves; [apply leaves_mapM_length|]. intros handles Hhl.
    rewrite combine_length, Hbl, Nat.min_id in Hhl.
    unfold vals_tuple. destruct (all_vals handles) as [hs|] eqn:Eh; nb; [|reflexivity].
    pose proof (all_vals_length _ _ Eh) as Hhs. rewrite Hhl in Hhs.
    (* the joins *)
    cbn [execs]. rewrite exec_SLet_ident, den_RTuple.
    assert (Hshape2 : forall (T : Type) (x : rexpr -> T) (y : T),
               match map (fun ib : nat * nat => RGlue (RGlue (RField (RVar (n_sr k)) (fst ib)) "join" []) "unwrap" [])
                         (enum_from 0 acts) with [e] => x e | _ => y end = y).
    { intros. destruct acts as [|a1 [|a2 r]]; cbn in Hacts2; try lia; reflexivity. }
    rewrite Hshape2. rewrite dens_mapM, mapM_map. nb.
    set (ρ3 := upd ρ2 (n_sr k) (DV (VTuple hs))).
    assert (Hju : forall ib : nat * nat,
               D (RGlue (RGlue (RField (RVar (n_sr k)) (fst ib)) "join" []) "unwrap" []) ρ3
               = match nth_error ([] ++ hs) (fst ib) with Some v => join_unwrap v | None => Panic P_ILLTYPED end).
    { intros ib. rewrite !den_RGlue, den_RField, den_RVar. unfold ρ3. rewrite upd_same. nb. cbn [app].
      destruct (nth_error hs (fst ib)) as [v|]; nb; [|reflexivity].
      rewrite !dens_nil. nb. unfold join_unwrap.
      destruct v; reflexivity. }
    rewrite (mapM_ext_in _ _ _ (fun ib _ => Hju ib)).
    rewrite (mapM_enum_nth (fun o => match o with Some v => join_unwrap v | None => Panic P_ILLTYPED end) hs acts 0 []
                           eq_refl Hhs).
    rewrite (mapM_to_val' join_unwrap (fun vs => Ret (DV (VTuple vs))) _ hs join_unwrap_DV).
    assert (HG : forall v, bind (join_unwrap v) to_val =
                           match v with
                           | VHandle i => let! r := std_join i in let! u := std_unwrap r in to_val u
                           | _ => Panic P_ILLTYPED end).
    { intros v. unfold join_unwrap. destruct v; nb; reflexivity. }
    rewrite (mapM_ext_in _ _ _ (fun v _ => HG v)).
    apply bind_ext. intros vs. nb.
    apply HK; [|apply upd_same].
    apply Inv_upd_temp; [|apply temp_sr]. apply Inv_upd_temp; [exact HI2|apply temp_sr].
  Qed.

  (* every sync kind *)
  Theorem step_sync : is_async cfg = false -> step_hyp.
  Proof.
    intros Ha k ρ st step HI Hk Hg A K K' HK.
    destruct (is_spawn cfg && Nat.ltb 1 (active_count j k)) eqn:Hs.
    - eapply step_refines_spawn; eauto.
    - eapply step_refines_plain; eauto.
  Qed.

  (* ------------------------------------------------------------------------------------------ *)
  (* the async kinds: futures built per branch, join!/try_join! (never-pending children), await *)
  (* ------------------------------------------------------------------------------------------ *)

  Lemma gen_step_async_inv k sr step :
    is_async cfg = true -> gen_step j k vars sr = Ok step ->
    exists cs, Forall2 (chain_of k) cs (actives sp k) /\
      step = flat_map (fun b => nodes_defs b (tree sp b k)) (actives sp k)
             ++ [SLet (PIdent sr)
                      (if Nat.ltb 1 (active_count j k)
                       then RCall (RJoinMac (opt_default (j_fcp j) []) (is_try cfg)) cs
                       else RAwait (match cs with [c] => c | _ => RJuxt cs end))].
  Proof.
    intros Ha Hg. unfold gen_step in Hg.
    destruct (gen_branches j k vars 0 (j_chains j)) as [[defs cs]| |] eqn:Eb; cbn [rbind] in Hg; try discriminate.
    rewrite (r_cfg_j _ _ _ HR), Ha, Hopt_joiner in Hg.
    destruct (gen_branches_spec k _ _ _ _ _ (r_chains _ _ _ HR) Eb) as [Hd Hc].
    rewrite (rel_spec_branches sp k) in Hd, Hc. rewrite flat_map_map in Hd. cbn [fst snd] in Hd.
    apply Forall2_map_r in Hc.
    exists cs. split.
    - eapply Forall2_impl; [|exact Hc]. cbn beta. intros c b (c0 & E & Hr). cbn [fst snd] in *.
      exists c0, (nodes_defs b (tree sp b k)). split; assumption.
    - rewrite <- Hd. destruct (Nat.ltb 1 (active_count j k)); inversion Hg; reflexivity.
  Qed.

  Lemma async_wrap k b c : is_async cfg = true ->
    wrap_branch j k b c =
    if Nat.ltb 1 (active_count j k) && is_spawn cfg then RBlock [] (RCall (RVar n_spawn_tokio) [RBoxPin c]) else c.
  Proof.
    intros Ha. unfold wrap_branch. rewrite Hopt_lazy, (r_cfg_j _ _ _ HR), Ha.
    rewrite andb_false_r. destruct (Nat.ltb 1 (active_count j k)); [|reflexivity].
    destruct (is_spawn cfg); reflexivity.
  Qed.

  Lemma step_async : is_async cfg = true -> step_hyp.
  Proof.
    intros Ha k ρ st step HI Hk Hg A K K' HK.
    destruct (gen_step_async_inv k (n_sr k) step Ha Hg) as (cs & Hcs & ->).
    rewrite execs_app, execs_step_defs. nb.
    unfold step_result. rewrite (r_cfg_sp _ _ _ HR), Ha.
    rewrite <- (rel_active_count _ _ _ HR), <- (snap_inv ρ st HI). nb.
    eapply bind_ext_leaves; [apply captures_keys|]. intros cp Hkeys. nb.
    cbn [execs]. rewrite exec_SLet_ident. nb.
    pose proof (rel_actives_nonempty _ _ _ HR k Hk) as Hne.
    assert (HI' : Inv (ext_env ρ cp) st) by (apply Inv_ext_env; exact HI).
    set (G := fun b => let! d := chain msem dotsem callsem sp (snapρ ρ) cp k st b in
                       if is_spawn cfg then match d with DFut _ | DV _ => Ret d | _ => Panic P_ILLTYPED end else Ret d).
    assert (HK' : forall v, K (upd (ext_env ρ cp) (n_sr k) (DV v)) = K' (DV v)).
    { intros v. apply HK; [apply Inv_upd_temp; [exact HI'|apply temp_sr]|apply upd_same]. }
    destruct (Nat.ltb 1 (active_count j k)) eqn:Hm.
    - (* several active branches: join! / try_join! *)
      assert (Hchain : Forall2 (fun c b => D c (ext_env ρ cp) = G b) cs (actives sp k)).
      { eapply Forall2_impl_in; [exact Hcs|]. intros c b Hb (c0 & ds & Ec & Hr).
        rewrite Ec, (async_wrap k b c0 Ha), Hm. cbn [andb]. unfold G.
        pose proof (chain_in_step k ρ st cp b ds c0 HI Hb Hkeys Hr) as Hc. rewrite <- (snap_inv ρ st HI) in Hc.
        destruct (is_spawn cfg) eqn:Hsp.
        - rewrite den_RBlock. cbn [execs]. nb. rewrite den_RCall_var, den_RVar.
          rewrite (inv_tokio _ _ HI' Hsp Ha). nb. rewrite dens_cons, den_RBoxPin, Hc, dens_nil. nb.
          apply bind_ext. intros d. nb. destruct d; reflexivity.
        - rewrite Hc. symmetry. apply bind_ret_r. }
      rewrite den_RCall_mac, dens_mapM, (mapM_Forall2 _ _ _ _ Hchain). nb.
      apply bind_ext. intros futs. nb. apply bind_ext. intros v. nb. apply HK'.
    - (* one active branch: awaited in place *)
      assert (Hlen : List.length (actives sp k) <= 1).
      { rewrite <- (rel_active_count _ _ _ HR). apply Nat.ltb_ge in Hm. lia. }
      destruct (actives sp k) as [|b [|b2 r]] eqn:Eacts; [congruence| |cbn in Hlen; lia].
      inversion Hcs as [|c ? cs' ? (c0 & ds & Ec & Hr) Hrest]; subst. inversion Hrest; subst.
      rewrite den_RAwait, (async_wrap k b c0 Ha), Hm. cbn [andb].
      assert (Hb : In b (actives sp k)) by (rewrite Eacts; left; reflexivity).
      pose proof (chain_in_step k ρ st cp b ds c0 HI Hb) as Hc. rewrite Eacts in Hc. specialize (Hc Hkeys Hr).
      rewrite Hc, (snap_inv ρ st HI). nb. apply bind_ext. intros d. nb. apply bind_ext. intros v. nb. apply HK'.
  Qed.

  (* every kind *)
  Theorem step_all : step_hyp.
  Proof.
    assert (H : {is_async cfg = true} + {is_async cfg = false}) by (destruct (is_async cfg); auto).
    destruct H as [Ha|Ha]; [apply step_async|apply step_sync]; exact Ha.
  Qed.
  End DefaultSteps.

  (* ---- async try kinds: `match __srK { Ok(__srK) => { re-wrap; destructure; next } , Err(err) => Err(err) }` ---- *)
  Lemma enum_from_fst {A} : forall (l : list A) o, map fst (enum_from o l) = seq o (List.length l).
  Proof. induction l as [|x r IH]; intros o; cbn [enum_from map List.length seq fst]; [reflexivity|]. rewrite IH. reflexivity. Qed.

  Lemma all_vals_DV : forall ds, Forall is_DV ds -> exists vs, all_vals ds = Some vs.
  Proof.
    induction 1 as [|d ds Hd Hr [vs IH]]; [exists []; reflexivity|].
    destruct d; try contradiction. cbn [all_vals]. rewrite IH. eauto.
  Qed.

  Lemma rewrap_DV acts w : leaves (Forall is_DV) (rewrap acts w).
  Proof.
    unfold rewrap. destruct acts as [|b1 [|b2 r]].
    - destruct w; try apply L_Panic. apply (leaves_mapM is_DV). intros i _. destruct (nth_error vs i); constructor. exact I.
    - constructor. constructor; [exact I|constructor].
    - destruct w; try apply L_Panic. apply (leaves_mapM is_DV). intros i _. destruct (nth_error vs i); constructor. exact I.
  Qed.

  Definition rewrapped (rew : list dval) : dval :=
    match rew with [d] => d | _ => DV (VTuple (match all_vals rew with Some l => l | None => [] end)) end.

  Lemma rewrap_sem k ρ w : ρ (n_sr k) = Some (DV w) -> actives sp k <> [] ->
    D (RTuple (map (fun ib : nat * nat => ROk (indexed_sr j (n_sr k) k (fst ib))) (enum_from 0 (actives sp k)))) ρ
    = let! rew := rewrap (actives sp k) w in Ret (rewrapped rew).
  Proof.
    intros Hsr Hne. unfold indexed_sr. rewrite (rel_active_count _ _ _ HR).
    destruct (actives sp k) as [|b1 [|b2 r]] eqn:Eacts; [congruence| |].
    - cbn [List.length Nat.ltb Nat.leb enum_from map fst]. rewrite den_RTuple, den_ROk, den_RVar, Hsr. reflexivity.
    - remember (b1 :: b2 :: r) as acts.
      assert (Hl : 2 <= List.length acts) by (subst acts; cbn; lia).
      assert (Hm : Nat.ltb 1 (List.length acts) = true) by (apply Nat.ltb_lt; lia).
      rewrite Hm.
      assert (Hshape : forall (T : Type) (x : rexpr -> T) (y : T),
                 match map (fun ib : nat * nat => ROk (RField (RVar (n_sr k)) (fst ib))) (enum_from 0 acts)
                 with [e] => x e | _ => y end = y) by (intros; subst acts; reflexivity).
      rewrite den_RTuple, Hshape.
      assert (Hre : rewrap acts w = match w with
                                    | VTuple ws => mapM (fun i => match nth_error ws i with
                                                                   | Some x => Ret (DV (VOk x))
                                                                   | None => Panic P_ILLTYPED end) (seq 0 (List.length acts))
                                    | _ => Panic P_ILLTYPED end) by (subst acts; reflexivity).
      rewrite Hre.
      assert (Hel : forall ib : nat * nat,
                 D (ROk (RField (RVar (n_sr k)) (fst ib))) ρ =
                 match w with
                 | VTuple ws => match nth_error ws (fst ib) with Some x => Ret (DV (VOk x)) | None => Panic P_ILLTYPED end
                 | _ => Panic P_ILLTYPED end).
      { intros ib. rewrite den_ROk, den_RField, den_RVar, Hsr. nb.
        destruct w; try reflexivity. destruct (nth_error vs (fst ib)); reflexivity. }
      rewrite dens_mapM, mapM_map, (mapM_ext_in _ _ _ (fun ib _ => Hel ib)).
      destruct w as [| | | | | | | | |ws| |]; try (subst acts; reflexivity).
      rewrite <- (mapM_map (fun i => match nth_error ws i with Some x => Ret (DV (VOk x)) | None => Panic P_ILLTYPED end) fst).
      rewrite enum_from_fst.
      eapply bind_ext_leaves.
      { apply leaves_and; [apply leaves_mapM_length|apply (leaves_mapM is_DV)].
        intros i _. destruct (nth_error ws i); constructor. exact I. }
      intros rew [Hrl Hrd]. rewrite seq_length in Hrl.
      destruct (all_vals_DV rew Hrd) as (vs & Ev). unfold rewrapped. rewrite Ev.
      destruct rew as [|d1 [|d2 rr]]; cbn in Hrl; try lia. reflexivity.
  Qed.

  Lemma inactive_eq k : filter (fun b => negb (active sp k b)) (seq 0 (List.length (sp_trees sp)))
                        = filter (fun b => negb (is_active j k b)) (seq 0 n).
  Proof.
    rewrite (rel_n_trees _ _ _ HR). apply filter_ext. intros b. rewrite (rel_active _ _ _ HR). reflexivity.
  Qed.

  Section DefaultTryAsync.
    Hypothesis Hopt_transpose : j_transpose j = is_try cfg && negb (is_async cfg).

  Lemma join_steps_try_async k step next body :
    is_try cfg = true -> is_async cfg = true -> join_steps j k step next pats vars (n_sr k) = Ok body ->
    if Nat.ltb k (j_max j - 1) then
      exists nss ne, next = Some (nss, ne) /\
        body = (step, RMatchOk (RVar (n_sr k)) (n_sr k)
                        (RBlock ([SLet (PIdent (n_sr k))
                                       (RTuple (map (fun ib : nat * nat => ROk (indexed_sr j (n_sr k) k (fst ib)))
                                                    (enum_from 0 (actives sp k))));
                                  extract_step j (n_sr k) pats k] ++ nss) ne))
    else if Nat.ltb 1 n then
      let inactive := filter (fun b => negb (is_active j k b)) (seq 0 n) in
      match inactive with
      | [] => body = (step, RMatchOk (RVar (n_sr k)) (n_sr k)
                              (RBlock [extract_step j (n_sr k) pats k] (ROk (tuple_of vars))))
      | _ => exists t, transposer (map bname inactive) (tuple_of vars) = Some t /\
                       body = (step, RMatchOk (RVar (n_sr k)) (n_sr k) (RBlock [extract_step j (n_sr k) pats k] t))
      end
    else body = (step, RMatchOk (RVar (n_sr k)) n_v (ROk (RTuple [RVar n_v]))).
  Proof.
    intros Ht Ha. unfold join_steps. rewrite (r_cfg_j _ _ _ HR), Ht, Hopt_transpose, Ht, Ha. cbn [andb negb].
    rewrite active_branches_eq.
    destruct (Nat.ltb k (j_max j - 1)).
    - destruct next as [[nss ne]|]; intros H; [|discriminate H]. inversion H; subst body. exists nss, ne.
      split; reflexivity.
    - destruct (Nat.ltb 1 n); [|intros H; inversion H; reflexivity].
      assert (Hres : map snd (filter (fun iv : nat * string => negb (is_active j k (fst iv))) (enum_from 0 vars))
                     = map bname (filter (fun b => negb (is_active j k b)) (seq 0 n))).
      { unfold vars. apply (enum_filter_map bname (fun b => negb (is_active j k b)) n 0). }
      rewrite Hres. cbv zeta.
      destruct (filter (fun b => negb (is_active j k b)) (seq 0 n)) as [|i0 ir] eqn:Ef.
      + cbn [map]. intros H; inversion H; reflexivity.
      + remember (i0 :: ir) as inact. assert (Hne : map bname inact <> []) by (subst inact; discriminate).
        destruct (map bname inact) as [|x xs] eqn:Em; [congruence|].
        destruct (transposer (x :: xs) (tuple_of vars)) as [t|]; intros H; [|discriminate H].
        inversion H. subst inact. exists t. split; reflexivity.
  Qed.

  Theorem steps_try_async : step_hyp -> is_try cfg = true -> is_async cfg = true ->
    forall fuel k ss e, gen_steps j pats vars k fuel = Ok (Some (ss, e)) -> k + fuel = j_max j ->
    forall ρ st, Inv ρ st -> D (RBlock ss e) ρ = steps msem dotsem callsem awaitsem sp fuel k st.
  Proof.
    intros Hstep Ht Ha. induction fuel as [|f IH]; intros k ss e Hg Hk ρ st HI; [discriminate|].
    cbn [gen_steps] in Hg.
    destruct (gen_steps j pats vars (S k) f) as [next| |] eqn:En; cbn [rbind] in Hg; try discriminate.
    destruct (gen_step j k vars (n_sr k)) as [step| |] eqn:Es; cbn [rbind] in Hg; try discriminate.
    destruct (join_steps j k step next pats vars (n_sr k)) as [body| |] eqn:Ej; cbn [rbind] in Hg; try discriminate.
    inversion Hg; subst body; clear Hg.
    apply (join_steps_try_async _ _ _ _ Ht Ha) in Ej.
    cbn [steps]. rewrite (r_cfg_sp _ _ _ HR), Ht, Ha. cbn [negb].
    assert (Hkm : k < j_max j) by lia.
    pose proof (rel_actives_nonempty _ _ _ HR k Hkm) as Hne.
    destruct f as [|f'].
    - (* last step *)
      replace (Nat.ltb k (j_max j - 1)) with false in Ej by (symmetry; apply Nat.ltb_ge; lia).
      cbn [Nat.eqb]. rewrite inactive_eq, (rel_n_trees _ _ _ HR).
      destruct (Nat.ltb 1 n) eqn:Hn1.
      + cbv zeta in Ej.
        destruct (filter (fun b => negb (is_active j k b)) (seq 0 n)) as [|i0 ir] eqn:Ef.
        * inversion Ej; subst ss e. rewrite den_RBlock.
          apply (Hstep k ρ st step HI Hkm Es). intros ρ1 srv HI1 Hsr.
          rewrite den_RMatchOk, den_RVar, Hsr. nb.
          destruct srv as [[]| | | | | |]; try reflexivity.
          rewrite den_RBlock. cbn [execs]. nb.
          apply (extract_refines k (upd ρ1 (n_sr k) (DV v)) st (DV v)
                   (Inv_upd_temp _ _ _ (DV v) HI1 (temp_sr k)) (upd_same _ _ _) Hkm).
          intros ρ2 ds HI2 _. nb. rewrite den_ROk, (final_tuple_sem ρ2 _ HI2). reflexivity.
        * destruct Ej as (t & Etr & Eb). inversion Eb; subst ss e. rewrite den_RBlock.
          apply (Hstep k ρ st step HI Hkm Es). intros ρ1 srv HI1 Hsr.
          rewrite den_RMatchOk, den_RVar, Hsr. nb.
          destruct srv as [[]| | | | | |]; try reflexivity.
          rewrite den_RBlock. cbn [execs]. nb.
          apply (extract_refines k (upd ρ1 (n_sr k) (DV v)) st (DV v)
                   (Inv_upd_temp _ _ _ (DV v) HI1 (temp_sr k)) (upd_same _ _ _) Hkm).
          intros ρ2 ds HI2 _. nb.
          apply (transposer_sem (tuple_of vars) final_tuple_sem (i0 :: ir) t Etr); [|exact HI2].
          intros b Hb. rewrite <- Ef in Hb. apply filter_In in Hb. destruct Hb as [Hb _]. apply in_seq in Hb. lia.
      + inversion Ej; subst ss e. rewrite den_RBlock.
        apply (Hstep k ρ st step HI Hkm Es). intros ρ1 srv HI1 Hsr.
        rewrite den_RMatchOk, den_RVar, Hsr. nb.
        destruct srv as [[]| | | | | |]; reflexivity.
    - replace (Nat.ltb k (j_max j - 1)) with true in Ej by (symmetry; apply Nat.ltb_lt; lia).
      destruct Ej as (nss & ne & -> & Eb). inversion Eb; subst ss e. cbn [Nat.eqb].
      rewrite den_RBlock.
      apply (Hstep k ρ st step HI Hkm Es). intros ρ1 srv HI1 Hsr.
      rewrite den_RMatchOk, den_RVar, Hsr. nb.
      destruct srv as [[]| | | | | |]; try reflexivity.
      rewrite den_RBlock. cbn [app]. rewrite execs_cons, exec_SLet_ident.
      set (ρa := upd ρ1 (n_sr k) (DV v)).
      assert (HIa : Inv ρa st) by (apply Inv_upd_temp; [exact HI1|apply temp_sr]).
      rewrite (rewrap_sem k ρa v (upd_same _ _ _) Hne). nb.
      eapply bind_ext_leaves; [apply rewrap_DV|]. intros rew Hrew. nb. fold (rewrapped rew).
      rewrite execs_cons. nb.
      apply (extract_refines k (upd ρa (n_sr k) (rewrapped rew)) st (rewrapped rew)
               (Inv_upd_temp _ _ _ (rewrapped rew) HIa (temp_sr k)) (upd_same _ _ _) Hkm).
      intros ρ2 ds HI2 _. nb. rewrite <- den_RBlock.
      apply (IH (S k) nss ne En); [lia|exact HI2].
  Qed.
  End DefaultTryAsync.

  (* ---- the handler, async kinds ---- *)
  Lemma gen_handle_async ρ rs : is_async cfg = true -> ρ n_rs = Some rs ->
    forall hd, (j_handler j <> None -> ρ n_h = Some hd) ->
    D (gen_handle j) ρ =
    handle_results callsem awaitsem sp
      (match j_handler j with Some (k, _) => Some (k, hd) | None => None end) rs.
  Proof.
    intros Ha Hrs hd Hh. unfold gen_handle, handle_results.
    rewrite (r_cfg_sp _ _ _ HR), (r_cfg_j _ _ _ HR), Ha.
    fold rvars. fold call_handler_block.
    assert (Hnh : n_h <> n_rs) by (rewrite n_h_g, n_rs_g; apply gname_neq; discriminate).
    destruct (j_handler j) as [[[| |] o]|].
    - (* map *)
      unfold wrap_into_block. rewrite (r_cfg_j _ _ _ HR), Ha.
      rewrite den_RAwait, den_RGlue, den_RAsyncMove. cbn [execs]. nb. rewrite den_RVar, Hrs. nb.
      rewrite dens_cons, den_RClosure, dens_nil. nb. rewrite glue_map. cbn [std_map]. nb. cbn [await_d].
      nb. apply bind_ext. intros v. cbn [await_d]. nb.
      rewrite den_RBlock. cbn [execs]. nb.
      rewrite den_RGlue, den_RVar, upd_same. nb. rewrite dens_cons, den_RClosure, dens_nil. nb. rewrite glue_map.
      assert (Hclo : (fun vs : list val => match vs with
                                           | [v0] => let! d := D call_handler_block (upd (upd ρ n_rs (DV v)) n_rs (DV v0)) in to_val d
                                           | _ => Panic P_ILLTYPED end)
                     = (fun vs : list val => match vs with
                                             | [v0] => let! d := call_handler callsem sp hd (DV v0) in to_val d
                                             | _ => Panic P_ILLTYPED end)).
      { extensionality vs. destruct vs as [|v0 [|]]; try reflexivity.
        rewrite (call_handler_sem _ (DV v0) hd); [reflexivity|apply upd_same|].
        rewrite !upd_other by exact Hnh. apply Hh. discriminate. }
      rewrite Hclo. cbn [await_d]. nb. reflexivity.
    - (* then *)
      rewrite den_RAwait, (call_handler_sem ρ rs hd Hrs); [reflexivity|apply Hh; discriminate].
    - (* and_then *)
      unfold wrap_into_block. rewrite (r_cfg_j _ _ _ HR), Ha.
      rewrite den_RAwait, den_RGlue, den_RAsyncMove. cbn [execs]. nb. rewrite den_RVar, Hrs. nb.
      rewrite dens_cons, den_RClosure, dens_nil. nb. rewrite glue_and_then. cbn [std_and_then]. nb. cbn [await_d].
      nb. apply bind_ext. intros v. cbn [await_d]. nb.
      destruct v; try reflexivity.
      rewrite den_RBlock. cbn [execs]. nb.
      rewrite (call_handler_sem _ (DV v) hd); [cbn [await_d]; nb; apply bind_ext; intros x; nb; reflexivity|apply upd_same|].
      rewrite upd_other by exact Hnh. apply Hh. discriminate.
    - rewrite den_RVar, Hrs. reflexivity.
  Qed.

  Lemma Inv_init_async : is_async cfg = true ->
    Inv (if is_spawn cfg then upd empty_env n_spawn_tokio DSpawnTokio else empty_env) st0.
  Proof.
    intros Ha. split.
    - unfold st0. rewrite map_length. apply (rel_n_trees _ _ _ HR).
    - intros b Hb. rewrite st0_nth.
      destruct (is_spawn cfg); [|reflexivity]. rewrite upd_other; [reflexivity|].
      rewrite n_spawn_tokio_g. apply bname_not_gname. discriminate.
    - intros Ha'. congruence.
    - intros _ Ha'. congruence.
    - intros Hs _. rewrite Hs. apply upd_same.
  Qed.

  Theorem gen_output_async_gen (S : state -> comp dval) e :
    is_async cfg = true ->
    (forall ss se, gen_steps j pats vars 0 (j_max j) = Ok (Some (ss, se)) ->
                   forall ρ st, Inv ρ st -> D (RBlock ss se) ρ = S st) ->
    gen_output j = Ok e ->
    D e empty_env = spec_with S.
  Proof.
    intros Ha Hsteps Hg. unfold gen_output in Hg. cbv zeta in Hg.
    change (map (branch_pat j) (seq 0 n)) with pats in Hg.
    change (map (branch_name j) (seq 0 n)) with vars in Hg.
    destruct (gen_steps j pats vars 0 (j_max j)) as [[[sss se]|]| |] eqn:Egs; cbn [rbind] in Hg; try discriminate.
    rewrite (r_cfg_j _ _ _ HR), Ha in Hg. inversion Hg; clear Hg.
    specialize (Hsteps sss se eq_refl).
    unfold spec_with. rewrite (r_cfg_sp _ _ _ HR), Ha.
    rewrite den_RBoxPin, den_RAsyncMove. f_equal. f_equal. rewrite <- bind_assoc. f_equal.
    unfold run_with. rewrite (r_handler _ _ _ HR).
    cbn [app]. rewrite execs_cons, exec_SUseFutures. nb. rewrite !execs_app. nb.
    pose proof (Inv_init_async Ha) as HI0.
    assert (E1 : forall A (K : env -> comp A),
               bind (execs (if is_spawn cfg then [SSpawnTokioFn (opt_default (j_fcp j) [])] else []) empty_env) K
               = K (if is_spawn cfg then upd empty_env n_spawn_tokio DSpawnTokio else empty_env)).
    { intros A K. destruct (is_spawn cfg); cbn [execs]; [rewrite exec_SSpawnTokioFn|]; nb; reflexivity. }
    rewrite E1. set (ρ1 := if is_spawn cfg then upd empty_env n_spawn_tokio DSpawnTokio else empty_env) in *.
    assert (Hfin : forall ρ2 hd, Inv ρ2 st0 -> (j_handler j <> None -> ρ2 n_h = Some hd) ->
              (let! ρ' := execs [SLet (PIdent n_rs) (RBlock sss se)] ρ2 in D (gen_handle j) ρ') =
              (let! rs := S st0 in
               handle_results callsem awaitsem sp
                 (match j_handler j with Some (k, _) => Some (k, hd) | None => None end) rs)).
    { intros ρ2 hd HI2 Hh. cbn [execs]. rewrite exec_SLet_ident, (Hsteps ρ2 st0 HI2). nb. apply bind_ext. intros rs. nb.
      apply gen_handle_async; [exact Ha|apply upd_same|].
      intros Hn. rewrite upd_other; [apply Hh; exact Hn|]. rewrite n_h_g, n_rs_g. apply gname_neq. discriminate. }
    destruct (j_handler j) as [[hk ho]|] eqn:Eh.
    - cbn [app]. rewrite execs_cons, exec_SLet_ident, den_RUser. nb. cbn [bind].
      rewrite (snap_inv ρ1 st0 HI0). apply Vis_ext. intros v. nb.
      apply (Hfin (upd ρ1 n_h (DV v)) (DV v)).
      + apply Inv_upd_temp; [exact HI0|apply temp_h].
      + intros _. apply upd_same.
    - cbn [app]. nb.
      apply (Hfin ρ1 (DV VUnit) HI0). congruence.
  Qed.

  Theorem gen_output_async e :
    is_async cfg = true ->
    (forall ss se, gen_steps j pats vars 0 (j_max j) = Ok (Some (ss, se)) ->
                   forall ρ st, Inv ρ st -> D (RBlock ss se) ρ = steps msem dotsem callsem awaitsem sp (j_max j) 0 st) ->
    gen_output j = Ok e ->
    D e empty_env = spec msem dotsem callsem awaitsem sp.
  Proof.
    intros Ha Hsteps Hg.
    change (spec msem dotsem callsem awaitsem sp)
      with (spec_with (steps msem dotsem callsem awaitsem sp (max_depth sp) 0)).
    rewrite (rel_max _ _ _ HR). apply gen_output_async_gen; assumption.
  Qed.
End Steps.
