From Coq Require Import List String Ascii Bool Arith Lia DecimalString Decimal DecimalNat.
From Join Require Import Tok Names.

(* Tok.v opens string_scope, in which `<=?` is String.leb; put nat_scope back on top so that
   the numeric comparisons in is_digit parse as Nat.leb (string literals are unaffected). *)
Local Open Scope nat_scope.

(* ---------- decimal printing ---------- *)

Lemma dec_inj : forall a b, dec a = dec b -> a = b.
Proof.
  unfold dec. intros a b H.
  apply (f_equal NilEmpty.uint_of_string) in H.
  rewrite !NilEmpty.usu in H. injection H as H.
  apply (f_equal Nat.of_uint) in H.
  rewrite !DecimalNat.Unsigned.of_to in H. exact H.
Qed.

(* every character of dec n is a decimal digit, and dec n is not empty *)
Definition is_digit (c : ascii) : bool := (48 <=? nat_of_ascii c) && (nat_of_ascii c <=? 57).
Fixpoint all_digits (s : string) : bool := match s with EmptyString => true | String c r => is_digit c && all_digits r end.

Lemma uint_digits : forall d, all_digits (NilEmpty.string_of_uint d) = true.
Proof.
  induction d; cbn [NilEmpty.string_of_uint all_digits]; try reflexivity;
    rewrite IHd; reflexivity.
Qed.

Lemma dec_digits : forall n, all_digits (dec n) = true.
Proof. intro n. unfold dec. apply uint_digits. Qed.

Lemma dec_nonempty : forall n, dec n <> EmptyString.
Proof.
  intros n H.
  assert (E : Nat.to_uint n = Nil).
  { unfold dec in H. destruct (Nat.to_uint n); cbn in H; try discriminate H. reflexivity. }
  apply (f_equal Nat.of_uint) in E.
  rewrite DecimalNat.Unsigned.of_to in E. cbn in E. subst n.
  vm_compute in H. discriminate H.
Qed.

(* the first character of dec n is a digit *)
Lemma dec_head : forall n, exists c r, dec n = String c r /\ is_digit c = true /\ all_digits r = true.
Proof.
  intro n. pose proof (dec_digits n) as D. pose proof (dec_nonempty n) as N.
  destruct (dec n) as [|c r]; [congruence|].
  cbn in D. apply andb_true_iff in D. destruct D as [D1 D2].
  exists c, r. auto.
Qed.

Local Opaque dec.

(* ---------- single-index names ---------- *)

Lemma n_r_inj : forall i j, n_r i = n_r j -> i = j.
Proof. unfold n_r. intros i j H. cbn in H. injection H as H. apply dec_inj; exact H. Qed.

Lemma n_sr_inj : forall i j, n_sr i = n_sr j -> i = j.
Proof. unfold n_sr. intros i j H. cbn in H. injection H as H. apply dec_inj; exact H. Qed.

Lemma n_j_inj : forall i j, n_j i = n_j j -> i = j.
Proof. unfold n_j. intros i j H. cbn in H. injection H as H. apply dec_inj; exact H. Qed.

(* ---------- the expression-wrapper name ---------- *)

Lemma underscore_not_digit : is_digit "_"%char = false.
Proof. reflexivity. Qed.

Lemma digits_sep_inj : forall s s' r r',
  all_digits s = true -> all_digits s' = true ->
  s +++ String "_" r = s' +++ String "_" r' -> s = s' /\ r = r'.
Proof.
  induction s as [|c s IH]; intros [|c' s'] r r' D D' H; cbn in *.
  - injection H as H. auto.
  - injection H as Hc _. subst c'.
    rewrite underscore_not_digit in D'. discriminate D'.
  - injection H as Hc _. subst c.
    rewrite underscore_not_digit in D. discriminate D.
  - injection H as Hc H. subst c'.
    apply andb_true_iff in D. apply andb_true_iff in D'.
    destruct D as [_ D]. destruct D' as [_ D'].
    destruct (IH s' r r' D D' H) as [-> ->]. auto.
Qed.

Lemma n_ew_inj : forall b e i b' e' i', n_ew b e i = n_ew b' e' i' -> b = b' /\ e = e' /\ i = i'.
Proof.
  unfold n_ew. intros b e i b' e' i' H. cbn in H. injection H as H.
  apply digits_sep_inj in H; try apply dec_digits. destruct H as [Hb H].
  apply digits_sep_inj in H; try apply dec_digits. destruct H as [He Hi].
  repeat split; apply dec_inj; assumption.
Qed.

(* ---------- a tagged description of every generated name ---------- *)

Inductive gname := GR (i : nat) | GSR (k : nat) | GJ (i : nat) | GEW (b e i : nat)
                 | GV | GH | GRS | GInspect | GTb | GSpawnTokio | GHandlerTmp | GFailIndex | GFuture.
Definition gname_str (g : gname) : string :=
  match g with
  | GR i => n_r i | GSR k => n_sr k | GJ i => n_j i | GEW b e i => n_ew b e i
  | GV => n_v | GH => n_h | GRS => n_rs | GInspect => n_inspect | GTb => n_tb
  | GSpawnTokio => n_spawn_tokio | GHandlerTmp => n_handler_tmp | GFailIndex => n_fail_index | GFuture => n_future
  end.

(* H : ... dec i ... = literal (or symmetric), where after stripping the common literal
   prefix the head of dec i faces a non-digit character or the end of the string *)
Ltac head_clash H i :=
  let c := fresh "c" in let r := fresh "r" in
  let E := fresh "E" in let D := fresh "D" in let D' := fresh "D'" in
  destruct (dec_head i) as (c & r & E & D & D');
  rewrite E in H; cbn in H;
  first [ discriminate H
        | injection H; intros; subst; vm_compute in D; discriminate D ].

Lemma gen_names_distinct : forall g g', gname_str g = gname_str g' -> g = g'.
Proof.
  intros g g' H.
  destruct g, g'; cbn [gname_str] in H;
    try reflexivity;
    try (apply n_r_inj in H; subst; reflexivity);
    try (apply n_sr_inj in H; subst; reflexivity);
    try (apply n_j_inj in H; subst; reflexivity);
    try (apply n_ew_inj in H; destruct H as (-> & -> & ->); reflexivity);
    unfold n_r, n_sr, n_j, n_ew, n_v, n_h, n_rs, n_inspect, n_tb, n_spawn_tokio,
           n_handler_tmp, n_fail_index, n_future in H;
    cbn in H;
    try discriminate H;
    match type of H with
    | context [dec ?i] => head_clash H i
    end.
Qed.

(* every generated name starts with two underscores *)
Lemma gen_name_prefix : forall g, String.prefix "__" (gname_str g) = true.
Proof. destruct g; reflexivity. Qed.

(* hence a user identifier that does not start with "__" differs from every generated name *)
Lemma user_name_not_gen : forall x g, String.prefix "__" x = false -> x <> gname_str g.
Proof.
  intros x g Hx E. subst x. rewrite gen_name_prefix in Hx. discriminate Hx.
Qed.

(* boolean forms, convenient for rewriting inside `if String.eqb ..` *)
Lemma gname_eqb_neq : forall g g', g <> g' -> String.eqb (gname_str g) (gname_str g') = false.
Proof.
  intros g g' N. apply String.eqb_neq. intro E. apply N. apply gen_names_distinct; exact E.
Qed.

Lemma user_gname_eqb : forall x g, String.prefix "__" x = false -> String.eqb x (gname_str g) = false /\ String.eqb (gname_str g) x = false.
Proof.
  intros x g Hx. pose proof (user_name_not_gen x g Hx) as N.
  split; apply String.eqb_neq; congruence.
Qed.

Print Assumptions n_ew_inj.
Print Assumptions gen_names_distinct.
