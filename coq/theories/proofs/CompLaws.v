(* Monad laws for comp.  The only axiom of the development enters here:
   functional extensionality (Coq stdlib), because continuations are functions. *)
From Coq Require Import FunctionalExtensionality.
From Join Require Import Tok Comp.

Lemma bind_ret_l {A B} (a : A) (f : A -> comp B) : bind (Ret a) f = f a.
Proof. reflexivity. Qed.

Lemma bind_ret_r {A} (c : comp A) : bind c (fun x => Ret x) = c.
Proof.
  induction c as [A a|A n|A e k IH|A name t IHt k IH|A h k IH]; cbn; try reflexivity;
    f_equal; extensionality x; apply IH.
Qed.

Lemma bind_assoc {A B C} (c : comp A) (f : A -> comp B) (g : B -> comp C) :
  bind (bind c f) g = bind c (fun x => bind (f x) g).
Proof.
  revert B C f g. induction c as [A a|A n|A e k IH|A name t IHt k IH|A h k IH]; cbn; try reflexivity;
    intros; f_equal; extensionality x; apply IH.
Qed.

Lemma bind_ext {A B} (c : comp A) (f g : A -> comp B) :
  (forall x, f x = g x) -> bind c f = bind c g.
Proof. intros H. f_equal. extensionality x. apply H. Qed.

Lemma bind_panic {A B} n (f : A -> comp B) : bind (Panic n) f = Panic n.
Proof. reflexivity. Qed.

Lemma mapM_app {A B} (f : A -> comp B) (l1 l2 : list A) :
  mapM f (l1 ++ l2) = bind (mapM f l1) (fun a => bind (mapM f l2) (fun b => Ret (a ++ b))).
Proof.
  induction l1 as [|x l1 IH]; cbn [mapM app].
  - cbn. symmetry. apply bind_ret_r.
  - rewrite IH. rewrite !bind_assoc. apply bind_ext; intros y.
    rewrite !bind_assoc. apply bind_ext; intros ys. cbn.
    rewrite bind_assoc. apply bind_ext; intros zs. reflexivity.
Qed.
