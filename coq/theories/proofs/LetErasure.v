(* C12, second half: "writing `let [mut] name =` in front of a branch does not change the macro's result".

   In the reference semantics (Spec.v) the `let` names of a program are used in exactly one way: they
   decide what the *snapshot* `snap_of st` contains, and a snapshot is (a) attached to every
   user-expression event `EEval o sn` and (b) handed to `dotsem o sn r`.  This file proves that nothing
   else depends on them: after erasing the snapshots carried by events, the computation of a program
   is THE SAME TREE whatever its names are (same events, same order, same callback arguments, same
   spawned threads, same final result, whatever the world answers).

   Contents
     1. `erase`, `strip`, the relation `ceq R` ("equal up to snapshots, results related by R"),
        `erase_bind`, `ceq eq c c' <-> erase c = erase c'`.
     2. `deq`: two denotable values are equal up to the snapshots inside the closures / futures they hold.
     3. the hypotheses on the user-code semantics (section LetErasure) and the main theorems
        `names_irrelevant`, `let_erasure` (relational form, all 8 configurations), and as equations
        `let_erasure_completed`, `let_erasure_sync`, `let_erasure_async`, `let_erasure_erase_d`.
     4. corollaries with `leaves`: `let_erasure_leaves`, `let_erasure_leaves_completed`.
     5. the concrete world of Concrete.v satisfies the hypotheses (`let_erasure_concrete`); a world whose
        answers do not depend on snapshots cannot tell the two programs apart (`let_erasure_run_show`,
        `let_erasure_spec_run`); non-vacuity examples computed by vm_compute; `hypothesis_needed`: the
        parametricity hypothesis on `msem` cannot be dropped.
   Axioms: functional_extensionality_dep only (continuations are functions). *)
From Coq Require Import ZArith Lia FunctionalExtensionality.
From Join Require Import Tok Names Ast Comp Std Denote Spec CompLaws Leaves.

(* ------------------------------------------------------------------------------------------ *)
(* 1. erasing snapshots                                                                       *)
(* ------------------------------------------------------------------------------------------ *)

Definition erase_ev (e : ev) : ev :=
  match e with EEval o _ => EEval o [] | ECall f args => ECall f args | EThreadName => EThreadName end.

(* `comp` has the non-uniform constructor `Spawn name (t : comp val) k`: polymorphic recursion *)
Fixpoint erase {A} (c : comp A) : comp A :=
  match c with
  | Ret a => Ret a
  | Panic n => Panic n
  | Vis e k => Vis (erase_ev e) (fun v => erase (k v))
  | Spawn name t k => Spawn name (erase t) (fun h => erase (k h))
  | Join h k => Join h (fun r => erase (k r))
  end.

Lemma erase_ev_idem e : erase_ev (erase_ev e) = erase_ev e.
Proof. destruct e; reflexivity. Qed.

Lemma erase_idem {A} (c : comp A) : erase (erase c) = erase c.
Proof.
  induction c as [A a|A n|A e k IH|A name t IHt k IH|A h k IH]; cbn; try reflexivity.
  - rewrite erase_ev_idem. f_equal. extensionality v. apply IH.
  - rewrite IHt. f_equal. extensionality v. apply IH.
  - f_equal. extensionality v. apply IH.
Qed.

Lemma erase_bind {A B} (c : comp A) (f : A -> comp B) :
  erase (bind c f) = bind (erase c) (fun x => erase (f x)).
Proof.
  revert B f. induction c as [A a|A n|A e k IH|A name t IHt k IH|A h k IH]; intros B f; cbn; try reflexivity;
    f_equal; extensionality x; apply IH.
Qed.

(* the same program without its `let` names *)
Definition strip (sp : sprog) : sprog :=
  {| sp_cfg := sp_cfg sp; sp_names := map (fun _ => None) (sp_names sp);
     sp_trees := sp_trees sp; sp_handler := sp_handler sp |}.

(* `ceq R c c'`: c and c' are the same tree up to the snapshots carried by `EEval` events (also inside
   spawned threads), and the results at corresponding leaves are related by R. *)
Fixpoint ceq {A B} (R : A -> B -> Prop) (c : comp A) (c' : comp B) {struct c} : Prop :=
  match c, c' with
  | Ret a, Ret b => R a b
  | Panic n, Panic m => n = m
  | Vis e k, Vis e' k' => erase_ev e = erase_ev e' /\ forall v, ceq R (k v) (k' v)
  | Spawn name t k, Spawn name' t' k' => name = name' /\ ceq (@eq val) t t' /\ forall h, ceq R (k h) (k' h)
  | Join h k, Join h' k' => h = h' /\ forall r, ceq R (k r) (k' r)
  | _, _ => False
  end.

Lemma ceq_bind {A B A' B'} (R : A -> A' -> Prop) (S : B -> B' -> Prop) (c : comp A) (c' : comp A')
      (f : A -> comp B) (g : A' -> comp B') :
  ceq R c c' -> (forall a a', R a a' -> ceq S (f a) (g a')) -> ceq S (bind c f) (bind c' g).
Proof.
  revert A' B B' R S c' f g.
  induction c as [A a|A n|A e k IH|A name t IHt k IH|A h k IH]; intros A' B B' R S c' f g H Hf;
    destruct c' as [a'|n'|e' k'|name' t' k'|h' k']; cbn in H; try contradiction; cbn [bind].
  - apply Hf, H.
  - exact H.
  - destruct H as [He Hk]. split; [exact He|]. intros v. eapply IH; [apply Hk|exact Hf].
  - destruct H as (Hn & Ht & Hk). repeat split; [exact Hn|exact Ht|]. intros v. eapply IH; [apply Hk|exact Hf].
  - destruct H as [Hh Hk]. split; [exact Hh|]. intros v. eapply IH; [apply Hk|exact Hf].
Qed.

Lemma ceq_mono {A B} (R R' : A -> B -> Prop) (c : comp A) (c' : comp B) :
  (forall a b, R a b -> R' a b) -> ceq R c c' -> ceq R' c c'.
Proof.
  revert B R R' c'.
  induction c as [A a|A n|A e k IH|A name t IHt k IH|A h k IH]; intros B R R' c' HR H;
    destruct c' as [a'|n'|e' k'|name' t' k'|h' k']; cbn in H |- *; try contradiction; auto.
  - destruct H as [He Hk]. split; [exact He|]. intros v. eapply IH; [exact HR|apply Hk].
  - destruct H as (Hn & Ht & Hk). repeat split; auto. intros v. eapply IH; [exact HR|apply Hk].
  - destruct H as [Hh Hk]. split; [exact Hh|]. intros v. eapply IH; [exact HR|apply Hk].
Qed.

Lemma ceq_refl {A} (R : A -> A -> Prop) (c : comp A) : (forall a, R a a) -> ceq R c c.
Proof.
  induction c as [A a|A n|A e k IH|A name t IHt k IH|A h k IH]; intros HR; cbn; auto.
Qed.

Lemma ceq_sym {A B} (R : A -> B -> Prop) (c : comp A) (c' : comp B) :
  ceq R c c' -> ceq (fun b a => R a b) c' c.
Proof.
  revert B R c'.
  induction c as [A a|A n|A e k IH|A name t IHt k IH|A h k IH]; intros B R c' H;
    destruct c' as [a'|n'|e' k'|name' t' k'|h' k']; cbn in H |- *; try contradiction; auto.
  - destruct H as [He Hk]. split; [auto|]. intros v. apply IH, Hk.
  - destruct H as (Hn & Ht & Hk). split; [auto|split].
    + apply IHt in Ht. eapply ceq_mono; [|exact Ht]. cbn. auto.
    + intros v. apply IH, Hk.
  - destruct H as [Hh Hk]. split; [auto|]. intros v. apply IH, Hk.
Qed.

Lemma ceq_trans {A B C} (R : A -> B -> Prop) (S : B -> C -> Prop) (c1 : comp A) (c2 : comp B) (c3 : comp C) :
  ceq R c1 c2 -> ceq S c2 c3 -> ceq (fun a c => exists b, R a b /\ S b c) c1 c3.
Proof.
  revert B C R S c2 c3.
  induction c1 as [A a|A n|A e k IH|A name t IHt k IH|A h k IH]; intros B C R S c2 c3 H1 H2;
    destruct c2 as [a2|n2|e2 k2|name2 t2 k2|h2 k2]; cbn in H1; try contradiction;
    destruct c3 as [a3|n3|e3 k3|name3 t3 k3|h3 k3]; cbn in H2 |- *; try contradiction.
  - eauto.
  - congruence.
  - destruct H1 as [He1 Hk1], H2 as [He2 Hk2]. split; [congruence|]. intros v. eapply IH; [apply Hk1|apply Hk2].
  - destruct H1 as (Hn1 & Ht1 & Hk1), H2 as (Hn2 & Ht2 & Hk2). split; [congruence|split].
    + eapply ceq_mono; [|eapply IHt; [exact Ht1|exact Ht2]]. cbn. intros a b (x & -> & ->). reflexivity.
    + intros v. eapply IH; [apply Hk1|apply Hk2].
  - destruct H1 as [Hh1 Hk1], H2 as [Hh2 Hk2]. split; [congruence|]. intros v. eapply IH; [apply Hk1|apply Hk2].
Qed.

(* at result type with equality, `ceq` IS equality after erasure (functional extensionality) *)
Lemma ceq_erase {A} (c c' : comp A) : ceq eq c c' -> erase c = erase c'.
Proof.
  revert c'. induction c as [A a|A n|A e k IH|A name t IHt k IH|A h k IH]; intros c' H;
    destruct c' as [a'|n'|e' k'|name' t' k'|h' k']; cbn in H; try contradiction; cbn [erase].
  - congruence.
  - congruence.
  - destruct H as [He Hk]. rewrite He. f_equal. extensionality v. apply IH, Hk.
  - destruct H as (Hn & Ht & Hk). rewrite Hn, (IHt _ Ht). f_equal. extensionality v. apply IH, Hk.
  - destruct H as [Hh Hk]. rewrite Hh. f_equal. extensionality v. apply IH, Hk.
Qed.

Lemma erase_ceq {A} (c c' : comp A) : erase c = erase c' -> ceq eq c c'.
Proof.
  revert c'. induction c as [A a|A n|A e k IH|A name t IHt k IH|A h k IH]; intros c' H;
    destruct c' as [a'|n'|e' k'|name' t' k'|h' k']; cbn in H; try discriminate; cbn [ceq].
  - congruence.
  - congruence.
  - injection H as He Hk. split; [exact He|]. intros v. apply IH.
    exact (f_equal (fun f => f v) Hk).
  - injection H as Hn Ht Hk. repeat split; auto. intros v. apply IH.
    exact (f_equal (fun f => f v) Hk).
  - injection H as Hh Hk. split; [exact Hh|]. intros v. apply IH.
    exact (f_equal (fun f => f v) Hk).
Qed.

Lemma ceq_eq_refl {A} (c : comp A) : ceq eq c c.
Proof. apply ceq_refl. reflexivity. Qed.

Lemma ceq_erase_l {A} (c : comp A) : ceq eq (erase c) c.
Proof. apply erase_ceq, erase_idem. Qed.

Lemma ceq_bind_eq {A B B'} (S : B -> B' -> Prop) (c c' : comp A) (f : A -> comp B) (g : A -> comp B') :
  ceq eq c c' -> (forall a, ceq S (f a) (g a)) -> ceq S (bind c f) (bind c' g).
Proof. intros H Hf. eapply ceq_bind; [exact H|]. intros a a' <-. apply Hf. Qed.

(* ------------------------------------------------------------------------------------------ *)
(* 2. denotable values up to snapshots                                                        *)
(* ------------------------------------------------------------------------------------------ *)

(* Denotable values contain computations (closures, fn items, futures), hence events, hence snapshots.
   `deq d d'`: the same value, and the computations inside are equal after erasure.  `dval` is not
   recursive (closures return plain `val`s), so this is a plain case distinction; for fn items, whose
   parameters may themselves be closures, it is the usual "related arguments to related results". *)
Inductive carg_eq : carg -> carg -> Prop :=
| carg_eq_V v : carg_eq (CV v) (CV v)
| carg_eq_F f g : (forall vs, erase (f vs) = erase (g vs)) -> carg_eq (CF f) (CF g).

Inductive deq : dval -> dval -> Prop :=
| deq_V v : deq (DV v) (DV v)
| deq_F f g : (forall vs, erase (f vs) = erase (g vs)) -> deq (DF f) (DF g)
| deq_Fn f g : (forall cs cs', Forall2 carg_eq cs cs' -> erase (f cs) = erase (g cs')) -> deq (DFn f) (DFn g)
| deq_Fut c c' : erase c = erase c' -> deq (DFut c) (DFut c')
| deq_Builder n : deq (DBuilder n) (DBuilder n)
| deq_Tb : deq DTb DTb
| deq_SpawnTokio : deq DSpawnTokio DSpawnTokio.

Inductive orel {A B} (R : A -> B -> Prop) : option A -> option B -> Prop :=
| orel_None : orel R None None
| orel_Some a b : R a b -> orel R (Some a) (Some b).

Ltac inv H := inversion H; subst; clear H.

Lemma deq_F_ceq f g : (forall vs, ceq eq (f vs) (g vs)) -> deq (DF f) (DF g).
Proof. intros H. constructor. intros vs. apply ceq_erase, H. Qed.
Lemma deq_Fut_ceq c c' : ceq eq c c' -> deq (DFut c) (DFut c').
Proof. intros H. constructor. apply ceq_erase, H. Qed.

Lemma to_val_ceq d d' : deq d d' -> ceq eq (to_val d) (to_val d').
Proof. intros H; inv H; cbn; reflexivity. Qed.

Lemma all_vals_deq ds ds' : Forall2 deq ds ds' -> all_vals ds = all_vals ds'.
Proof.
  induction 1 as [|d d' ds ds' H _ IH]; cbn; [reflexivity|]. inv H; try reflexivity. rewrite IH. reflexivity.
Qed.

Lemma all_cargs_deq ds ds' : Forall2 deq ds ds' -> orel (Forall2 carg_eq) (all_cargs ds) (all_cargs ds').
Proof.
  induction 1 as [|d d' ds ds' H _ IH]; cbn; [repeat constructor|].
  inv H; try constructor; inv IH; constructor; constructor; auto; constructor; auto.
Qed.

Lemma mapM_ceq {A A' B B'} (R : A -> A' -> Prop) (S : B -> B' -> Prop) (f : A -> comp B) (g : A' -> comp B') l l' :
  Forall2 R l l' -> (forall x x', R x x' -> ceq S (f x) (g x')) -> ceq (Forall2 S) (mapM f l) (mapM g l').
Proof.
  intros H Hf. induction H as [|x x' l l' Hx _ IH]; cbn [mapM].
  - cbn. constructor.
  - eapply ceq_bind; [apply Hf, Hx|]. intros y y' Hy.
    eapply ceq_bind; [exact IH|]. intros ys ys' Hys. cbn. constructor; assumption.
Qed.

Lemma Forall2_eq_refl {A} (l : list A) : Forall2 eq l l.
Proof. induction l; constructor; auto. Qed.
Lemma Forall2_eq {A} (l l' : list A) : Forall2 eq l l' -> l = l'.
Proof. induction 1; congruence. Qed.

Lemma mapM_ceq_eq {A B} (f g : A -> comp B) l :
  (forall x, ceq eq (f x) (g x)) -> ceq eq (mapM f l) (mapM g l).
Proof.
  intros H. eapply ceq_mono; [|eapply mapM_ceq with (R := eq) (S := eq); [apply Forall2_eq_refl|]].
  - intros a b. apply Forall2_eq.
  - intros x x' <-. apply H.
Qed.

Section StdErase.
  Variable awaitsem : val -> comp val.

  Lemma await_d_ceq d d' : deq d d' -> ceq eq (await_d awaitsem d) (await_d awaitsem d').
  Proof. intros H; inv H; cbn [await_d]; try reflexivity; try apply ceq_eq_refl. apply erase_ceq; assumption. Qed.

  Lemma join_seq_ceq ds ds' : Forall2 deq ds ds' -> ceq eq (join_seq awaitsem ds) (join_seq awaitsem ds').
  Proof.
    intros H. unfold join_seq. eapply ceq_bind; [eapply mapM_ceq with (S := eq); [exact H|apply await_d_ceq]|].
    intros vs vs' Hvs. apply Forall2_eq in Hvs. subst. reflexivity.
  Qed.

  Lemma try_join_seq_ceq ds ds' : Forall2 deq ds ds' ->
    forall acc, ceq eq (try_join_seq awaitsem ds acc) (try_join_seq awaitsem ds' acc).
  Proof.
    induction 1 as [|d d' ds ds' H _ IH]; intros acc; cbn [try_join_seq]; [reflexivity|].
    apply ceq_bind_eq; [apply await_d_ceq, H|]. intros v. destruct v; try reflexivity. apply IH.
  Qed.

  Lemma std_map_ceq r r' f g : deq r r' -> (forall vs, ceq eq (f vs) (g vs)) ->
    ceq deq (std_map r f) (std_map r' g).
  Proof.
    intros H Hf. inv H; cbn [std_map]; try reflexivity.
    - destruct v; try reflexivity; try (cbn; constructor);
        (apply ceq_bind_eq; [apply Hf|]; intros w; cbn; constructor).
    - cbn. apply deq_Fut_ceq. apply ceq_bind_eq; [apply erase_ceq; assumption|]. intros v. apply Hf.
  Qed.

  Lemma std_and_then_ceq r r' f g : deq r r' -> (forall vs, ceq eq (f vs) (g vs)) ->
    ceq deq (std_and_then awaitsem r f) (std_and_then awaitsem r' g).
  Proof.
    intros H Hf. inv H; cbn [std_and_then]; try reflexivity.
    - destruct v; try reflexivity; try (cbn; constructor);
        (apply ceq_bind_eq; [apply Hf|]; intros w; cbn; constructor).
    - cbn. apply deq_Fut_ceq. apply ceq_bind_eq; [apply erase_ceq; assumption|]. intros v.
      destruct v; try reflexivity. apply ceq_bind_eq; [apply Hf|]. intros w. apply ceq_eq_refl.
  Qed.

  Lemma std_unwrap_ceq r r' : deq r r' -> ceq deq (std_unwrap r) (std_unwrap r').
  Proof. intros H. inv H; cbn [std_unwrap]; try reflexivity. destruct v; try reflexivity; cbn; constructor. Qed.
End StdErase.

Lemma thread_builder_ceq i : ceq deq (thread_builder i) (thread_builder i).
Proof. cbn. split; [reflexivity|]. intros v. destruct (tb_name v i); cbn; [constructor|reflexivity]. Qed.

(* ------------------------------------------------------------------------------------------ *)
(* 3. the names of a program only reach snapshots                                             *)
(* ------------------------------------------------------------------------------------------ *)

Lemma Forall2_deq_DV vs : Forall2 deq (map DV vs) (map DV vs).
Proof. induction vs; cbn; constructor; auto. constructor. Qed.

Section LetErasure.
  Variable msem : string -> option (list operand) -> dval -> list dval -> comp dval.
  Variable dotsem : operand -> list (string * option val) -> dval -> comp dval.
  Variable callsem : val -> list dval -> comp dval.
  Variable awaitsem : val -> comp val.

  (* HYPOTHESES on the user-code semantics.  Each of them says: user code cannot observe HOW a value it
     is given is implemented - in particular not which snapshot the events inside a callback / future
     would carry - only what it does.  They are parametricity statements: related inputs (`deq`: equal
     up to snapshots inside closures and futures) give related computations (`ceq deq`: the same events
     in the same order, related results).

     msem_param: a user method `recv.m::<tf>(args)` (Option::map, Iterator::fold, a user trait method..)
       treats the macro-generated closures among its arguments - the wrapper closures `|v| v >>> .. <<<`
       - and a macro-generated future as receiver as black boxes: it can call / poll them, whenever and
       as often as it likes, but the only thing it learns is what they return.  Rust closures and
       futures are opaque, so every method has this property.  The receiver has to be related, not
       equal, because an async chain's receiver is the future built by the previous method from a
       wrapper closure.
     dotsem_param: `recv.<tokens>` where the tokens are opaque to the model.  The snapshot is there so
       that blocks inside the tokens can read `let` names: that is modelled by the EVENTS the dot
       expression emits (they may carry the snapshot), not by its control flow - the world's answer to
       an event is what can depend on a name.  For sn = sn' this is parametricity in the receiver as
       above; for r = r' it is the statement that the snapshot is only forwarded to events.
     callsem_param: calling a user value with generated closures / futures among the arguments (`|> f`
       after a wrapper, a handler): as for msem.
     awaitsem needs no hypothesis: it only ever receives plain values.
     The three hypotheses are satisfied by the concrete world of Concrete.v (section 5), and the one on
     msem cannot be dropped (`hypothesis_needed`).  They are stated with the relation `deq` on both
     sides (inputs related => outputs related), which is the weakest form that composes: the result of
     one method is the receiver of the next, so "equal outputs" could not even be stated (outputs
     contain closures and futures), and "equal inputs" would not cover the second method of a chain. *)
  Hypothesis msem_param : forall m tf r r' ds ds',
    deq r r' -> Forall2 deq ds ds' -> ceq deq (msem m tf r ds) (msem m tf r' ds').
  Hypothesis dotsem_param : forall o sn sn' r r',
    deq r r' -> ceq deq (dotsem o sn r) (dotsem o sn' r').
  Hypothesis callsem_param : forall f ds ds',
    Forall2 deq ds ds' -> ceq deq (callsem f ds) (callsem f ds').

  Notation snapshot := (list (string * option val)).

  (* ---- phase 1: captures ---- *)
  Lemma capture_ops_ceq (sn sn' : snapshot) b e c ops :
    forall i, ceq eq (capture_ops sn b e i c ops) (capture_ops sn' b e i c ops).
  Proof.
    induction ops as [|o r IH]; intros i; cbn [capture_ops]; [reflexivity|].
    destruct (hoistable c o); [|apply IH].
    cbn [ceq]. split; [reflexivity|]. intros v. apply ceq_bind_eq; [apply IH|]. intros; apply ceq_eq_refl.
  Qed.

  Lemma capture_node_ceq (sn sn' : snapshot) b :
    forall n, ceq eq (capture_node sn b n) (capture_node sn' b n).
  Proof.
    fix IH 1. intros [e a|e a inner]; cbn [capture_node].
    - apply capture_ops_ceq.
    - induction inner as [|x r IHr]; [reflexivity|].
      apply ceq_bind_eq; [apply IH|]. intros c1. apply ceq_bind_eq; [apply IHr|]. intros; apply ceq_eq_refl.
  Qed.

  Lemma capture_nodes_ceq (sn sn' : snapshot) b ns :
    ceq eq (capture_nodes sn b ns) (capture_nodes sn' b ns).
  Proof.
    induction ns as [|x r IH]; cbn [capture_nodes]; [reflexivity|].
    apply ceq_bind_eq; [apply capture_node_ceq|]. intros c1. apply ceq_bind_eq; [apply IH|]. intros; apply ceq_eq_refl.
  Qed.

  (* ---- phase 2: the chain ---- *)
  Lemma eval_args_ceq (sn sn' : snapshot) cp b e c ops :
    forall i, ceq (Forall2 deq) (eval_args sn cp b e i c ops) (eval_args sn' cp b e i c ops).
  Proof.
    induction ops as [|o r IH]; intros i; cbn [eval_args]; [cbn; constructor|].
    eapply ceq_bind with (R := deq).
    - destruct (hoistable c o).
      + destruct (lookup_cap cp (b, e, i)); cbn; [constructor|reflexivity].
      + cbn. split; [reflexivity|]. intros v. constructor.
    - intros d d' Hd. eapply ceq_bind; [apply IH|]. intros ds ds' Hds. cbn. constructor; assumption.
  Qed.

  Lemma apply_ceq f f' ds ds' :
    deq f f' -> Forall2 deq ds ds' -> ceq deq (apply callsem f ds) (apply callsem f' ds').
  Proof.
    intros Hf Hds. inv Hf; cbn [apply]; try reflexivity.
    - rewrite <- (all_vals_deq _ _ Hds). destruct (all_vals ds).
      + cbn. split; [reflexivity|]. intros; constructor.
      + apply callsem_param, Hds.
    - rewrite <- (all_vals_deq _ _ Hds). destruct (all_vals ds); [|reflexivity].
      apply ceq_bind_eq; [apply erase_ceq, H|]. intros; cbn; constructor.
    - destruct (all_cargs_deq _ _ Hds) as [|cs cs' Hcs]; [reflexivity|].
      apply ceq_bind_eq; [apply erase_ceq, H, Hcs|]. intros; cbn; constructor.
    - destruct Hds as [|d d' ds ds' Hd Hds]; [reflexivity|].
      inv Hd; destruct Hds; try reflexivity; destruct v; try reflexivity; apply thread_builder_ceq.
    - destruct Hds as [|d d' ds ds' Hd Hds]; [reflexivity|].
      inv Hd; destruct Hds; try reflexivity; cbn; constructor; assumption.
  Qed.

  Lemma inspect_sem_ceq f f' r r' :
    deq f f' -> deq r r' -> ceq deq (inspect_sem callsem f r) (inspect_sem callsem f' r').
  Proof.
    intros Hf Hr. inv Hf; inv Hr; cbn [inspect_sem]; try reflexivity;
      (eapply ceq_bind; [apply apply_ceq; repeat constructor; assumption|]; intros; cbn; try constructor; reflexivity).
  Qed.

  Ltac one_arg H := destruct H as [|? ? ? ? ?Hd [|]]; try reflexivity.

  (* induction over bracket trees *)
  Section NodeInd.
    Variable P : node -> Prop.
    Variable Q : list node -> Prop.
    Hypothesis HA : forall e a, P (NAct e a).
    Hypothesis HW : forall e a inner, Q inner -> P (NWrap e a inner).
    Hypothesis HN : Q [].
    Hypothesis HC : forall x r, P x -> Q r -> Q (x :: r).
    Fixpoint node_nodes_ind (n : node) : P n :=
      match n with
      | NAct e a => HA e a
      | NWrap e a inner =>
          HW e a inner ((fix go (l : list node) : Q l :=
                           match l with [] => HN | x :: r => HC x r (node_nodes_ind x) (go r) end) inner)
      end.
  End NodeInd.

  Definition wrap_clo async (sn : snapshot) cp b inner : dval :=
    DF (fun vs => match vs with
                  | [v] => let! d := sem_nodes msem dotsem callsem async sn cp b inner (Ret (DV v)) in to_val d
                  | _ => Panic P_ILLTYPED end).

  Lemma sem_node_wrap async (sn : snapshot) cp b e a inner recv :
    sem_node msem dotsem callsem async sn cp b (NWrap e a inner) recv =
    match a_comb a with
    | Inspect => if async then let! r := recv in msem "inspect" None r [wrap_clo async sn cp b inner]
                 else let! r := recv in inspect_sem callsem (wrap_clo async sn cp b inner) r
    | c => let! r := recv in msem (doc_method c) None r [wrap_clo async sn cp b inner]
    end.
  Proof. reflexivity. Qed.

  Lemma sem_node_ceq async (sn sn' : snapshot) cp b :
    forall n recv recv', ceq deq recv recv' ->
      ceq deq (sem_node msem dotsem callsem async sn cp b n recv) (sem_node msem dotsem callsem async sn' cp b n recv').
  Proof.
    intros n.
    induction n as [e a|e a inner IHinner| |x t IHx IHt] using node_nodes_ind
      with (Q := fun l => forall recv recv', ceq deq recv recv' ->
                   ceq deq (sem_nodes msem dotsem callsem async sn cp b l recv)
                           (sem_nodes msem dotsem callsem async sn' cp b l recv'));
      intros recv recv' Hrecv.
    - cbn [sem_node].
      pose proof (eval_args_ceq sn sn' cp b e (a_comb a) (exprs_of a) 0) as Hargs.
      set (xs := exprs_of a) in *. clearbody xs. set (ty := types_of a). clearbody ty.
      set (aops := a_ops a). clearbody aops.
      destruct (a_comb a);
        try (eapply ceq_bind; [exact Hrecv|]; intros r r' Hr; eapply ceq_bind; [exact Hargs|];
             intros ds ds' Hds; apply msem_param; assumption).
      + (* Dot *) destruct aops as [|o [|]]; try reflexivity.
        eapply ceq_bind; [exact Hrecv|]. intros r r' Hr. apply dotsem_param, Hr.
      + (* Inspect *) destruct async.
        * eapply ceq_bind; [exact Hrecv|]; intros r r' Hr; eapply ceq_bind; [exact Hargs|].
          intros ds ds' Hds. one_arg Hds. apply msem_param; repeat constructor; assumption.
        * eapply ceq_bind; [exact Hargs|]. intros ds ds' Hds. one_arg Hds.
          eapply ceq_bind; [exact Hrecv|]; intros r r' Hr. apply inspect_sem_ceq; assumption.
      + (* Then *) eapply ceq_bind; [exact Hargs|]. intros ds ds' Hds. one_arg Hds.
        eapply ceq_bind; [exact Hrecv|]; intros r r' Hr. apply apply_ceq; repeat constructor; assumption.
      + (* Initial *) eapply ceq_bind; [exact Hargs|]. intros ds ds' Hds. one_arg Hds. exact Hd.
      + (* UNWRAP *) reflexivity.
    - rewrite !sem_node_wrap.
      assert (Hclo : deq (wrap_clo async sn cp b inner) (wrap_clo async sn' cp b inner)).
      { apply deq_F_ceq. intros [|v [|]]; try reflexivity.
        apply ceq_bind with (R := deq); [|intros; apply to_val_ceq; assumption].
        apply IHinner. cbn. constructor. }
      destruct (a_comb a); try destruct async;
        (eapply ceq_bind; [exact Hrecv|]; intros r r' Hr;
         first [apply msem_param; [exact Hr|constructor; [exact Hclo|constructor]] | apply inspect_sem_ceq; assumption]).
    - exact Hrecv.
    - cbn [sem_nodes]. apply IHt. apply IHx, Hrecv.
  Qed.

  Lemma sem_nodes_ceq async (sn sn' : snapshot) cp b l :
    forall recv recv', ceq deq recv recv' ->
      ceq deq (sem_nodes msem dotsem callsem async sn cp b l recv) (sem_nodes msem dotsem callsem async sn' cp b l recv').
  Proof.
    induction l as [|x t IH]; intros recv recv' H; [exact H|].
    cbn [sem_nodes]. apply IH. apply sem_node_ceq, H.
  Qed.

  (* ---- states ---- *)
  Definition steq : state -> state -> Prop := Forall2 (orel deq).

  Lemma steq_nth st st' b : steq st st' -> orel deq (nth b st None) (nth b st' None).
  Proof.
    intros H. revert b. induction H as [|x x' st st' Hx _ IH]; intros [|b]; cbn; try constructor; auto.
  Qed.

  Lemma get_ceq st st' b : steq st st' -> ceq deq (get st b) (get st' b).
  Proof. intros H. unfold get. destruct (steq_nth _ _ b H); cbn; auto. Qed.

  Lemma set1_steq st st' b d d' : steq st st' -> deq d d' -> steq (set1 st b d) (set1 st' b d').
  Proof.
    intros H Hd. revert b. induction H as [|x x' st st' Hx Hst IH]; intros b; cbn [set1]; [constructor|].
    destruct b; constructor; auto. constructor; assumption. apply IH.
  Qed.

  Lemma set_all_steq bs : forall st st' ds ds',
    steq st st' -> Forall2 deq ds ds' -> steq (set_all st bs ds) (set_all st' bs ds').
  Proof.
    induction bs as [|b bs IH]; intros st st' ds ds' H Hds; cbn [set_all]; [exact H|].
    destruct Hds as [|d d' ds ds' Hd Hds]; [exact H|]. apply IH; [apply set1_steq; assumption|exact Hds].
  Qed.

  Lemma vals_tuple_ceq ds ds' : Forall2 deq ds ds' -> ceq deq (vals_tuple ds) (vals_tuple ds').
  Proof.
    intros H. unfold vals_tuple. rewrite <- (all_vals_deq _ _ H). destruct (all_vals ds); cbn; [constructor|reflexivity].
  Qed.

  Lemma extract_ceq acts sr sr' : deq sr sr' -> ceq (Forall2 deq) (extract acts sr) (extract acts sr').
  Proof.
    intros H. unfold extract.
    assert (Hm : ceq (Forall2 deq)
                   match sr with
                   | DV (VTuple vs) => if Nat.eqb (List.length vs) (List.length acts) then Ret (map DV vs) else Panic P_ILLTYPED
                   | _ => Panic P_ILLTYPED end
                   match sr' with
                   | DV (VTuple vs) => if Nat.eqb (List.length vs) (List.length acts) then Ret (map DV vs) else Panic P_ILLTYPED
                   | _ => Panic P_ILLTYPED end).
    { inv H; try reflexivity. destruct v; try reflexivity.
      destruct (Nat.eqb _ _); [|reflexivity]. cbn. apply Forall2_deq_DV. }
    destruct acts as [|b [|]]; try exact Hm. cbn. repeat constructor. exact H.
  Qed.

  Lemma classify_deq d d' : deq d d' -> classify d = classify d'.
  Proof. intros H; inv H; reflexivity. Qed.

  Lemma mapM_classify_deq ds ds' : Forall2 deq ds ds' -> mapM classify ds = mapM classify ds'.
  Proof. induction 1 as [|d d' ds ds' H _ IH]; cbn [mapM]; [reflexivity|]. rewrite (classify_deq _ _ H), IH. reflexivity. Qed.

  Lemma first_false_deq bs : forall ds ds', Forall2 deq ds ds' -> orel deq (first_false bs ds) (first_false bs ds').
  Proof.
    induction bs as [|[|] bs IH]; intros ds ds' H; cbn [first_false]; [constructor| |];
      destruct H; try constructor; auto.
  Qed.

  Lemma rewrap_ceq acts w : ceq (Forall2 deq) (rewrap acts w) (rewrap acts w).
  Proof.
    unfold rewrap.
    assert (Hm : ceq (Forall2 deq)
                   match w with
                   | VTuple ws => mapM (fun i => match nth_error ws i with
                                                 | Some x => Ret (DV (VOk x))
                                                 | None => Panic P_ILLTYPED end) (seq 0 (List.length acts))
                   | _ => Panic P_ILLTYPED end
                   match w with
                   | VTuple ws => mapM (fun i => match nth_error ws i with
                                                 | Some x => Ret (DV (VOk x))
                                                 | None => Panic P_ILLTYPED end) (seq 0 (List.length acts))
                   | _ => Panic P_ILLTYPED end).
    { destruct w; try reflexivity. eapply mapM_ceq with (R := eq); [apply Forall2_eq_refl|].
      intros i ? <-. destruct (nth_error vs i); cbn; [constructor|reflexivity]. }
    destruct acts as [|b [|]]; try exact Hm. cbn. repeat constructor.
  Qed.

  (* ---- what does not mention the names at all ---- *)
  Section Program.
    Variable p : sprog.

    Lemma start_ceq st st' b : steq st st' -> ceq deq (start p st b) (start p st' b).
    Proof.
      intros H. unfold start. destruct (is_async (sp_cfg p)); [|apply get_ceq, H].
      cbn. apply deq_Fut_ceq. eapply ceq_bind; [apply get_ceq, H|]. intros; apply to_val_ceq; assumption.
    Qed.

    Lemma chain_ceq (sn sn' : snapshot) cp k st st' b : steq st st' ->
      ceq deq (chain msem dotsem callsem p sn cp k st b) (chain msem dotsem callsem p sn' cp k st' b).
    Proof. intros H. unfold chain. apply sem_nodes_ceq, start_ceq, H. Qed.

    Lemma captures_ceq (sn sn' : snapshot) k acts : ceq eq (captures p sn k acts) (captures p sn' k acts).
    Proof.
      induction acts as [|b r IH]; cbn [captures]; [reflexivity|].
      apply ceq_bind_eq; [apply capture_nodes_ceq|]. intros c1. apply ceq_bind_eq; [apply IH|]. intros; apply ceq_eq_refl.
    Qed.

    (* one step, under two arbitrary snapshots *)
    Definition step_result_sn (sn : snapshot) (k : nat) (st : state) : comp dval :=
      let cfg := sp_cfg p in
      let acts := actives p k in
      let multi := Nat.ltb 1 (List.length acts) in
      if is_async cfg then
        let! cp := captures p sn k acts in
        if multi then
          let! futs := mapM (fun b => let! d := chain msem dotsem callsem p sn cp k st b in
                                      if is_spawn cfg
                                      then match d with DFut _ | DV _ => Ret d | _ => Panic P_ILLTYPED end
                                      else Ret d) acts in
          let! v := (if is_try cfg then try_join_seq awaitsem futs [] else join_seq awaitsem futs) in
          Ret (DV v)
        else
          match acts with
          | [b] => let! d := chain msem dotsem callsem p sn cp k st b in let! v := await_d awaitsem d in Ret (DV v)
          | _ => Panic P_STUCK
          end
      else if is_spawn cfg && multi then
        let! builders := mapM (fun b => thread_builder (Z.of_nat b)) acts in
        let! cp := captures p sn k acts in
        let! handles := mapM (fun nb => match fst nb with
                                        | DBuilder name =>
                                            let! h := std_spawn name (fun _ => let! d := chain msem dotsem callsem p sn cp k st (snd nb) in to_val d) in
                                            std_unwrap h
                                        | _ => Panic P_ILLTYPED end) (combine builders acts) in
        let! hs := vals_tuple handles in
        let! vs := mapM (fun h => match h with
                                  | VHandle i => let! r := std_join i in let! u := std_unwrap r in to_val u
                                  | _ => Panic P_ILLTYPED end)
                        (match hs with DV (VTuple l) => l | _ => [] end) in
        Ret (DV (VTuple vs))
      else
        let! cp := captures p sn k acts in
        if multi then let! ds := mapM (chain msem dotsem callsem p sn cp k st) acts in vals_tuple ds
        else match acts with
             | [b] => chain msem dotsem callsem p sn cp k st b
             | _ => Panic P_STUCK
             end.

    Lemma step_result_sn_eq k st :
      step_result msem dotsem callsem awaitsem p k st = step_result_sn (snap_of p st) k st.
    Proof. reflexivity. Qed.

    Lemma Forall2_combine {A A' B} (R : A -> A' -> Prop) (l : list A) (l' : list A') (m : list B) :
      Forall2 R l l' -> Forall2 (fun x y => R (fst x) (fst y) /\ snd x = snd y) (combine l m) (combine l' m).
    Proof.
      intros H. revert m. induction H as [|x x' l l' Hx _ IH]; intros [|y m]; cbn; constructor; auto.
    Qed.

    Lemma step_result_sn_ceq (sn sn' : snapshot) k st st' : steq st st' ->
      ceq deq (step_result_sn sn k st) (step_result_sn sn' k st').
    Proof.
      intros H. unfold step_result_sn. cbv zeta.
      destruct (is_async (sp_cfg p)).
      - apply ceq_bind_eq; [apply captures_ceq|]. intros cp.
        destruct (Nat.ltb 1 (List.length (actives p k))).
        + eapply ceq_bind with (R := Forall2 deq).
          * eapply mapM_ceq with (R := eq); [apply Forall2_eq_refl|]. intros b ? <-.
            eapply ceq_bind; [apply chain_ceq, H|]. intros d d' Hd.
            destruct (is_spawn (sp_cfg p)); [|exact Hd]. inv Hd; try reflexivity; cbn; constructor; assumption.
          * intros futs futs' Hf. apply ceq_bind_eq; [|intros; cbn; constructor].
            destruct (is_try (sp_cfg p)); [apply try_join_seq_ceq|apply join_seq_ceq]; exact Hf.
        + destruct (actives p k) as [|b [|]]; try reflexivity.
          eapply ceq_bind; [apply chain_ceq, H|]. intros d d' Hd.
          apply ceq_bind_eq; [apply await_d_ceq, Hd|]. intros; cbn; constructor.
      - destruct (is_spawn (sp_cfg p) && Nat.ltb 1 (List.length (actives p k))).
        + eapply ceq_bind with (R := Forall2 deq).
          { eapply mapM_ceq with (R := eq); [apply Forall2_eq_refl|]. intros b ? <-. apply thread_builder_ceq. }
          intros bs bs' Hbs. apply ceq_bind_eq; [apply captures_ceq|]. intros cp.
          eapply ceq_bind with (R := Forall2 deq).
          { eapply mapM_ceq; [apply Forall2_combine, Hbs|]. intros [d b] [d' b'] [Hd Hb]. cbn in Hd, Hb. subst b'. cbn [fst snd].
            inv Hd; try reflexivity. eapply ceq_bind with (R := deq); [|intros; apply std_unwrap_ceq; assumption].
            cbn. repeat split.
            - eapply ceq_bind; [apply chain_ceq, H|]. intros; apply to_val_ceq; assumption.
            - constructor. }
          intros hs hs' Hhs. eapply ceq_bind; [apply vals_tuple_ceq, Hhs|]. intros t t' Ht.
          apply ceq_bind_eq; [|intros; cbn; constructor].
          assert (match t with DV (VTuple l) => l | _ => [] end = match t' with DV (VTuple l) => l | _ => [] end) as ->
            by (inv Ht; reflexivity).
          apply ceq_eq_refl.
        + apply ceq_bind_eq; [apply captures_ceq|]. intros cp.
          destruct (Nat.ltb 1 (List.length (actives p k))).
          * eapply ceq_bind; [|intros ? ? Hds; apply vals_tuple_ceq, Hds].
            eapply mapM_ceq with (R := eq); [apply Forall2_eq_refl|]. intros b ? <-. apply chain_ceq, H.
          * destruct (actives p k) as [|b [|]]; try reflexivity. apply chain_ceq, H.
    Qed.

    Lemma final_tuple_ceq st st' : steq st st' -> ceq deq (final_tuple p st) (final_tuple p st').
    Proof.
      intros H. unfold final_tuple. eapply ceq_bind with (R := Forall2 deq).
      - eapply mapM_ceq with (R := eq); [apply Forall2_eq_refl|]. intros b ? <-. apply get_ceq, H.
      - intros ds ds' Hds. pose proof (vals_tuple_ceq _ _ Hds) as Hv.
        destruct Hds as [|d d' ds ds' Hd Hds]; [exact Hv|]. destruct Hds; [exact Hd|exact Hv].
    Qed.

    Lemma transpose_ceq bs : forall st st', steq st st' ->
      ceq deq (transpose awaitsem p bs st) (transpose awaitsem p bs st').
    Proof.
      induction bs as [|b r IH]; intros st st' H; [reflexivity|]. cbn [transpose].
      destruct r as [|b2 r].
      - eapply ceq_bind; [apply get_ceq, H|]. intros d d' Hd. apply std_map_ceq; [exact Hd|].
        intros [|v [|]]; try reflexivity.
        eapply ceq_bind; [apply final_tuple_ceq, set1_steq; [exact H|constructor]|]. intros; apply to_val_ceq; assumption.
      - eapply ceq_bind; [apply get_ceq, H|]. intros d d' Hd. apply std_and_then_ceq; [exact Hd|].
        intros [|v [|]]; try reflexivity.
        eapply ceq_bind; [apply IH, set1_steq; [exact H|constructor]|]. intros; apply to_val_ceq; assumption.
    Qed.
  End Program.

  (* ---- the final handler (one program) ---- *)
  Lemma call_handler_ceq p h h' rs rs' : deq h h' -> deq rs rs' ->
    ceq deq (call_handler callsem p h rs) (call_handler callsem p h' rs').
  Proof.
    intros Hh Hrs. unfold call_handler. eapply ceq_bind with (R := Forall2 deq); [|intros; apply apply_ceq; assumption].
    destruct (List.length (sp_trees p)) as [|[|n]].
    - inv Hrs; try reflexivity. destruct v; try reflexivity. destruct (Nat.eqb _ _); [|reflexivity]. cbn. apply Forall2_deq_DV.
    - cbn. repeat constructor. exact Hrs.
    - inv Hrs; try reflexivity. destruct v; try reflexivity. destruct (Nat.eqb _ _); [|reflexivity]. cbn. apply Forall2_deq_DV.
  Qed.

  Lemma handler_clo_ceq p hv hv' : deq hv hv' -> forall vs,
    ceq eq (match vs with
            | [v] => let! d := call_handler callsem p hv (DV v) in to_val d
            | _ => Panic P_ILLTYPED end)
           (match vs with
            | [v] => let! d := call_handler callsem p hv' (DV v) in to_val d
            | _ => Panic P_ILLTYPED end).
  Proof.
    intros H [|v [|]]; try reflexivity.
    eapply ceq_bind; [apply call_handler_ceq; [exact H|constructor]|]. intros; apply to_val_ceq; assumption.
  Qed.

  Lemma handle_results_ceq p k hv hv' rs rs' : deq hv hv' -> deq rs rs' ->
    ceq deq (handle_results callsem awaitsem p (Some (k, hv)) rs) (handle_results callsem awaitsem p (Some (k, hv')) rs').
  Proof.
    intros Hh Hrs. unfold handle_results. destruct k.
    - (* HMap *) destruct (is_async (sp_cfg p)).
      + apply ceq_bind_eq; [apply to_val_ceq, Hrs|]. intros v.
        eapply ceq_bind with (R := deq).
        * apply std_map_ceq; [apply deq_Fut_ceq; reflexivity|]. intros [|r [|]]; try reflexivity.
          eapply ceq_bind; [apply std_map_ceq; [constructor|apply handler_clo_ceq, Hh]|].
          intros; apply to_val_ceq; assumption.
        * intros d d' Hd. apply ceq_bind_eq; [apply await_d_ceq, Hd|]. intros; cbn; constructor.
      + apply std_map_ceq; [exact Hrs|apply handler_clo_ceq, Hh].
    - (* HThen *) eapply ceq_bind; [apply call_handler_ceq; assumption|]. intros d d' Hd.
      destruct (is_async (sp_cfg p)); [|exact Hd].
      apply ceq_bind_eq; [apply await_d_ceq, Hd|]. intros; cbn; constructor.
    - (* HAndThen *) destruct (is_async (sp_cfg p)).
      + apply ceq_bind_eq; [apply to_val_ceq, Hrs|]. intros v.
        eapply ceq_bind with (R := deq).
        * apply std_and_then_ceq; [apply deq_Fut_ceq; reflexivity|apply handler_clo_ceq, Hh].
        * intros d d' Hd. apply ceq_bind_eq; [apply await_d_ceq, Hd|]. intros; cbn; constructor.
      + apply std_and_then_ceq; [exact Hrs|apply handler_clo_ceq, Hh].
  Qed.

  (* ---- two programs that differ only in their names ---- *)
  Section TwoPrograms.
    Variables p p' : sprog.
    Hypothesis Hcfg : sp_cfg p' = sp_cfg p.
    Hypothesis Htrees : sp_trees p' = sp_trees p.
    Hypothesis Hhandler : sp_handler p' = sp_handler p.

    Ltac same := destruct p, p'; cbn in Hcfg, Htrees, Hhandler; subst; reflexivity.

    Lemma actives_same : actives p' = actives p. Proof. same. Qed.
    Lemma active_same : active p' = active p. Proof. same. Qed.
    Lemma max_depth_same : max_depth p' = max_depth p. Proof. same. Qed.
    Lemma final_tuple_same : final_tuple p' = final_tuple p. Proof. same. Qed.
    Lemma transpose_same : transpose awaitsem p' = transpose awaitsem p. Proof. same. Qed.
    Lemma handle_results_same : handle_results callsem awaitsem p' = handle_results callsem awaitsem p. Proof. same. Qed.
    Lemma step_result_same k st :
      step_result msem dotsem callsem awaitsem p' k st = step_result_sn p (snap_of p' st) k st.
    Proof. same. Qed.

    Lemma steps_ceq fuel : forall k st st', steq st st' ->
      ceq deq (steps msem dotsem callsem awaitsem p fuel k st) (steps msem dotsem callsem awaitsem p' fuel k st').
    Proof.
      induction fuel as [|fuel IH]; intros k st st' H; [reflexivity|]. cbn [steps].
      rewrite step_result_same, step_result_sn_eq, actives_same, active_same, Hcfg, Htrees, final_tuple_same, transpose_same.
      eapply ceq_bind; [apply step_result_sn_ceq, H|]. intros sr sr' Hsr.
      destruct (is_try (sp_cfg p)); cbn [negb].
      2:{ eapply ceq_bind; [apply extract_ceq, Hsr|]. intros ds ds' Hds.
          destruct (Nat.eqb fuel 0); [apply final_tuple_ceq|apply IH]; apply set_all_steq; assumption. }
      destruct (is_async (sp_cfg p)); cbn [negb].
      - inv Hsr; try reflexivity. destruct v; try reflexivity.
        + (* Ok *) destruct (Nat.eqb fuel 0).
          * destruct (Nat.ltb 1 _); [|cbn; constructor].
            eapply ceq_bind; [apply extract_ceq; constructor|]. intros ds ds' Hds.
            destruct (filter _ _).
            -- eapply ceq_bind; [apply final_tuple_ceq, set_all_steq; assumption|]. intros t t' Ht.
               apply ceq_bind_eq; [apply to_val_ceq, Ht|]. intros; cbn; constructor.
            -- apply transpose_ceq, set_all_steq; assumption.
          * eapply ceq_bind; [apply rewrap_ceq|]. intros rew rew' Hrew.
            eapply ceq_bind.
            { apply extract_ceq. pose proof (all_vals_deq _ _ Hrew) as Hav.
              destruct Hrew as [|d d' rew rew' Hd Hrew]; [constructor|].
              destruct Hrew; [exact Hd|]. rewrite Hav. constructor. }
            intros ds ds' Hds. apply IH, set_all_steq; assumption.
        + (* Err *) cbn. constructor.
      - eapply ceq_bind; [apply extract_ceq, Hsr|]. intros ds ds' Hds.
        destruct (Nat.eqb fuel 0); [apply transpose_ceq, set_all_steq; assumption|].
        rewrite <- (mapM_classify_deq _ _ Hds). apply ceq_bind_eq; [apply ceq_eq_refl|]. intros oks.
        destruct (first_false_deq oks _ _ Hds) as [|d d' Hd].
        + apply IH, set_all_steq; assumption.
        + apply std_map_ceq; [exact Hd|]. intros; reflexivity.
    Qed.

    Lemma run_body_ceq :
      ceq deq (run_body msem dotsem callsem awaitsem p) (run_body msem dotsem callsem awaitsem p').
    Proof.
      unfold run_body. rewrite max_depth_same, handle_results_same, Hhandler, Htrees.
      assert (Hst0 : steq (map (fun _ => None) (sp_trees p)) (map (fun _ => None) (sp_trees p))).
      { generalize (sp_trees p). intros l. induction l; cbn; constructor; auto. constructor. }
      set (oh := sp_handler p). clearbody oh. destruct oh as [[k o]|].
      - cbn [bind ceq]. split; [reflexivity|]. intros v.
        eapply ceq_bind; [apply steps_ceq, Hst0|]. intros rs rs' Hrs.
        apply handle_results_ceq; [constructor|exact Hrs].
      - cbn [bind]. eapply ceq_bind; [apply steps_ceq, Hst0|]. intros rs rs' Hrs. exact Hrs.
    Qed.

    Lemma spec_ceq :
      ceq deq (spec msem dotsem callsem awaitsem p) (spec msem dotsem callsem awaitsem p').
    Proof.
      unfold spec. rewrite Hcfg. destruct (is_async (sp_cfg p)); [|apply run_body_ceq].
      cbn. apply deq_Fut_ceq. eapply ceq_bind; [apply run_body_ceq|]. intros; apply to_val_ceq; assumption.
    Qed.
  End TwoPrograms.

  (* ---- the theorems ---- *)

  (* The names of a program do not matter at all (renaming included): two programs with the same
     configuration, the same branches and the same handler denote the same computation up to snapshots. *)
  Theorem names_irrelevant (p p' : sprog) :
    sp_cfg p' = sp_cfg p -> sp_trees p' = sp_trees p -> sp_handler p' = sp_handler p ->
    ceq deq (spec msem dotsem callsem awaitsem p) (spec msem dotsem callsem awaitsem p').
  Proof. intros H1 H2 H3. apply spec_ceq; assumption. Qed.

  (* `let name =` in front of branches: all 8 configurations, every program *)
  Theorem let_erasure (sp : sprog) :
    ceq deq (spec msem dotsem callsem awaitsem sp) (spec msem dotsem callsem awaitsem (strip sp)).
  Proof. apply names_irrelevant; reflexivity. Qed.

  (* The same as an EQUATION between erased trees, on completed computations (as in Check.run_top: a sync macro's
     value is used, an async macro's future is polled to completion). *)
  Definition complete (sp : sprog) : comp val :=
    let! d := spec msem dotsem callsem awaitsem sp in
    if is_async (sp_cfg sp) then await_d awaitsem d else to_val d.

  Theorem let_erasure_completed (sp : sprog) : erase (complete sp) = erase (complete (strip sp)).
  Proof.
    apply ceq_erase. unfold complete. eapply ceq_bind; [apply let_erasure|]. intros d d' Hd.
    cbn [strip sp_cfg]. destruct (is_async (sp_cfg sp)); [apply await_d_ceq|apply to_val_ceq]; exact Hd.
  Qed.

  (* sync kinds: the macro is an expression *)
  Theorem let_erasure_sync (sp : sprog) : is_async (sp_cfg sp) = false ->
    erase (let! d := spec msem dotsem callsem awaitsem sp in to_val d) =
    erase (let! d := spec msem dotsem callsem awaitsem (strip sp) in to_val d).
  Proof.
    intros _. apply ceq_erase. eapply ceq_bind; [apply let_erasure|]. intros; apply to_val_ceq; assumption.
  Qed.

  (* async kinds: the macro is a future; nothing happens before it is polled, and polling it does the same *)
  Theorem let_erasure_async (sp : sprog) : is_async (sp_cfg sp) = true ->
    exists c c', spec msem dotsem callsem awaitsem sp = Ret (DFut c) /\
                 spec msem dotsem callsem awaitsem (strip sp) = Ret (DFut c') /\
                 erase c = erase c'.
  Proof.
    intros Ha. pose proof (let_erasure sp) as H. unfold spec in *. cbn [strip sp_cfg] in *. rewrite Ha in *.
    eexists; eexists; split; [reflexivity|split; [reflexivity|]]. cbn in H. inv H. assumption.
  Qed.

  (* `erase_d`: erase the events of the computation AND inside the closure / future it results in.
     (A fn item as the result of a macro is excluded: fn items have closure parameters, so "equal up to
     snapshots" is a relation on them, `deq`, not a normal form.) *)
  Definition derase (d : dval) : dval :=
    match d with DF f => DF (fun vs => erase (f vs)) | DFut c => DFut (erase c) | d => d end.
  Definition erase_d (c : comp dval) : comp dval := erase (let! d := c in Ret (derase d)).

  Lemma ceq_leaves_l {A B} (R : A -> B -> Prop) (Q : A -> Prop) (c : comp A) (c' : comp B) :
    ceq R c c' -> leaves c Q -> ceq (fun a b => R a b /\ Q a) c c'.
  Proof.
    revert B R c'.
    induction c as [A a|A n|A e k IH|A name t IHt k IH|A h k IH]; intros B R c' H HQ;
      destruct c' as [a'|n'|e' k'|name' t' k'|h' k']; cbn in H, HQ |- *; try contradiction; auto.
    - destruct H as [He Hk]. split; [exact He|]. intros v. apply IH; [apply Hk|apply HQ].
    - destruct H as (Hn & Ht & Hk). split; [exact Hn|split; [exact Ht|]]. intros v. apply IH; [apply Hk|apply HQ].
    - destruct H as [Hh Hk]. split; [exact Hh|]. intros v. apply IH; [apply Hk|apply HQ].
  Qed.

  Theorem let_erasure_erase_d (sp : sprog) :
    leaves (spec msem dotsem callsem awaitsem sp) (fun d => forall f, d <> DFn f) ->
    erase_d (spec msem dotsem callsem awaitsem sp) = erase_d (spec msem dotsem callsem awaitsem (strip sp)).
  Proof.
    intros Hno. apply ceq_erase. eapply ceq_bind; [exact (ceq_leaves_l _ _ _ _ (let_erasure sp) Hno)|].
    intros d d' [Hd Hn]. cbn. inv Hd; cbn [derase]; try reflexivity.
    - f_equal. extensionality vs. auto.
    - exfalso. eapply Hn. reflexivity.
    - f_equal. assumption.
  Qed.
End LetErasure.

(* ------------------------------------------------------------------------------------------ *)
(* 4. postconditions                                                                          *)
(* ------------------------------------------------------------------------------------------ *)

(* `leaves c Q` quantifies over every answer of the world to every event, whatever the event carries:
   it is blind to snapshots by construction, so a postcondition transfers along `ceq`. *)
Lemma ceq_leaves {A B} (R : A -> B -> Prop) (Q : A -> Prop) (Q' : B -> Prop) (c : comp A) (c' : comp B) :
  ceq R c c' -> (forall a b, R a b -> Q' b -> Q a) -> leaves c' Q' -> leaves c Q.
Proof.
  revert B R Q' c'.
  induction c as [A a|A n|A e k IH|A name t IHt k IH|A h k IH]; intros B R Q' c' H HQ HL;
    destruct c' as [a'|n'|e' k'|name' t' k'|h' k']; cbn in H, HL |- *; try contradiction; eauto.
  - destruct H as [He Hk]. intros v. eapply IH; [apply Hk|exact HQ|apply HL].
  - destruct H as (Hn & Ht & Hk). intros v. eapply IH; [apply Hk|exact HQ|apply HL].
  - destruct H as [Hh Hk]. intros v. eapply IH; [apply Hk|exact HQ|apply HL].
Qed.

Lemma leaves_erase {A} (c : comp A) (Q : A -> Prop) : leaves (erase c) Q <-> leaves c Q.
Proof.
  split; apply ceq_leaves with (R := eq); try (intros a b <-; exact (fun H => H)).
  - apply erase_ceq. symmetry. apply erase_idem.
  - apply ceq_erase_l.
Qed.

Section Post.
  Variable msem : string -> option (list operand) -> dval -> list dval -> comp dval.
  Variable dotsem : operand -> list (string * option val) -> dval -> comp dval.
  Variable callsem : val -> list dval -> comp dval.
  Variable awaitsem : val -> comp val.
  Hypothesis msem_param : forall m tf r r' ds ds',
    deq r r' -> Forall2 deq ds ds' -> ceq deq (msem m tf r ds) (msem m tf r' ds').
  Hypothesis dotsem_param : forall o sn sn' r r',
    deq r r' -> ceq deq (dotsem o sn r) (dotsem o sn' r').
  Hypothesis callsem_param : forall f ds ds',
    Forall2 deq ds ds' -> ceq deq (callsem f ds) (callsem f ds').

  (* whatever holds of every way the program WITHOUT names can end holds of the program with names
     (Q must not look inside closures / futures further than `deq` allows; every Q on plain values does) *)
  Theorem let_erasure_leaves (sp : sprog) (Q : dval -> Prop) :
    (forall d d', deq d d' -> Q d' -> Q d) ->
    leaves (spec msem dotsem callsem awaitsem (strip sp)) Q -> leaves (spec msem dotsem callsem awaitsem sp) Q.
  Proof. intros HQ. apply ceq_leaves with (R := deq); [apply let_erasure; assumption|exact HQ]. Qed.

  Theorem let_erasure_leaves_completed (sp : sprog) (Q : val -> Prop) :
    leaves (complete msem dotsem callsem awaitsem (strip sp)) Q <-> leaves (complete msem dotsem callsem awaitsem sp) Q.
  Proof.
    rewrite <- (leaves_erase (complete _ _ _ _ (strip sp))), <- (leaves_erase (complete _ _ _ _ sp)).
    rewrite (let_erasure_completed msem dotsem callsem awaitsem msem_param dotsem_param callsem_param sp). reflexivity.
  Qed.
End Post.

(* ------------------------------------------------------------------------------------------ *)
(* 5. the hypotheses are satisfiable: the concrete world of Concrete.v; non-vacuity           *)
(* ------------------------------------------------------------------------------------------ *)
From Join Require Import Concrete Check.

Lemma call1_ceq f f' args : deq f f' -> ceq eq (call1 f args) (call1 f' args).
Proof. intros H; inv H; cbn [call1]; try reflexivity; try apply ceq_eq_refl. apply erase_ceq. auto. Qed.

Lemma as_fut_deq r r' : deq r r' -> orel (fun c c' => ceq eq c c') (as_fut r) (as_fut r').
Proof.
  intros H; inv H; cbn [as_fut]; try constructor.
  - destruct (is_ready_fut v); constructor. apply ceq_eq_refl.
  - apply erase_ceq; assumption.
Qed.

Ltac one_arg H := destruct H as [|? ? ? ? ?Hd [|]]; try reflexivity.
Ltac c_step :=
  match goal with
  | |- ceq _ (Ret _) (Ret _) => cbn [ceq]; first [apply deq_Fut_ceq | constructor]
  | |- ceq _ (Panic _) (Panic _) => reflexivity
  | |- ceq _ (bind (call1 _ _) _) (bind (call1 _ _) _) => apply ceq_bind_eq; [apply call1_ceq; assumption|intros ?]
  | |- ceq _ (c_await _) (c_await _) => apply ceq_eq_refl
  | |- ceq _ (call1 _ _) (call1 _ _) => apply call1_ceq; assumption
  | H : ceq eq ?c ?c' |- ceq _ (bind ?c _) (bind ?c' _) => apply ceq_bind_eq; [exact H|intros ?]
  | |- ceq _ (match ?v with _ => _ end) (match ?v with _ => _ end) => destruct v
  | |- ceq _ (if ?b then _ else _) (if ?b then _ else _) => destruct b
  end.

Lemma c_msem_param m tf r r' ds ds' :
  deq r r' -> Forall2 deq ds ds' -> ceq deq (c_msem m tf r ds) (c_msem m tf r' ds').
Proof.
  intros Hr Hds. unfold c_msem. destruct (as_fut_deq _ _ Hr) as [|c c' Hc].
  - inv Hr; try reflexivity.
    repeat (match goal with |- ceq _ (if ?b then _ else _) _ => destruct b end; [|try reflexivity]);
      destruct v; try reflexivity; one_arg Hds; repeat c_step; try (inv Hd; repeat c_step).
  - repeat (match goal with |- ceq _ (if ?b then _ else _) _ => destruct b end; [|try reflexivity]);
      one_arg Hds; repeat c_step.
Qed.

Lemma c_dotsem_param o sn sn' r r' : deq r r' -> ceq deq (c_dotsem o sn r) (c_dotsem o sn' r').
Proof. reflexivity. Qed.

Lemma c_callsem_param f ds ds' : Forall2 deq ds ds' -> ceq deq (c_callsem f ds) (c_callsem f ds').
Proof.
  intros H. unfold c_callsem. apply ceq_bind with (R := eq).
  - eapply ceq_mono; [|eapply mapM_ceq with (S := eq); [exact H|]].
    + intros a b. apply Forall2_eq.
    + intros d d' Hd. inv Hd; try reflexivity. apply erase_ceq; auto.
  - intros vs ? <-. cbn. split; [reflexivity|]. intros; constructor.
Qed.

(* for the concrete world the theorem has no hypothesis left *)
Theorem let_erasure_concrete (sp : sprog) :
  ceq deq (spec c_msem c_dotsem c_callsem c_await sp) (spec c_msem c_dotsem c_callsem c_await (strip sp)).
Proof. apply let_erasure; [exact c_msem_param|exact c_dotsem_param|exact c_callsem_param]. Qed.

Theorem let_erasure_concrete_completed (sp : sprog) :
  erase (run_top (sp_cfg sp) (spec c_msem c_dotsem c_callsem c_await sp)) =
  erase (run_top (sp_cfg sp) (spec c_msem c_dotsem c_callsem c_await (strip sp))).
Proof. exact (let_erasure_completed _ _ _ _ c_msem_param c_dotsem_param c_callsem_param sp). Qed.

(* A world whose answers do not depend on snapshots: the rule-table world when no operand is
   instrumented to log the names it sees (`oi_cap`).  Its runner cannot tell a tree from its erasure. *)
Definition no_cap (tbl : list opinfo) : Prop := forall oi, In oi tbl -> oi_cap oi = false.

Lemma lookup_op_in tbl toks oi : lookup_op tbl toks = Some oi -> In oi tbl.
Proof.
  induction tbl as [|o r IH]; cbn; [discriminate|]. destruct (strs_eqb (oi_toks o) toks).
  - intros [= <-]. left; reflexivity.
  - intros H. right. apply IH, H.
Qed.

Lemma handle_erase tbl tn e st : no_cap tbl -> handle tbl tn (erase_ev e) st = handle tbl tn e st.
Proof.
  intros Hno. destruct e as [o sn| |]; try reflexivity. unfold handle, handle0. cbn [erase_ev].
  destruct (lookup_op tbl (flat o)) as [oi|] eqn:E; [|reflexivity].
  rewrite (Hno oi (lookup_op_in _ _ _ E)). reflexivity.
Qed.

Lemma run_erase tbl : no_cap tbl -> forall (c : comp val) tn th st, run tbl tn th (erase c) st = run tbl tn th c st.
Proof.
  intros Hno. fix IH 1. intros [v|n|e k|name t k|h k] tn th st; cbn [erase run]; try reflexivity.
  - rewrite (handle_erase _ _ _ _ Hno). destruct (handle tbl tn e st) as [[v|] st']; [apply IH|reflexivity].
  - rewrite IH. destruct (run tbl (Some name) th t st) as [[o st'] th']. apply IH.
  - destruct (nth_error th h); [apply IH|reflexivity].
Qed.

(* what the test harness shows (result and log) for a program and for the same program without names *)
Theorem let_erasure_run_show tbl tn (sp : sprog) : no_cap tbl ->
  run_show tbl tn (run_top (sp_cfg sp) (spec c_msem c_dotsem c_callsem c_await sp)) =
  run_show tbl tn (run_top (sp_cfg sp) (spec c_msem c_dotsem c_callsem c_await (strip sp))).
Proof.
  intros Hno. unfold run_show.
  rewrite <- (run_erase tbl Hno (run_top _ (spec _ _ _ _ sp))), <- (run_erase tbl Hno (run_top _ (spec _ _ _ _ (strip sp)))).
  rewrite let_erasure_concrete_completed. reflexivity.
Qed.

(* the same on parsed macro inputs: removing every `let <pat> =` from the input *)
Definition strip_input (inp : input) : input :=
  mkInput (map (fun b => mkBranch None (b_members b)) (i_branches inp))
          (i_handler inp) (i_fcp inp) (i_joiner inp) (i_transpose inp) (i_lazy inp).

Lemma prepare_strip cfg inp : prepare cfg (strip_input inp) = option_map strip (prepare cfg inp).
Proof.
  unfold prepare, strip_input. cbn [i_branches i_handler]. rewrite !map_map. cbn [b_members b_pat].
  destruct (all_some _); [|reflexivity]. cbn [option_map]. unfold strip. cbn. rewrite map_map. reflexivity.
Qed.

Lemma prepare_cfg cfg inp sp : prepare cfg inp = Some sp -> sp_cfg sp = cfg.
Proof. unfold prepare. destruct (all_some _); [|discriminate]. intros [= <-]. reflexivity. Qed.

Theorem let_erasure_spec_run cfg inp tbl : no_cap tbl ->
  spec_run cfg inp tbl = spec_run cfg (strip_input inp) tbl.
Proof.
  intros Hno. unfold spec_run. rewrite prepare_strip. destruct (prepare cfg inp) as [sp|] eqn:E; [|reflexivity].
  cbn [option_map]. rewrite <- (prepare_cfg _ _ _ E). apply let_erasure_run_show, Hno.
Qed.

(* ---- non-vacuity: a concrete 2-branch program with a name ---- *)
(*   join! { let a = x0 |> f ~|> g,  y0 |> h ~|> i }      and the same without `let a =` *)
Definition ex_branches (pat : option (operand * string)) : list branch :=
  [ mkBranch pat
      [ mkAction Initial false NoMove [[TI "x0"]];
        mkAction Map false NoMove [[TI "f"]];
        mkAction Map true NoMove [[TI "g"]] ];
    mkBranch None
      [ mkAction Initial false NoMove [[TI "y0"]];
        mkAction Map false NoMove [[TI "h"]];
        mkAction Map true NoMove [[TI "i"]] ] ].
Definition ex_let : input := mkInput (ex_branches (Some ([TI "a"], "a"))) None None None None None.
Definition ex_nolet : input := mkInput (ex_branches None) None None None None None.

(* sync kinds: x0 = Some(1), y0 = Some(2); async kinds: ready futures of Ok(1), Ok(2).  f, g, h, i add 10, 100, 20, 200
   to the payload; `cap`: is `i` instrumented to log the names it sees? *)
Definition ex_tbl (async cap : bool) : list opinfo :=
  [ mkOp ["x0"] 1 (KConst (if async then VFut (VOk (VInt 1)) else VSome (VInt 1))) false;
    mkOp ["y0"] 2 (KConst (if async then VFut (VOk (VInt 2)) else VSome (VInt 2))) false;
    mkOp ["f"] 3 (KWAdd 10) false; mkOp ["g"] 4 (KWAdd 100) false;
    mkOp ["h"] 5 (KWAdd 20) false; mkOp ["i"] 6 (KWAdd 200) cap ].

Definition ex_cfgs : list config :=
  [ mkConfig false false false; mkConfig false false true; mkConfig false true false; mkConfig false true true;
    mkConfig true false false; mkConfig true false true; mkConfig true true false; mkConfig true true true ].

Example ex_strip : strip_input ex_let = ex_nolet.
Proof. reflexivity. Qed.

(* both sides computed: the same result and the same log, in all 8 configurations ... *)
Example ex_same_result :
  map (fun cfg => spec_run cfg ex_let (ex_tbl (is_async cfg) false)) ex_cfgs =
  map (fun cfg => spec_run cfg ex_nolet (ex_tbl (is_async cfg) false)) ex_cfgs.
Proof. vm_compute. reflexivity. Qed.

(* ... and the results are meaningful values (join!, join_spawn!, try_join!, try_join_spawn!, then the async four) *)
Example ex_results :
  map (fun cfg => hd "" (spec_run cfg ex_let (ex_tbl (is_async cfg) false))) ex_cfgs =
  [ "(Some(111),Some(222))"; "(Some(111),Some(222))"; "Some((111,222))"; "Some((111,222))";
    "(Ok(111),Ok(222))"; "(Ok(111),Ok(222))"; "Ok((111,222))"; "Ok((111,222))" ].
Proof. vm_compute. reflexivity. Qed.

Example ex_log_join :
  spec_run (mkConfig false false false) ex_let (ex_tbl false false) =
  ["(Some(111),Some(222))"; "E1"; "E3"; "C3(1)"; "E2"; "E5"; "C5(2)"; "E4"; "C4(11)"; "E6"; "C6(22)"].
Proof. vm_compute. reflexivity. Qed.

(* the name IS visible to the world - in snapshots, and only there: when `i` is instrumented to log what
   it sees, the two programs differ in exactly that log entry (the theorem does not hold "because names do nothing") *)
Example ex_snapshot_visible :
  spec_run (mkConfig false false false) ex_let (ex_tbl false true) <> spec_run (mkConfig false false false) ex_nolet (ex_tbl false true) /\
  In "E6{a=Some(11)}" (spec_run (mkConfig false false false) ex_let (ex_tbl false true)) /\
  In "E6{}" (spec_run (mkConfig false false false) ex_nolet (ex_tbl false true)).
Proof. vm_compute. repeat split; try discriminate; auto 20. Qed.

(* the general theorem instantiates on it *)
Example ex_by_theorem cfg async : spec_run cfg ex_let (ex_tbl async false) = spec_run cfg ex_nolet (ex_tbl async false).
Proof.
  rewrite <- ex_strip. apply let_erasure_spec_run.
  intros oi H. cbn in H. repeat (destruct H as [<-|H]; [reflexivity|]). contradiction.
Qed.

(* ---- the parametricity hypothesis cannot be dropped ----
   A "method" that runs the closure it is given and branches on the snapshot carried by the closure's first event
   (no Rust method can do that: closures are opaque) makes the named and the unnamed program return different values. *)
Definition peek_msem (m : string) (tf : option (list operand)) (r : dval) (ds : list dval) : comp dval :=
  match ds with
  | [DF f] => match f [VUnit] with
              | Vis (EEval _ (_ :: _)) _ => Ret (DV (VInt 1))
              | _ => Ret (DV (VInt 0))
              end
  | _ => Panic P_STUCK
  end.
(*   join! { let a = x0 >>> |> f <<< }   *)
Definition peek_prog : sprog :=
  {| sp_cfg := mkConfig false false false; sp_names := [Some "a"];
     sp_trees := [[[NAct 0 (mkAction Initial false NoMove [[TI "x0"]]);
                    NWrap 1 (mkAction Map false Wrap []) [NAct 2 (mkAction Map false NoMove [[TI "f"]])]]]];
     sp_handler := None |}.
Example hypothesis_needed :
  let sp := fun p => spec peek_msem (fun _ _ _ => Panic P_STUCK) (fun _ _ => Panic P_STUCK) (fun _ => Panic P_STUCK) p in
  leaves (sp peek_prog) (fun d => d = DV (VInt 1)) /\
  leaves (sp (strip peek_prog)) (fun d => d = DV (VInt 0)) /\
  ~ ceq deq (sp peek_prog) (sp (strip peek_prog)).
Proof.
  cbn. repeat split; try (intros; reflexivity).
  intros [_ H]. specialize (H VUnit). inversion H.
Qed.

Print Assumptions names_irrelevant.
Print Assumptions let_erasure.
Print Assumptions let_erasure_completed.
Print Assumptions let_erasure_leaves.
Print Assumptions let_erasure_concrete.
Print Assumptions let_erasure_spec_run.
Print Assumptions ex_same_result.
