(* Whole-program thread-machine theorems for `join_spawn!` / `try_join_spawn!`.

   ThreadsProps.v proves the barrier, the thread names and the panic propagation for ONE block
   (`gblock`) run by some thread of some pool, and for states that are hereditarily block structured
   (`hb_state`), named by `__tb` (`tb_state`, `named_ok`) or well scoped (`ws_state`).  This file
   proves that the computation `spec` assigns to a WHOLE program of a thread-spawning sync kind,
   started with `init`, is such a state (section A) and derives the properties for the whole macro
   run: at every machine step, under every schedule, in an ARBITRARY (stateful) world.

   Throughout: `p : sprog` with `is_async (sp_cfg p) = false`,
     prog := let! d := spec msem dotsem callsem awaitsem (with_spawn true p) in to_val d
   (the caller runs the macro and wants a value), `s0 := init nm prog w`, `s := run_thr handle sched s0`
   for an arbitrary schedule `sched`; user code is `SpecSpawn.user_code` (events only).

   Method.  `SpecCode.walkA_program` (the structural walk through `step_result` / `steps` /
   `run_body` / `spec`) is instantiated with relations that ignore the plain program: for a
   predicate P on caller code `comp val`, `cps P Q c` says "c followed by any continuation that
   satisfies P on results in Q satisfies P".  It is closed under `bind` by associativity, contains
   events-only code if P is closed under events, and holds of the thread step if P holds of
   builders; captures; `ublock` (section 1).  P = `hb`, `tbnamed nm`, and the predicate `blk` of
   section B give all the structure needed. *)
From Coq Require Import ZArith Lia List Sorted FunctionalExtensionality.
From Join Require Import Tok Names Ast Comp Std Denote Spec CompLaws Leaves SpecProps Threads ThreadsProps SpecThreads SpecCode SpecSpawn.
From Join Require RefineCorollaries SpecPositions.
Import ListNotations.

Local Notation top := (fun _ => True).

(* ================================================================== *)
(** * 1. Predicates on caller code, in continuation-passing style       *)
(* ================================================================== *)

Section CPS.
  Variable P : comp val -> Prop.

  (* c, followed by anything that satisfies P on the results of c (which are in Q), satisfies P *)
  Definition cps {A} (Q : A -> Prop) (c : comp A) : Prop :=
    forall f : A -> comp val, (forall a, Q a -> P (f a)) -> P (bind c f).

  Lemma cps_bind {A B} (Q : A -> Prop) (R : B -> Prop) (c : comp A) (f : A -> comp B) :
    cps Q c -> (forall a, Q a -> cps R (f a)) -> cps R (bind c f).
  Proof.
    intros Hc Hf g Hg. rewrite bind_assoc. apply Hc. intros a Ha. apply (Hf a Ha). exact Hg.
  Qed.

  Hypothesis P_ret : forall v, P (Ret v).
  Hypothesis P_panic : forall n, P (Panic n).
  Hypothesis P_vis : forall e k, e <> EThreadName -> (forall v, P (k v)) -> P (Vis e k).

  (* events-only code *)
  Lemma cps_ucode {A} (Q : A -> Prop) (c : comp A) : ucode Q c -> cps Q c.
  Proof.
    intros Hc f Hf. induction c as [A a|A n|A e k IH|A name t IHt k IH|A h k IH]; cbn in *; auto; try contradiction.
    destruct Hc as [He Hk]. apply P_vis; [exact He|]. intros v. apply (IH v Q); auto.
  Qed.

  (* the thread step, for lists of branches that satisfy `okacts` *)
  Variable okacts : list nat -> Prop.
  Hypothesis P_thread_step : forall (C : Type) acts (caps : comp C) (child : C -> nat -> comp dval) (f : dval -> comp val),
      okacts acts -> ucode top caps -> (forall cp b, ucode dval_ok (child cp b)) ->
      (forall d, dval_ok d -> P (f d)) ->
      P (bind (std_thread_step acts caps (fun cp b => let! d := child cp b in to_val d)) f).

  (* THE BRIDGE: the caller's whole program satisfies P *)
  Lemma cps_program msem dotsem callsem awaitsem (HU : user_code msem dotsem callsem awaitsem)
        (p : sprog) (Hsync : is_async (sp_cfg p) = false) (Hok : forall k, okacts (actives p k)) :
    P (let! d := spec msem dotsem callsem awaitsem (with_spawn true p) in to_val d).
  Proof.
    assert (H : cps top (let! d := spec msem dotsem callsem awaitsem (with_spawn true p) in to_val d)).
    { apply (walkA_program (@ucode) ucode_class (fun A Q c1 _ => @cps A Q c1)) with (okacts := okacts); try assumption.
      - intros A Q c. apply cps_ucode.
      - intros A B Q R c1 c2 f1 f2. apply cps_bind.
      - intros C acts caps child Hacts Hcaps Hchild f Hf. apply P_thread_step; assumption. }
    rewrite <- (bind_ret_r (let! d := spec msem dotsem callsem awaitsem (with_spawn true p) in to_val d)).
    apply H. intros v _. apply P_ret.
  Qed.
End CPS.

(* ================================================================== *)
(** * A. Structure: the initial state of the macro is hereditarily block structured, named by `__tb`,
         well scoped *)
(* ================================================================== *)

Lemma hb_ucode (Q : val -> Prop) (c : comp val) : ucode Q c -> hb c.
Proof.
  induction c as [v|n|e k IH|name t k IHt IH|h k IH] using comp_val_ind; cbn; intros Hc; try contradiction;
    try constructor.
  intros v. apply IH, Hc.
Qed.

(* the builders, whatever `thread::current().name()` answers *)
Lemma hb_builders acts : forall g : list dval -> comp val,
  (forall names, List.length names = List.length acts -> hb (g (map DBuilder names))) ->
  hb (bind (mapM (fun b => thread_builder (Z.of_nat b)) acts) g).
Proof.
  induction acts as [|b r IH]; intros g Hg; cbn [mapM].
  - cbn. apply (Hg []). reflexivity.
  - unfold thread_builder at 1. cbn [bind]. apply hb_vis. intros cur.
    destruct (tb_name cur (Z.of_nat b)) as [s|]; cbn [bind]; [|constructor].
    rewrite bind_assoc. cbn [bind]. apply (IH (fun ys => g (DBuilder s :: ys))).
    intros names Hl. apply (Hg (s :: names)). cbn. now rewrite Hl.
Qed.

Lemma Forall_combine_snd {A B} (R : B -> Prop) (l1 : list A) : forall l2,
  Forall R l2 -> Forall (fun nt => R (snd nt)) (combine l1 l2).
Proof.
  induction l1 as [|a l1 IH]; intros [|b l2] H; cbn; constructor; inversion H; subst; auto.
Qed.

Lemma hb_thread_step {C} acts (caps : comp C) (child : C -> nat -> comp dval) (f : dval -> comp val) :
  ucode top caps -> (forall cp b, ucode dval_ok (child cp b)) ->
  (forall d, dval_ok d -> hb (f d)) ->
  hb (bind (std_thread_step acts caps (fun cp b => let! d := child cp b in to_val d)) f).
Proof.
  intros Hcaps Hchild Hf. unfold std_thread_step. rewrite bind_assoc.
  apply hb_builders. intros names Hlen. rewrite bind_assoc.
  apply (cps_ucode hb hb_panic (fun e k _ => hb_vis e k) top caps Hcaps). intros cp _.
  rewrite std_spawn_join_is_ublock by exact Hlen.
  destruct acts as [|b acts].
  - destruct names; [|discriminate]. cbn. apply Hf. exact I.
  - destruct names as [|s names]; [discriminate|]. unfold ublock.
    apply hb_block.
    + cbn. discriminate.
    + apply unwrap_post_strict.
    + apply Forall_combine_snd. apply Forall_forall. intros t Ht. apply in_map_iff in Ht.
      destruct Ht as (b' & <- & _). apply (hb_ucode top).
      eapply ucode_bind; [apply Hchild|]. intros d _. destruct d; exact I.
    + intros vs. apply Hf. exact I.
Qed.

Lemma tbn_ucode {A} nm (Q : A -> Prop) (c : comp A) : ucode Q c -> tbn nm Q c.
Proof.
  induction c as [A a|A n|A e k IH|A name t IHt k IH|A h k IH]; cbn; auto; try contradiction.
  intros [He Hk]. destruct e; try congruence; intros v; apply IH, Hk.
Qed.

Lemma tbnamed_thread_step {C} nm acts (caps : comp C) (child : C -> nat -> comp dval) (f : dval -> comp val) :
  ucode top caps -> (forall cp b, ucode dval_ok (child cp b)) ->
  (forall d, dval_ok d -> tbnamed nm (f d)) ->
  tbnamed nm (bind (std_thread_step acts caps (fun cp b => let! d := child cp b in to_val d)) f).
Proof.
  intros Hcaps Hchild Hf. unfold std_thread_step. rewrite !bind_assoc.
  eapply tbn_bind; [apply tbn_builders|]. intros bs ->. cbn beta.
  rewrite bind_assoc. eapply tbn_bind; [apply (tbn_ucode nm top), Hcaps|]. intros cp _.
  rewrite <- (map_map (child_name nm) DBuilder).
  rewrite std_spawn_join_is_ublock by (now rewrite map_length).
  apply tbnamed_gblock; [|intros; apply Hf; exact I].
  clear - Hchild. induction acts as [|b r IH]; cbn; constructor; auto. cbn. split; [eauto|].
  apply (tbn_ucode _ top). eapply ucode_bind; [apply Hchild|]. intros d _. destruct d; exact I.
Qed.

Section Structure.
  Variable W : Type.
  Variables (msem : string -> option (list operand) -> dval -> list dval -> comp dval)
            (dotsem : operand -> list (string * option val) -> dval -> comp dval)
            (callsem : val -> list dval -> comp dval) (awaitsem : val -> comp val).
  Hypothesis HU : user_code msem dotsem callsem awaitsem.
  Variable p : sprog.
  Hypothesis Hsync : is_async (sp_cfg p) = false.
  Variables (nm : option string) (w : W).

  Let prog : comp val := let! d := spec msem dotsem callsem awaitsem (with_spawn true p) in to_val d.

  Lemma spec_spawn_hb : hb prog.
  Proof.
    apply (cps_program hb hb_ret hb_panic (fun e k _ => hb_vis e k) top); auto.
    intros C acts caps child f _. apply hb_thread_step.
  Qed.

  Lemma spec_spawn_tbnamed : tbnamed nm prog.
  Proof.
    apply (cps_program (tbnamed nm)) with (okacts := top); auto.
    - intros v. exact I.
    - intros n. exact I.
    - intros e k He Hk. unfold tbnamed. cbn. destruct e; try congruence; exact Hk.
    - intros C acts caps child f _. apply tbnamed_thread_step.
  Qed.

  Lemma spec_spawn_ws : ws prog [].
  Proof.
    destruct (sim_program (fun _ => None) msem dotsem callsem awaitsem HU p Hsync nm) as (_ & Hws & _ & _).
    apply wsq_ws. eapply wsq_weaken; [|apply (Hws [])]. auto.
  Qed.

  (* A. THE BRIDGE: the state in which the caller is about to run the macro *)
  Theorem spec_spawn_init_hb : hb_state W (init nm prog w).
  Proof. apply hb_init, spec_spawn_hb. Qed.

  Theorem spec_spawn_init_tb : tb_state W (init nm prog w) /\ named_ok W (init nm prog w).
  Proof. apply tb_init, spec_spawn_tbnamed. Qed.

  Theorem spec_spawn_init_ws : ws_state W (init nm prog w).
  Proof. apply ws_init, spec_spawn_ws. Qed.
End Structure.

Print Assumptions spec_spawn_init_hb.
Print Assumptions spec_spawn_init_tb.
Print Assumptions spec_spawn_init_ws.

(* ... and stays one: the state theorems of ThreadsProps.v apply to every state the macro reaches
   (`returned_means_descendants_returned`, `nested_barrier`, `nested_thread_name`,
   `caller_never_stuck`, `fair_schedule_finishes`, ...) *)
Theorem spec_spawn_reachable_structured :
  forall (W : Type) (handle : option string -> ev -> W -> option val * W)
         msem dotsem callsem awaitsem (p : sprog) (nm : option string) (w : W) (sched : list nat),
    user_code msem dotsem callsem awaitsem ->
    is_async (sp_cfg p) = false ->
    let s := run_thr handle sched
               (init nm (let! d := spec msem dotsem callsem awaitsem (with_spawn true p) in to_val d) w) in
    hb_state W s /\ named_ok W s /\ ws_state W s.
Proof.
  intros W handle msem dotsem callsem awaitsem p nm w sched HU Hsync s. split; [|split].
  - apply hb_reachable. apply spec_spawn_init_hb; assumption.
  - destruct (spec_spawn_init_tb W msem dotsem callsem awaitsem HU p Hsync nm w) as [Htb Hok].
    apply thread_names_all_schedules; assumption.
  - apply ws_reachable. apply spec_spawn_init_ws; assumption.
Qed.

(* ================================================================== *)
(** * 2. The step discipline of the caller's code: `blk`               *)
(* ================================================================== *)

(* the threads the caller has spawned and not yet joined, oldest first: (thread index, branch) *)
Definition opens := list (nat * nat).

(* the branch indices of the open threads increase strictly *)
Definition incr (o : opens) : Prop := StronglySorted lt (map snd o).

Lemma incr_snoc o h b : incr o -> (forall hb, In hb o -> snd hb < b) -> incr (o ++ [(h, b)]).
Proof.
  unfold incr. induction o as [|[h0 b0] o IH]; cbn [map app]; intros Hs Hlt.
  - constructor; constructor.
  - inversion Hs as [|? ? Hs' Hall]; subst. constructor.
    + apply IH; [exact Hs'|]. intros hb Hin. apply Hlt. now right.
    + rewrite map_app. apply Forall_app. split; [exact Hall|]. constructor; [|constructor].
      apply (Hlt (h0, b0)). now left.
Qed.

Lemma incr_same_branch o : incr o -> forall x y b, In (x, b) o -> In (y, b) o -> x = y.
Proof.
  unfold incr. induction o as [|[h0 b0] o IH]; cbn [map]; intros Hs x y b Hx Hy; [destruct Hx|].
  inversion Hs as [|? ? Hs' Hall]; subst. rewrite Forall_forall in Hall.
  destruct Hx as [Ex|Hx], Hy as [Ey|Hy].
  - congruence.
  - injection Ex as -> ->. exfalso. specialize (Hall b (in_map snd _ _ Hy)). lia.
  - injection Ey as -> ->. exfalso. specialize (Hall b (in_map snd _ _ Hx)). lia.
  - eapply IH; eauto.
Qed.

Lemma sorted_length_between l : forall lo n,
  StronglySorted lt l -> Forall (fun b => lo <= b < n) l -> List.length l <= n - lo.
Proof.
  induction l as [|a r IH]; intros lo n Hs Hb; cbn; [lia|].
  inversion Hs as [|? ? Hs' Hall]; subst. inversion Hb as [|? ? Ha Hb']; subst.
  assert (H : List.length r <= n - S a).
  { apply IH; [exact Hs'|]. rewrite Forall_forall in *. intros b Hin.
    specialize (Hall b Hin). specialize (Hb' b Hin). lia. }
  lia.
Qed.

Lemma incr_length o n : incr o -> (forall hb, In hb o -> snd hb < n) -> List.length o <= n.
Proof.
  intros Hs Hb. rewrite <- (map_length snd o), <- (Nat.sub_0_r n).
  apply sorted_length_between; [exact Hs|]. apply Forall_forall. intros b Hin.
  apply in_map_iff in Hin. destruct Hin as (hb & <- & Hin). specialize (Hb hb Hin). lia.
Qed.

Section Blk.
  Variable nm : option string.   (* the caller's name *)
  Variable n : nat.              (* the number of branches *)

  (* [blk c o]: the caller, with the threads o open, runs c.
       - it evaluates a user expression (`Vis`) or returns only when NO thread is open;
       - a thread it spawns runs events-only code, is named `child_name nm b` for a branch b < n
         greater than the branches of the open threads, and becomes the youngest open thread;
       - it joins the OLDEST open thread; if that thread returned a value, it goes on without it,
         if it panicked, the caller panics at once (`.join().unwrap()`). *)
  Fixpoint blk (c : comp val) (o : opens) : Prop :=
    match c with
    | Ret _ => o = []
    | Panic _ => True
    | Vis e k => o = [] /\ match e with
                           | EThreadName => blk (k (name_val nm)) []
                           | _ => forall v, blk (k v) []
                           end
    | Spawn name t k =>
        ucode top t /\
        exists b, name = child_name nm b /\ b < n /\ (forall hb, In hb o -> snd hb < b) /\
                  forall h, blk (k h) (o ++ [(h, b)])
    | Join h k =>
        exists b o', o = (h, b) :: o' /\ (forall v, blk (k (Some v)) o') /\ exists m, k None = Panic m
    end.

  Definition blk0 (c : comp val) : Prop := blk c [].

  Lemma blk0_ucode {A} (Q : A -> Prop) (c : comp A) (g : A -> comp val) :
    ucode Q c -> (forall a, Q a -> blk0 (g a)) -> blk0 (bind c g).
  Proof.
    intros Hc Hg. apply (cps_ucode blk0) with (Q := Q); auto.
    - intros m. exact I.
    - intros e k He Hk. split; [reflexivity|]. destruct e; try congruence; exact Hk.
  Qed.

  Lemma blk_builders acts : forall g : list dval -> comp val,
    blk0 (g (map (fun b => DBuilder (child_name nm b)) acts)) ->
    blk0 (bind (mapM (fun b => thread_builder (Z.of_nat b)) acts) g).
  Proof.
    induction acts as [|b r IH]; intros g Hg; cbn [mapM map] in *; [exact Hg|].
    unfold thread_builder at 1. cbn [bind]. split; [reflexivity|].
    rewrite tb_name_child_name. cbn [bind]. rewrite bind_assoc. cbn [bind].
    apply (IH (fun ys => g (DBuilder (child_name nm b) :: ys))). exact Hg.
  Qed.

  Lemma blk_join_all K (HK : forall vs, blk0 (K vs)) (o : opens) : forall acc,
    blk (join_all_acc unwrap_post (map fst o) acc K) o.
  Proof.
    induction o as [|[h b] o IH]; intros acc; cbn [map fst join_all_acc]; [apply HK|].
    cbn [blk]. exists b, o. split; [reflexivity|]. split.
    - intros v. cbn. apply IH.
    - exists P_UNWRAP. reflexivity.
  Qed.

  Lemma blk_spawn_all (ch : nat -> comp val) (kont : list nat -> comp val) (acts : list nat) : forall acc o,
    map fst o = rev acc -> (forall hb b, In hb o -> In b acts -> snd hb < b) ->
    StronglySorted lt acts -> Forall (fun b => b < n) acts -> (forall b, ucode top (ch b)) ->
    (forall o2, blk (kont (map fst (o ++ o2))) (o ++ o2)) ->
    blk (spawn_all_acc (combine (map (child_name nm) acts) (map ch acts)) acc kont) o.
  Proof.
    induction acts as [|b r IH]; intros acc o Ho Hlt Hs Hn Hch Hk; cbn [map combine spawn_all_acc].
    - specialize (Hk []). rewrite app_nil_r, Ho in Hk. exact Hk.
    - cbn [fst snd blk]. inversion Hs as [|? ? Hs' Hall]; subst. inversion Hn as [|? ? Hb Hn']; subst.
      rewrite Forall_forall in Hall.
      split; [apply Hch|]. exists b. split; [reflexivity|]. split; [exact Hb|]. split.
      { intros hb Hin. apply (Hlt hb b Hin). now left. }
      intros h. apply IH; auto.
      + rewrite map_app, Ho. reflexivity.
      + intros hb b' Hin Hb'. apply in_app_iff in Hin. destruct Hin as [Hin|[<-|[]]].
        * apply (Hlt hb b' Hin). now right.
        * cbn. apply Hall, Hb'.
      + intros o2. rewrite <- app_assoc. apply Hk.
  Qed.

  (* the branches of a step *)
  Definition okacts (acts : list nat) : Prop := StronglySorted lt acts /\ Forall (fun b => b < n) acts.

  Lemma blk_thread_step {C} acts (caps : comp C) (child : C -> nat -> comp dval) (f : dval -> comp val) :
    okacts acts -> ucode top caps -> (forall cp b, ucode dval_ok (child cp b)) ->
    (forall d, dval_ok d -> blk0 (f d)) ->
    blk0 (bind (std_thread_step acts caps (fun cp b => let! d := child cp b in to_val d)) f).
  Proof.
    intros [Hs Hn] Hcaps Hchild Hf. unfold std_thread_step. rewrite bind_assoc.
    apply blk_builders. rewrite bind_assoc. apply (blk0_ucode top caps); [exact Hcaps|]. intros cp _.
    rewrite <- (map_map (child_name nm) DBuilder).
    rewrite std_spawn_join_is_ublock by (now rewrite map_length).
    unfold ublock, gblock, blk0. apply blk_spawn_all; auto.
    - intros hb b [].
    - intros b. eapply ucode_bind; [apply Hchild|]. intros d _. destruct d; exact I.
    - intros o2. cbn [app]. apply blk_join_all. intros vs. apply Hf. exact I.
  Qed.

  (* a caller whose code is a whole block (none of its threads spawned yet) has no open thread *)
  Lemma blk_block_start {B} (post : option val -> B + N) K nts o :
    nts <> [] -> blk (gblock post nts K) o -> o = [].
  Proof.
    intros Hne Hb. set (hmax := S (list_max (map fst o))).
    assert (Hgen : forall nts acc o2, (nts <> [] \/ acc <> []) -> Forall (fun h => h = hmax) acc ->
                     map fst o2 = rev acc ->
                     blk (spawn_all_acc nts acc (fun hs => join_all_acc post hs [] K)) (o ++ o2) -> o = []).
    { clear Hne Hb nts. induction nts as [|nt r IH]; intros acc o2 Hne Hacc Ho2 Hb; cbn [spawn_all_acc] in Hb.
      - destruct Hne as [Hne|Hne]; [congruence|].
        destruct o2 as [|[h1 b1] o2]; cbn [map] in Ho2.
        { destruct acc as [|a acc]; [congruence|]. cbn in Ho2. symmetry in Ho2. apply app_eq_nil in Ho2.
          destruct Ho2; discriminate. }
        assert (Hh1 : h1 = hmax).
        { rewrite Forall_forall in Hacc. apply Hacc. apply in_rev. rewrite <- Ho2. now left. }
        rewrite <- Ho2 in Hb. cbn [join_all_acc fst blk] in Hb. destruct Hb as (b & o' & E & _).
        destruct o as [|[h0 b0] o]; [reflexivity|]. cbn in E. injection E as E _ _. exfalso.
        assert (Hle : h0 <= list_max (map fst ((h0, b0) :: o))).
        { cbn. apply Nat.le_max_l. }
        unfold hmax in Hh1. lia.
      - cbn [blk] in Hb. destruct Hb as (_ & b & _ & _ & _ & Hk). specialize (Hk hmax).
        rewrite <- app_assoc in Hk. apply (IH (hmax :: acc) (o2 ++ [(hmax, b)])); auto.
        + right. discriminate.
        + rewrite map_app, Ho2. reflexivity. }
    apply (Hgen nts [] []); auto. now rewrite app_nil_r.
  Qed.
End Blk.

(* the caller's whole program follows the discipline, with no thread open at its beginning *)
Lemma spec_spawn_blk msem dotsem callsem awaitsem (HU : user_code msem dotsem callsem awaitsem)
      (p : sprog) (Hsync : is_async (sp_cfg p) = false) (nm : option string) :
  blk nm (List.length (sp_trees p))
      (let! d := spec msem dotsem callsem awaitsem (with_spawn true p) in to_val d) [].
Proof.
  apply (cps_program (blk0 nm (List.length (sp_trees p)))) with (okacts := okacts (List.length (sp_trees p))); auto.
  - intros v. reflexivity.
  - intros m. exact I.
  - intros e k He Hk. split; [reflexivity|]. destruct e; try congruence; exact Hk.
  - intros C acts caps child f. apply blk_thread_step.
  - intros k. split; [apply actives_sorted|apply actives_lt].
Qed.

(* ================================================================== *)
(** * 3. The machine: the discipline is an invariant of every step      *)
(* ================================================================== *)

Section Machine.
  Variable W : Type.
  Variable handle : option string -> ev -> W -> option val * W.   (* an ARBITRARY world *)
  Variable nm : option string.
  Variable n : nat.
  Notation state := (Threads.state W).
  Notation thr := (thr_of W).
  Notation fin := (fin W).
  Notation unfinished := (unfinished W).
  Notation step_rel := (step_rel W handle).

  (* thread x is finished and has returned a value *)
  Definition returned (s : state) (x : nat) : Prop := exists v, fin s x (Some v).

  (* the caller (thread 0, named nm) follows the discipline with the threads o open; every other
     thread is a branch thread: events-only code, spawned by the caller, named `child_name nm b`
     for a branch b < n, and either open or returned *)
  Record cinv (s : state) (o : opens) : Prop := {
    ci_caller : exists th0, thr s 0 = Some th0 /\ th_name th0 = nm /\ blk nm n (th_code th0) o;
    ci_incr : incr o;
    ci_open : forall x b, In (x, b) o -> 1 <= x < List.length (pool s) /\ b < n;
    ci_kids : forall x th, x <> 0 -> thr s x = Some th ->
        ucode top (th_code th) /\ th_parent th = Some 0 /\
        exists b, b < n /\ th_name th = Some (child_name nm b) /\ (In (x, b) o \/ returned s x)
  }.

  Lemma returned_step i s s' x : step_rel i s s' -> returned s x -> returned s' x.
  Proof. intros Hst [v Hv]. exists v. eapply step_fin_stable; eauto. Qed.

  Lemma cinv_step i s s' o : cinv s o -> step_rel i s s' -> exists o', cinv s' o'.
  Proof.
    intros [(th0 & H0 & Hnm & Hblk) Hincr Hopen Hkids] Hst.
    pose proof (nth_error_Some_lt _ _ _ H0) as Hpos.
    pose proof (fun x => returned_step i s s' x Hst) as Hret.
    pose proof (step_length _ _ _ _ _ Hst) as Hlen.
    destruct (Nat.eq_dec i 0) as [->|Hi].
    - (* the caller *)
      destruct Hst as [th e k r w' Hth Hc Ha ->|th name t k Hth Hc ->|th j k th' r Hth Hc Hth' Ho ->];
        unfold thr_of in *; rewrite H0 in Hth; injection Hth as <-; rewrite Hc in Hblk; cbn [blk] in Hblk.
      + (* an event: no thread is open *)
        destruct Hblk as [-> Hk]. exists []. split.
        * exists (set_code th0 (vis_next k r)). unfold thr_of; cbn [pool]. rewrite nth_error_upd_eq by exact Hpos.
          split; [reflexivity|]. split; [exact Hnm|]. cbn [set_code th_code].
          destruct e; cbn in Ha; try (destruct r; cbn; [apply Hk|exact I]).
          injection Ha as <- _. cbn. rewrite Hnm. exact Hk.
        * constructor.
        * intros x b [].
        * intros x thx Hx Hthx. unfold thr_of in Hthx; cbn [pool] in Hthx. rewrite nth_error_upd_neq in Hthx by congruence.
          destruct (Hkids _ _ Hx Hthx) as (Hu & Hp & b & Hb & Hn & [[]|Hr]).
          split; [exact Hu|]. split; [exact Hp|]. exists b. auto.
      + (* a spawn: the new thread is the youngest open one *)
        destruct Hblk as (Ht & b & -> & Hb & Hlt & Hk).
        set (L := List.length (pool s)) in *.
        exists (o ++ [(L, b)]). split.
        * exists (set_code th0 (k L)). unfold thr_of; cbn [pool].
          rewrite nth_error_app1 by (rewrite upd_length; exact Hpos).
          rewrite nth_error_upd_eq by exact Hpos. split; [reflexivity|]. split; [exact Hnm|]. apply Hk.
        * apply incr_snoc; assumption.
        * intros x b' Hin. unfold thr_of; cbn [pool]. rewrite app_length, upd_length. cbn [List.length]. fold L.
          apply in_app_iff in Hin. destruct Hin as [Hin|[E|[]]].
          -- destruct (Hopen _ _ Hin) as [Hx Hb']. fold L in Hx. lia.
          -- injection E as <- <-. lia.
        * intros x thx Hx Hthx. unfold thr_of in Hthx; cbn [pool] in Hthx.
          destruct (Nat.lt_ge_cases x L) as [Hxl|Hxl].
          -- rewrite nth_error_app1 in Hthx by (rewrite upd_length; exact Hxl).
             rewrite nth_error_upd_neq in Hthx by congruence.
             destruct (Hkids _ _ Hx Hthx) as (Hu & Hp & b' & Hb' & Hn & Hor).
             split; [exact Hu|]. split; [exact Hp|]. exists b'. split; [exact Hb'|]. split; [exact Hn|].
             destruct Hor as [Hin|Hr]; [left; apply in_or_app; now left|right; auto].
          -- assert (x = L) as ->.
             { apply nth_error_Some_lt in Hthx. rewrite app_length, upd_length in Hthx. cbn in Hthx. fold L in Hthx. lia. }
             rewrite nth_error_app2 in Hthx by (rewrite upd_length; fold L; lia).
             rewrite upd_length in Hthx. fold L in Hthx. rewrite Nat.sub_diag in Hthx. cbn in Hthx.
             injection Hthx as <-. cbn. split; [exact Ht|]. split; [reflexivity|].
             exists b. split; [exact Hb|]. split; [reflexivity|]. left. apply in_or_app. right. now left.
      + (* a join: of the oldest open thread *)
        destruct Hblk as (b & o' & -> & Hsome & (m & Hnone)).
        assert (Hj : 1 <= j) by (destruct (Hopen j b (or_introl eq_refl)); lia).
        assert (Hfj : fin s j r) by (exists th'; auto).
        destruct r as [v|].
        * exists o'. split.
          -- exists (set_code th0 (k (Some v))). unfold thr_of; cbn [pool]. rewrite nth_error_upd_eq by exact Hpos.
             split; [reflexivity|]. split; [exact Hnm|]. apply Hsome.
          -- unfold incr in *. cbn [map] in Hincr. inversion Hincr; assumption.
          -- intros x b' Hin. unfold thr_of; cbn [pool]. rewrite upd_length. apply Hopen. now right.
          -- intros x thx Hx Hthx. unfold thr_of in Hthx; cbn [pool] in Hthx. rewrite nth_error_upd_neq in Hthx by congruence.
             destruct (Hkids _ _ Hx Hthx) as (Hu & Hp & b' & Hb' & Hn & Hor).
             split; [exact Hu|]. split; [exact Hp|]. exists b'. split; [exact Hb'|]. split; [exact Hn|].
             destruct Hor as [[E|Hin]|Hr]; [|now left|right; auto].
             injection E as <- <-. right. apply Hret. exists v. exact Hfj.
        * exists ((j, b) :: o'). split.
          -- exists (set_code th0 (k None)). unfold thr_of; cbn [pool]. rewrite nth_error_upd_eq by exact Hpos.
             split; [reflexivity|]. split; [exact Hnm|]. cbn [set_code th_code]. rewrite Hnone. exact I.
          -- exact Hincr.
          -- intros x b' Hin. unfold thr_of; cbn [pool]. rewrite upd_length. apply Hopen. exact Hin.
          -- intros x thx Hx Hthx. unfold thr_of in Hthx; cbn [pool] in Hthx. rewrite nth_error_upd_neq in Hthx by congruence.
             destruct (Hkids _ _ Hx Hthx) as (Hu & Hp & b' & Hb' & Hn & Hor).
             split; [exact Hu|]. split; [exact Hp|]. exists b'. split; [exact Hb'|]. split; [exact Hn|].
             destruct Hor as [Hin|Hr]; [now left|right; auto].
    - (* a branch thread: it can only make an event *)
      exists o.
      destruct Hst as [th e k r w' Hth Hc Ha ->|th name t k Hth Hc ->|th j k th' r Hth Hc Hth' Ho ->];
        unfold thr_of in *; destruct (Hkids _ _ Hi Hth) as (Hu & Hp & b & Hb & Hn & Hor);
        rewrite Hc in Hu; cbn in Hu; try contradiction.
      destruct Hu as [He Hk]. split.
      + exists th0. unfold thr_of; cbn [pool]. rewrite nth_error_upd_neq by congruence. auto.
      + exact Hincr.
      + intros x b' Hin. unfold thr_of; cbn [pool]. rewrite upd_length. apply Hopen, Hin.
      + intros x thx Hx Hthx. unfold thr_of in Hthx; cbn [pool] in Hthx. destruct (Nat.eq_dec x i) as [->|Hne].
        * rewrite nth_error_upd_eq in Hthx by (eapply nth_error_Some_lt; eauto).
          injection Hthx as <-. cbn [set_code th_code th_name th_parent].
          split; [destruct r; cbn; auto|]. split; [exact Hp|]. exists b. split; [exact Hb|]. split; [exact Hn|].
          destruct Hor as [Hin|Hr]; [now left|right; auto].
        * rewrite nth_error_upd_neq in Hthx by congruence.
          destruct (Hkids _ _ Hx Hthx) as (Hu' & Hp' & b' & Hb' & Hn' & Hor').
          split; [exact Hu'|]. split; [exact Hp'|]. exists b'. split; [exact Hb'|]. split; [exact Hn'|].
          destruct Hor' as [Hin|Hr]; [now left|right; auto].
  Qed.

  Lemma cinv_init c w : blk nm n c [] -> cinv (init nm c w) [].
  Proof.
    intros Hc. split.
    - exists (mkThread nm None c). cbn. auto.
    - constructor.
    - intros x b [].
    - intros [|[|x]] th Hx Hth; unfold thr_of in Hth; cbn in Hth; [congruence|discriminate|discriminate].
  Qed.

  Lemma cinv_reachable sched s : (exists o, cinv s o) -> exists o, cinv (run_thr handle sched s) o.
  Proof.
    apply (run_thr_invariant W handle (fun s => exists o, cinv s o)).
    intros i s1 s2 [o Ho] Hst. eapply cinv_step; eauto.
  Qed.

  (* ---- readings of one state ---- *)

  (* every thread other than the caller has returned a value *)
  Definition others_returned (s : state) : Prop :=
    forall x th, x <> 0 -> thr s x = Some th -> returned s x.

  Lemma cinv_none_open s : cinv s [] -> others_returned s.
  Proof.
    intros [_ _ _ Hkids] x th Hx Hth. destruct (Hkids _ _ Hx Hth) as (_ & _ & b & _ & _ & [[]|Hr]). exact Hr.
  Qed.

  (* a thread that is not returned (running, or panicked) is open *)
  Lemma cinv_not_returned_open s o x th :
    cinv s o -> x <> 0 -> thr s x = Some th -> ~ returned s x ->
    exists b, b < n /\ th_name th = Some (child_name nm b) /\ In (x, b) o.
  Proof.
    intros [_ _ _ Hkids] Hx Hth Hnr. destruct (Hkids _ _ Hx Hth) as (_ & _ & b & Hb & Hn & [Hin|Hr]); [eauto|contradiction].
  Qed.

  Lemma unfinished_not_returned s x : unfinished s x -> ~ returned s x.
  Proof. intros Hu [v Hv]. eapply fin_not_unfinished; eauto. Qed.
End Machine.

(* ================================================================== *)
(** * B, C, D. The whole macro run, every schedule, an arbitrary world  *)
(* ================================================================== *)

Section Whole.
  Variable W : Type.
  Variable handle : option string -> ev -> W -> option val * W.   (* an ARBITRARY, stateful world *)
  Variables (msem : string -> option (list operand) -> dval -> list dval -> comp dval)
            (dotsem : operand -> list (string * option val) -> dval -> comp dval)
            (callsem : val -> list dval -> comp dval) (awaitsem : val -> comp val).
  Hypothesis HU : user_code msem dotsem callsem awaitsem.
  Variable p : sprog.
  Hypothesis Hsync : is_async (sp_cfg p) = false.
  Variables (nm : option string) (w : W).

  Notation prog := (let! d := spec msem dotsem callsem awaitsem (with_spawn true p) in to_val d).
  Notation s0 := (init nm prog w).
  Notation n := (List.length (sp_trees p)).
  Notation run := (run_thr handle).
  Notation thr := (thr_of W).
  Notation fin := (fin W).
  Notation unfinished := (unfinished W).
  Notation cinv := (cinv W nm n).

  (* the invariant holds in every reachable state *)
  Lemma spawn_macro_cinv sched : exists o, cinv (run sched s0) o.
  Proof.
    apply cinv_reachable. exists []. apply cinv_init. apply spec_spawn_blk; assumption.
  Qed.

  (* ---------------------------------------------------------------- *)
  (** ** B. C03, the barrier between steps                              *)

  (* STATE FORM.  In every reachable state: whenever the caller's next machine step is
       (i)  a `Vis` - a user expression evaluated on the caller: the handler expression, a capture
            block, a step with a single active branch, the awaits of the final transposition, the
            handler call; also `thread::current().name()` of a builder, the very first thing a
            step with several branches does -, or the caller has returned, or
       (ii) the `Spawn` that starts a block: the caller's code is a whole spawn-all/join-all block
            `gblock post nts K` none of whose threads has been spawned
            (`ThreadsProps.std_spawn_join_is_ublock`: that is what follows a step's captures),
     EVERY other thread of the pool has finished - with a value.
     Why this is "no expression of step k+1 begins before every branch has finished step k": an
     expression of step k+1 is evaluated either by the caller (a `Vis` of the caller: (i)) or by a
     thread of step k+1, which is spawned after that step's first `Spawn` (ii), which comes after
     that step's builders (i); at each of these points every thread of every earlier step has
     returned, and "finished" is for ever (`ThreadsProps.step_fin_stable`). *)
  Theorem spawn_macro_steps_never_overlap sched :
    let s := run sched s0 in
    forall th0, thr s 0 = Some th0 ->
      (exists e k, th_code th0 = Vis e k) \/ (exists v, th_code th0 = Ret v) \/
      (exists B (post : option val -> B + N) nts K, nts <> [] /\ th_code th0 = gblock post nts K) ->
      others_returned W s.
  Proof.
    intros s th0 H0 Hhead. destruct (spawn_macro_cinv sched) as [o Hinv]. fold s in Hinv.
    assert (o = []) as ->; [|eapply cinv_none_open; eauto].
    destruct Hinv as [(th0' & H0' & _ & Hblk) _ _ _]. rewrite H0 in H0'. injection H0' as <-.
    destruct Hhead as [(e & k & Hc)|[(v & Hc)|(B & post & nts & K & Hne & Hc)]]; rewrite Hc in Hblk.
    - apply Hblk.
    - exact Hblk.
    - eapply blk_block_start; eauto.
  Qed.

  (* conversely: while some branch thread is unfinished the caller is inside a block (its head is
     a `Spawn` or a `Join`), or it has panicked *)
  Corollary spawn_macro_running_thread_blocks_caller sched x :
    let s := run sched s0 in
    x <> 0 -> unfinished s x ->
    exists th0, thr s 0 = Some th0 /\
      ((exists name t k, th_code th0 = Spawn name t k) \/ (exists h k, th_code th0 = Join h k) \/
       (exists m, th_code th0 = Panic m)).
  Proof.
    intros s Hx Hu. destruct (spawn_macro_cinv sched) as [o Hinv]. fold s in Hinv.
    destruct (ci_caller _ _ _ _ _ Hinv) as (th0 & H0 & _ & _). exists th0. split; [exact H0|].
    destruct (th_code th0) as [v|m|e k|name t k|h k] eqn:Hc; eauto 6; exfalso.
    - destruct Hu as (th & Hth & Ho).
      destruct (spawn_macro_steps_never_overlap sched th0 H0 (or_intror (or_introl (ex_intro _ v Hc))) x th Hx Hth) as [v' Hv'].
      eapply fin_not_unfinished; eauto. exists th; auto.
    - destruct Hu as (th & Hth & Ho).
      destruct (spawn_macro_steps_never_overlap sched th0 H0 (or_introl (ex_intro _ e (ex_intro _ k Hc))) x th Hx Hth) as [v' Hv'].
      eapply fin_not_unfinished; eauto. exists th; auto.
  Qed.

  (* TRACE FORM (the trace is most recent first).  No branch thread makes events on both sides of an
     event of the caller: wherever the trace is cut at an entry of the caller, the threads with an
     entry in the older part t1 have no entry in the more recent part t2 (and they have returned).
     Every step with several branches begins with caller events (its builders), so the entries of
     the threads of step k' > k are all more recent than every entry of every thread of step k, and
     the caller's entries between the two blocks lie in between. *)
  Theorem spawn_macro_steps_never_overlap_trace sched :
    let s := run sched s0 in
    forall t2 e t1, trace s = t2 ++ (0, e) :: t1 ->
    forall x, x <> 0 -> In x (map fst t1) -> ~ In x (map fst t2) /\ returned W s x.
  Proof.
    cbn zeta.
    cut ((fun s => (exists o, cinv s o) /\ (forall y, In y (trace s) -> fst y < List.length (pool s)) /\
                   forall t2 e t1, trace s = t2 ++ (0, e) :: t1 ->
                   forall x, x <> 0 -> In x (map fst t1) -> ~ In x (map fst t2) /\ returned W s x)
           (run sched s0)).
    { intros (_ & _ & H). exact H. }
    apply run_thr_invariant.
    2:{ split; [exists []; apply cinv_init, spec_spawn_blk; assumption|]. split; [intros y []|].
        intros [|y t2] e t1 E; discriminate. }
    intros i s s' ([o Hinv] & Hlt & Hsplit) Hst.
    pose proof (step_length _ _ _ _ _ Hst) as Hlen.
    pose proof (fun x => returned_step W handle i s s' x Hst) as Hret.
    pose proof (step_unfinished _ _ _ _ _ Hst) as Hun.
    split; [eapply cinv_step; eauto|].
    assert (Hsame : trace s' = trace s ->
              (forall y, In y (trace s') -> fst y < List.length (pool s')) /\
              forall t2 e t1, trace s' = t2 ++ (0, e) :: t1 ->
              forall x, x <> 0 -> In x (map fst t1) -> ~ In x (map fst t2) /\ returned W s' x).
    { intros E. rewrite E. split; [intros y Hy; specialize (Hlt y Hy); lia|].
      intros t2 e t1 Ht x Hx Hin. destruct (Hsplit t2 e t1 Ht x Hx Hin). auto. }
    destruct Hst as [th e k r w' Hth Hc Ha Es|th name t k Hth Hc Es|th j k th' r Hth Hc Hth' Ho Es];
      [|apply Hsame; rewrite Es; reflexivity|apply Hsame; rewrite Es; reflexivity].
    assert (Etr : trace s' = (i, e) :: trace s) by (rewrite Es; reflexivity).
    assert (Hil : i < List.length (pool s)) by (eapply nth_error_Some_lt; eauto).
    rewrite Etr. split.
    { intros y [<-|Hy]; cbn; [lia|]. specialize (Hlt y Hy). lia. }
    intros [|y t2] e0 t1 E x Hx Hin; cbn [app] in E.
    - (* the new entry is the caller's: no thread is open *)
      injection E as Ei Ee Et. subst i e0 t1. split; [intros []|]. apply Hret.
      assert (o = []) as ->.
      { destruct Hinv as [(th0 & H0 & _ & Hblk) _ _ _]. unfold thr_of in Hth, H0. rewrite H0 in Hth.
        injection Hth as <-. rewrite Hc in Hblk. apply Hblk. }
      apply in_map_iff in Hin. destruct Hin as (y & <- & Hy). specialize (Hlt y Hy).
      destruct (thr_exists W s (fst y) Hlt) as [thx Hthx].
      eapply cinv_none_open; eauto.
    - injection E as <- E. destruct (Hsplit t2 e0 t1 E x Hx Hin) as [Hnin Hr].
      split; [|auto]. cbn [map fst]. intros [<-|Hin']; [|contradiction].
      eapply unfinished_not_returned; eauto.
  Qed.

  (* ---------------------------------------------------------------- *)
  (** ** D. C18, a panic of a branch reaches the caller                  *)

  (* Once a branch thread has ended in a panic (state s), in every later state s2: the caller has
     made NO event since s (no user expression of the rest of this step, of a later step or of the
     handler is ever evaluated on it); if it is finished, it is finished with a panic; and it is
     never left blocked: while it is unfinished some thread can move (hence, `ThreadsProps.
     fair_schedule_finishes` / `SpecSpawn.spawn_macro_fair_run_finishes`, a fair run ends with the
     caller panicked). *)
  Theorem spawn_macro_panic_reaches_caller sched i :
    let s := run sched s0 in
    i <> 0 -> fin s i None ->
    forall sched2, let s2 := run (sched ++ sched2) s0 in
      (exists tnew, trace s2 = tnew ++ trace s /\ forall y, In y tnew -> fst y <> 0) /\
      (forall r, fin s2 0 r -> r = None) /\
      (thr_finished 0 s2 = true -> result_of 0 s2 = Some None) /\
      (unfinished s2 0 -> exists j, enabled handle j s2 = true).
  Proof.
    intros s Hi Hpan sched2 s2.
    assert (Hopen : forall s' o, cinv s' o -> fin s' i None -> o <> []).
    { intros s' o Hinv (th & Hth & Ho).
      destruct (cinv_not_returned_open W nm n s' o i th Hinv Hi Hth) as (b & _ & _ & Hin).
      - intros [v Hv]. assert (E : None = Some v) by (apply (fin_inj W s' i None (Some v)); [exists th; auto|exact Hv]). discriminate.
      - intros ->. destruct Hin. }
    assert (HK : (fun s' => (exists o, cinv s' o) /\ fin s' i None /\
                   exists tnew, trace s' = tnew ++ trace s /\ forall y, In y tnew -> fst y <> 0) s2).
    { unfold s2. rewrite run_thr_app. fold s. apply run_thr_invariant.
      2:{ split; [apply spawn_macro_cinv|]. split; [exact Hpan|]. exists []. split; [reflexivity|intros y []]. }
      intros j s1 s1' ([o Hinv] & Hp & tnew & Htr & Hq) Hst.
      split; [eapply cinv_step; eauto|]. split; [eapply step_fin_stable; eauto|].
      destruct Hst as [th e k r w' Hth Hc Ha Es|th name t k Hth Hc Es|th j' k th' r Hth Hc Hth' Ho Es];
        rewrite Es; cbn [trace]; try (exists tnew; split; [exact Htr|exact Hq]).
      exists ((j, e) :: tnew). rewrite Htr. split; [reflexivity|]. intros y [<-|Hy]; [|auto]. cbn.
      intros ->. apply (Hopen s1 o Hinv Hp).
      destruct Hinv as [(th0 & H0 & _ & Hblk) _ _ _]. unfold thr_of in Hth, H0. rewrite H0 in Hth.
      injection Hth as <-. rewrite Hc in Hblk. apply Hblk. }
    destruct HK as ([o Hinv] & Hp2 & Hq). pose proof (Hopen s2 o Hinv Hp2) as Hne.
    destruct (ci_caller _ _ _ _ _ Hinv) as (th0 & H0 & _ & Hblk).
    split; [exact Hq|]. split; [|split].
    - intros r (th & Hth & Ho). rewrite H0 in Hth. injection Hth as <-.
      destruct (th_code th0); cbn in Ho, Hblk; try discriminate; [contradiction|congruence].
    - unfold thr_finished, result_of. unfold thr_of in H0. rewrite H0.
      destruct (th_code th0); cbn in *; try discriminate; [contradiction|reflexivity].
    - apply (caller_never_stuck W handle s0 0). apply spec_spawn_init_ws; assumption.
  Qed.

  (* ---------------------------------------------------------------- *)
  (** ** C. C08, thread names                                           *)

  (* In every reachable state: every thread other than the caller was spawned by the caller and is
     named `child_name nm b` (= "<caller>_join_<b>", "join_<b>" for an unnamed caller) for a branch
     index b < number of branches; two unfinished threads never carry the same name; and the
     number of unfinished branch threads never exceeds the number of branches. *)
  Theorem spawn_macro_thread_names sched :
    let s := run sched s0 in
    (forall x th, x <> 0 -> thr s x = Some th ->
       th_parent th = Some 0 /\ exists b, b < n /\ th_name th = Some (child_name nm b)) /\
    (forall x y thx thy, x <> 0 -> y <> 0 -> x <> y -> thr s x = Some thx -> thr s y = Some thy ->
       unfinished s x -> unfinished s y -> th_name thx <> th_name thy) /\
    List.length (filter (unfin_b W s) (seq 1 (List.length (pool s) - 1))) <= n.
  Proof.
    intros s. destruct (spawn_macro_cinv sched) as [o Hinv]. fold s in Hinv. split; [|split].
    - intros x th Hx Hth. destruct (ci_kids _ _ _ _ _ Hinv x th Hx Hth) as (_ & Hp & b & Hb & Hn & _). eauto.
    - intros x y thx thy Hx Hy Hxy Hthx Hthy Hux Huy E.
      destruct (cinv_not_returned_open W nm n s o x thx Hinv Hx Hthx (unfinished_not_returned W s x Hux))
        as (bx & _ & Hnx & Hinx).
      destruct (cinv_not_returned_open W nm n s o y thy Hinv Hy Hthy (unfinished_not_returned W s y Huy))
        as (b_y & _ & Hny & Hiny).
      rewrite Hnx, Hny in E. injection E as E. apply child_name_inj in E. subst b_y.
      apply Hxy. eapply incr_same_branch; eauto. apply (ci_incr _ _ _ _ _ Hinv).
    - transitivity (List.length (map fst o)).
      + apply NoDup_incl_length; [apply NoDup_filter, seq_NoDup|].
        intros x Hin. apply filter_In in Hin. destruct Hin as [Hseq Hu]. apply in_seq in Hseq.
        apply unfin_b_true in Hu. pose proof Hu as (th & Hth & _).
        destruct (cinv_not_returned_open W nm n s o x th Hinv) as (b & _ & _ & Hin); [lia|exact Hth| |].
        * apply unfinished_not_returned, Hu.
        * apply (in_map fst) in Hin. exact Hin.
      + rewrite map_length. apply incr_length; [apply (ci_incr _ _ _ _ _ Hinv)|].
        intros [x b] Hin. cbn. apply (ci_open _ _ _ _ _ Hinv x b Hin).
  Qed.
End Whole.

Print Assumptions spawn_macro_steps_never_overlap.
Print Assumptions spawn_macro_steps_never_overlap_trace.
Print Assumptions spawn_macro_panic_reaches_caller.
Print Assumptions spawn_macro_thread_names.

(* ================================================================== *)
(** * E. C05 / C06 for `try_join_spawn!`: the whole program, every schedule *)
(* ================================================================== *)

(* Stateless world (`SpecSpawn.stateless`): by `spawn_macro_agrees_with_plain` the caller's outcome
   under EVERY schedule is `eval` of the plain program (`try_join!`), so what SpecProps.v /
   SpecPositions.v prove about `spec` of the sequential try kind holds of the thread kind's run.
   Properties stated with `leaves` are transported with `eval_post` (as `spawn_result_positions`
   does), equations about `steps` (`try_steps_sync`, `transpose_first_failure`) with `eval_bind`. *)
Section TrySpawn.
  Import RefineCorollaries SpecPositions.
  Variable h : ev -> option val.
  Variable W : Type.
  Variable handle : option string -> ev -> W -> option val * W.
  Hypothesis Hw : stateless h W handle.
  Variables (msem : string -> option (list operand) -> dval -> list dval -> comp dval)
            (dotsem : operand -> list (string * option val) -> dval -> comp dval)
            (callsem : val -> list dval -> comp dval) (awaitsem : val -> comp val).
  Hypothesis HU : user_code msem dotsem callsem awaitsem.
  Variable p : sprog.
  Hypothesis Hsync : is_async (sp_cfg p) = false.
  Variables (nm : option string) (w : W).

  Notation ps := (with_spawn true p).
  Notation pp := (with_spawn false p).
  Notation spawn_prog := (let! d := spec msem dotsem callsem awaitsem ps in to_val d).
  Notation plain_prog := (let! d := spec msem dotsem callsem awaitsem pp in to_val d).
  Notation run sched := (run_thr handle sched (init nm spawn_prog w)).
  Notation n := (List.length (sp_trees p)).
  Notation Steps := (steps msem dotsem callsem awaitsem).
  Notation Step_result := (step_result msem dotsem callsem awaitsem).
  Notation st0 := (init_state p).

  Lemma result_of_finished (s : Threads.state W) r : result_of 0 s = Some r -> thr_finished 0 s = true.
  Proof.
    unfold result_of, thr_finished. destruct (nth_error (pool s) 0) as [th|]; [|discriminate].
    destruct (th_code th); cbn; congruence.
  Qed.

  (* THE TRANSPORT: whatever holds of every value the plain program can return holds of the value
     the caller of the thread kind gets, under every schedule *)
  Lemma spawn_value_post (Q : val -> Prop) sched v :
    leaves plain_prog Q -> result_of 0 (run sched) = Some (Some v) -> Q v.
  Proof.
    intros Hl Hres. pose proof (result_of_finished _ _ Hres) as Hfin.
    pose proof (spawn_macro_agrees_with_plain h W handle msem dotsem callsem awaitsem p nm w sched Hw HU Hsync Hfin) as E.
    cbn zeta in E. rewrite E in Hres. injection Hres as Hres. exact (eval_post h Q nm _ _ Hl Hres).
  Qed.

  (* ---------------------------------------------------------------- *)
  (** ** C04/C05: Some/Ok of the tuple of payloads, or a failing value, unchanged *)

  (* `SpecPositions.result_positions_try_sync_spec` for the thread kind.  T is an arbitrary
     description of what the chains compute (`T b k d`: d is what branch b's chain produced in step
     k), values of one family (Option: fam = true, Result: fam = false).  Under every schedule the
     value v the caller gets satisfies `TryResultOK`:
       - if v = Some/Ok x then x is the tuple (the bare payload for one branch) whose position b is
         the PAYLOAD of a value branch b's chain produced in its LAST step (all branches succeeded);
       - if v is a failure (None / Err e) it is, unchanged, a value some branch's chain produced. *)
  Theorem try_spawn_result_positions (T : nat -> nat -> dval -> Prop) (fam : bool) sched :
    is_try (sp_cfg p) = true -> sp_handler p = None ->
    (forall sn cp k st b, b < n -> k < depth p b -> leaves (chain msem dotsem callsem p sn cp k st b) (T b k)) ->
    (forall b k d, b < n -> k < depth p b -> T b k d -> exists w v, d = DV w /\ wellf fam w v) ->
    (forall b, b < n -> 1 <= depth p b) ->
    forall v, result_of 0 (run sched) = Some (Some v) ->
      TryResultOK p T fam (DV v) /\
      (forall x, v = wrapf fam x -> PayloadsOK p T fam x) /\
      (failf fam v = true -> exists b k, b < n /\ k < depth p b /\ T b k (DV v)).
  Proof.
    intros Htry Hnoh HT Hfam Hdepth v Hres.
    assert (Hok : TryResultOK pp T fam (DV v)).
    { apply (spawn_value_post (fun v => TryResultOK pp T fam (DV v)) sched v); [|exact Hres].
      apply leaves_bind. eapply leaves_weaken.
      2:{ apply (result_positions_try_sync_spec msem dotsem callsem awaitsem pp T Hdepth fam HT Hfam Hsync eq_refl Htry Hnoh). }
      intros d Hd. apply leaves_to_val. intros v' ->. exact Hd. }
    split; [exact Hok|]. split.
    - intros x ->. exact (try_result_success pp T fam x Hok).
    - intros Hf. exact (try_result_failure pp T fam v Hok Hf).
  Qed.

  (* ---------------------------------------------------------------- *)
  (** ** C05: the failure is the lowest-numbered failing branch of the earliest failing step *)

  (* what the active branches of step k produce from the state st: ALL of them, in branch order
     (None: some chain or capture panicked) *)
  Definition step_values (k : nat) (st : Spec.state) : option (list dval) :=
    eval h nm (let! sr := Step_result pp k st in extract (actives p k) sr).

  (* `SpecProps.try_steps_sync`, read by `eval`: every step is run to its end; after a non-final
     step the lowest-numbered failing value (`first_fail_list`: the first failure in branch order)
     IS the result, as it is, and no later step is looked at; the final step transposes *)
  Fixpoint try_outcome (fuel k : nat) (st : Spec.state) : option dval :=
    match fuel with
    | 0 => None
    | S fuel' =>
        match step_values k st with
        | None => None
        | Some ds =>
            let st' := set_all st (actives p k) ds in
            if Nat.eqb fuel' 0 then eval h nm (transpose awaitsem pp (seq 0 n) st')
            else if all_classified ds
                 then match first_fail_list ds with
                      | Some d => Some d
                      | None => try_outcome fuel' (S k) st'
                      end
                 else None
        end
    end.

  Lemma eval_try_steps : is_try (sp_cfg p) = true ->
    forall fuel k st, eval h nm (Steps pp fuel k st) = try_outcome fuel k st.
  Proof.
    intros Htry. induction fuel as [|fuel IH]; intros k st; [reflexivity|].
    rewrite (try_steps_sync msem dotsem callsem awaitsem pp fuel k st Htry Hsync).
    rewrite <- bind_assoc, eval_bind. cbn [try_outcome]. unfold step_values.
    change (actives pp k) with (actives p k). change (sp_trees pp) with (sp_trees p).
    destruct (eval h nm (let! sr := Step_result pp k st in extract (actives p k) sr)) as [ds|]; [|reflexivity].
    cbv zeta. destruct (Nat.eqb fuel 0); [reflexivity|].
    destruct (all_classified ds); [|reflexivity].
    destruct (first_fail_list ds); [reflexivity|apply IH].
  Qed.

  (* under every schedule the caller of `try_join_spawn!` (no handler) ends with that outcome *)
  Theorem try_spawn_first_failure sched :
    is_try (sp_cfg p) = true -> sp_handler p = None ->
    thr_finished 0 (run sched) = true ->
    result_of 0 (run sched) =
      Some (match try_outcome (max_depth p) 0 st0 with Some (DV v) => Some v | _ => None end).
  Proof.
    intros Htry Hnoh Hfin.
    rewrite (spawn_macro_agrees_with_plain h W handle msem dotsem callsem awaitsem p nm w sched Hw HU Hsync Hfin).
    f_equal. rewrite eval_bind.
    rewrite (spec_no_handler_sync msem dotsem callsem awaitsem pp Hsync Hnoh).
    rewrite (eval_try_steps Htry). change (max_depth pp) with (max_depth p). change (init_state pp) with st0.
    destruct (try_outcome (max_depth p) 0 st0) as [d|]; [|reflexivity]. destruct d; reflexivity.
  Qed.

  (* the steps before step k' ran without a failure *)
  Inductive no_failure_until : nat -> nat -> Spec.state -> nat -> nat -> Spec.state -> Prop :=
  | nf_here fuel k st : no_failure_until fuel k st fuel k st
  | nf_step fuel k st ds fuel' k' st' :
      fuel <> 0 -> step_values k st = Some ds -> all_classified ds = true -> first_fail_list ds = None ->
      no_failure_until fuel (S k) (set_all st (actives p k) ds) fuel' k' st' ->
      no_failure_until (S fuel) k st fuel' k' st'.

  (* reading `try_outcome`: the result d comes from the EARLIEST step k' in which a branch failed -
     every earlier step ran to its end without a failure - and is the value of the LOWEST-NUMBERED
     failing branch of that step, unchanged (`first_fail_list ds = Some d`,
     `SpecProps.first_fail_list_cls`); or no non-final step failed and d is what the final
     transposition gives (`try_last_step_first_failure` below) *)
  Lemma try_outcome_inv fuel : forall k st d, try_outcome fuel k st = Some d ->
    exists fuel' k' st' ds,
      no_failure_until fuel k st (S fuel') k' st' /\ step_values k' st' = Some ds /\
      ((fuel' <> 0 /\ all_classified ds = true /\ first_fail_list ds = Some d) \/
       (fuel' = 0 /\ eval h nm (transpose awaitsem pp (seq 0 n) (set_all st' (actives p k') ds)) = Some d)).
  Proof.
    induction fuel as [|fuel IH]; intros k st d H; cbn [try_outcome] in H; [discriminate|].
    destruct (step_values k st) as [ds|] eqn:Ev; [|discriminate]. cbv zeta in H.
    destruct (Nat.eqb fuel 0) eqn:Ef.
    - apply Nat.eqb_eq in Ef. subst fuel. exists 0, k, st, ds. split; [constructor|]. split; [exact Ev|]. right. auto.
    - apply Nat.eqb_neq in Ef. destruct (all_classified ds) eqn:Ec; [|discriminate].
      destruct (first_fail_list ds) as [d'|] eqn:Ff.
      + injection H as <-. exists fuel, k, st, ds. split; [constructor|]. split; [exact Ev|]. left. auto.
      + destruct (IH _ _ _ H) as (fuel' & k' & st' & ds' & Hnf & Ev' & Hcase).
        exists fuel', k', st', ds'. split; [|auto]. eapply nf_step; eauto.
  Qed.

  (* the final step (`SpecProps.transpose_first_failure`): Some/Ok of the tuple of payloads iff no
     branch holds a failure, otherwise the value of the LOWEST-NUMBERED failing branch, unchanged *)
  Lemma try_last_step_first_failure (fam : bool) (wv vv : nat -> val) st' :
    (forall b, b < n -> wellf fam (wv b) (vv b)) -> 1 <= n -> StEq p st' (fun b => DV (wv b)) ->
    eval h nm (transpose awaitsem pp (seq 0 n) st') =
    Some (DV (match first_fail_from fam wv 0 n with
              | Some b => wv b
              | None => wrapf fam (bare_or_tuple (map vv (seq 0 n)))
              end)).
  Proof.
    intros Hwell Hn Hst.
    rewrite (transpose_first_failure awaitsem pp fam wv vv Hwell n 0 st'); [reflexivity|reflexivity|exact Hn|].
    exact Hst.
  Qed.

  (* ---------------------------------------------------------------- *)
  (** ** C06: a failed step aborts everything after it                   *)

  (* The caller's OWN code (the thread kind `ps`): `steps ps (S fuel) k st` is the step (for several
     branches: builders, captures, the spawn-all/join-all block) followed by `after_sync`
     (`SpecCode.steps_sync`).  Once the step has delivered its result sr - every thread of the step
     has been joined - and some branch failed, what is left of the steps is `Ret d`, d the value of
     the lowest-numbered failing branch: no `Vis`, no `Spawn` - no operand, callback, capture or
     thread of a later step exists in the caller's code any more (`SpecProps.per_step_check`).
     A `map` / `and_then` handler is then not called (`SpecProps.map_and_then_skip_failure`). *)
  Theorem try_spawn_abort fuel k st sr ds d :
    is_try (sp_cfg p) = true -> fuel <> 0 ->
    extract (actives p k) sr = Ret ds -> all_classified ds = true -> first_fail_list ds = Some d ->
    Steps ps (S fuel) k st =
      (let! sr := Step_result ps k st in
       after_sync awaitsem ps (Steps ps fuel (S k)) (Nat.eqb fuel 0) k st sr) /\
    after_sync awaitsem ps (Steps ps fuel (S k)) (Nat.eqb fuel 0) k st sr = Ret d /\
    forall hk hv fam wv, d = DV wv -> failf fam wv = true -> hk = HMap \/ hk = HAndThen ->
      (let! rs := after_sync awaitsem ps (Steps ps fuel (S k)) (Nat.eqb fuel 0) k st sr in
       handle_results callsem awaitsem ps (Some (hk, hv)) rs) = Ret d.
  Proof.
    intros Htry Hfuel Hex Hcl Hff.
    assert (Hafter : after_sync awaitsem ps (Steps ps fuel (S k)) (Nat.eqb fuel 0) k st sr = Ret d).
    { unfold after_sync. change (actives ps k) with (actives p k). rewrite Hex. cbn [bind].
      change (is_try (sp_cfg ps)) with (is_try (sp_cfg p)). rewrite Htry. cbn [negb].
      apply Nat.eqb_neq in Hfuel. rewrite Hfuel.
      rewrite per_step_check, Hcl, Hff. reflexivity. }
    split; [apply (steps_sync msem dotsem callsem awaitsem ps fuel k st Hsync)|]. split; [exact Hafter|].
    intros hk hv fam wv -> Hfail Hhk. rewrite Hafter. cbn [bind].
    apply (map_and_then_skip_failure callsem awaitsem ps hk hv fam wv Hsync Hfail Hhk).
  Qed.

  (* the same on outcomes, under every schedule (`try_spawn_first_failure`): when step k fails, the
     outcome from step k on is the failing value whatever the later steps are *)
  Corollary try_outcome_abort fuel k st ds d :
    fuel <> 0 -> step_values k st = Some ds -> all_classified ds = true -> first_fail_list ds = Some d ->
    try_outcome (S fuel) k st = Some d.
  Proof.
    intros Hfuel Ev Hcl Hff. cbn [try_outcome]. rewrite Ev. cbv zeta.
    apply Nat.eqb_neq in Hfuel. rewrite Hfuel, Hcl, Hff. reflexivity.
  Qed.

  (* ---------------------------------------------------------------- *)
  (** ** D, stateless reading: a branch panic is a panic of the plain program *)

  (* `SpecSpawn.spawn_macro_outcomes`: for a finished caller, `result_of 0 s = Some None` iff the
     plain program panics.  With `spawn_macro_panic_reaches_caller`: if a branch thread has ended in
     a panic, the plain program (which runs that branch in place) panics. *)
  Corollary spawn_macro_branch_panic_plain_panics sched i sched2 :
    i <> 0 -> fin W (run sched) i None ->
    thr_finished 0 (run (sched ++ sched2)) = true ->
    result_of 0 (run (sched ++ sched2)) = Some None /\ eval h nm plain_prog = None.
  Proof.
    intros Hi Hpan Hfin.
    destruct (spawn_macro_panic_reaches_caller W handle msem dotsem callsem awaitsem HU p Hsync nm w sched i Hi Hpan sched2)
      as (_ & _ & Hres & _).
    specialize (Hres Hfin). split; [exact Hres|].
    destruct (spawn_macro_outcomes h W handle msem dotsem callsem awaitsem p nm w (sched ++ sched2) Hw HU Hsync Hfin) as [_ Hiff].
    apply Hiff. exact Hres.
  Qed.
End TrySpawn.

Print Assumptions try_spawn_result_positions.
Print Assumptions try_spawn_first_failure.
Print Assumptions try_outcome_inv.
Print Assumptions try_spawn_abort.
Print Assumptions spawn_macro_branch_panic_plain_panics.

(* ================================================================== *)
(** * F. Examples: the hypotheses are satisfiable, the machine runs     *)
(* ================================================================== *)

Module ExSpawnProps.
  Import ExSpawn.
  (* `ExSpawn`: user code `msemE`/`dotsemE`/.. (`user_code_ex`), the event-counting world `handleE`
     (answers `h`; the theorems B, C, D do not need `stateless_ex`), the programs
       prog2 false "dbl" = join_spawn! { one -> inc ~-> dbl,  two -> inc }   (2 branches, 2 steps, branch 1 shorter)
       progT x           = try_join_spawn! { some1 |> f ~|> f,  x }
     and a variant whose SECOND branch panics inside its thread: *)
  Definition progP : sprog :=
    mkSprog (mkConfig false false false) [None; None]
      [ [ [NAct 0 (ini "one"); NAct 1 (dot false "inc")]; [NAct 0 (dot true "dbl")] ];
        [ [NAct 0 (ini "two"); NAct 1 (dot false "boom")] ] ] None.

  (* the state after the first m entries of the round-robin [0;1;2;0;1;2;..] *)
  Definition st (m : nat) (p : sprog) : Threads.state nat := runE (firstn m sched_a) p.
  (* the head of a thread's code: 0 = Ret, 1 = Panic, 2 = Vis, 3 = Spawn, 4 = Join *)
  Definition head (c : comp val) : nat :=
    match c with Ret _ => 0 | Panic _ => 1 | Vis _ _ => 2 | Spawn _ _ _ => 3 | Join _ _ => 4 end.
  Definition heads (s : Threads.state nat) : list nat := map (fun th => head (th_code th)) (pool s).

  Lemma result_of_fin (s : Threads.state nat) i r : result_of i s = Some r -> fin nat s i r.
  Proof.
    unfold result_of, fin, thr_of. destruct (nth_error (pool s) i) as [th|]; [|discriminate]. eauto.
  Qed.

  (* ---- A: the bridge, for every program over this user code ---- *)
  Example ex_init_structured p : is_async (sp_cfg p) = false ->
    let s0 := init (Some "main") (spawn_prog p) 0 in
    hb_state nat s0 /\ (tb_state nat s0 /\ named_ok nat s0) /\ ws_state nat s0.
  Proof.
    intros Hs. split; [|split].
    - apply (spec_spawn_init_hb nat msemE dotsemE callsemE awaitsemE user_code_ex p Hs).
    - apply (spec_spawn_init_tb nat msemE dotsemE callsemE awaitsemE user_code_ex p Hs).
    - apply (spec_spawn_init_ws nat msemE dotsemE callsemE awaitsemE user_code_ex p Hs).
  Qed.

  (* ---- B: the barrier ---- *)
  (* for ALL schedules: whenever the caller is about to evaluate a user expression, threads 1.. have returned *)
  Example ex_barrier_all_schedules sched th0 e k :
    thr_of nat (runE sched (prog2 false "dbl")) 0 = Some th0 -> th_code th0 = Vis e k ->
    others_returned nat (runE sched (prog2 false "dbl")).
  Proof.
    intros H0 Hc.
    apply (spawn_macro_steps_never_overlap nat handleE msemE dotsemE callsemE awaitsemE user_code_ex
             (prog2 false "dbl") eq_refl (Some "main") 0 sched th0 H0).
    left. eauto.
  Qed.
  (* the machine: after 10 entries the caller waits in the join of step 0 and both branch threads run;
     after 16 it is about to evaluate `dbl` of step 1 (on the caller: one active branch) and both
     threads have returned their step-0 values *)
  Example ex_barrier_inside_step_0 : heads (st 10 (prog2 false "dbl")) = [4; 2; 2].
  Proof. vm_compute. reflexivity. Qed.
  Example ex_barrier_between_steps :
    heads (st 16 (prog2 false "dbl")) = [2; 0; 0] /\
    result_of 1 (st 16 (prog2 false "dbl")) = Some (Some (VInt 2)) /\
    result_of 2 (st 16 (prog2 false "dbl")) = Some (Some (VInt 3)).
  Proof. vm_compute. repeat split; reflexivity. Qed.
  (* a schedule that offers the caller 20 steps first: it cannot get past the join *)
  Example ex_barrier_caller_waits : heads (runE (repeat 0 20) (prog2 false "dbl")) = [4; 2; 2].
  Proof. vm_compute. reflexivity. Qed.
  (* premise (ii) of the theorem is met: after the two builders (4 entries) the caller's code IS a
     whole block `gblock unwrap_post nts K` (here: the first thing of the pool, so nobody else exists) *)
  Example ex_barrier_block_start :
    exists th0 nts K, thr_of nat (st 4 (prog2 false "dbl")) 0 = Some th0 /\ nts <> [] /\
                      th_code th0 = gblock unwrap_post nts K.
  Proof.
    set (ps := with_spawn true (prog2 false "dbl")).
    set (st0 := RefineCorollaries.init_state ps).
    assert (E : exists th0, thr_of nat (st 4 (prog2 false "dbl")) 0 = Some th0 /\
       th_code th0 =
       bind (bind (bind (std_spawn_join (map DBuilder ["main_join_0"; "main_join_1"]) [0; 1]
                           (fun b => let! d := chain msemE dotsemE callsemE ps (snap_of ps st0) [] 0 st0 b in to_val d))
                        (after_sync awaitsemE ps (steps msemE dotsemE callsemE awaitsemE ps 1 1) false 0 st0))
                  (handle_results callsemE awaitsemE ps None))
            (fun d => to_val d)).
    { eexists. split; [vm_compute; reflexivity|]. vm_compute. reflexivity. }
    destruct E as (th0 & H0 & Hc). exists th0. rewrite !bind_assoc in Hc.
    rewrite std_spawn_join_is_ublock in Hc by reflexivity. unfold ublock in Hc.
    eexists _, _. split; [exact H0|]. split; [|exact Hc]. discriminate.
  Qed.
  (* trace form, for all schedules *)
  Example ex_barrier_trace_all_schedules sched t2 e t1 x :
    trace (runE sched (prog2 false "dbl")) = t2 ++ (0, e) :: t1 -> x <> 0 ->
    In x (map fst t1) -> ~ In x (map fst t2).
  Proof.
    intros Ht Hx Hin.
    apply (spawn_macro_steps_never_overlap_trace nat handleE msemE dotsemE callsemE awaitsemE user_code_ex
             (prog2 false "dbl") eq_refl (Some "main") 0 sched t2 e t1 Ht x Hx Hin).
  Qed.
  (* the complete round-robin trace, most recent first: caller (dbl) | threads of step 0 | builders *)
  Example ex_barrier_trace : map fst (trace (runE sched_a (prog2 false "dbl"))) = [0; 2; 2; 1; 1; 0; 0].
  Proof. vm_compute. reflexivity. Qed.

  (* ---- C: thread names ---- *)
  Example ex_names_all_schedules sched x th :
    x <> 0 -> thr_of nat (runE sched (prog2 false "dbl")) x = Some th ->
    th_parent th = Some 0 /\ (th_name th = Some "main_join_0" \/ th_name th = Some "main_join_1").
  Proof.
    intros Hx Hth.
    destruct (spawn_macro_thread_names nat handleE msemE dotsemE callsemE awaitsemE user_code_ex
                (prog2 false "dbl") eq_refl (Some "main") 0 sched) as (Hnames & _ & _).
    destruct (Hnames x th Hx Hth) as (Hp & b & Hb & Hn). split; [exact Hp|].
    cbn in Hb. destruct b as [|[|b]]; [left|right|lia]; exact Hn.
  Qed.
  Example ex_alive_all_schedules sched :
    let s := runE sched (prog2 false "dbl") in
    List.length (filter (unfin_b nat s) (seq 1 (List.length (pool s) - 1))) <= 2.
  Proof.
    apply (spawn_macro_thread_names nat handleE msemE dotsemE callsemE awaitsemE user_code_ex
             (prog2 false "dbl") eq_refl (Some "main") 0 sched).
  Qed.
  Example ex_alive_both : let s := st 10 (prog2 false "dbl") in
    List.length (filter (unfin_b nat s) (seq 1 (List.length (pool s) - 1))) = 2.
  Proof. vm_compute. reflexivity. Qed.

  (* ---- D: a panic in a branch thread ---- *)
  (* after 15 entries thread 2 has panicked (`boom`); thread 1 returned; the caller waits *)
  Example ex_panic_state : heads (st 15 progP) = [4; 0; 1] /\ result_of 2 (st 15 progP) = Some None.
  Proof. vm_compute. split; reflexivity. Qed.
  (* from then on, under EVERY continuation: no event of the caller (`dbl` of step 1 is never
     evaluated), and a finished caller has panicked *)
  Example ex_panic_all_continuations sched2 :
    let s := st 15 progP in let s2 := runE (firstn 15 sched_a ++ sched2) progP in
    (exists tnew, trace s2 = tnew ++ trace s /\ forall y, In y tnew -> fst y <> 0) /\
    (thr_finished 0 s2 = true -> result_of 0 s2 = Some None).
  Proof.
    unfold st, runE, spawn_prog. cbv zeta.
    assert (Hpan : result_of 2 (run_thr handleE (firstn 15 sched_a)
                     (init (Some "main") (let! d := spec msemE dotsemE callsemE awaitsemE (with_spawn true progP) in to_val d) 0))
                   = Some None) by (vm_compute; reflexivity).
    apply result_of_fin in Hpan.
    destruct (spawn_macro_panic_reaches_caller nat handleE msemE dotsemE callsemE awaitsemE user_code_ex
                progP eq_refl (Some "main") 0 (firstn 15 sched_a) 2 ltac:(discriminate) Hpan sched2)
      as (Hq & _ & Hres & _).
    split; assumption.
  Qed.
  Example ex_panic_run : result_of 0 (runE sched_a progP) = Some None /\
                         map fst (trace (runE sched_a progP)) = [2; 2; 1; 1; 0; 0].
  Proof. vm_compute. split; reflexivity. Qed.
  (* stateless reading: the plain program panics as well *)
  Example ex_panic_plain : eval h (Some "main") (plain_prog progP) = None.
  Proof.
    unfold plain_prog.
    assert (Hpan : result_of 2 (run_thr handleE (firstn 15 sched_a)
                     (init (Some "main") (let! d := spec msemE dotsemE callsemE awaitsemE (with_spawn true progP) in to_val d) 0))
                   = Some None) by (vm_compute; reflexivity).
    apply result_of_fin in Hpan.
    assert (Hfin : thr_finished 0 (run_thr handleE (firstn 15 sched_a ++ skipn 15 sched_a)
                     (init (Some "main") (let! d := spec msemE dotsemE callsemE awaitsemE (with_spawn true progP) in to_val d) 0))
                   = true) by (vm_compute; reflexivity).
    apply (spawn_macro_branch_panic_plain_panics h nat handleE stateless_ex msemE dotsemE callsemE awaitsemE
             user_code_ex progP eq_refl (Some "main") 0 (firstn 15 sched_a) 2 (skipn 15 sched_a)
             ltac:(discriminate) Hpan Hfin).
  Qed.

  (* ---- E: try_join_spawn! ---- *)
  Example ex_try_outcome_fail :
    try_outcome h msemE dotsemE callsemE awaitsemE (progT "none") None (max_depth (progT "none")) 0
                (RefineCorollaries.init_state (progT "none")) = Some (DV VNone).
  Proof. vm_compute. reflexivity. Qed.
  (* for ALL schedules: step 0 fails in branch 1, the caller gets that `None`; `f` of step 1 is never called *)
  Example ex_try_fail_all_schedules sched :
    let s := run_thr handleE sched (init None (spawn_prog (progT "none")) 0) in
    thr_finished 0 s = true -> result_of 0 s = Some (Some VNone).
  Proof.
    intros s Hfin. unfold s, spawn_prog in *.
    rewrite (try_spawn_first_failure h nat handleE stateless_ex msemE dotsemE callsemE awaitsemE user_code_ex
               (progT "none") eq_refl None 0 sched eq_refl eq_refl Hfin).
    rewrite ex_try_outcome_fail. reflexivity.
  Qed.
  Example ex_try_ok_all_schedules sched :
    let s := run_thr handleE sched (init None (spawn_prog (progT "some1")) 0) in
    thr_finished 0 s = true -> result_of 0 s = Some (Some (VSome (VTuple [VInt 21; VInt 1]))).
  Proof.
    intros s Hfin. unfold s, spawn_prog in *.
    rewrite (try_spawn_first_failure h nat handleE stateless_ex msemE dotsemE callsemE awaitsemE user_code_ex
               (progT "some1") eq_refl None 0 sched eq_refl eq_refl Hfin).
    vm_compute. reflexivity.
  Qed.
  (* the values of step 0 in the failing run: all of them, branch 1's is the failure *)
  Example ex_try_step_values :
    step_values h msemE dotsemE callsemE awaitsemE (progT "none") None 0 (RefineCorollaries.init_state (progT "none"))
    = Some [DV (VSome (VInt 11)); DV VNone].
  Proof. vm_compute. reflexivity. Qed.
End ExSpawnProps.
